//! Run-time type descriptions and the `DeserializeSeed` that drives the crate's deserializer the way
//! serde's std impls / derive output would for that type.  The visitor behaviour implemented here IS
//! the behaviour `SS.Model.Deser` assumes for each `ty` (DESIGN.md 4.5).
use crate::coq;
use serde::de::{self, DeserializeSeed, Deserializer, EnumAccess, MapAccess, SeqAccess, VariantAccess, Visitor};
use std::fmt;

#[derive(Clone, Debug, PartialEq)]
pub enum VShape {
    Unit,
    Newtype(Ty),
    Tuple(Vec<Ty>),
    Struct(Vec<(String, Ty)>),
}

#[derive(Clone, Debug, PartialEq)]
pub enum Ty {
    Bool,
    Int(bool, u32),
    F64,
    Char,
    String,
    Str,
    Bytes,
    Unit,
    UnitStruct,
    Option(Box<Ty>),
    Seq(Box<Ty>),
    Tuple(Vec<Ty>),
    Map(Box<Ty>, Box<Ty>),
    Pairs(Box<Ty>, Box<Ty>),
    Struct(Vec<(String, Ty)>, bool),
    Enum(String, Vec<(String, VShape)>),
    Any,
    Ignored,
    Spanned(Box<Ty>),
    /// untyped tree whose every child is `Spanned<tree>`
    Tree,
    /// reads any node, then refuses it with `serde::de::Error::custom` (direct oracles only: not in the Coq model)
    FailCustom,
    /// reads any node, then refuses it with Serde's static `invalid_value` constructor (direct oracles only)
    FailInvalid,
}

#[derive(Clone, Debug)]
pub enum Val {
    Null,
    Bool(bool),
    Int(i128),
    UInt(u128),
    Float(f64),
    Char(char),
    Str(String),
    Bytes(Vec<u8>),
    Unit,
    None,
    Some(Box<Val>),
    Seq(Vec<Val>),
    Map(Vec<(Val, Val)>),
    Struct(Vec<(String, Val)>),
    Variant(String, Box<Val>),
    Spanned(serde_saphyr::Location, serde_saphyr::Location, Box<Val>),
}

impl PartialEq for Val {
    fn eq(&self, o: &Val) -> bool {
        use Val::*;
        match (self, o) {
            (Null, Null) | (Unit, Unit) | (None, None) => true,
            (Bool(a), Bool(b)) => a == b,
            (Int(a), Int(b)) => a == b,
            (UInt(a), UInt(b)) => a == b,
            (Int(a), UInt(b)) | (UInt(b), Int(a)) => *a >= 0 && *a as u128 == *b,
            (Float(a), Float(b)) => a.to_bits() == b.to_bits() || (a.is_nan() && b.is_nan()),
            (Char(a), Char(b)) => a == b,
            (Str(a), Str(b)) => a == b,
            (Bytes(a), Bytes(b)) => a == b,
            (Some(a), Some(b)) => a == b,
            (Seq(a), Seq(b)) => a == b,
            (Map(a), Map(b)) => a == b,
            (Struct(a), Struct(b)) => a == b,
            (Variant(a, x), Variant(b, y)) => a == b && x == y,
            (Spanned(r, d, x), Spanned(r2, d2, y)) => r == r2 && d == d2 && x == y,
            _ => false,
        }
    }
}

fn fields_coq(fs: &[(String, Ty)]) -> String {
    let items: Vec<String> = fs.iter().map(|(n, t)| format!("({}, {})", coq::s(n), t.coq())).collect();
    coq::list(&items, "(str * ty)")
}
fn tys_coq(ts: &[Ty]) -> String {
    let items: Vec<String> = ts.iter().map(|t| t.coq()).collect();
    coq::list(&items, "ty")
}

impl Ty {
    pub fn coq(&self) -> String {
        match self {
            Ty::Bool => "TBool".into(),
            Ty::Int(s, b) => format!("(TInt {} {})", coq::b(*s), b),
            Ty::F64 => "TF64".into(),
            Ty::Char => "TChar".into(),
            Ty::String => "TString".into(),
            Ty::Str => "TStr".into(),
            Ty::Bytes => "TBytes".into(),
            Ty::Unit => "TUnit".into(),
            Ty::UnitStruct => "TUnitStruct".into(),
            Ty::Option(t) => format!("(TOption {})", t.coq()),
            Ty::Seq(t) => format!("(TSeq {})", t.coq()),
            Ty::Tuple(ts) => format!("(TTuple {})", tys_coq(ts)),
            Ty::Map(k, v) => format!("(TMap {} {})", k.coq(), v.coq()),
            Ty::Pairs(k, v) => format!("(TPairs {} {})", k.coq(), v.coq()),
            Ty::Struct(fs, deny) => format!("(TStruct {} {})", fields_coq(fs), coq::b(*deny)),
            Ty::Enum(n, vs) => {
                let items: Vec<String> = vs
                    .iter()
                    .map(|(vn, sh)| {
                        let shs = match sh {
                            VShape::Unit => "VsUnit".to_string(),
                            VShape::Newtype(t) => format!("(VsNewtype {})", t.coq()),
                            VShape::Tuple(ts) => format!("(VsTuple {})", tys_coq(ts)),
                            VShape::Struct(fs) => format!("(VsStruct {})", fields_coq(fs)),
                        };
                        format!("({}, {})", coq::s(vn), shs)
                    })
                    .collect();
                format!("(TEnum {} {})", coq::s(n), coq::list(&items, "(str * vshape)"))
            }
            Ty::Any => "TAny".into(),
            Ty::Ignored => "TIgnored".into(),
            Ty::Spanned(t) => format!("(TSpanned {})", t.coq()),
            Ty::Tree => "TTree".into(),
            Ty::FailCustom | Ty::FailInvalid => panic!("Ty::Fail* has no model counterpart"),
        }
    }
    pub fn size(&self) -> usize {
        match self {
            Ty::Option(t) | Ty::Seq(t) | Ty::Spanned(t) => 1 + t.size(),
            Ty::Tuple(ts) => 1 + ts.iter().map(|t| t.size()).sum::<usize>(),
            Ty::Map(k, v) | Ty::Pairs(k, v) => 1 + k.size() + v.size(),
            Ty::Struct(fs, _) => 1 + fs.iter().map(|(_, t)| t.size()).sum::<usize>(),
            Ty::Enum(_, vs) => {
                1 + vs
                    .iter()
                    .map(|(_, s)| match s {
                        VShape::Unit => 1,
                        VShape::Newtype(t) => t.size(),
                        VShape::Tuple(ts) => ts.iter().map(|t| t.size()).sum(),
                        VShape::Struct(fs) => fs.iter().map(|(_, t)| t.size()).sum(),
                    })
                    .sum::<usize>()
            }
            _ => 1,
        }
    }
}

impl Val {
    pub fn coq(&self) -> String {
        match self {
            Val::Null => "VNull".into(),
            Val::Bool(b) => format!("(VBool {})", coq::b(*b)),
            Val::Int(z) => format!("(VInt {})", coq::z(*z)),
            Val::UInt(z) => format!("(VInt {})", coq::zu(*z)),
            Val::Float(f) => format!(
                "(VFloat {})",
                if f.is_nan() { "FNan".to_string() } else if f.is_infinite() { format!("(FInf {})", coq::b(f.is_sign_negative())) } else { "FFinite".into() }
            ),
            Val::Char(c) => format!("(VChar {})", *c as u32),
            Val::Str(s) => format!("(VStr {})", coq::s(s)),
            Val::Bytes(b) => format!("(VBytes {})", coq::bytes(b)),
            Val::Unit => "VUnit".into(),
            Val::None => "VNone".into(),
            Val::Some(v) => format!("(VSome {})", v.coq()),
            Val::Seq(l) => format!("(VSeq {})", coq::list(&l.iter().map(|v| v.coq()).collect::<Vec<_>>(), "val")),
            Val::Map(l) => format!(
                "(VMap {})",
                coq::list(&l.iter().map(|(k, v)| format!("({}, {})", k.coq(), v.coq())).collect::<Vec<_>>(), "(val * val)")
            ),
            Val::Struct(l) => format!(
                "(VStruct {})",
                coq::list(&l.iter().map(|(k, v)| format!("({}, {})", coq::s(k), v.coq())).collect::<Vec<_>>(), "(str * val)")
            ),
            Val::Variant(n, v) => format!("(VVariant {} {})", coq::s(n), v.coq()),
            Val::Spanned(r, d, v) => format!("(VSpanned {} {} {})", crate::rawcoq::loc(r), crate::rawcoq::loc(d), v.coq()),
        }
    }
}

/// `&'static str` for the names serde wants as statics.
pub fn leak(s: &str) -> &'static str {
    use std::collections::HashMap;
    use std::sync::Mutex;
    static POOL: Mutex<Option<HashMap<String, &'static str>>> = Mutex::new(None);
    let mut g = POOL.lock().unwrap();
    let m = g.get_or_insert_with(HashMap::new);
    if let Some(x) = m.get(s) {
        return x;
    }
    let l: &'static str = Box::leak(s.to_string().into_boxed_str());
    m.insert(s.to_string(), l);
    l
}
pub fn leak_list(names: &[String]) -> &'static [&'static str] {
    use std::collections::HashMap;
    use std::sync::Mutex;
    static POOL: Mutex<Option<HashMap<Vec<String>, &'static [&'static str]>>> = Mutex::new(None);
    let mut g = POOL.lock().unwrap();
    let m = g.get_or_insert_with(HashMap::new);
    if let Some(x) = m.get(names) {
        return x;
    }
    let v: Vec<&'static str> = names.iter().map(|n| leak(n)).collect();
    let l: &'static [&'static str] = Box::leak(v.into_boxed_slice());
    m.insert(names.to_vec(), l);
    l
}

pub struct Seed<'a>(pub &'a Ty);

struct IntV(bool, u32);
impl IntV {
    fn fit<E: de::Error>(&self, v: i128, unexp: de::Unexpected) -> Result<Val, E> {
        let (lo, hi): (i128, i128) = if self.0 {
            if self.1 == 128 { (i128::MIN, i128::MAX) } else { (-(1i128 << (self.1 - 1)), (1i128 << (self.1 - 1)) - 1) }
        } else if self.1 >= 127 {
            (0, i128::MAX)
        } else {
            (0, (1i128 << self.1) - 1)
        };
        if v >= lo && v <= hi { Ok(Val::Int(v)) } else { Err(E::invalid_value(unexp, &"an integer in range")) }
    }
}
impl<'de> Visitor<'de> for IntV {
    type Value = Val;
    fn expecting(&self, f: &mut fmt::Formatter) -> fmt::Result {
        write!(f, "{}{}", if self.0 { "i" } else { "u" }, self.1)
    }
    fn visit_i8<E: de::Error>(self, v: i8) -> Result<Val, E> { self.fit(v as i128, de::Unexpected::Signed(v as i64)) }
    fn visit_i16<E: de::Error>(self, v: i16) -> Result<Val, E> { self.fit(v as i128, de::Unexpected::Signed(v as i64)) }
    fn visit_i32<E: de::Error>(self, v: i32) -> Result<Val, E> { self.fit(v as i128, de::Unexpected::Signed(v as i64)) }
    fn visit_i64<E: de::Error>(self, v: i64) -> Result<Val, E> { self.fit(v as i128, de::Unexpected::Signed(v)) }
    fn visit_i128<E: de::Error>(self, v: i128) -> Result<Val, E> { self.fit(v, de::Unexpected::Other("i128")) }
    fn visit_u8<E: de::Error>(self, v: u8) -> Result<Val, E> { self.fit(v as i128, de::Unexpected::Unsigned(v as u64)) }
    fn visit_u16<E: de::Error>(self, v: u16) -> Result<Val, E> { self.fit(v as i128, de::Unexpected::Unsigned(v as u64)) }
    fn visit_u32<E: de::Error>(self, v: u32) -> Result<Val, E> { self.fit(v as i128, de::Unexpected::Unsigned(v as u64)) }
    fn visit_u64<E: de::Error>(self, v: u64) -> Result<Val, E> { self.fit(v as i128, de::Unexpected::Unsigned(v)) }
    fn visit_u128<E: de::Error>(self, v: u128) -> Result<Val, E> {
        if v > i128::MAX as u128 {
            if !self.0 && self.1 == 128 { Ok(Val::UInt(v)) } else { Err(E::invalid_value(de::Unexpected::Other("u128"), &"an integer in range")) }
        } else {
            self.fit(v as i128, de::Unexpected::Other("u128"))
        }
    }
}

macro_rules! simple_visitor {
    ($name:ident, $exp:expr, $( $m:ident ( $t:ty ) => $e:expr ),* ) => {
        struct $name;
        impl<'de> Visitor<'de> for $name {
            type Value = Val;
            fn expecting(&self, f: &mut fmt::Formatter) -> fmt::Result { f.write_str($exp) }
            $( fn $m<E: de::Error>(self, v: $t) -> Result<Val, E> { let f: fn($t) -> Val = $e; Ok(f(v)) } )*
        }
    };
}
simple_visitor!(BoolV, "bool", visit_bool(bool) => |v| Val::Bool(v));
simple_visitor!(F64V, "f64", visit_f64(f64) => |v| Val::Float(v));
simple_visitor!(CharV, "char", visit_char(char) => |v| Val::Char(v));
simple_visitor!(StrV, "string", visit_str(&str) => |v| Val::Str(v.to_string()));
simple_visitor!(BytesV, "bytes", visit_bytes(&[u8]) => |v| Val::Bytes(v.to_vec()), visit_byte_buf(Vec<u8>) => |v| Val::Bytes(v));

struct UnitV;
impl<'de> Visitor<'de> for UnitV {
    type Value = Val;
    fn expecting(&self, f: &mut fmt::Formatter) -> fmt::Result { f.write_str("unit") }
    fn visit_unit<E: de::Error>(self) -> Result<Val, E> { Ok(Val::Unit) }
}

struct OptV<'a>(&'a Ty);
impl<'de, 'a> Visitor<'de> for OptV<'a> {
    type Value = Val;
    fn expecting(&self, f: &mut fmt::Formatter) -> fmt::Result { f.write_str("option") }
    fn visit_none<E: de::Error>(self) -> Result<Val, E> { Ok(Val::None) }
    fn visit_unit<E: de::Error>(self) -> Result<Val, E> { Ok(Val::None) }
    fn visit_some<D: Deserializer<'de>>(self, d: D) -> Result<Val, D::Error> {
        Ok(Val::Some(Box::new(Seed(self.0).deserialize(d)?)))
    }
}

struct SeqV<'a>(&'a Ty);
impl<'de, 'a> Visitor<'de> for SeqV<'a> {
    type Value = Val;
    fn expecting(&self, f: &mut fmt::Formatter) -> fmt::Result { f.write_str("sequence") }
    fn visit_seq<A: SeqAccess<'de>>(self, mut a: A) -> Result<Val, A::Error> {
        let mut out = Vec::new();
        while let Some(v) = a.next_element_seed(Seed(self.0))? {
            out.push(v);
        }
        Ok(Val::Seq(out))
    }
}

struct TupleV<'a>(&'a [Ty]);
impl<'de, 'a> Visitor<'de> for TupleV<'a> {
    type Value = Val;
    fn expecting(&self, f: &mut fmt::Formatter) -> fmt::Result { write!(f, "tuple of {}", self.0.len()) }
    fn visit_seq<A: SeqAccess<'de>>(self, mut a: A) -> Result<Val, A::Error> {
        let mut out = Vec::new();
        for (i, t) in self.0.iter().enumerate() {
            match a.next_element_seed(Seed(t))? {
                Some(v) => out.push(v),
                None => return Err(de::Error::invalid_length(i, &self)),
            }
        }
        Ok(Val::Seq(out))
    }
}

struct MapV<'a>(&'a Ty, &'a Ty, bool);
impl<'de, 'a> Visitor<'de> for MapV<'a> {
    type Value = Val;
    fn expecting(&self, f: &mut fmt::Formatter) -> fmt::Result { f.write_str("map") }
    fn visit_map<A: MapAccess<'de>>(self, mut a: A) -> Result<Val, A::Error> {
        let mut out: Vec<(Val, Val)> = Vec::new();
        while let Some(k) = a.next_key_seed(Seed(self.0))? {
            let v = a.next_value_seed(Seed(self.1))?;
            if self.2 {
                if let Some(slot) = out.iter_mut().find(|(k2, _)| *k2 == k) {
                    *slot = (k, v);
                    continue;
                }
            }
            out.push((k, v));
        }
        Ok(Val::Map(out))
    }
}

struct IdentSeed;
impl<'de> DeserializeSeed<'de> for IdentSeed {
    type Value = String;
    fn deserialize<D: Deserializer<'de>>(self, d: D) -> Result<String, D::Error> {
        struct V;
        impl<'de> Visitor<'de> for V {
            type Value = String;
            fn expecting(&self, f: &mut fmt::Formatter) -> fmt::Result { f.write_str("identifier") }
            fn visit_str<E: de::Error>(self, v: &str) -> Result<String, E> { Ok(v.to_string()) }
        }
        d.deserialize_identifier(V)
    }
}

struct StructV<'a>(&'a [(String, Ty)], bool);
impl<'de, 'a> Visitor<'de> for StructV<'a> {
    type Value = Val;
    fn expecting(&self, f: &mut fmt::Formatter) -> fmt::Result { f.write_str("struct") }
    fn visit_map<A: MapAccess<'de>>(self, mut a: A) -> Result<Val, A::Error> {
        let names: Vec<String> = self.0.iter().map(|(n, _)| n.clone()).collect();
        let statics = leak_list(&names);
        let mut got: Vec<Option<Val>> = vec![None; self.0.len()];
        while let Some(name) = a.next_key_seed(IdentSeed)? {
            match self.0.iter().position(|(n, _)| *n == name) {
                Some(i) => {
                    if got[i].is_some() {
                        return Err(de::Error::duplicate_field(statics[i]));
                    }
                    got[i] = Some(a.next_value_seed(Seed(&self.0[i].1))?);
                }
                None => {
                    if self.1 {
                        return Err(de::Error::unknown_field(&name, statics));
                    }
                    a.next_value::<de::IgnoredAny>()?;
                }
            }
        }
        let mut out = Vec::new();
        for (i, (n, t)) in self.0.iter().enumerate() {
            match got[i].take() {
                Some(v) => out.push((n.clone(), v)),
                None => match t {
                    Ty::Option(_) => out.push((n.clone(), Val::None)),
                    _ => return Err(de::Error::missing_field(statics[i])),
                },
            }
        }
        Ok(Val::Struct(out))
    }
}

struct VariantSeed<'a>(&'a [(String, VShape)]);
impl<'de, 'a> DeserializeSeed<'de> for VariantSeed<'a> {
    type Value = usize;
    fn deserialize<D: Deserializer<'de>>(self, d: D) -> Result<usize, D::Error> {
        struct V<'a>(&'a [(String, VShape)]);
        impl<'de, 'a> Visitor<'de> for V<'a> {
            type Value = usize;
            fn expecting(&self, f: &mut fmt::Formatter) -> fmt::Result { f.write_str("variant identifier") }
            fn visit_str<E: de::Error>(self, v: &str) -> Result<usize, E> {
                match self.0.iter().position(|(n, _)| n == v) {
                    Some(i) => Ok(i),
                    None => {
                        let names: Vec<String> = self.0.iter().map(|(n, _)| n.clone()).collect();
                        Err(de::Error::unknown_variant(v, leak_list(&names)))
                    }
                }
            }
        }
        d.deserialize_identifier(V(self.0))
    }
}

struct EnumV<'a>(&'a [(String, VShape)]);
impl<'de, 'a> Visitor<'de> for EnumV<'a> {
    type Value = Val;
    fn expecting(&self, f: &mut fmt::Formatter) -> fmt::Result { f.write_str("enum") }
    fn visit_enum<A: EnumAccess<'de>>(self, a: A) -> Result<Val, A::Error> {
        let (i, va) = a.variant_seed(VariantSeed(self.0))?;
        let (name, shape) = &self.0[i];
        let payload = match shape {
            VShape::Unit => {
                va.unit_variant()?;
                Val::Unit
            }
            VShape::Newtype(t) => va.newtype_variant_seed(Seed(t))?,
            VShape::Tuple(ts) => va.tuple_variant(ts.len(), TupleV(ts))?,
            VShape::Struct(fs) => {
                let names: Vec<String> = fs.iter().map(|(n, _)| n.clone()).collect();
                va.struct_variant(leak_list(&names), StructV(fs, false))?
            }
        };
        Ok(Val::Variant(name.clone(), Box::new(payload)))
    }
}

/// What `serde_saphyr::Spanned<T>`'s visitor does: the newtype payload is asked for `any`, which the
/// crate answers with a map value / referenced / defined.
struct SpannedV<'a>(&'a Ty);
impl<'de, 'a> Visitor<'de> for SpannedV<'a> {
    type Value = Val;
    fn expecting(&self, f: &mut fmt::Formatter) -> fmt::Result { f.write_str("a span-aware newtype wrapper") }
    fn visit_newtype_struct<D: Deserializer<'de>>(self, d: D) -> Result<Val, D::Error> {
        struct M<'a>(&'a Ty);
        impl<'de, 'a> Visitor<'de> for M<'a> {
            type Value = Val;
            fn expecting(&self, f: &mut fmt::Formatter) -> fmt::Result { f.write_str("span-aware map") }
            fn visit_map<A: MapAccess<'de>>(self, mut a: A) -> Result<Val, A::Error> {
                let mut value = None;
                let mut referenced = None;
                let mut defined = None;
                while let Some(k) = a.next_key::<String>()? {
                    match k.as_str() {
                        "value" => value = Some(a.next_value_seed(Seed(self.0))?),
                        "referenced" => referenced = Some(a.next_value::<serde_saphyr::Location>()?),
                        "defined" => defined = Some(a.next_value::<serde_saphyr::Location>()?),
                        _ => return Err(de::Error::custom("unexpected key in Spanned representation")),
                    }
                }
                match (value, referenced, defined) {
                    (Some(v), Some(r), Some(d)) => Ok(Val::Spanned(r, d, Box::new(v))),
                    _ => Err(de::Error::custom("incomplete Spanned representation")),
                }
            }
        }
        d.deserialize_any(M(self.0))
    }
}

fn spanned_tree() -> &'static Ty {
    static T: std::sync::OnceLock<Ty> = std::sync::OnceLock::new();
    T.get_or_init(|| Ty::Spanned(Box::new(Ty::Tree)))
}
struct TreeV;
impl<'de> Visitor<'de> for TreeV {
    type Value = Val;
    fn expecting(&self, f: &mut fmt::Formatter) -> fmt::Result { f.write_str("any value") }
    fn visit_unit<E: de::Error>(self) -> Result<Val, E> { Ok(Val::Null) }
    fn visit_bool<E: de::Error>(self, v: bool) -> Result<Val, E> { Ok(Val::Bool(v)) }
    fn visit_i64<E: de::Error>(self, v: i64) -> Result<Val, E> { Ok(Val::Int(v as i128)) }
    fn visit_u64<E: de::Error>(self, v: u64) -> Result<Val, E> { Ok(Val::Int(v as i128)) }
    fn visit_f64<E: de::Error>(self, v: f64) -> Result<Val, E> { Ok(Val::Float(v)) }
    fn visit_str<E: de::Error>(self, v: &str) -> Result<Val, E> { Ok(Val::Str(v.to_string())) }
    fn visit_seq<A: SeqAccess<'de>>(self, mut a: A) -> Result<Val, A::Error> {
        let mut out = Vec::new();
        while let Some(v) = a.next_element_seed(Seed(spanned_tree()))? {
            out.push(v);
        }
        Ok(Val::Seq(out))
    }
    fn visit_map<A: MapAccess<'de>>(self, mut a: A) -> Result<Val, A::Error> {
        let mut out = Vec::new();
        while let Some(k) = a.next_key_seed(Seed(spanned_tree()))? {
            let v = a.next_value_seed(Seed(spanned_tree()))?;
            out.push((k, v));
        }
        Ok(Val::Map(out))
    }
}

struct AnyV;
impl<'de> Visitor<'de> for AnyV {
    type Value = Val;
    fn expecting(&self, f: &mut fmt::Formatter) -> fmt::Result { f.write_str("any value") }
    fn visit_unit<E: de::Error>(self) -> Result<Val, E> { Ok(Val::Null) }
    fn visit_bool<E: de::Error>(self, v: bool) -> Result<Val, E> { Ok(Val::Bool(v)) }
    fn visit_i64<E: de::Error>(self, v: i64) -> Result<Val, E> { Ok(Val::Int(v as i128)) }
    fn visit_u64<E: de::Error>(self, v: u64) -> Result<Val, E> { Ok(Val::Int(v as i128)) }
    fn visit_f64<E: de::Error>(self, v: f64) -> Result<Val, E> { Ok(Val::Float(v)) }
    fn visit_str<E: de::Error>(self, v: &str) -> Result<Val, E> { Ok(Val::Str(v.to_string())) }
    fn visit_seq<A: SeqAccess<'de>>(self, mut a: A) -> Result<Val, A::Error> {
        let mut out = Vec::new();
        while let Some(v) = a.next_element_seed(Seed(&Ty::Any))? {
            out.push(v);
        }
        Ok(Val::Seq(out))
    }
    fn visit_map<A: MapAccess<'de>>(self, mut a: A) -> Result<Val, A::Error> {
        let mut out = Vec::new();
        while let Some(k) = a.next_key_seed(Seed(&Ty::Any))? {
            let v = a.next_value_seed(Seed(&Ty::Any))?;
            out.push((k, v));
        }
        Ok(Val::Map(out))
    }
}

impl<'de, 'a> DeserializeSeed<'de> for Seed<'a> {
    type Value = Val;
    fn deserialize<D: Deserializer<'de>>(self, d: D) -> Result<Val, D::Error> {
        match self.0 {
            Ty::Bool => d.deserialize_bool(BoolV),
            Ty::Int(s, b) => {
                let v = IntV(*s, *b);
                match (*s, *b) {
                    (true, 8) => d.deserialize_i8(v),
                    (true, 16) => d.deserialize_i16(v),
                    (true, 32) => d.deserialize_i32(v),
                    (true, 64) => d.deserialize_i64(v),
                    (true, _) => d.deserialize_i128(v),
                    (false, 8) => d.deserialize_u8(v),
                    (false, 16) => d.deserialize_u16(v),
                    (false, 32) => d.deserialize_u32(v),
                    (false, 64) => d.deserialize_u64(v),
                    (false, _) => d.deserialize_u128(v),
                }
            }
            Ty::F64 => d.deserialize_f64(F64V),
            Ty::Char => d.deserialize_char(CharV),
            Ty::String => d.deserialize_string(StrV),
            Ty::Str => d.deserialize_str(StrV),
            Ty::Bytes => d.deserialize_byte_buf(BytesV),
            Ty::Unit => d.deserialize_unit(UnitV),
            Ty::UnitStruct => d.deserialize_unit_struct("U", UnitV),
            Ty::Option(t) => d.deserialize_option(OptV(t)),
            Ty::Seq(t) => d.deserialize_seq(SeqV(t)),
            Ty::Tuple(ts) => d.deserialize_tuple(ts.len(), TupleV(ts)),
            Ty::Map(k, v) => d.deserialize_map(MapV(k, v, true)),
            Ty::Pairs(k, v) => d.deserialize_map(MapV(k, v, false)),
            Ty::Struct(fs, deny) => {
                let names: Vec<String> = fs.iter().map(|(n, _)| n.clone()).collect();
                d.deserialize_struct("S", leak_list(&names), StructV(fs, *deny))
            }
            Ty::Enum(name, vs) => {
                let names: Vec<String> = vs.iter().map(|(n, _)| n.clone()).collect();
                d.deserialize_enum(leak(name), leak_list(&names), EnumV(vs))
            }
            Ty::Any => d.deserialize_any(AnyV),
            Ty::Ignored => {
                <de::IgnoredAny as de::Deserialize>::deserialize(d)?;
                Ok(Val::Null)
            }
            Ty::Spanned(t) => d.deserialize_newtype_struct("__yaml_spanned", SpannedV(t)),
            Ty::Tree => d.deserialize_any(TreeV),
            Ty::FailCustom => {
                d.deserialize_any(AnyV)?;
                Err(de::Error::custom("refused by the target type"))
            }
            Ty::FailInvalid => {
                d.deserialize_any(AnyV)?;
                Err(de::Error::invalid_value(de::Unexpected::Other("this value"), &"another value"))
            }
        }
    }
}

/// Deserialize `text` as `ty` through the public closure helper.
pub fn from_str_rt(text: &str, ty: &Ty, opts: serde_saphyr::Options) -> Result<Val, serde_saphyr::Error> {
    serde_saphyr::with_deserializer_from_str_with_options(text, opts, |d| Seed(ty).deserialize(d))
}

// ---- a `DeserializeOwned` front for entry points that want a type, not a seed ----
thread_local! {
    static CUR_TY: std::cell::RefCell<Option<Ty>> = const { std::cell::RefCell::new(None) };
}
/// Deserializes as the run-time type installed with [`with_ty`].
pub struct Dyn(pub Val);
impl<'de> de::Deserialize<'de> for Dyn {
    fn deserialize<D: Deserializer<'de>>(d: D) -> Result<Self, D::Error> {
        let ty = CUR_TY.with(|c| c.borrow().clone()).expect("with_ty not active");
        Seed(&ty).deserialize(d).map(Dyn)
    }
}
pub fn with_ty<T>(ty: &Ty, f: impl FnOnce() -> T) -> T {
    CUR_TY.with(|c| *c.borrow_mut() = Some(ty.clone()));
    let r = f();
    CUR_TY.with(|c| *c.borrow_mut() = None);
    r
}
