//! Utilities shared by property modules: raw parser events, option vectors, panics.
use saphyr_parser::{Event, Parser, ScanError, Span};
use std::panic::{AssertUnwindSafe, catch_unwind};

/// Raw saphyr events for a text (the very parser version the crate is built against).
pub fn raw_events(text: &str) -> Result<Vec<(Event<'_>, Span)>, ScanError> {
    let mut out = Vec::new();
    for item in Parser::new_from_str(text) {
        out.push(item?);
    }
    Ok(out)
}

/// Run `f`, turning a panic into `Err(message)`.
pub fn no_panic<T>(f: impl FnOnce() -> T) -> Result<T, String> {
    catch_unwind(AssertUnwindSafe(f)).map_err(|p| {
        if let Some(s) = p.downcast_ref::<&str>() {
            s.to_string()
        } else if let Some(s) = p.downcast_ref::<String>() {
            s.clone()
        } else {
            "panic".to_string()
        }
    })
}

pub fn quiet_panics() {
    std::panic::set_hook(Box::new(|info| {
        if std::env::var_os("VERIF_SHOW_PANICS").is_some() {
            eprintln!("panic: {info}");
        }
    }));
}
