//! Debug-profile stack probe for C01: `stack_probe <depth> <shape> <target>` deserializes a document
//! nested `depth` levels deep with default options on a thread with an 8 MiB stack and prints the
//! outcome.  A stack overflow aborts the process (the caller looks at the exit status).
use serde::Deserialize;

#[derive(Deserialize, Debug)]
#[allow(dead_code)]
enum Rec {
    Leaf(i32),
    Node(Vec<Rec>),
}

fn main() {
    let args: Vec<String> = std::env::args().collect();
    let d: usize = args.get(1).and_then(|x| x.parse().ok()).unwrap_or(10);
    let shape = args.get(2).map(String::as_str).unwrap_or("seq").to_string();
    let target = args.get(3).map(String::as_str).unwrap_or("value").to_string();
    let text = match shape.as_str() {
        "seq" => format!("{}x", "- ".repeat(d)),
        "map" => {
            let mut s = String::new();
            for i in 0..d {
                s.push_str(&" ".repeat(i));
                s.push_str("a:\n");
            }
            s
        }
        "key" => format!("? {}x\n: 1\n", "- ".repeat(d.saturating_sub(1))),
        _ => {
            // rec: Node: [Node: [...]] written in block style, two container levels per Rec level
            let mut s = String::from("Node:\n");
            for i in 0..d / 2 {
                s.push_str(&" ".repeat(2 * i));
                s.push_str("- Node:\n");
            }
            s.push_str(&" ".repeat(d));
            s.push_str("- Leaf: 1\n");
            s
        }
    };
    let h = std::thread::Builder::new()
        .stack_size(8 << 20)
        .spawn(move || {
            let out = match target.as_str() {
                "value" => serde_saphyr::from_str::<serde_json::Value>(&text).map(|_| ()).map_err(|e| e.to_string()),
                "ignored" => serde_saphyr::from_str::<serde::de::IgnoredAny>(&text).map(|_| ()).map_err(|e| e.to_string()),
                _ => serde_saphyr::from_str::<Rec>(&text).map(|_| ()).map_err(|e| e.to_string()),
            };
            match out {
                Ok(()) => println!("ok"),
                Err(e) => println!("err: {}", e.lines().next().unwrap_or("")),
            }
        })
        .unwrap();
    let _ = h.join();
}
