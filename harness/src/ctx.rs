//! Shared run context: arguments, PRNG, correspondence-case sink, direct-search failures,
//! known-finding witnesses, statistics.  Everything ends up in `<out>/result.json`,
//! `<out>/cases_<k>.v` and `<out>/cases.jsonl`, which `/verif/check` consumes.
use serde_json::{Value, json};
use std::collections::{BTreeMap, HashSet};
use std::fs;
use std::io::Write;

/// SplitMix64: every random choice of a run derives from the one seed.
pub struct Rng(pub u64);
impl Rng {
    pub fn next_u64(&mut self) -> u64 {
        self.0 = self.0.wrapping_add(0x9E37_79B9_7F4A_7C15);
        let mut z = self.0;
        z = (z ^ (z >> 30)).wrapping_mul(0xBF58_476D_1CE4_E5B9);
        z = (z ^ (z >> 27)).wrapping_mul(0x94D0_49BB_1331_11EB);
        z ^ (z >> 31)
    }
    pub fn below(&mut self, n: usize) -> usize {
        if n == 0 { 0 } else { (self.next_u64() % n as u64) as usize }
    }
    pub fn chance(&mut self, num: u64, den: u64) -> bool {
        self.next_u64() % den < num
    }
    pub fn pick<'a, T>(&mut self, xs: &'a [T]) -> &'a T {
        &xs[self.below(xs.len())]
    }
    pub fn fork(&mut self) -> Rng {
        Rng(self.next_u64())
    }
}

#[derive(Clone, Copy, PartialEq, Eq, Debug)]
pub enum Tier {
    Quick,
    Thorough,
}

/// A failure of the property itself observed on the implementation (direct search).
pub struct DirectFailure {
    /// Classification used for known-findings matching, e.g. "F10:i128-min-nondecimal".
    pub class: String,
    pub what: String,
    pub replay: Value,
}

pub struct Ctx {
    pub prop: String,
    pub tier: Tier,
    pub seed: u64,
    pub out: String,
    pub replay: Option<Value>,
    pub rng: Rng,
    // correspondence cases
    header: String,
    case_type: String,
    checker: String,
    cases: Vec<String>,
    case_replays: Vec<Value>,
    seen_cases: HashSet<String>,
    pub nontrivial: usize,
    pub skipped: usize,
    pub samples: Vec<Value>,
    pub distribution: BTreeMap<String, u64>,
    pub direct_evaluations: u64,
    pub direct_failures: Vec<DirectFailure>,
    pub witnesses: Vec<Value>,
    pub notes: Vec<String>,
    pub rule: String,
    pub shards: usize,
}

impl Ctx {
    pub fn new(prop: &str, tier: Tier, seed: u64, out: &str, replay: Option<Value>) -> Self {
        Ctx {
            prop: prop.to_string(),
            tier,
            seed,
            out: out.to_string(),
            replay,
            rng: Rng(seed ^ 0x5EED_0000_0000_0000 ^ fxhash(prop)),
            header: String::new(),
            case_type: "case".into(),
            checker: "check_case".into(),
            cases: Vec::new(),
            case_replays: Vec::new(),
            seen_cases: HashSet::new(),
            nontrivial: 0,
            skipped: 0,
            samples: Vec::new(),
            distribution: BTreeMap::new(),
            direct_evaluations: 0,
            direct_failures: Vec::new(),
            witnesses: Vec::new(),
            notes: Vec::new(),
            rule: String::new(),
            shards: 16,
        }
    }

    pub fn quick(&self) -> bool {
        self.tier == Tier::Quick
    }

    /// `header`: the Coq `Require` lines for the case files of this property.
    pub fn set_case_format(&mut self, header: &str, case_type: &str, checker: &str) {
        self.header = header.to_string();
        self.case_type = case_type.to_string();
        self.checker = checker.to_string();
    }

    pub fn count(&mut self, key: &str) {
        *self.distribution.entry(key.to_string()).or_insert(0) += 1;
    }

    /// Add one correspondence case (a Coq term of the case type whose checker must return true).
    /// Duplicates (same term) are dropped.  `nontrivial`: reaches the mechanism under test.
    pub fn case(&mut self, term: String, nontrivial: bool, replay: Value) {
        if !self.seen_cases.insert(term.clone()) {
            self.count("duplicate_case_dropped");
            return;
        }
        if nontrivial {
            self.nontrivial += 1;
        }
        if self.samples.len() < 6 || (self.samples.len() < 12 && self.rng.chance(1, 200)) {
            self.samples.push(json!({"case": term.chars().take(400).collect::<String>(), "input": replay}));
        }
        self.cases.push(term);
        self.case_replays.push(replay);
    }

    pub fn n_cases(&self) -> usize {
        self.cases.len()
    }

    pub fn fail(&mut self, class: &str, what: String, replay: Value) {
        // at most 300 per class, so that a frequent (recorded) class cannot crowd out another one
        let n = self.direct_failures.iter().filter(|f| f.class == class).count();
        *self.distribution.entry(format!("failures:{class}")).or_insert(0) += 1;
        if n < 300 {
            self.direct_failures.push(DirectFailure { class: class.to_string(), what, replay });
        }
    }

    pub fn witness(&mut self, id: &str, still_fails: bool, what: &str) {
        self.witnesses.push(json!({"id": id, "still_fails": still_fails, "what": what}));
    }

    pub fn finish(&mut self) {
        fs::create_dir_all(&self.out).unwrap();
        // remove stale shards
        if let Ok(rd) = fs::read_dir(&self.out) {
            for e in rd.flatten() {
                let n = e.file_name().to_string_lossy().to_string();
                if n.starts_with("cases_") {
                    let _ = fs::remove_file(e.path());
                }
            }
        }
        let n = self.cases.len();
        let per = if self.quick() { 400 } else { 1500 };
        let nshards = if n == 0 { 0 } else { n.div_ceil(per).max(self.shards.min(n)) };
        let mut index = Vec::new();
        for k in 0..nshards {
            let lo = k * n / nshards;
            let hi = (k + 1) * n / nshards;
            let path = format!("{}/cases_{k}.v", self.out);
            let mut f = std::io::BufWriter::new(fs::File::create(&path).unwrap());
            writeln!(f, "{}", self.header).unwrap();
            writeln!(f, "Definition cases : list {} := [", self.case_type).unwrap();
            for (j, i) in (lo..hi).enumerate() {
                writeln!(f, "{}{}", if j == 0 { "  " } else { "; " }, self.cases[i]).unwrap();
            }
            writeln!(f, "].").unwrap();
            writeln!(f, "Eval vm_compute in (bad_indices {} cases).", self.checker).unwrap();
            index.push(json!({"shard": k, "lo": lo, "hi": hi}));
        }
        let mut jl = std::io::BufWriter::new(fs::File::create(format!("{}/cases.jsonl", self.out)).unwrap());
        for (i, r) in self.case_replays.iter().enumerate() {
            writeln!(jl, "{}", json!({"i": i, "term": self.cases[i], "input": r})).unwrap();
        }
        let failures: Vec<Value> = self
            .direct_failures
            .iter()
            .map(|f| json!({"class": f.class, "what": f.what, "replay": f.replay}))
            .collect();
        let result = json!({
            "property": self.prop,
            "tier": if self.quick() {"quick"} else {"thorough"},
            "seed": self.seed,
            "cases": n,
            "shards": index,
            "distinct_nontrivial": self.nontrivial,
            "skipped": self.skipped,
            "rule": self.rule,
            "samples": self.samples,
            "distribution": self.distribution,
            "direct_evaluations": self.direct_evaluations,
            "direct_failures": failures,
            "witnesses": self.witnesses,
            "notes": self.notes,
        });
        fs::write(format!("{}/result.json", self.out), serde_json::to_string_pretty(&result).unwrap()).unwrap();
    }
}

pub fn fxhash(s: &str) -> u64 {
    let mut h: u64 = 0xcbf29ce484222325;
    for b in s.bytes() {
        h ^= b as u64;
        h = h.wrapping_mul(0x100000001b3);
    }
    h
}
