//! Document generator shared by the deserialization-side properties: node trees with anchors,
//! aliases, merge keys, duplicate keys, all scalar styles, block and flow layout; YAML rendering;
//! alias expansion (the reference transformation of C02).
use crate::ctx::Rng;

#[derive(Clone, Copy, Debug, PartialEq, Eq)]
pub enum Sty {
    Plain,
    Single,
    Double,
    Literal,
    Folded,
}

#[derive(Clone, Debug, PartialEq)]
pub enum Node {
    Scalar { text: String, sty: Sty, tag: Option<String>, anchor: Option<String> },
    Seq { items: Vec<Node>, flow: bool, tag: Option<String>, anchor: Option<String> },
    Map { entries: Vec<(Node, Node)>, flow: bool, anchor: Option<String> },
    Alias(String),
}

impl Node {
    pub fn plain(s: &str) -> Node {
        Node::Scalar { text: s.to_string(), sty: Sty::Plain, tag: None, anchor: None }
    }
    pub fn size(&self) -> usize {
        match self {
            Node::Scalar { .. } | Node::Alias(_) => 1,
            Node::Seq { items, .. } => 1 + items.iter().map(|n| n.size()).sum::<usize>(),
            Node::Map { entries, .. } => 1 + entries.iter().map(|(k, v)| k.size() + v.size()).sum::<usize>(),
        }
    }
    pub fn anchor(&self) -> Option<&String> {
        match self {
            Node::Scalar { anchor, .. } | Node::Seq { anchor, .. } | Node::Map { anchor, .. } => anchor.as_ref(),
            Node::Alias(_) => None,
        }
    }
    pub fn has_alias(&self) -> bool {
        match self {
            Node::Alias(_) => true,
            Node::Scalar { .. } => false,
            Node::Seq { items, .. } => items.iter().any(|n| n.has_alias()),
            Node::Map { entries, .. } => entries.iter().any(|(k, v)| k.has_alias() || v.has_alias()),
        }
    }
    pub fn has_anchor(&self) -> bool {
        self.anchor().is_some()
            || match self {
                Node::Seq { items, .. } => items.iter().any(|n| n.has_anchor()),
                Node::Map { entries, .. } => entries.iter().any(|(k, v)| k.has_anchor() || v.has_anchor()),
                _ => false,
            }
    }
    fn strip_anchor(&mut self) {
        match self {
            Node::Scalar { anchor, .. } | Node::Seq { anchor, .. } | Node::Map { anchor, .. } => *anchor = None,
            Node::Alias(_) => {}
        }
    }
}

// ------------------------------------------------------------------ rendering

fn needs_flow_key(n: &Node) -> bool {
    // an empty plain key cannot be written in block layout at an arbitrary indentation
    if let Node::Scalar { text, sty: Sty::Plain, .. } = n {
        if text.is_empty() {
            return true;
        }
    }
    !matches!(n, Node::Scalar { sty: Sty::Plain | Sty::Single | Sty::Double, .. } | Node::Alias(_))
}

pub fn quote_double(s: &str) -> String {
    let mut o = String::from("\"");
    for c in s.chars() {
        match c {
            '"' => o.push_str("\\\""),
            '\\' => o.push_str("\\\\"),
            '\n' => o.push_str("\\n"),
            '\t' => o.push_str("\\t"),
            '\r' => o.push_str("\\r"),
            c if (c as u32) < 0x20 || c == '\u{7f}' || c == '\u{85}' || c == '\u{a0}' || c == '\u{2028}' || c == '\u{2029}' || c == '\u{feff}' => {
                o.push_str(&format!("\\u{:04x}", c as u32))
            }
            c => o.push(c),
        }
    }
    o.push('"');
    o
}

fn props(tag: &Option<String>, anchor: &Option<String>) -> String {
    let mut s = String::new();
    if let Some(a) = anchor {
        s.push_str(&format!("&{a} "));
    }
    if let Some(t) = tag {
        s.push_str(&format!("{t} "));
    }
    s
}

fn render_scalar_inline(text: &str, sty: Sty) -> String {
    match sty {
        Sty::Plain => text.to_string(),
        Sty::Single => format!("'{}'", text.replace('\'', "''")),
        _ => quote_double(text),
    }
}

fn render_key(k: &Node) -> String {
    render_flow(k)
}

/// Flow rendering (single line).  Block scalars degrade to double quotes here.
pub fn render_flow(n: &Node) -> String {
    match n {
        Node::Alias(a) => format!("*{a}"),
        Node::Scalar { text, sty, tag, anchor } => {
            let body = render_scalar_inline(text, *sty);
            let p = props(tag, anchor);
            if body.is_empty() { p.trim_end().to_string() } else { format!("{p}{body}") }
        }
        Node::Seq { items, tag, anchor, .. } => {
            let inner: Vec<String> = items.iter().map(|i| { let t = render_flow(i); if t.is_empty() { "~".to_string() } else { t } }).collect();
            format!("{}[{}]", props(tag, anchor), inner.join(", "))
        }
        Node::Map { entries, anchor, .. } => {
            let inner: Vec<String> = entries
                .iter()
                .map(|(k, v)| {
                    let ks = render_key(k);
                    let vs = render_flow(v);
                    // an alias key needs a space before ':' ; complex keys use the explicit form
                    if matches!(k, Node::Seq { .. } | Node::Map { .. }) {
                        format!("? {ks} : {vs}")
                    } else {
                        format!("{ks} : {vs}")
                    }
                })
                .collect();
            format!("{}{{{}}}", props(&None, anchor), inner.join(", "))
        }
    }
}

fn pad(n: usize) -> String {
    " ".repeat(n)
}

/// Block rendering of `n` as the value after "key:" or "-" at indentation `ind` (the column of the
/// parent's entries).  Returns text starting on the same line as the parent marker.
fn render_block_value(n: &Node, ind: usize, out: &mut String) {
    match n {
        Node::Alias(a) => {
            out.push_str(&format!(" *{a}\n"));
        }
        Node::Scalar { text, sty, tag, anchor } => {
            let p = props(tag, anchor);
            match sty {
                Sty::Literal | Sty::Folded if !text.is_empty() && !text.contains('\r') => {
                    let ind_ind = if text.starts_with(' ') || text.starts_with('\n') { format!("{}", 2) } else { String::new() };
                    let trailing = text.len() - text.trim_end_matches('\n').len();
                    let chomp = if trailing == 0 { "-" } else if trailing == 1 { "" } else { "+" };
                    out.push_str(&format!(" {p}{}{ind_ind}{chomp}\n", if *sty == Sty::Literal { "|" } else { ">" }));
                    let body = text.trim_end_matches('\n');
                    for line in body.split('\n') {
                        if line.is_empty() {
                            out.push('\n');
                        } else {
                            out.push_str(&format!("{}{line}\n", pad(ind + 2)));
                        }
                    }
                    for _ in 1..trailing {
                        out.push('\n');
                    }
                }
                _ => {
                    let body = render_scalar_inline(text, if matches!(sty, Sty::Literal | Sty::Folded) { Sty::Double } else { *sty });
                    let s = format!("{p}{body}");
                    let s = s.trim_end();
                    if s.is_empty() { out.push('\n') } else { out.push_str(&format!(" {s}\n")) }
                }
            }
        }
        Node::Seq { items, flow, tag, anchor } => {
            if *flow || items.is_empty() {
                out.push_str(&format!(" {}\n", render_flow(n)));
            } else {
                let p = props(tag, anchor);
                if p.is_empty() { out.push('\n') } else { out.push_str(&format!(" {}\n", p.trim_end())) }
                for it in items {
                    out.push_str(&format!("{}-", pad(ind + 2)));
                    render_block_value(it, ind + 2, out);
                }
            }
        }
        Node::Map { entries, flow, anchor } => {
            if *flow || entries.is_empty() || entries.iter().any(|(k, _)| needs_flow_key(k)) {
                out.push_str(&format!(" {}\n", render_flow(n)));
            } else {
                let p = props(&None, anchor);
                if p.is_empty() { out.push('\n') } else { out.push_str(&format!(" {}\n", p.trim_end())) }
                for (k, v) in entries {
                    let ks = render_key(k);
                    let sep = if matches!(k, Node::Alias(_)) || ks.is_empty() || matches!(k, Node::Scalar { text, .. } if text.is_empty()) { " :" } else { ":" };
                    out.push_str(&format!("{}{ks}{sep}", pad(ind + 2)));
                    render_block_value(v, ind + 2, out);
                }
            }
        }
    }
}

/// Render a document root.
pub fn render_doc(n: &Node) -> String {
    match n {
        Node::Seq { items, flow: false, tag: None, anchor: None } if !items.is_empty() => {
            let mut out = String::new();
            for it in items {
                out.push('-');
                render_block_value(it, 0, &mut out);
            }
            out
        }
        Node::Map { entries, flow: false, anchor: None } if !entries.is_empty() && !entries.iter().any(|(k, _)| needs_flow_key(k)) => {
            let mut out = String::new();
            for (k, v) in entries {
                let ks = render_key(k);
                let sep = if matches!(k, Node::Alias(_)) || ks.is_empty() || matches!(k, Node::Scalar { text, .. } if text.is_empty()) { " :" } else { ":" };
                out.push_str(&format!("{ks}{sep}"));
                render_block_value(v, 0, &mut out);
            }
            out
        }
        _ => {
            let mut out = String::from("---");
            render_block_value(n, 0, &mut out);
            out
        }
    }
}

// ------------------------------------------------------------------ expansion (C02 reference)

/// The alias-free document: every alias replaced by a copy of the node most recently anchored under
/// that name (document order), every anchor mark removed.  `None` if an alias has no earlier anchor
/// or refers to a node that is still open (recursive).
pub fn expand(n: &Node) -> Option<Node> {
    // An anchor is defined where its node *starts* (so a nested re-definition is more recent than the
    // enclosing one) but can only be used once the node is complete.
    fn go(n: &Node, env: &mut Vec<(String, Option<Node>)>) -> Option<Node> {
        let slot = n.anchor().map(|a| {
            env.push((a.clone(), None));
            env.len() - 1
        });
        let e = match n {
            Node::Alias(a) => return env.iter().rev().find(|(k, _)| k == a).and_then(|(_, v)| v.clone()),
            Node::Scalar { text, sty, tag, .. } => Node::Scalar { text: text.clone(), sty: *sty, tag: tag.clone(), anchor: None },
            Node::Seq { items, flow, tag, .. } => {
                let mut out = Vec::new();
                for it in items {
                    out.push(go(it, env)?);
                }
                Node::Seq { items: out, flow: *flow, tag: tag.clone(), anchor: None }
            }
            Node::Map { entries, flow, .. } => {
                let mut out = Vec::new();
                for (k, v) in entries {
                    let k2 = go(k, env)?;
                    let v2 = go(v, env)?;
                    out.push((k2, v2));
                }
                Node::Map { entries: out, flow: *flow, anchor: None }
            }
        };
        if let Some(i) = slot {
            env[i].1 = Some(e.clone());
        }
        Some(e)
    }
    let mut env = Vec::new();
    go(n, &mut env)
}

// ------------------------------------------------------------------ generation

pub struct GenCfg {
    pub max_size: usize,
    pub max_depth: usize,
    pub anchors: bool,
    pub merges: bool,
    pub dup_keys: bool,
    pub tags: bool,
    pub block_scalars: bool,
    pub bad_aliases: bool,
}

impl GenCfg {
    pub fn default_for(max_size: usize) -> GenCfg {
        GenCfg { max_size, max_depth: 5, anchors: true, merges: true, dup_keys: true, tags: true, block_scalars: true, bad_aliases: false }
    }
}

pub const TOKENS: &[&str] = &[
    "a", "b", "c", "k", "x", "1", "2", "0", "-1", "1.5", "true", "false", "null", "~", "", "yes", "no", "<<", "0x10", "é", "日本",
    "hello world", "a b", "007", ".inf", "nan", "y", "n", "3", "key", "v", "[x", "a: b", "#c", "- d", "Q==",
];
const ANCHOR_NAMES: &[&str] = &["a", "b", "c", "a1"];
const TAG_POOL: &[&str] = &["!!str", "!!int", "!!null", "!t", "!!binary", "!", "!!float", "!!bool"];

struct Gen<'a> {
    rng: &'a mut Rng,
    cfg: &'a GenCfg,
    budget: isize,
    /// anchors whose node is complete (name, is_map)
    closed: Vec<(String, bool)>,
    open: Vec<String>,
}

impl<'a> Gen<'a> {
    fn scalar(&mut self, in_key: bool) -> Node {
        let text = self.rng.pick(TOKENS).to_string();
        let mut sty = match self.rng.below(10) {
            0 => Sty::Single,
            1 | 2 => Sty::Double,
            3 if self.cfg.block_scalars && !in_key => Sty::Literal,
            4 if self.cfg.block_scalars && !in_key => Sty::Folded,
            _ => Sty::Plain,
        };
        // plain rendering must be syntactically a plain scalar
        if sty == Sty::Plain && !plain_ok(&text) {
            sty = Sty::Double;
        }
        let tag = if self.cfg.tags && self.rng.chance(1, 12) { Some(self.rng.pick(TAG_POOL).to_string()) } else { None };
        let anchor = self.new_anchor(false);
        if let Some(a) = &anchor {
            self.closed.push((a.clone(), false));
        }
        Node::Scalar { text, sty, tag, anchor }
    }

    fn new_anchor(&mut self, _container: bool) -> Option<String> {
        if self.cfg.anchors && self.rng.chance(1, 5) { Some(self.rng.pick(ANCHOR_NAMES).to_string()) } else { None }
    }

    fn alias(&mut self) -> Option<Node> {
        if !self.cfg.anchors {
            return None;
        }
        if self.cfg.bad_aliases && self.rng.chance(1, 6) {
            if !self.open.is_empty() && self.rng.chance(1, 2) {
                return Some(Node::Alias(self.rng.pick(&self.open.clone()).clone()));
            }
            return Some(Node::Alias("zz".into()));
        }
        if self.closed.is_empty() {
            return None;
        }
        let (name, _) = self.closed[self.rng.below(self.closed.len())].clone();
        // the most recent definition of that name must be closed (not currently open)
        if self.open.contains(&name) {
            return None;
        }
        Some(Node::Alias(name))
    }

    fn node(&mut self, depth: usize, in_key: bool) -> Node {
        self.budget -= 1;
        let leaf = depth >= self.cfg.max_depth || self.budget <= 0;
        let r = self.rng.below(100);
        if r < 14 {
            if let Some(a) = self.alias() {
                return a;
            }
        }
        if leaf || r < 55 {
            return self.scalar(in_key);
        }
        if r < 75 {
            let anchor = self.new_anchor(true);
            if let Some(a) = &anchor {
                self.open.push(a.clone());
            }
            let n = self.rng.below(4);
            let items = (0..n).map(|_| self.node(depth + 1, false)).collect();
            let tag = if self.cfg.tags && self.rng.chance(1, 20) { Some("!t".to_string()) } else { None };
            if let Some(a) = &anchor {
                self.open.pop();
                self.closed.push((a.clone(), false));
            }
            return Node::Seq { items, flow: in_key || self.rng.chance(1, 2), tag, anchor };
        }
        self.map(depth, in_key)
    }

    fn map(&mut self, depth: usize, in_key: bool) -> Node {
        let anchor = self.new_anchor(true);
        if let Some(a) = &anchor {
            self.open.push(a.clone());
        }
        let n = self.rng.below(5);
        let mut entries: Vec<(Node, Node)> = Vec::new();
        for _ in 0..n {
            if self.cfg.merges && self.rng.chance(1, 5) {
                let v = self.merge_value(depth + 1);
                entries.push((Node::plain("<<"), v));
                continue;
            }
            let k = if self.cfg.dup_keys && !entries.is_empty() && self.rng.chance(1, 6) {
                let mut k = entries[self.rng.below(entries.len())].0.clone();
                strip_all_anchors(&mut k);
                k
            } else if self.rng.chance(1, 10) {
                self.node(depth + 2, true)
            } else {
                let t = *self.rng.pick(&["a", "b", "c", "k", "x", "1", "key", "true", "null", "~"]);
                let sty = if self.rng.chance(1, 8) { Sty::Double } else { Sty::Plain };
                Node::Scalar { text: t.to_string(), sty, tag: None, anchor: None }
            };
            let v = self.node(depth + 1, false);
            entries.push((k, v));
        }
        if let Some(a) = &anchor {
            self.open.pop();
            self.closed.push((a.clone(), true));
        }
        Node::Map { entries, flow: in_key || self.rng.chance(1, 2), anchor }
    }

    fn merge_value(&mut self, depth: usize) -> Node {
        match self.rng.below(10) {
            0 => Node::plain("~"),
            1 => self.scalar(false),
            2 | 3 => {
                let n = self.rng.below(3);
                let items = (0..n)
                    .map(|_| if self.rng.chance(1, 2) { self.alias().unwrap_or_else(|| Node::plain("~")) } else { self.map(depth + 1, true) })
                    .collect();
                Node::Seq { items, flow: true, tag: None, anchor: None }
            }
            4 | 5 | 6 => self.alias().unwrap_or_else(|| Node::plain("~")),
            _ => self.map(depth, false),
        }
    }
}

/// saphyr represents a completely bare empty node as the plain scalar `~`, but an empty node that
/// carries an anchor or tag as the plain scalar with empty text; a copy of the latter cannot be
/// written without its properties.  Oracles that compare renderings skip such documents.
pub fn has_anchored_empty_plain(n: &Node) -> bool {
    match n {
        Node::Scalar { text, sty: Sty::Plain, anchor: Some(_), .. } => text.is_empty(),
        Node::Seq { items, .. } => items.iter().any(has_anchored_empty_plain),
        Node::Map { entries, .. } => entries.iter().any(|(k, v)| has_anchored_empty_plain(k) || has_anchored_empty_plain(v)),
        _ => false,
    }
}

/// scalar text as the parser reports it (bare empty node = `~`)
pub fn event_text(text: &str, sty: Sty, tag: &Option<String>, anchor: &Option<String>) -> String {
    if text.is_empty() && sty == Sty::Plain && tag.is_none() && anchor.is_none() { "~".to_string() } else { text.to_string() }
}

/// true if some mapping of the tree has a plain untagged `<<` key (i.e. a merge key)
pub fn has_merge_key(n: &Node) -> bool {
    match n {
        Node::Map { entries, .. } => entries.iter().any(|(k, v)| {
            matches!(k, Node::Scalar { text, sty: Sty::Plain, tag: None, .. } if text == "<<") || has_merge_key(k) || has_merge_key(v)
        }),
        Node::Seq { items, .. } => items.iter().any(has_merge_key),
        _ => false,
    }
}

/// `? {~: v} : w` is the crate's explicit-empty-key notation (the key reads as None, the value as v)
pub fn has_explicit_empty_key(n: &Node) -> bool {
    match n {
        Node::Map { entries, .. } => entries.iter().any(|(k, v)| {
            matches!(k, Node::Map { entries: ke, .. } if ke.len() == 1 && matches!(&ke[0].0, Node::Scalar { text, tag, .. }
                if text.is_empty() || text == "~" || text.eq_ignore_ascii_case("null") || tag.as_deref() == Some("!!null")))
                || has_explicit_empty_key(k) || has_explicit_empty_key(v)
        }),
        Node::Seq { items, .. } => items.iter().any(has_explicit_empty_key),
        _ => false,
    }
}

pub fn strip_all_anchors(n: &mut Node) {
    n.strip_anchor();
    match n {
        Node::Seq { items, .. } => items.iter_mut().for_each(strip_all_anchors),
        Node::Map { entries, .. } => entries.iter_mut().for_each(|(k, v)| {
            strip_all_anchors(k);
            strip_all_anchors(v);
        }),
        _ => {}
    }
}

pub fn plain_ok(t: &str) -> bool {
    if t.is_empty() {
        return true;
    }
    let first = t.chars().next().unwrap();
    if "[]{},#&*!|>'\"%@`".contains(first) {
        return false;
    }
    if (first == '-' || first == '?' || first == ':') && (t.len() == 1 || t[1..].starts_with(' ')) {
        return false;
    }
    !(t.contains(": ") || t.contains(" #") || t.ends_with(':') || t.contains('\n') || t.starts_with(' ') || t.ends_with(' ')
        || t.contains([',', '[', ']', '{', '}']))
}

pub fn gen_doc(rng: &mut Rng, cfg: &GenCfg) -> Node {
    let mut g = Gen { rng, cfg, budget: cfg.max_size as isize, closed: Vec::new(), open: Vec::new() };
    // roots are mostly containers
    if g.rng.chance(1, 8) { g.node(0, false) } else if g.rng.chance(1, 2) { g.map(0, false) } else {
        let n = 1 + g.rng.below(4);
        let items = (0..n).map(|_| g.node(1, false)).collect();
        Node::Seq { items, flow: g.rng.chance(1, 3), tag: None, anchor: None }
    }
}

/// Random single-character mutation of a text (malformed stream).
pub fn mutate(rng: &mut Rng, text: &str) -> String {
    let chars: Vec<char> = text.chars().collect();
    if chars.is_empty() {
        return "[".into();
    }
    let pos = rng.below(chars.len());
    let ins = *rng.pick(&['[', ']', '{', '}', ':', ',', '&', '*', '!', '|', '>', '\'', '"', '#', '-', '?', '\n', ' ', '\t', 'a', '%', '@', '`']);
    let mut out: Vec<char> = chars.clone();
    match rng.below(3) {
        0 => out.insert(pos, ins),
        1 => {
            out.remove(pos);
        }
        _ => out[pos] = ins,
    }
    out.into_iter().collect()
}
