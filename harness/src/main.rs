//! Correspondence / direct-search harness.  `verif-harness <prop> --tier quick|thorough --seed N
//! --out DIR [--replay FILE]`.  One module per property under src/props/.
mod coq;
mod ctx;
#[allow(dead_code)]
mod docgen;
#[allow(dead_code)]
mod scripted;
#[allow(dead_code)]
mod rt;
#[allow(dead_code)]
mod deserk;
#[allow(dead_code)]
mod tree;
#[allow(dead_code)]
mod live;
#[allow(dead_code)]
mod rawcoq;
#[allow(dead_code)]
mod util;
#[allow(dead_code)]
mod alloc_count {
    //! Counting global allocator: current and peak live heap bytes (observer for C08).
    use std::alloc::{GlobalAlloc, Layout, System};
    use std::sync::atomic::{AtomicUsize, Ordering};
    pub struct Counting;
    static CUR: AtomicUsize = AtomicUsize::new(0);
    static PEAK: AtomicUsize = AtomicUsize::new(0);
    unsafe impl GlobalAlloc for Counting {
        unsafe fn alloc(&self, l: Layout) -> *mut u8 {
            let p = unsafe { System.alloc(l) };
            if !p.is_null() {
                let c = CUR.fetch_add(l.size(), Ordering::Relaxed) + l.size();
                PEAK.fetch_max(c, Ordering::Relaxed);
            }
            p
        }
        unsafe fn dealloc(&self, p: *mut u8, l: Layout) {
            unsafe { System.dealloc(p, l) };
            CUR.fetch_sub(l.size(), Ordering::Relaxed);
        }
        unsafe fn realloc(&self, p: *mut u8, l: Layout, new: usize) -> *mut u8 {
            let q = unsafe { System.realloc(p, l, new) };
            if !q.is_null() {
                if new >= l.size() {
                    let c = CUR.fetch_add(new - l.size(), Ordering::Relaxed) + (new - l.size());
                    PEAK.fetch_max(c, Ordering::Relaxed);
                } else {
                    CUR.fetch_sub(l.size() - new, Ordering::Relaxed);
                }
            }
            q
        }
    }
    /// peak live bytes above the level at entry, while running `f`
    pub fn peak_during<T>(f: impl FnOnce() -> T) -> (T, usize) {
        let base = CUR.load(Ordering::Relaxed);
        PEAK.store(base, Ordering::Relaxed);
        let r = f();
        let peak = PEAK.load(Ordering::Relaxed);
        (r, peak.saturating_sub(base))
    }
}
#[global_allocator]
static GLOBAL: alloc_count::Counting = alloc_count::Counting;

mod props {
    include!(concat!(env!("OUT_DIR"), "/props_gen.rs"));
}

fn main() {
    let args: Vec<String> = std::env::args().collect();
    if args.len() < 2 {
        eprintln!("usage: verif-harness <prop> [--tier quick|thorough] [--seed N] [--out DIR] [--replay FILE]");
        std::process::exit(2);
    }
    let prop = args[1].to_lowercase();
    let mut tier = ctx::Tier::Quick;
    let mut seed = 1u64;
    let mut out = format!("/verif/build/run/{}", prop);
    let mut replay = None;
    let mut i = 2;
    while i < args.len() {
        match args[i].as_str() {
            "--tier" => {
                tier = if args[i + 1] == "thorough" { ctx::Tier::Thorough } else { ctx::Tier::Quick };
                i += 1;
            }
            "--seed" => {
                seed = args[i + 1].parse().unwrap_or(1);
                i += 1;
            }
            "--out" => {
                out = args[i + 1].clone();
                i += 1;
            }
            "--replay" => {
                let text = std::fs::read_to_string(&args[i + 1]).expect("replay file");
                replay = Some(serde_json::from_str(&text).expect("replay json"));
                i += 1;
            }
            _ => {}
        }
        i += 1;
    }
    // A panic anywhere in the implementation must not kill the harness silently.
    let mut c = ctx::Ctx::new(&prop, tier, seed, &out, replay);
    if !props::dispatch(&prop, &mut c) {
        eprintln!("unknown property module {prop}");
        std::process::exit(2);
    }
    c.finish();
}
