//! Raw parser items, crate events, errors, budgets and reports as Coq terms of `SS.Model.{Raw,Budget,Live}`.
use crate::coq;
use saphyr_parser::{Event, Marker, Parser, ScalarStyle, Span};
use serde_saphyr::__verif as hk;
use serde_saphyr::budget::{Budget, BudgetBreach, BudgetReport};

pub fn style_ctor(st: &ScalarStyle) -> &'static str {
    match st {
        ScalarStyle::Plain => "Plain",
        ScalarStyle::SingleQuoted => "SingleQuoted",
        ScalarStyle::DoubleQuoted => "DoubleQuoted",
        ScalarStyle::Literal => "Literal",
        ScalarStyle::Folded => "Folded",
    }
}
pub fn style_ctor_code(c: u8) -> &'static str {
    ["Plain", "SingleQuoted", "DoubleQuoted", "Literal", "Folded"][c as usize]
}

fn mark(m: &Marker) -> String {
    format!("(mkMark {} {} {} {})", m.index(), m.line(), m.col(), coq::opt(&m.byte_offset(), |b| b.to_string()))
}
fn span(s: &Span) -> String {
    format!("(mkSpan {} {})", mark(&s.start), mark(&s.end))
}

/// One owned raw item (so that the text buffer need not outlive it).
#[derive(Clone, Debug)]
pub enum RawItem {
    Item { term: String, kind: &'static str },
    ScanErr { term: String },
}

pub struct RawStream {
    pub items: Vec<RawItem>,
    pub scan_error: bool,
    pub aliases: usize,
    pub anchors: usize,
    pub scalars: usize,
    pub containers: usize,
    pub documents: usize,
    pub merge_like: usize,
}

impl RawStream {
    pub fn term(&self) -> String {
        let items: Vec<String> = self
            .items
            .iter()
            .map(|i| match i {
                RawItem::Item { term, .. } => term.clone(),
                RawItem::ScanErr { term } => term.clone(),
            })
            .collect();
        coq::list(&items, "raw_item")
    }
}

/// The raw items saphyr produces for `text` (BOM already stripped by the caller if the entry point
/// strips it), up to and including the first scan error or the end of the stream.
pub fn raw_stream(text: &str) -> RawStream {
    raw_stream_from(Parser::new_from_str(text))
}

/// The raw items the reader-based entry points see (BufferedInput: no byte offsets in the marks).
pub fn raw_stream_buffered(text: &str) -> RawStream {
    raw_stream_from(Parser::new(saphyr_parser::BufferedInput::new(text.chars())))
}

fn raw_stream_from<'a>(mut parser: impl Iterator<Item = Result<(Event<'a>, Span), saphyr_parser::ScanError>>) -> RawStream {
    let mut rs = RawStream { items: Vec::new(), scan_error: false, aliases: 0, anchors: 0, scalars: 0, containers: 0, documents: 0, merge_like: 0 };
    let mut guard = 0;
    let mut after_error = 0;
    while let Some(item) = parser.next() {
        guard += 1;
        if guard > 2_000_000 {
            break;
        }
        // A scanner error is sticky (saphyr returns it again on every further call) while a parser
        // level error such as an unknown anchor is not: recording stops after three errors in a row.
        if after_error >= 3 {
            break;
        }
        match item {
            Ok((ev, sp)) => {
                let s = span(&sp);
                let tag_s = |t: &Option<std::borrow::Cow<'_, saphyr_parser::Tag>>| coq::opt(&t.as_ref().map(|t| t.to_string()), |x| coq::s(x));
                let (body, kind) = match &ev {
                    Event::StreamStart => ("RStreamStart".to_string(), "stream"),
                    Event::StreamEnd => ("RStreamEnd".to_string(), "stream"),
                    Event::DocumentStart(e) => {
                        rs.documents += 1;
                        (format!("(RDocStart {})", coq::b(*e)), "doc")
                    }
                    Event::DocumentEnd => ("RDocEnd".to_string(), "doc"),
                    Event::Alias(id) => {
                        rs.aliases += 1;
                        (format!("(RAlias {id})"), "alias")
                    }
                    Event::Scalar(v, st, a, t) => {
                        rs.scalars += 1;
                        if *a != 0 {
                            rs.anchors += 1;
                        }
                        if v == "<<" {
                            rs.merge_like += 1;
                        }
                        (format!("(RScalar {} {} {a} {})", coq::s(v), style_ctor(st), tag_s(t)), "scalar")
                    }
                    Event::SequenceStart(a, t) => {
                        rs.containers += 1;
                        if *a != 0 {
                            rs.anchors += 1;
                        }
                        (format!("(RSeqStart {a} {})", tag_s(t)), "seq")
                    }
                    Event::SequenceEnd => ("RSeqEnd".to_string(), "end"),
                    Event::MappingStart(a, t) => {
                        rs.containers += 1;
                        if *a != 0 {
                            rs.anchors += 1;
                        }
                        (format!("(RMapStart {a} {})", tag_s(t)), "map")
                    }
                    Event::MappingEnd => ("RMapEnd".to_string(), "end"),
                    Event::Nothing => ("RNothing".to_string(), "nothing"),
                };
                after_error = 0;
                rs.items.push(RawItem::Item { term: format!("RItem {body} {s}"), kind });
            }
            Err(e) => {
                after_error += 1;
                rs.scan_error = true;
                let ua = e.info().to_ascii_lowercase().contains("unknown anchor");
                rs.items.push(RawItem::ScanErr { term: format!("RScanErr {} {}", mark(e.marker()), coq::b(ua)) });
                // the crate stops pulling after an error on every path except the skip loop; what the
                // parser yields afterwards is recorded too so that the skip loop can be modelled
            }
        }
    }
    rs
}

pub fn loc(l: &serde_saphyr::Location) -> String {
    let (line, col, off, len, bo, bl) = hk::location_parts(l);
    format!("(mkLoc {line} {col} {off} {len} {bo} {bl})")
}
pub fn opt_loc(l: Option<serde_saphyr::Location>) -> String {
    match l {
        Some(l) => loc(&l),
        None => "loc_unknown".into(),
    }
}

pub fn ev_dump(d: &hk::EvDump) -> String {
    let l = loc(&d.location);
    let raw_tag = coq::opt(&d.raw_tag, |t| coq::s(t));
    let e = match d.kind {
        0 => format!("(EScalar {} {} {} {} {} {l})", coq::s(&d.value), d.tag, raw_tag, style_ctor_code(d.style), d.anchor),
        1 => format!("(ESeqStart {} {} {} {l})", d.anchor, d.tag, raw_tag),
        2 => format!("(ESeqEnd {l})"),
        3 => format!("(EMapStart {} {l})", d.anchor),
        4 => format!("(EMapEnd {l})"),
        _ => format!("(ESeqEnd {l})"),
    };
    format!("(mkDump {e} {} {})", loc(&d.reference_location), loc(&d.last_location))
}

pub fn breach(b: &BudgetBreach) -> String {
    match b {
        BudgetBreach::Events { events } => format!("(BrEvents {events})"),
        BudgetBreach::Aliases { aliases } => format!("(BrAliases {aliases})"),
        BudgetBreach::Anchors { anchors } => format!("(BrAnchors {anchors})"),
        BudgetBreach::Depth { depth } => format!("(BrDepth {depth})"),
        BudgetBreach::Documents { documents } => format!("(BrDocuments {documents})"),
        BudgetBreach::Nodes { nodes } => format!("(BrNodes {nodes})"),
        BudgetBreach::ScalarBytes { total_scalar_bytes } => format!("(BrScalarBytes {total_scalar_bytes})"),
        BudgetBreach::MergeKeys { merge_keys } => format!("(BrMergeKeys {merge_keys})"),
        BudgetBreach::AliasAnchorRatio { aliases, anchors } => format!("(BrRatio {aliases} {anchors})"),
        BudgetBreach::SequenceUnbalanced => "BrUnbalanced".into(),
        _ => "BrUnbalanced".into(),
    }
}

pub fn err(e: &serde_saphyr::Error) -> String {
    let e = e.without_snippet();
    match e {
        serde_saphyr::Error::Budget { breach: b, location } => format!("(ErrBudget {} {})", breach(b), loc(location)),
        serde_saphyr::Error::AliasError { locations, .. } => {
            format!("(ErrAlias {} {})", loc(&locations.reference_location), loc(&locations.defined_location))
        }
        serde_saphyr::Error::IOError { .. } => "ErrIO".into(),
        other => format!("(Err {} {})", coq::eclass(other), opt_loc(other.location())),
    }
}
pub fn opt_err(e: &Option<serde_saphyr::Error>) -> String {
    match e {
        None => "None".into(),
        Some(e) => format!("(Some {})", err(e)),
    }
}

pub fn budget(b: &Budget) -> String {
    format!(
        "(mkBudget {} {} {} {} {} {} {} {} {} {} {})",
        b.max_events, b.max_aliases, b.max_anchors, b.max_depth, b.max_documents, b.max_nodes, b.max_total_scalar_bytes,
        b.max_merge_keys, coq::b(b.enforce_alias_anchor_ratio), b.alias_anchor_min_aliases, b.alias_anchor_ratio_multiplier
    )
}
pub fn opt_budget(b: &Option<Budget>) -> String {
    match b {
        None => "None".into(),
        Some(b) => format!("(Some {})", budget(b)),
    }
}

pub fn report(r: &BudgetReport) -> String {
    format!(
        "(mkReport {} {} {} {} {} {} {} {} {})",
        coq::opt(&r.breached, breach), r.events, r.aliases, r.anchors, r.documents, r.nodes, r.max_depth, r.total_scalar_bytes, r.merge_keys
    )
}

pub fn limits(l: &serde_saphyr::options::AliasLimits) -> String {
    format!("(mkLimits {} {} {})", l.max_total_replayed_events, l.max_replay_stack_depth, l.max_alias_expansions_per_anchor)
}
