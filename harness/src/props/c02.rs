//! C02 -- anchors and aliases are transparent: an alias equals a copy of its anchor.
//!
//! K: the live pump (where recording and replay happen) vs `SS.Model.Live` on documents rich in
//!    anchors and aliases, under default and tightened alias limits.
//! S: value of the aliased document vs value of its alias-free expansion; anchors removed vs kept;
//!    unknown / out-of-document aliases are errors.
use crate::ctx::Ctx;
use crate::docgen::{self, GenCfg, Node, Sty};
use crate::live::{self, PumpOpts};
use crate::tree::{self, Tree};
use crate::util;
use serde_json::json;
use serde_saphyr::DuplicateKeyPolicy;

const HAND: &[&str] = &[
    "a: &x 1\nb: *x\n",
    "a: &x \"\"\nb: *x\nc: &y ''\n",
    "- &a [1, 2]\n- *a\n- [*a, *a]\n",
    "&r {a: &s [x, y], b: *s, c: {d: *s}}\n",
    "- &a x\n- &a y\n- *a\n",
    "- &a {k: &b v}\n- *b\n- *a\n",
    "? &k [1, 2]\n: &v {p: q}\n? *k\n: *v\n",
    "base: &b {x: 1}\nm: {<<: *b, y: 2}\nn: {z: *b}\n",
    "- &a\n- *a\n",
    "- &a ~\n- *a\n",
    "- &a !!str 12\n- *a\n",
    "- &a |\n  text\n- *a\n",
    "x: &a [&b 1, *b]\ny: *a\n",
    "x: &a [&a 1]\ny: *a\n",
    "a: *nope\n",
    "a: &a [*a]\n",
    "--- &a 1\n--- *a\n",
    "&a a: b\n*a : c\n",
];

/// Structured family: an alias replayed while `depth` anchored containers are open, followed by
/// aliases to each of those containers (outermost first), for sequences and mappings.
fn nested_anchor_family() -> Vec<Node> {
    let p = |t: &str| Node::plain(t);
    let seq = |items: Vec<Node>, a: Option<String>| Node::Seq { items, flow: true, tag: None, anchor: a };
    let map = |entries: Vec<(Node, Node)>, a: Option<String>| Node::Map { entries, flow: true, anchor: a };
    let mut out = Vec::new();
    for depth in 1..=4usize {
        for maps in [false, true] {
            for base_map in [false, true] {
                let base = if base_map {
                    map(vec![(p("p"), p("1")), (p("q"), seq(vec![p("2")], None))], Some("x".into()))
                } else {
                    seq(vec![p("1"), p("2")], Some("x".into()))
                };
                let mut inner = if maps { map(vec![(p("a"), Node::Alias("x".into())), (p("b"), p("9"))], None) } else { seq(vec![Node::Alias("x".into()), p("9")], None) };
                for i in (0..depth).rev() {
                    inner = if maps {
                        map(vec![(p(&format!("k{i}")), inner), (p(&format!("t{i}")), p(&i.to_string()))], Some(format!("o{i}")))
                    } else {
                        seq(vec![inner, p(&i.to_string())], Some(format!("o{i}")))
                    };
                }
                let mut entries = vec![(p("base"), base), (p("outer"), inner)];
                for i in 0..depth {
                    entries.push((p(&format!("copy{i}")), Node::Alias(format!("o{i}"))));
                }
                entries.push((p("again"), Node::Alias("x".into())));
                out.push(Node::Map { entries, flow: false, anchor: None });
            }
        }
    }
    // the same name re-defined at several depths
    let n = |x: Node| x;
    out.push(n(map(vec![
        (p("a"), seq(vec![seq(vec![Node::Scalar { text: "1".into(), sty: Sty::Plain, tag: None, anchor: Some("n".into()) }, Node::Alias("n".into())], Some("n".into())), p("7")], Some("n".into()))),
        (p("b"), Node::Alias("n".into())),
    ], None)));
    out
}

pub fn compare(ctx: &mut Ctx, what: &str, class: &str, t1: &str, t2: &str, pol: DuplicateKeyPolicy) {
    ctx.direct_evaluations += 1;
    let r1 = util::no_panic(|| tree::read(t1, pol));
    let r2 = util::no_panic(|| tree::read(t2, pol));
    let replay = json!({"kind": "pair", "what": what, "a": t1, "b": t2, "policy": format!("{pol:?}")});
    match (r1, r2) {
        (Ok(Ok(a)), Ok(Ok(b))) => {
            if a != b {
                ctx.fail(class, format!("{what}: {t1:?} reads as {a:?} but {t2:?} reads as {b:?}"), replay);
            }
        }
        (Ok(Err(_)), Ok(Err(_))) => {}
        (Ok(a), Ok(b)) => {
            let d = |r: &Result<Tree, serde_saphyr::Error>| match r {
                Ok(t) => format!("Ok({t:?})"),
                Err(e) => format!("Err({})", crate::coq::variant_name(e)),
            };
            ctx.fail(class, format!("{what}: {t1:?} gives {} but {t2:?} gives {}", d(&a), d(&b)), replay);
        }
        _ => ctx.fail("panic", format!("{what}: panic on {t1:?} or {t2:?}"), replay),
    }
}

fn has_anchored_empty_quoted(n: &Node) -> bool {
    match n {
        Node::Scalar { text, sty, anchor, .. } => text.is_empty() && anchor.is_some() && matches!(sty, Sty::Single | Sty::Double),
        Node::Seq { items, .. } => items.iter().any(has_anchored_empty_quoted),
        Node::Map { entries, .. } => entries.iter().any(|(k, v)| has_anchored_empty_quoted(k) || has_anchored_empty_quoted(v)),
        Node::Alias(_) => false,
    }
}

pub fn run(ctx: &mut Ctx) {
    util::quiet_panics();
    ctx.set_case_format("From SS Require Import Corr.Live.\nLocal Open Scope N_scope.", "case", "check_case");
    ctx.rule = "cases: document (generated node tree with anchors/aliases/merges, or hand-written, or mutated) -> raw parser items x \
                alias limits x peek/next driving, through the live pump; distinct = distinct Coq case term; non-trivial = the raw \
                stream contains at least one alias or anchored node".into();
    if let Some(r) = ctx.replay.clone() {
        replay(ctx, &r);
        return;
    }
    let quick = ctx.quick();
    let mut rng = ctx.rng.fork();
    let mut docs: Vec<(String, Option<Node>)> = HAND.iter().map(|s| (s.to_string(), None)).collect();
    docs.extend(nested_anchor_family().into_iter().map(|n| (docgen::render_doc(&n), Some(n))));
    let n_gen = if quick { 1200 } else { 8000 };
    for i in 0..n_gen {
        let mut cfg = GenCfg::default_for(if quick { 12 } else { 24 });
        cfg.dup_keys = i % 4 == 0;
        cfg.merges = i % 3 != 0;
        cfg.bad_aliases = i % 10 == 0;
        let d = docgen::gen_doc(&mut rng, &cfg);
        if !d.has_anchor() && !d.has_alias() && i % 5 != 0 {
            continue;
        }
        docs.push((docgen::render_doc(&d), Some(d)));
    }
    for (text, node) in &docs {
        // ---- K
        let mut o = PumpOpts::new(None);
        o.use_peek = rng.chance(2, 3);
        let (t, r, _, rs) = live::pump_case(text, &o);
        let nontrivial = rs.aliases + rs.anchors > 0;
        ctx.count(&format!("aliases_{}", rs.aliases.min(4)));
        ctx.count(&format!("anchors_{}", rs.anchors.min(4)));
        ctx.case(t, nontrivial, json!({"kind": "pump", "text": text, "opts": o.json()}));
        if rs.aliases > 0 {
            // tightened alias limits around the measured replay volume
            let delivered = r.events.len();
            let mut o2 = PumpOpts::new(Some(live::big_budget()));
            o2.limits.max_total_replayed_events = rng.below(delivered + 2);
            o2.limits.max_alias_expansions_per_anchor = 1 + rng.below(3);
            o2.limits.max_replay_stack_depth = rng.below(3);
            let (t2, _, _, _) = live::pump_case(text, &o2);
            ctx.case(t2, true, json!({"kind": "pump", "text": text, "opts": o2.json()}));
        }
        if rng.chance(1, 6) {
            let m = docgen::mutate(&mut rng, text);
            let (t3, _, _, _) = live::pump_case(&m, &o);
            ctx.case(t3, nontrivial, json!({"kind": "pump", "text": m, "opts": o.json()}));
        }
        // ---- S
        let Some(n) = node else { continue };
        if docgen::has_anchored_empty_plain(n) {
            ctx.count("anchored_empty_plain_skipped_by_oracle");
            continue;
        }
        let pol = *rng.pick(&[DuplicateKeyPolicy::Error, DuplicateKeyPolicy::FirstWins, DuplicateKeyPolicy::LastWins]);
        if n.has_alias() {
            match docgen::expand(n) {
                Some(e) => {
                    let class = if has_anchored_empty_quoted(n) { "F12:anchored-empty-quoted" } else { "alias-not-transparent" };
                    compare(ctx, "aliased vs expanded", class, text, &docgen::render_doc(&e), pol);
                }
                None => {
                    // an alias without an earlier anchor of that name (or into an open node) must be an error
                    ctx.direct_evaluations += 1;
                    if let Ok(Ok(v)) = util::no_panic(|| tree::read(text, pol)) {
                        ctx.fail("unknown-alias-accepted", format!("{text:?} has an alias with no earlier closed anchor but reads as {v:?}"),
                            json!({"kind": "must_fail", "text": text}));
                    }
                }
            }
        } else if n.has_anchor() {
            let mut stripped = n.clone();
            docgen::strip_all_anchors(&mut stripped);
            let class = if has_anchored_empty_quoted(n) { "F12:anchored-empty-quoted" } else { "anchor-changes-value" };
            compare(ctx, "anchored vs anchors removed", class, text, &docgen::render_doc(&stripped), pol);
        }
    }
    // anchors of an earlier document are not visible
    for s in ["--- &a 1\n--- *a\n", "--- {k: &a [1]}\n...\n--- [*a]\n", "- &a 1\n---\n- *a\n"] {
        ctx.direct_evaluations += 1;
        let r = util::no_panic(|| serde_saphyr::from_multiple::<Tree>(s));
        if let Ok(Ok(v)) = r {
            ctx.fail("cross-document-alias", format!("{s:?}: alias to an anchor of an earlier document accepted: {v:?}"), json!({"kind": "multi_must_fail", "text": s}));
        }
    }
    // fixed finding F12 stays in the corpus
    ctx.direct_evaluations += 1;
    let f12 = serde_saphyr::from_str::<std::collections::BTreeMap<String, String>>("a: &x \"\"\n");
    if f12.as_ref().ok().and_then(|m| m.get("a").cloned()) != Some(String::new()) {
        ctx.fail("F12:anchored-empty-quoted", format!("`a: &x \"\"` into a String map gives {:?}", f12.map_err(|e| e.to_string())), json!({"kind": "f12"}));
    }
}

fn replay(ctx: &mut Ctx, r: &serde_json::Value) {
    match r["kind"].as_str().unwrap_or("") {
        "pair" => {
            let pol = match r["policy"].as_str().unwrap_or("Error") {
                "FirstWins" => DuplicateKeyPolicy::FirstWins,
                "LastWins" => DuplicateKeyPolicy::LastWins,
                _ => DuplicateKeyPolicy::Error,
            };
            let (a, b) = (r["a"].as_str().unwrap_or(""), r["b"].as_str().unwrap_or(""));
            println!("replay: {:?}\n  a -> {:?}\n  b -> {:?}", r["what"], tree::read(a, pol).map_err(|e| e.to_string()), tree::read(b, pol).map_err(|e| e.to_string()));
            compare(ctx, "replayed", "alias-not-transparent", a, b, pol);
        }
        "must_fail" => {
            let t = r["text"].as_str().unwrap_or("");
            let v = tree::read(t, DuplicateKeyPolicy::LastWins);
            println!("replay: {t:?} -> {:?}", v.as_ref().map_err(|e| e.to_string()));
            if v.is_ok() {
                ctx.fail("unknown-alias-accepted", "replayed".into(), r.clone());
            }
        }
        _ => {
            let text = r["text"].as_str().unwrap_or("");
            let o = PumpOpts::from_json(&r["opts"]);
            let (res, _) = live::run_pump(text, &o);
            println!("replay pump on {text:?}: {} events, error {:?}", res.events.len(), res.error.map(|e| e.to_string()));
        }
    }
}
