//! C07 -- budget limits are enforced exactly and the usage report is accurate.
//!
//! K: `check_yaml_budget` (public) and the live pump hook vs `SS.Model.{Budget,Live}`.
//! S: threshold exactness (limit = measured usage passes, usage-1 fails with that breach), report
//!    vs an independent counter over raw + delivered events, per-document independence.
//!    Also: a breach the pump reports is an error of every single-document entry point; both report callbacks (fn and
//!    closure) receive the same report; max_documents = 1 under the per-document policy.
use crate::coq;
use crate::ctx::Ctx;
use crate::docgen::{self, GenCfg};
use crate::live::{self, PumpOpts};
use crate::rawcoq;
use crate::util;
use serde_json::json;
use serde_saphyr::__verif as hk;
use serde_saphyr::budget::{Budget, BudgetBreach, BudgetReport, EnforcingPolicy, check_yaml_budget};

pub const HAND_DOCS: &[&str] = &[
    "a: 1\nb: [1, 2, {c: d}]\n",
    "base: &b {x: 1, y: 2}\nd1: {<<: *b, z: 3}\nd2:\n  <<: [*b, *b]\n  w: 4\n",
    "- &a [1, 2]\n- *a\n- *a\n- {k: *a}\n",
    "&r {a: &s [x, y], b: *s}\n",
    "--- a\n--- b\n...\n--- {c: 1}\n",
    "? [1, 2]\n: v\n? {a: b}\n: w\n",
    "m: {!!str <<: 1, \"<<\": 2, <<: {p: q}}\n",
    "t: &t !!str <<\nu: {*t : 1}\n",
    "k: &k <<\nm: {*k : {a: 1}}\n",
    "[[[[[[]]]]]]",
    "a: |\n  text\n  more\nb: >\n  folded\n  text\n",
    "",
    "~",
    "&x \"\"",
    "a: &x ''\nb: *x\n",
    "- &a x\n- &a y\n- *a\n",
    "a: *nope\n",
    "a: &a [*a]\n",
    "x: [1, 2\n",
    "- a\n- b\n...\ngarbage: [\n",
];

#[derive(Default, Debug, Clone, PartialEq)]
pub struct Usage {
    pub events: usize,
    pub aliases: usize,
    pub anchors: usize,
    pub documents: usize,
    pub nodes: usize,
    pub max_depth: usize,
    pub scalar_bytes: usize,
    pub merge_keys: usize,
    pub merge_keys_if_replayed_tags_dropped: usize,
}

/// Independent count: the parser's raw event stream plus the replayed events the pump delivered.
pub fn independent_usage(text: &str, delivered: &[hk::EvDump], synthesized: bool) -> Usage {
    use saphyr_parser::Event;
    let mut u = Usage::default();
    let mut anchors = std::collections::BTreeSet::new();
    let mut raw_content = 0usize;
    for item in saphyr_parser::Parser::new_from_str(live::strip_bom(text)) {
        let Ok((ev, _)) = item else { break };
        u.events += 1;
        match ev {
            Event::Alias(_) => u.aliases += 1,
            Event::DocumentStart(_) => u.documents += 1,
            Event::Scalar(_, _, a, _) | Event::SequenceStart(a, _) | Event::MappingStart(a, _) => {
                raw_content += 1;
                if a != 0 {
                    anchors.insert(a);
                }
            }
            Event::SequenceEnd | Event::MappingEnd => raw_content += 1,
            _ => {}
        }
    }
    u.anchors = anchors.len();
    let delivered: Vec<&hk::EvDump> = delivered.iter().collect();
    let n_delivered = delivered.len() - if synthesized { 1 } else { 0 };
    u.events += n_delivered.saturating_sub(raw_content);
    // walk the delivered stream: nodes, depth, scalar bytes, merge keys at key positions
    #[derive(Clone, Copy)]
    enum C {
        Seq,
        Map { expecting_key: bool },
    }
    let mut stack: Vec<C> = Vec::new();
    fn value_done(stack: &mut [C]) {
        if let Some(C::Map { expecting_key }) = stack.last_mut() {
            *expecting_key = !*expecting_key;
        }
    }
    let mut replay_seen = std::collections::HashSet::new();
    for (i, d) in delivered.iter().enumerate() {
        if synthesized && i + 1 == delivered.len() + 0 && d.kind == 0 && d.tag == 4 && d.value.is_empty() && delivered.len() == 1 {
            break;
        }
        match d.kind {
            0 => {
                u.nodes += 1;
                u.scalar_bytes += d.value.len();
                let at_key = matches!(stack.last(), Some(C::Map { expecting_key: true }));
                if at_key && d.style == 0 && d.value == "<<" {
                    // a replayed event is one whose location was already delivered before
                    let replayed = !replay_seen.insert(hk::location_parts(&d.location));
                    if d.raw_tag.is_none() {
                        u.merge_keys += 1;
                        u.merge_keys_if_replayed_tags_dropped += 1;
                    } else if replayed {
                        u.merge_keys_if_replayed_tags_dropped += 1;
                    }
                } else {
                    replay_seen.insert(hk::location_parts(&d.location));
                }
                value_done(&mut stack);
            }
            1 | 3 => {
                u.nodes += 1;
                stack.push(if d.kind == 1 { C::Seq } else { C::Map { expecting_key: true } });
                u.max_depth = u.max_depth.max(stack.len());
            }
            2 | 4 => {
                stack.pop();
                value_done(&mut stack);
            }
            _ => {}
        }
    }
    u
}

fn breach_name(b: &BudgetBreach) -> &'static str {
    match b {
        BudgetBreach::Events { .. } => "events",
        BudgetBreach::Aliases { .. } => "aliases",
        BudgetBreach::Anchors { .. } => "anchors",
        BudgetBreach::Depth { .. } => "depth",
        BudgetBreach::Documents { .. } => "documents",
        BudgetBreach::Nodes { .. } => "nodes",
        BudgetBreach::ScalarBytes { .. } => "scalar_bytes",
        BudgetBreach::MergeKeys { .. } => "merge_keys",
        BudgetBreach::AliasAnchorRatio { .. } => "ratio",
        _ => "other",
    }
}

fn pump_breach(r: &hk::PumpResult) -> Option<&'static str> {
    for e in [&r.error, &r.finish_error] {
        if let Some(serde_saphyr::Error::Budget { breach, .. }) = e.as_ref().map(|e| e.without_snippet()) {
            return Some(breach_name(breach));
        }
    }
    None
}

fn with_limit(q: &str, v: usize) -> Budget {
    let mut b = live::big_budget();
    match q {
        "events" => b.max_events = v,
        "aliases" => b.max_aliases = v,
        "anchors" => b.max_anchors = v,
        "depth" => b.max_depth = v,
        "documents" => b.max_documents = v,
        "nodes" => b.max_nodes = v,
        "scalar_bytes" => b.max_total_scalar_bytes = v,
        "merge_keys" => b.max_merge_keys = v,
        _ => {}
    }
    b
}

fn usage_of(rep: &BudgetReport, q: &str) -> usize {
    match q {
        "events" => rep.events,
        "aliases" => rep.aliases,
        "anchors" => rep.anchors,
        "depth" => rep.max_depth,
        "documents" => rep.documents,
        "nodes" => rep.nodes,
        "scalar_bytes" => rep.total_scalar_bytes,
        "merge_keys" => rep.merge_keys,
        _ => 0,
    }
}

pub const COUNTERS: [&str; 8] = ["events", "aliases", "anchors", "depth", "documents", "nodes", "scalar_bytes", "merge_keys"];

pub fn random_budget(rng: &mut crate::ctx::Rng) -> Budget {
    let mut b = live::big_budget();
    for q in COUNTERS {
        if rng.chance(1, 3) {
            let v = rng.below(12);
            match q {
                "events" => b.max_events = v + 3,
                "aliases" => b.max_aliases = v,
                "anchors" => b.max_anchors = v,
                "depth" => b.max_depth = v,
                "documents" => b.max_documents = v,
                "nodes" => b.max_nodes = v,
                "scalar_bytes" => b.max_total_scalar_bytes = v * 3,
                _ => b.max_merge_keys = v,
            }
        }
    }
    if rng.chance(1, 3) {
        b.enforce_alias_anchor_ratio = true;
        b.alias_anchor_min_aliases = rng.below(4);
        b.alias_anchor_ratio_multiplier = rng.below(3);
    }
    b
}

pub fn corpus(ctx: &mut Ctx, n_gen: usize, max_size: usize) -> Vec<String> {
    let mut rng = ctx.rng.fork();
    let mut texts: Vec<String> = HAND_DOCS.iter().map(|s| s.to_string()).collect();
    let cfg = GenCfg::default_for(max_size);
    for i in 0..n_gen {
        let mut cfg2 = GenCfg::default_for(if i % 7 == 0 { max_size * 3 } else { max_size });
        cfg2.bad_aliases = i % 9 == 0;
        let d = docgen::gen_doc(&mut rng, if i % 7 == 0 || i % 9 == 0 { &cfg2 } else { &cfg });
        let t = docgen::render_doc(&d);
        if i % 5 == 0 {
            // multi-document stream
            let d2 = docgen::gen_doc(&mut rng, &cfg);
            let sep = if rng.chance(1, 2) { "...\n---\n" } else { "---\n" };
            let head = if t.starts_with("---") { t.clone() } else { format!("---\n{t}") };
            let t2 = docgen::render_doc(&d2);
            let tail = if t2.starts_with("---") { t2.trim_start_matches("---").trim_start().to_string() } else { t2 };
            texts.push(format!("{head}{sep}{tail}"));
        } else if i % 11 == 0 {
            texts.push(docgen::mutate(&mut rng, &t));
        } else {
            texts.push(t);
        }
    }
    texts
}

pub fn run(ctx: &mut Ctx) {
    util::quiet_panics();
    ctx.set_case_format("From SS Require Import Corr.Live.\nLocal Open Scope N_scope.", "case", "check_case");
    ctx.rule = "cases: (document text -> raw parser items) x budget x policy, through check_yaml_budget and through the live pump \
                hook; distinct = distinct Coq case term; non-trivial = the document has at least one container or alias and the \
                budget is either exactly the measured usage or one below it for some counter, or a random tight budget".into();
    if let Some(r) = ctx.replay.clone() {
        replay(ctx, &r);
        return;
    }
    let quick = ctx.quick();
    let texts = corpus(ctx, if quick { 220 } else { 2500 }, if quick { 14 } else { 30 });
    let mut rng = ctx.rng.fork();
    for text in &texts {
        let base = PumpOpts::new(Some(live::big_budget()));
        let (term0, r0, rep0, rs) = live::pump_case(text, &base);
        let nontrivial_doc = rs.containers + rs.aliases > 0;
        ctx.count(if rs.scan_error { "doc_with_scan_error" } else { "doc_wellformed" });
        ctx.count(&format!("doc_aliases_{}", rs.aliases.min(3)));
        ctx.case(term0, nontrivial_doc, json!({"kind": "pump", "text": text, "opts": base.json()}));
        // check_yaml_budget (public API) under both policies with the big and a random budget
        for (b, pd) in [(live::big_budget(), false), (random_budget(&mut rng), false), (random_budget(&mut rng), true)] {
            let got = check_yaml_budget(live::strip_bom(text), b.clone(), if pd { EnforcingPolicy::PerDocument } else { EnforcingPolicy::AllContent }).ok();
            // check_yaml_budget does not strip a BOM itself; the raw items are taken from the same text
            ctx.case(format!("CBudget {} {} {} {}", rs.term(), rawcoq::budget(&b), coq::b(pd), coq::opt(&got, rawcoq::report)),
                nontrivial_doc, json!({"kind": "check_yaml_budget", "text": text, "budget": serde_json::to_value(&b).unwrap(), "per_document": pd}));
        }
        // random tight budget through the pump
        {
            let mut o = PumpOpts::new(Some(random_budget(&mut rng)));
            o.use_peek = rng.chance(1, 2);
            let (t, _, _, _) = live::pump_case(text, &o);
            ctx.case(t, nontrivial_doc, json!({"kind": "pump", "text": text, "opts": o.json()}));
        }
        let Some(rep0) = rep0 else { continue };
        if r0.error.is_some() || r0.finish_error.is_some() {
            ctx.count("doc_pump_error");
            continue;
        }
        // S1: report vs the independent counter
        ctx.direct_evaluations += 1;
        let u = independent_usage(text, &r0.events, r0.synthesized_null);
        let got = Usage { events: rep0.events, aliases: rep0.aliases, anchors: rep0.anchors, documents: rep0.documents, nodes: rep0.nodes,
            max_depth: rep0.max_depth, scalar_bytes: rep0.total_scalar_bytes, merge_keys: rep0.merge_keys, merge_keys_if_replayed_tags_dropped: 0 };
        let mut want = u.clone();
        want.merge_keys_if_replayed_tags_dropped = 0;
        if got != want {
            let mut w2 = want.clone();
            w2.merge_keys = u.merge_keys_if_replayed_tags_dropped;
            let class = if got == w2 { "F4:replayed-tagged-merge-key" } else { "report-mismatch" };
            ctx.fail(class, format!("usage report {got:?} differs from the independent count {want:?} for {text:?}"), json!({"kind": "report", "text": text}));
        }
        // S2 + K: threshold exactness for every counter
        for q in COUNTERS {
            let usage = usage_of(&rep0, q);
            for (limit, expect_ok) in [(usage, true), (usage.wrapping_sub(1), false)] {
                if !expect_ok && usage == 0 {
                    continue;
                }
                let o = PumpOpts::new(Some(with_limit(q, limit)));
                let (t, r, _, _) = live::pump_case(text, &o);
                ctx.direct_evaluations += 1;
                let b = pump_breach(&r);
                let ok = if expect_ok { b.is_none() && r.error.is_none() } else { b == Some(q) };
                if !ok {
                    ctx.fail("threshold", format!("{q}: usage {usage}, limit {limit}: expected {} but got breach {b:?} / error {:?} on {text:?}",
                        if expect_ok { "acceptance" } else { "this breach" }, r.error.as_ref().map(|e| coq::variant_name(e))),
                        json!({"kind": "pump", "text": text, "opts": o.json(), "counter": q, "usage": usage}));
                }
                // S2b: a breach the pump reports is an error of every single-document entry point too -- also when
                // it is raised after the first document's end (F58: it was dropped there as "trailing garbage")
                if !expect_ok && b == Some(q) {
                    ctx.direct_evaluations += 1;
                    let mut so = serde_saphyr::Options::default();
                    so.budget = o.budget.clone();
                    if crate::rt::from_str_rt(text, &crate::rt::Ty::Any, so).is_ok() {
                        ctx.fail("breach-dropped", format!("{q}: usage {usage}, limit {limit}: the pump reports the breach, from_str_with_options returns a value on {text:?}"),
                            json!({"kind": "typed_breach", "text": text, "counter": q, "limit": limit}));
                    }
                }
                if !quick || rng.chance(1, 3) {
                    ctx.case(t, nontrivial_doc, json!({"kind": "pump", "text": text, "opts": o.json(), "counter": q}));
                }
            }
        }
        // S3: ratio heuristic
        {
            let mut b = live::big_budget();
            b.enforce_alias_anchor_ratio = true;
            b.alias_anchor_min_aliases = rng.below(3);
            b.alias_anchor_ratio_multiplier = rng.below(3);
            let o = PumpOpts::new(Some(b.clone()));
            let (t, r, _, _) = live::pump_case(text, &o);
            ctx.direct_evaluations += 1;
            let expect = rep0.aliases >= b.alias_anchor_min_aliases && (rep0.anchors == 0 || rep0.aliases > b.alias_anchor_ratio_multiplier * rep0.anchors);
            if (pump_breach(&r) == Some("ratio")) != expect {
                ctx.fail("ratio", format!("ratio heuristic: aliases {} anchors {} min {} mult {}: breach {:?}", rep0.aliases, rep0.anchors,
                    b.alias_anchor_min_aliases, b.alias_anchor_ratio_multiplier, pump_breach(&r)), json!({"kind": "pump", "text": text, "opts": o.json()}));
            }
            ctx.case(t, nontrivial_doc, json!({"kind": "pump", "text": text, "opts": o.json()}));
            // S4: the report reaches both kinds of callback unchanged (the delayed ratio breach included) and
            // agrees with the outcome: breached is Some exactly when the parse fails with a budget error
            ctx.direct_evaluations += 1;
            let (res, by_closure, by_fn) = typed_with_both_callbacks(text, &b);
            let show = |r: &Option<BudgetReport>| r.as_ref().map(|r| serde_json::to_string(r).unwrap_or_default());
            if show(&by_closure) != show(&by_fn) {
                ctx.fail("report-callbacks-differ", format!("with_budget_report closure got {:?}, the fn callback {:?} on {text:?}", show(&by_closure), show(&by_fn)),
                    json!({"kind": "callbacks", "text": text, "budget": serde_json::to_value(&b).unwrap()}));
            } else if let Some(rep) = &by_closure {
                let budget_err = matches!(&res, Err(e) if coq::variant_name(e).contains("Budget"));
                if (rep.breached.is_some() && res.is_ok()) || (rep.breached.is_none() && budget_err) {
                    ctx.fail("report-breach-flag", format!("report.breached = {:?} but the parse result is {:?} on {text:?}", rep.breached, res.as_ref().map(|_| ()).map_err(|e| coq::variant_name(e))),
                        json!({"kind": "callbacks", "text": text, "budget": serde_json::to_value(&b).unwrap()}));
                }
            }
        }
    }

    // ---- per-document enforcement: a document's acceptance never depends on the documents before it
    per_document(ctx, &texts);
    per_document_iterator(ctx);
}

thread_local! {
    static FN_SEEN: std::cell::RefCell<Option<BudgetReport>> = const { std::cell::RefCell::new(None) };
}
fn fn_callback(report: &BudgetReport) {
    FN_SEEN.with(|c| *c.borrow_mut() = Some(report.clone()));
}
/// from_str_with_options (untyped target) with both report callbacks registered: result, report seen by the
/// closure, report seen by the fn pointer.
fn typed_with_both_callbacks(text: &str, b: &Budget) -> (Result<crate::rt::Val, serde_saphyr::Error>, Option<BudgetReport>, Option<BudgetReport>) {
    FN_SEEN.with(|c| *c.borrow_mut() = None);
    let seen = std::rc::Rc::new(std::cell::RefCell::new(None));
    let sink = seen.clone();
    #[allow(deprecated)]
    let mut o = serde_saphyr::Options::default();
    #[allow(deprecated)]
    {
        o.budget = Some(b.clone());
        o.budget_report = Some(fn_callback);
        o.with_snippet = false;
    }
    let o = o.with_budget_report(move |r: BudgetReport| *sink.borrow_mut() = Some(r));
    let res = crate::rt::from_str_rt(text, &crate::rt::Ty::Any, o);
    let by_closure = seen.borrow().clone();
    (res, by_closure, FN_SEEN.with(|c| c.borrow().clone()))
}

fn is_single_doc(text: &str) -> bool {
    let rs = rawcoq::raw_stream(text);
    rs.documents == 1 && !rs.scan_error
}

/// Pump a stream through the reader-based LiveEvents with PerDocument policy.
fn pump_reader_perdoc(text: &str, b: &Budget) -> hk::PumpResult {
    #[allow(deprecated)]
    let mut opts = serde_saphyr::Options::default();
    #[allow(deprecated)]
    {
        opts.budget = Some(b.clone());
        opts.with_snippet = false;
    }
    hk::pump_all_reader(std::io::Cursor::new(text.as_bytes().to_vec()), opts, false, true, true, 1_000_000)
}

fn per_document(ctx: &mut Ctx, texts: &[String]) {
    let mut rng = ctx.rng.fork();
    let singles: Vec<&String> = texts.iter().filter(|t| !t.is_empty() && is_single_doc(t)).collect();
    let rounds = if ctx.quick() { 60 } else { 600 };
    for _ in 0..rounds {
        let k = 2 + rng.below(4);
        let docs: Vec<&String> = (0..k).map(|_| *rng.pick(&singles)).collect();
        // budget: the maximum any single document needs (so each alone is within budget)
        let mut need = live::big_budget();
        let mut maxu = [0usize; 8];
        let mut alone_ok = true;
        for d in &docs {
            let (r, rep) = live::run_pump(d, &PumpOpts::new(Some(live::big_budget())));
            if r.error.is_some() || r.finish_error.is_some() {
                alone_ok = false;
                break;
            }
            let rep = rep.unwrap();
            for (i, q) in COUNTERS.iter().enumerate() {
                maxu[i] = maxu[i].max(usage_of(&rep, q));
            }
        }
        if !alone_ok {
            continue;
        }
        need.max_events = maxu[0] + 2; // stream start/end events are outside any document
        need.max_aliases = maxu[1];
        need.max_anchors = maxu[2];
        need.max_depth = maxu[3];
        need.max_nodes = maxu[5];
        need.max_total_scalar_bytes = maxu[6];
        need.max_merge_keys = maxu[7];
        need.max_documents = 1; // every document alone is one document: the number already read must not matter
        let mut stream = String::new();
        for d in &docs {
            if !d.starts_with("---") {
                stream.push_str("---\n");
            }
            stream.push_str(d);
            if !d.ends_with('\n') {
                stream.push('\n');
            }
        }
        ctx.direct_evaluations += 1;
        let r = pump_reader_perdoc(&stream, &need);
        if let Some(b) = pump_breach(&r) {
            let class = if b == "anchors" { "F2:perdoc-anchors-accumulate" } else { "perdoc-dependence" };
            ctx.fail(class, format!("per-document policy: every document alone fits the budget, the stream of {k} is rejected with breach {b}"),
                json!({"kind": "perdoc", "text": stream, "budget": serde_json::to_value(&need).unwrap()}));
        }
    }
    // witness of F2 (fixed entries stay in the corpus; open ones print KNOWN-FINDING)
    let mut b = live::big_budget();
    b.max_anchors = 2;
    let stream = "---\na: &x1 1\nb: *x1\n---\na: &x2 1\nb: *x2\n---\na: &x3 1\nb: *x3\n---\na: &x4 1\nb: *x4\n";
    let r = pump_reader_perdoc(stream, &b);
    ctx.witness("F2", pump_breach(&r).is_some(), "PerDocument: four documents with one anchor each and max_anchors = 2 are rejected");
}

#[derive(serde::Deserialize, Debug, PartialEq)]
struct Rec {
    a: i32,
    b: Vec<i32>,
}

/// Run the streaming iterator (`read_with_options`, per-document budget) over `stream`; one entry per
/// item: Ok / name of the budget breach / other error class.
fn iterate(stream: &str, b: &Budget) -> Vec<String> {
    #[allow(deprecated)]
    let mut opts = serde_saphyr::Options::default();
    #[allow(deprecated)]
    {
        opts.budget = Some(b.clone());
        opts.with_snippet = false;
    }
    let mut cur = std::io::Cursor::new(stream.as_bytes().to_vec());
    let it = serde_saphyr::read_with_options::<_, Rec>(&mut cur, opts);
    let mut out = Vec::new();
    for (i, item) in it.enumerate() {
        if i > 64 {
            out.push("runaway".into());
            break;
        }
        out.push(match item {
            Ok(_) => "Ok".to_string(),
            Err(e) => match e.without_snippet() {
                serde_saphyr::Error::Budget { breach, .. } => format!("Budget:{}", breach_name(breach)),
                other => coq::variant_name(other),
            },
        });
    }
    out
}

/// F3: after a document fails mid-way the iterator skips to the next document; the documents that
/// follow must still be judged on their own.
fn per_document_iterator(ctx: &mut Ctx) {
    let mut rng = ctx.rng.fork();
    let good = ["a: 1\nb: [1, 2]\n", "a: 7\nb: []\n", "b: [3]\na: -2\n", "{a: 5, b: [1, 2, 3]}\n"];
    let bad = ["a: [[[[x]]]]\nb: [2]\n", "a: {p: {q: {r: s}}}\nb: [1]\n", "a: 1\nb: [[1, 2], 3]\n", "a: zz\nb: [1, 2, 3, 4, 5, 6, 7, 8, 9]\n",
               "a: &k [1, 2, 3]\nb: *k\nc: *k\n"];
    // what one good document needs under the per-document policy (measured on a stream of one)
    let rounds = if ctx.quick() { 40 } else { 400 };
    for round in 0..rounds {
        let k = 2 + rng.below(4);
        let mut docs: Vec<(&str, bool)> = Vec::new();
        for _ in 0..k {
            if rng.chance(1, 3) { docs.push((*rng.pick(&bad), false)) } else { docs.push((*rng.pick(&good), true)) }
        }
        docs.push((*rng.pick(&good), true));
        let mut stream = String::new();
        for (d, _) in &docs {
            stream.push_str("---\n");
            stream.push_str(d);
        }
        // a budget under which every good document alone is accepted: depth 2, and generous others,
        // or (other rounds) events/nodes limited to what the largest good document needs
        let mut b = live::big_budget();
        match round % 3 {
            0 => b.max_depth = 2,
            1 => b.max_nodes = 8,
            _ => b.max_events = 14,
        }
        // each good document alone must pass with this budget (sanity of the oracle)
        if docs.iter().any(|(d, g)| *g && iterate(&format!("---\n{d}"), &b) != vec!["Ok".to_string()]) {
            ctx.count("perdoc_iter_oracle_skipped");
            continue;
        }
        ctx.direct_evaluations += 1;
        let got = iterate(&stream, &b);
        let mut ok = got.len() == docs.len();
        if ok {
            for (g, (_, is_good)) in got.iter().zip(docs.iter()) {
                if *is_good && g != "Ok" {
                    ok = false;
                }
            }
        }
        if !ok {
            let class = if got.iter().any(|g| g.starts_with("Budget:")) { "F3:skip-bypasses-budget" } else { "perdoc-iterator" };
            ctx.fail(class, format!("read_with_options over {} documents gave {got:?}; good documents (each accepted alone) are at {:?}", docs.len(),
                docs.iter().map(|(_, g)| *g).collect::<Vec<_>>()), json!({"kind": "perdoc_iter", "text": stream, "budget": serde_json::to_value(&b).unwrap(),
                "good": docs.iter().map(|(_, g)| *g).collect::<Vec<_>>()}));
        }
    }
    let mut b = live::big_budget();
    b.max_depth = 2;
    let got = iterate("---\na: 1\nb: [1, 2]\n---\na: [[[[x]]]]\nb: [2]\n---\na: 1\nb: [1, 2]\n", &b);
    ctx.witness("F3", got.len() != 3 || got[2] != "Ok", "read_with_options: a valid document after a failed one is rejected by max_depth (stale depth after skip_to_next_document)");
}

fn replay(ctx: &mut Ctx, r: &serde_json::Value) {
    let text = r["text"].as_str().unwrap_or("");
    match r["kind"].as_str().unwrap_or("") {
        "pump" => {
            let o = PumpOpts::from_json(&r["opts"]);
            let (res, rep) = live::run_pump(text, &o);
            println!("replay pump on {text:?}\n  delivered {} events, error {:?}, finish error {:?}\n  report {:?}", res.events.len(),
                res.error.as_ref().map(|e| e.to_string()), res.finish_error.as_ref().map(|e| e.to_string()), rep);
            if let Some(q) = r["counter"].as_str() {
                let usage = r["usage"].as_u64().unwrap_or(0) as usize;
                let limit = o.budget.as_ref().map(|b| usage_of_budget(b, q)).unwrap_or(0);
                let b = pump_breach(&res);
                let ok = if limit >= usage { b.is_none() } else { b == Some(q) };
                if !ok {
                    ctx.fail("threshold", "replayed".into(), r.clone());
                }
            }
        }
        "callbacks" => {
            let b: Budget = serde_json::from_value(r["budget"].clone()).unwrap();
            let (res, c, f) = typed_with_both_callbacks(text, &b);
            println!("replay callbacks: result {:?}\n  closure {:?}\n  fn      {:?}", res.map_err(|e| e.to_string()), c, f);
            if c.as_ref().map(|r| serde_json::to_string(r).unwrap_or_default()) != f.as_ref().map(|r| serde_json::to_string(r).unwrap_or_default()) {
                ctx.fail("report-callbacks-differ", "replayed".into(), r.clone());
            }
        }
        "typed_breach" => {
            let mut so = serde_saphyr::Options::default();
            so.budget = Some(with_limit(r["counter"].as_str().unwrap_or(""), r["limit"].as_u64().unwrap_or(0) as usize));
            if crate::rt::from_str_rt(text, &crate::rt::Ty::Any, so).is_ok() {
                ctx.fail("breach-dropped", "replayed".into(), r.clone());
            }
        }
        "perdoc" => {
            let b: Budget = serde_json::from_value(r["budget"].clone()).unwrap();
            let res = pump_reader_perdoc(text, &b);
            println!("replay per-document stream: breach {:?}", pump_breach(&res));
            if pump_breach(&res).is_some() {
                ctx.fail("perdoc-dependence", "replayed".into(), r.clone());
            }
        }
        "perdoc_iter" => {
            let b: Budget = serde_json::from_value(r["budget"].clone()).unwrap();
            let got = iterate(text, &b);
            let good: Vec<bool> = r["good"].as_array().map(|a| a.iter().map(|x| x.as_bool().unwrap_or(false)).collect()).unwrap_or_default();
            println!("replay iterator: {got:?}, good documents at {good:?}");
            if got.len() != good.len() || got.iter().zip(good.iter()).any(|(g, is_good)| *is_good && g != "Ok") {
                ctx.fail("perdoc-iterator", "replayed".into(), r.clone());
            }
        }
        "report" => {
            let (r0, rep0) = live::run_pump(text, &PumpOpts::new(Some(live::big_budget())));
            let u = independent_usage(text, &r0.events, r0.synthesized_null);
            println!("replay report: implementation {rep0:?}\n  independent {u:?}");
            if let Some(rep) = rep0 {
                if rep.merge_keys != u.merge_keys || rep.nodes != u.nodes || rep.events != u.events {
                    ctx.fail("report-mismatch", "replayed".into(), r.clone());
                }
            }
        }
        _ => println!("replay: {r}"),
    }
}

fn usage_of_budget(b: &Budget, q: &str) -> usize {
    match q {
        "events" => b.max_events,
        "aliases" => b.max_aliases,
        "anchors" => b.max_anchors,
        "depth" => b.max_depth,
        "documents" => b.max_documents,
        "nodes" => b.max_nodes,
        "scalar_bytes" => b.max_total_scalar_bytes,
        _ => b.max_merge_keys,
    }
}
