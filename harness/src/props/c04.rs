//! C04 -- the duplicate-key policy is applied exactly, for keys of every YAML kind.
//!
//! K: typed deserialization (run-time seeds) vs `SS.Model.Deser` for documents with repeated keys
//!    of every kind x three policies x four target kinds.
//! S: Error => DuplicateMappingKey; FirstWins == document with the later entries deleted;
//!    LastWins delivers every entry in order; no repeated key => all policies agree.
use crate::ctx::Ctx;
use crate::deserk::{self, DOpts};
use crate::docgen::{self, GenCfg, Node, Sty};
use crate::rt::{Ty, Val};
use crate::util;
use serde_json::json;
use serde_saphyr::DuplicateKeyPolicy as P;

const HAND: &[&str] = &[
    "a: 1\na: 2\n",
    "a: 1\n\"a\": 2\n'a': 3\n",
    "{1: x, \"1\": y, !!str 1: z}\n",
    "? [1, 2]\n: x\n? [1, 2]\n: y\n",
    "? {a: b}\n: x\n? {a: b}\n: y\nc: d\n",
    "k: &k key\nm: {key: 1, *k : 2}\n",
    "a: {b: 1, b: {c: [1, 2, {d: e}]}, f: g}\nh: i\n",
    "a: [1, 2]\na: {x: [y, z], w: [[q]]}\nb: 3\n",
    "? \n: x\n~: y\nnull: z\n",
    "? : x\n: y\n",
    "{? {} : 1, ? {} : 2}\n",
    "{? {~ : p} : 1, ~ : 2}\n",
    "a: 1\nb: 2\nc: 3\n",
    "[{a: 1, a: 2}, {a: 3}]\n",
    "a: &x {p: 1}\na: *x\n",
    "? [!!str 1, 2]\n: x\n? [1, 2]\n: y\n? [!!str 1, 2]\n: z\n",
    "{? {m : [!!str t]} : 1, ? {m : [t]} : 2, ? {m : [!!str t]} : 3}\n",
];

/// structural key identity: kind, scalar text, tag class (by tag text), children; style/anchors ignored
fn same_key(a: &Node, b: &Node) -> bool {
    match (a, b) {
        (Node::Scalar { text: t1, tag: g1, sty: s1, anchor: a1 }, Node::Scalar { text: t2, tag: g2, sty: s2, anchor: a2 }) => {
            docgen::event_text(t1, *s1, g1, a1) == docgen::event_text(t2, *s2, g2, a2) && tag_class(g1) == tag_class(g2)
        }
        (Node::Seq { items: i1, .. }, Node::Seq { items: i2, .. }) => i1.len() == i2.len() && i1.iter().zip(i2).all(|(x, y)| same_key(x, y)),
        (Node::Map { entries: e1, .. }, Node::Map { entries: e2, .. }) => {
            e1.len() == e2.len() && e1.iter().zip(e2).all(|((k1, v1), (k2, v2))| same_key(k1, k2) && same_key(v1, v2))
        }
        _ => false,
    }
}
fn tag_class(t: &Option<String>) -> String {
    match t.as_deref() {
        None => "none".into(),
        Some("!!str") => "str".into(),
        Some("!!int") => "int".into(),
        Some("!!null") => "null".into(),
        Some("!!binary") => "binary".into(),
        Some("!!float") => "float".into(),
        Some("!!bool") => "bool".into(),
        Some("!") => "nonspecific".into(),
        Some(_) => "other".into(),
    }
}

fn has_dup(n: &Node) -> bool {
    match n {
        Node::Map { entries, .. } => {
            for (i, (k, v)) in entries.iter().enumerate() {
                if entries[..i].iter().any(|(k0, _)| same_key(k0, k)) || has_dup(k) || has_dup(v) {
                    return true;
                }
            }
            false
        }
        Node::Seq { items, .. } => items.iter().any(has_dup),
        _ => false,
    }
}

/// delete every later entry (key and whole value) whose key repeats an earlier one, recursively
fn dedup_first(n: &Node) -> Node {
    match n {
        Node::Map { entries, flow, anchor } => {
            let mut out: Vec<(Node, Node)> = Vec::new();
            let mut seen: Vec<&Node> = Vec::new();
            for (k, v) in entries {
                // keys are compared as written (the fingerprint is taken before the key is read)
                if seen.iter().any(|k0| same_key(k0, k)) {
                    continue;
                }
                seen.push(k);
                out.push((dedup_first(k), dedup_first(v)));
            }
            Node::Map { entries: out, flow: *flow, anchor: anchor.clone() }
        }
        Node::Seq { items, flow, tag, anchor } => Node::Seq { items: items.iter().map(dedup_first).collect(), flow: *flow, tag: tag.clone(), anchor: anchor.clone() },
        other => other.clone(),
    }
}

/// Independent reference for reading a node tree untyped with *every* entry delivered: scalars are
/// resolved by reading the scalar alone (that is property C06), containers structurally.
pub fn reference_any(n: &Node) -> Option<Val> {
    match n {
        Node::Scalar { text, sty, tag, .. } => {
            let alone = Node::Scalar { text: text.clone(), sty: *sty, tag: tag.clone(), anchor: None };
            let t = docgen::render_doc(&alone);
            deserk::run(&t, &Ty::Any, &DOpts::new(P::LastWins)).ok()
        }
        Node::Seq { items, .. } => Some(Val::Seq(items.iter().map(reference_any).collect::<Option<Vec<_>>>()?)),
        Node::Map { entries, .. } => {
            let mut out = Vec::new();
            for (k, v) in entries {
                out.push((reference_any(k)?, reference_any(v)?));
            }
            Some(Val::Map(out))
        }
        Node::Alias(_) => None,
    }
}

/// Structured family of key pairs: keys that differ in exactly one leaf (at every depth and inside
/// sequences / mappings nested in the key) must NOT be duplicates; keys that are equal up to style
/// and anchors must be.  Each document is a one-line flow mapping {k1 : v1, k2 : v2, z : 0}.
fn key_pair_family() -> Vec<(Node, bool)> {
    let p = |t: &str| Node::plain(t);
    let q = |t: &str| Node::Scalar { text: t.to_string(), sty: Sty::Double, tag: None, anchor: None };
    let seq = |items: Vec<Node>| Node::Seq { items, flow: true, tag: None, anchor: None };
    let map = |entries: Vec<(Node, Node)>| Node::Map { entries, flow: true, anchor: None };
    let bases: Vec<Node> = vec![
        p("a"),
        seq(vec![p("1"), p("2")]),
        seq(vec![seq(vec![p("1"), p("2")]), p("x")]),
        seq(vec![p("x"), seq(vec![p("1"), seq(vec![p("2"), p("3")])])]),
        seq(vec![map(vec![(p("m"), p("1"))]), p("x")]),
        map(vec![(p("m"), p("1")), (p("n"), p("2"))]),
        map(vec![(p("m"), seq(vec![p("1"), p("2")]))]),
        map(vec![(seq(vec![p("1"), p("2")]), p("v"))]),
        map(vec![(p("m"), map(vec![(p("i"), seq(vec![p("1")]))]))]),
        seq(vec![seq(vec![]), seq(vec![seq(vec![])])]),
        // tagged scalars nested in the key (the tag is part of the key's identity at every depth)
        seq(vec![Node::Scalar { text: "1".into(), sty: Sty::Plain, tag: Some("!!str".into()), anchor: None }, p("2")]),
        map(vec![(p("m"), seq(vec![Node::Scalar { text: "t".into(), sty: Sty::Plain, tag: Some("!!str".into()), anchor: None }]))]),
    ];
    fn leaves(n: &Node) -> usize {
        match n {
            Node::Seq { items, .. } => items.iter().map(leaves).sum(),
            Node::Map { entries, .. } => entries.iter().map(|(k, v)| leaves(k) + leaves(v)).sum(),
            _ => 1,
        }
    }
    fn change_leaf(n: &Node, idx: &mut isize) -> Node {
        match n {
            Node::Seq { items, flow, tag, anchor } => Node::Seq { items: items.iter().map(|i| change_leaf(i, idx)).collect(), flow: *flow, tag: tag.clone(), anchor: anchor.clone() },
            Node::Map { entries, flow, anchor } => Node::Map { entries: entries.iter().map(|(k, v)| (change_leaf(k, idx), change_leaf(v, idx))).collect(), flow: *flow, anchor: anchor.clone() },
            Node::Scalar { text, sty, tag, anchor } => {
                *idx -= 1;
                if *idx == -1 { Node::Scalar { text: format!("{text}9"), sty: *sty, tag: tag.clone(), anchor: anchor.clone() } } else { n.clone() }
            }
            other => other.clone(),
        }
    }
    /// leaf number `idx` gets the tag `!!str` if it has none, and loses its tag if it has one
    fn retag_leaf(n: &Node, idx: &mut isize) -> Node {
        match n {
            Node::Seq { items, flow, tag, anchor } => Node::Seq { items: items.iter().map(|i| retag_leaf(i, idx)).collect(), flow: *flow, tag: tag.clone(), anchor: anchor.clone() },
            Node::Map { entries, flow, anchor } => Node::Map { entries: entries.iter().map(|(k, v)| (retag_leaf(k, idx), retag_leaf(v, idx))).collect(), flow: *flow, anchor: anchor.clone() },
            Node::Scalar { text, sty, tag, anchor } => {
                *idx -= 1;
                if *idx == -1 {
                    Node::Scalar { text: text.clone(), sty: *sty, tag: if tag.is_some() { None } else { Some("!!str".into()) }, anchor: anchor.clone() }
                } else {
                    n.clone()
                }
            }
            other => other.clone(),
        }
    }
    fn restyle(n: &Node) -> Node {
        match n {
            Node::Seq { items, tag, .. } => Node::Seq { items: items.iter().map(restyle).collect(), flow: true, tag: tag.clone(), anchor: Some("r".into()) },
            Node::Map { entries, .. } => Node::Map { entries: entries.iter().map(|(k, v)| (restyle(k), restyle(v))).collect(), flow: true, anchor: None },
            Node::Scalar { text, tag, .. } => Node::Scalar { text: text.clone(), sty: Sty::Single, tag: tag.clone(), anchor: None },
            other => other.clone(),
        }
    }
    let mut out = Vec::new();
    for b in &bases {
        // same key, different style / anchors
        out.push((map(vec![(b.clone(), p("first")), (restyle(b), q("second")), (p("z"), p("0"))]), true));
        // one leaf changed, for every leaf
        for i in 0..leaves(b) {
            let mut idx = i as isize;
            let other = change_leaf(b, &mut idx);
            out.push((map(vec![(b.clone(), p("first")), (other, q("second")), (p("z"), p("0"))]), false));
            // the same leaf with the same text but a different tag: not the same key either
            let mut idx = i as isize;
            let other = retag_leaf(b, &mut idx);
            out.push((map(vec![(b.clone(), p("first")), (other, q("second")), (p("z"), p("0"))]), false));
        }
        // an element more / a different container kind
        if let Node::Seq { items, .. } = b {
            let mut more = items.clone();
            more.push(p("extra"));
            out.push((map(vec![(b.clone(), p("first")), (seq(more), q("second"))]), false));
        }
    }
    out
}

/// 1-based (line, column) in characters of the second occurrence of `needle` in a one-line text
fn second_occurrence(text: &str, needle: &str) -> Option<(u64, u64)> {
    let first = text.find(needle)?;
    let second = text[first + needle.len()..].find(needle)? + first + needle.len();
    Some((1, text[..second].chars().count() as u64 + 1))
}

fn targets() -> Vec<Ty> {
    let any = || Box::new(Ty::Any);
    vec![
        Ty::Any,
        Ty::Pairs(any(), any()),
        Ty::Map(any(), any()),
        Ty::Struct(vec![("a".into(), Ty::Option(any())), ("b".into(), Ty::Option(any())), ("k".into(), Ty::Option(any()))], false),
        Ty::Map(Box::new(Ty::Option(Box::new(Ty::String))), any()),
    ]
}

pub fn run(ctx: &mut Ctx) {
    util::quiet_panics();
    ctx.set_case_format("From SS Require Import Corr.Deser.\nLocal Open Scope N_scope.", "case", "check_case");
    ctx.rule = "cases: (document with repeated keys of scalar/sequence/mapping/alias kind, generated or hand-written) x duplicate-key \
                policy x target kind (untyped, pairs, overwriting map, struct, Option-keyed map); distinct = distinct Coq case term; \
                non-trivial = the document contains a mapping with a repeated key".into();
    if let Some(r) = ctx.replay.clone() {
        replay(ctx, &r);
        return;
    }
    let quick = ctx.quick();
    let mut rng = ctx.rng.fork();
    let tys = targets();
    let mut docs: Vec<(String, Option<Node>)> = HAND.iter().map(|s| (s.to_string(), None)).collect();
    for i in 0..(if quick { 300 } else { 4000 }) {
        let mut cfg = GenCfg::default_for(if quick { 12 } else { 25 });
        cfg.merges = false;
        cfg.anchors = i % 3 == 0;
        cfg.dup_keys = true;
        cfg.tags = i % 4 == 0;
        let d = docgen::gen_doc(&mut rng, &cfg);
        docs.push((docgen::render_doc(&d), Some(d)));
    }
    // structured key pairs: duplicate detection is exact and the error points at the repeated key
    for (n, is_dup) in key_pair_family() {
        let text = docgen::render_doc(&n);
        ctx.direct_evaluations += 1;
        let replay = json!({"kind": "policies", "text": text});
        let re = util::no_panic(|| deserk::run(&text, &Ty::Any, &DOpts::new(P::Error)));
        match (is_dup, &re) {
            (true, Ok(Err(er))) if crate::coq::variant_name(er) == "DuplicateMappingKey" => {
                // the repeated key is the second key of the flow mapping: its rendering occurs... the
                // second key is a restyled copy, so locate it by its own rendering
                if let Node::Map { entries, .. } = &n {
                    // a node's position is where its content starts, after any anchor / tag
                    let mut bare = entries[1].0.clone();
                    if let Node::Seq { anchor, .. } | Node::Map { anchor, .. } | Node::Scalar { anchor, .. } = &mut bare {
                        *anchor = None;
                    }
                    let ks = docgen::render_flow(&bare);
                    let want = text.find(&ks).map(|i| (1u64, text[..i].chars().count() as u64 + 1));
                    let got = er.without_snippet().location().map(|l| (l.line(), l.column()));
                    if want.is_some() && got != want {
                        ctx.fail("duplicate-key-location", format!("Error policy on {text:?}: reported at {got:?}, the repeated key starts at {want:?}"), replay.clone());
                    }
                }
            }
            (true, other) => ctx.fail("error-policy", format!("Error policy on {text:?}: expected DuplicateMappingKey, got {:?}", other.as_ref().map(|r| r.as_ref().map_err(|e| crate::coq::variant_name(e)))), replay.clone()),
            (false, Ok(Ok(_))) => {}
            (false, other) => ctx.fail("nodup-policy-differs", format!("keys of {text:?} differ in one leaf but the Error policy gives {:?}", other.as_ref().map(|r| r.as_ref().map_err(|e| crate::coq::variant_name(e)))), replay.clone()),
        }
        docs.push((text, Some(n)));
    }
    // wide mappings: n distinct keys (scalar, and a few sequence / mapping keys) with one key -- an early, a middle or
    // a late one -- repeated somewhere after it: the seen-set must remember every key however many there are
    {
        let p = |t: &str| Node::plain(t);
        let sizes: &[usize] = if quick { &[3, 8, 9, 10, 17, 33] } else { &[2, 3, 7, 8, 9, 10, 15, 16, 17, 31, 32, 33, 64, 65, 129, 300] };
        for &n in sizes {
            let key = |i: usize| match i % 7 {
                5 => Node::Seq { items: vec![p(&format!("s{i}")), p("x")], flow: true, tag: None, anchor: None },
                6 => Node::Map { entries: vec![(p(&format!("m{i}")), p("y"))], flow: true, anchor: None },
                _ => p(&format!("k{i}")),
            };
            let mut picks: Vec<(usize, usize)> = vec![(0, n), (0, 1), (n / 2, n), (n - 1, n), (1, n / 2 + 1), (n - 2, n - 1)];
            picks.dedup();
            for (which, at) in picks {
                if which >= n || at > n || at <= which {
                    continue;
                }
                // the n keys in order, with key `which` inserted again before position `at` (at == n: at the end)
                let mut entries: Vec<(Node, Node)> = Vec::new();
                for i in 0..n {
                    if i == at {
                        entries.push((key(which), p("again")));
                    }
                    entries.push((key(i), p(&i.to_string())));
                }
                if at == n {
                    entries.push((key(which), p("again")));
                }
                for flow in [false, true] {
                    let d = Node::Map { entries: entries.clone(), flow, anchor: None };
                    docs.push((docgen::render_doc(&d), Some(d)));
                }
            }
            // and the same n keys without any repetition
            let d = Node::Map { entries: (0..n).map(|i| (key(i), p(&i.to_string()))).collect(), flow: false, anchor: None };
            docs.push((docgen::render_doc(&d), Some(d)));
        }
    }
    for (text, node) in &docs {
        let dup = node.as_ref().map(|n| docgen::expand(n).map(|e| has_dup(&e)).unwrap_or(false));
        for pol in [P::Error, P::FirstWins, P::LastWins] {
            // K
            let picks: Vec<&Ty> = if quick { vec![&tys[0], rng.pick(&tys[1..])] } else { tys.iter().collect() };
            for ty in picks {
                let o = DOpts::new(pol);
                let (term, _r, _rs) = deserk::deser_case(text, ty, &o);
                ctx.case(term, dup.unwrap_or(true), json!({"kind": "deser", "text": text, "ty": format!("{ty:?}"), "opts": o.json()}));
            }
        }
        // S (generated documents without aliases only: the reference works on the expanded tree)
        let Some(n) = node else { continue };
        let Some(e) = docgen::expand(n) else { continue };
        if docgen::has_anchored_empty_plain(n) {
            ctx.count("anchored_empty_plain_skipped_by_oracle");
            continue;
        }
        if docgen::has_explicit_empty_key(&e) {
            ctx.count("explicit_empty_key_form_skipped_by_oracle");
            continue;
        }
        if docgen::has_merge_key(&e) {
            ctx.count("doc_with_merge_key_skipped_by_oracle");
            continue;
        }
        let d = has_dup(&e);
        ctx.count(if d { "doc_with_repeated_key" } else { "doc_without_repeated_key" });
        let read = |p: P| util::no_panic(|| deserk::run(text, &Ty::Any, &DOpts::new(p)));
        let (Ok(re), Ok(rf), Ok(rl)) = (read(P::Error), read(P::FirstWins), read(P::LastWins)) else {
            ctx.fail("panic", format!("panic reading {text:?}"), json!({"kind": "policies", "text": text}));
            continue;
        };
        ctx.direct_evaluations += 3;
        let replay = json!({"kind": "policies", "text": text});
        let want_all = reference_any(&e);
        let want_first = reference_any(&dedup_first(&e));
        let (Some(want_all), Some(want_first)) = (want_all, want_first) else {
            ctx.count("reference_unavailable");
            continue;
        };
        if d {
            match &re {
                Err(er) if crate::coq::variant_name(er) == "DuplicateMappingKey" => {}
                other => ctx.fail("error-policy", format!("Error policy on {text:?}: expected DuplicateMappingKey, got {:?}", other.as_ref().map_err(|e| crate::coq::variant_name(e))), replay.clone()),
            }
        } else if re.as_ref().ok() != Some(&want_all) {
            ctx.fail("nodup-policy-differs", format!("no repeated key in {text:?} but Error policy gives {:?}, reference {want_all:?}", re.as_ref().map_err(|e| crate::coq::variant_name(e))), replay.clone());
        }
        if rf.as_ref().ok() != Some(&want_first) {
            ctx.fail("first-wins", format!("FirstWins on {text:?} gives {:?}, document with later entries deleted reads {want_first:?}", rf.as_ref().map_err(|e| crate::coq::variant_name(e))), replay.clone());
        }
        if rl.as_ref().ok() != Some(&want_all) {
            ctx.fail("last-wins", format!("LastWins on {text:?} gives {:?}, all entries in order are {want_all:?}", rl.as_ref().map_err(|e| crate::coq::variant_name(e))), replay.clone());
        }
    }
    let _ = (Sty::Plain, second_occurrence("", "x"));
}

fn replay(ctx: &mut Ctx, r: &serde_json::Value) {
    let text = r["text"].as_str().unwrap_or("");
    for p in [P::Error, P::FirstWins, P::LastWins] {
        println!("replay {text:?} under {p:?}: {:?}", deserk::run(text, &Ty::Any, &DOpts::new(p)).map_err(|e| e.to_string()));
    }
    let _ = ctx;
}
