//! C12 -- every scalar value survives serialization and deserialization unchanged.
//!
//! K: the plain-safety predicates, the quoting decision and the escapers (value and key position),
//!    the parser's reading of quoted tokens, and the float text normalisation vs `SS.Model.SerScalar`;
//!    literal block scalars: header and body lines the serializer writes for LitString(v) (root, map
//!    value, sequence item, key after a dash; indent steps 2-4) vs `SS.Model.BlockScalar.emit_literal`,
//!    and the parser's reading of those texts and of perturbed headers / blank lines vs `read_literal`;
//!    folded blocks of one paragraph (long one-line strings x wrap columns) vs `SS.Model.FoldedPar`.
//! S: strings over an adversarial alphabet x positions x option vectors, integer boundaries, floats
//!    (bit for bit, grammar of the emitted text), chars, bools, unit/None, byte arrays: serialize,
//!    deserialize back into the same type, compare; the emitted string also reads back as that string
//!    through the untyped tree (never null / number / boolean / merge / marker); mapping-key positions
//!    (block / flow map keys) for strings and all integer widths; block and folded round trips.
use crate::coq;
use crate::ctx::{Ctx, Rng};
use crate::tree::Tree;
use crate::util;
use serde::{Deserialize, Serialize};
use serde_json::json;
use serde_saphyr::__verif as hooks;
use std::collections::BTreeMap;

const ATOMS: &[&str] = &[
    "a", "b", "z", "0", "1", "9", "-", "+", ".", "_", "e", "E", "x", "o", ":", " ", "#", ",", "[", "]", "{", "}", "&", "*", "!", "|", ">", "'", "\"", "%", "@", "`",
    "?", "~", "<", "=", "\\", "/", "\n", "\t", "\r", "\0", "\u{7}", "\u{1b}", "\u{7f}", "\u{85}", "\u{9b}", "\u{a0}", "\u{feff}", "\u{2028}", "\u{2029}", "é", "日", "😀", "y", "n", "N", "T", "F",
];
const WORDS: &[&str] = &[
    "", "~", "null", "Null", "NULL", "nUll", "true", "True", "false", "FALSE", "yes", "No", "on", "OFF", "y", "n", "<<", "---", "...", "--- a", "... b", "---x", "- a", "-", "?", "? a", "a: b", "a:", "a :",
    "a #b", "a# b", "#a", " a", "a ", "a\t", "\ta", "a\n", "\na", "a\nb", "a\n\nb", ".nan", ".NaN", ".inf", "-.INF", "+.inf", "nan", "inf", "+inf", "-inf", "NaN", "0x1F", "0o17", "0b101", "0X1F", "0O17", "0B101", "-0X1f", "+0O7", "0XaBc", "0x_1", "1E3", "1.E3", "+.5", "1._5", "0e0", "1:30", "190:20:30", "1_000",
    "1.5", "1.", ".5", "1e3", "1E+3", "1.5e-3", "-1", "+1", "007", "0", "-0", "1_", "_1", "0x", "1e", "e1", "1.2.3", "12:30", "12:30:45", "2001-01-01", "\u{feff}a", "a\u{feff}", "!tag", "&a", "*a",
    "[a]", "{a}", "a,b", "a]", "|", ">", "%YAML", "@a", "`a", "'a'", "\"a\"", "it's", "say \"hi\"", "back\\slash", "tab\there", "bell\u{7}", "nel\u{85}x", "ls\u{2028}x", "日本語", "😀 emoji", "key: value # c",
    "a: ", ": a", "a:b", "http://x", "- ", "-- a", "....", "--", "..", "=", "<", "<<<", "<< ", "\u{a0}a", "a\u{a0}", "\u{3000}a",
];

fn gen_string(rng: &mut Rng) -> String {
    match rng.below(6) {
        0 => rng.pick(WORDS).to_string(),
        1 => format!("{}{}", rng.pick(WORDS), rng.pick(ATOMS)),
        2 => format!("{}{}", rng.pick(ATOMS), rng.pick(WORDS)),
        _ => {
            let long = rng.chance(1, 20);
            let n = 1 + rng.below(if long { 200 } else { 6 });
            (0..n).map(|_| *rng.pick(ATOMS)).collect()
        }
    }
}

fn sopts(quote_all: bool, yaml_12: bool, block: bool, indent: usize, compact: bool) -> serde_saphyr::SerializerOptions {
    #[allow(deprecated)]
    let mut o = serde_saphyr::SerializerOptions::default();
    #[allow(deprecated)]
    {
        o.quote_all = quote_all;
        o.yaml_12 = yaml_12;
        o.prefer_block_scalars = block;
        o.indent_step = indent;
        o.compact_list_indent = compact;
    }
    o
}
fn dopts(strict: bool) -> serde_saphyr::Options {
    #[allow(deprecated)]
    let mut o = serde_saphyr::Options::default();
    #[allow(deprecated)]
    {
        o.strict_booleans = strict;
        o.with_snippet = false;
    }
    o
}

fn strip_prologue(t: &str) -> &str {
    t.strip_prefix("%YAML 1.2\n---\n").unwrap_or(t)
}

fn k_string(ctx: &mut Ctx, s: &str) {
    for y12 in [false, true] {
        for flow in [false, true] {
            let n = hooks::ser_is_numeric_looking(s);
            let a = hooks::ser_is_ambiguous(s);
            let av = hooks::ser_is_ambiguous_value(s, y12);
            let (ps, pvs) = if s.is_empty() { (false, false) } else { (hooks::ser_is_plain_safe(s), hooks::ser_is_plain_value_safe(s, y12, flow)) };
            ctx.case(
                format!("CPred {} {} {} {} {} {} {} {}", coq::s(s), coq::b(y12), coq::b(flow), coq::b(n), coq::b(a), coq::b(av), coq::b(ps), coq::b(pvs)),
                pvs != ps || n,
                json!({"kind": "pred", "s": s, "yaml_12": y12, "flow": flow}),
            );
        }
        for qa in [false, true] {
            if let Ok(out) = serde_saphyr::to_string_with_options(&s, sopts(qa, y12, false, 2, false)) {
                let body = strip_prologue(&out);
                let body = body.strip_suffix('\n').unwrap_or(body);
                ctx.case(format!("CEmitValue {} {} {} {}", coq::s(s), coq::b(qa), coq::b(y12), coq::s(body)), body != s, json!({"kind": "emit_value", "s": s, "quote_all": qa, "yaml_12": y12}));
            }
        }
        let mut m = BTreeMap::new();
        m.insert(s.to_string(), 1);
        if let Ok(out) = serde_saphyr::to_string_with_options(&m, sopts(false, y12, false, 2, false)) {
            let body = strip_prologue(&out);
            if let Some(k) = body.strip_suffix(": 1\n") {
                ctx.case(format!("CEmitKey {} {} {}", coq::s(s), coq::b(y12), coq::s(k)), k != s, json!({"kind": "emit_key", "s": s, "yaml_12": y12}));
            } else {
                ctx.count("emit_key_unparsed_layout");
            }
        }
    }
}

fn scalar_of(text: &str) -> Option<String> {
    let mut it = saphyr_parser::Parser::new_from_str(text);
    let mut found = None;
    loop {
        match it.next() {
            Some(Ok((saphyr_parser::Event::Scalar(v, ..), _))) => {
                if found.is_some() {
                    return None;
                }
                found = Some(v.to_string());
            }
            Some(Ok(_)) => {}
            Some(Err(_)) => return None,
            None => break,
        }
    }
    found
}

#[derive(Serialize, Deserialize, Debug, PartialEq, Clone)]
enum Wrap<T> {
    New(T),
    Pair(T, T),
    Rec { f: T },
}
#[derive(Serialize, Deserialize, Debug, PartialEq, Clone)]
struct Holder<T> {
    first: T,
    list: Vec<T>,
    nested: BTreeMap<String, Vec<T>>,
    flow: serde_saphyr::FlowSeq<Vec<T>>,
    last: T,
}

/// every position a scalar can be emitted in, one round trip each; returns the first mismatch
fn positions<T>(v: &T, so: serde_saphyr::SerializerOptions, strict: bool) -> Option<String>
where
    T: Serialize + serde::de::DeserializeOwned + PartialEq + std::fmt::Debug + Clone,
{
    fn rt<U: Serialize + serde::de::DeserializeOwned + PartialEq + std::fmt::Debug>(what: &str, u: &U, so: serde_saphyr::SerializerOptions, strict: bool) -> Option<String> {
        let text = match serde_saphyr::to_string_with_options(u, so) {
            Ok(t) => t,
            Err(e) => return Some(format!("{what}: serialization failed: {e:?}")),
        };
        match serde_saphyr::from_str_with_options::<U>(&text, dopts(strict)) {
            Ok(back) if back == *u => None,
            Ok(back) => Some(format!("{what}: emitted {text:?}, read back {back:?}")),
            Err(e) => Some(format!("{what}: emitted {text:?}, reading fails: {}", e.to_string().lines().next().unwrap_or(""))),
        }
    }
    let mut nested = BTreeMap::new();
    nested.insert("k".to_string(), vec![v.clone()]);
    let h = Holder { first: v.clone(), list: vec![v.clone(), v.clone()], nested, flow: serde_saphyr::FlowSeq(vec![v.clone(), v.clone()]), last: v.clone() };
    rt("root", v, so, strict)
        .or_else(|| rt("sequence", &vec![v.clone(), v.clone()], so, strict))
        .or_else(|| rt("struct / nested / flow", &h, so, strict))
        .or_else(|| rt("newtype variant", &Wrap::New(v.clone()), so, strict))
        .or_else(|| rt("tuple variant", &Wrap::Pair(v.clone(), v.clone()), so, strict))
        .or_else(|| rt("struct variant", &Wrap::Rec { f: v.clone() }, so, strict))
        // (Some(()) and None are the same document: the unit type is left out of the option position)
        .or_else(|| if std::mem::size_of::<T>() == 0 { None } else { rt("option", &Some(v.clone()), so, strict) })
}

/// the mapping-key positions: key of a block mapping (at the root, after a dash, nested), of a flow mapping (at the
/// root = the outermost flow collection, inside a block sequence, inside a flow sequence)
fn key_positions<K>(k: &K, so: serde_saphyr::SerializerOptions, strict: bool) -> Option<String>
where
    K: Serialize + serde::de::DeserializeOwned + Ord + std::fmt::Debug + Clone,
{
    fn rt<U: Serialize + serde::de::DeserializeOwned + PartialEq + std::fmt::Debug>(what: &str, u: &U, so: serde_saphyr::SerializerOptions, strict: bool) -> Option<String> {
        let text = match serde_saphyr::to_string_with_options(u, so) {
            Ok(t) => t,
            Err(e) => return Some(format!("{what}: serialization failed: {e:?}")),
        };
        match serde_saphyr::from_str_with_options::<U>(&text, dopts(strict)) {
            Ok(back) if back == *u => None,
            Ok(back) => Some(format!("{what}: emitted {text:?}, read back {back:?}")),
            Err(e) => Some(format!("{what}: emitted {text:?}, reading fails: {}", e.to_string().lines().next().unwrap_or(""))),
        }
    }
    let m: BTreeMap<K, i32> = BTreeMap::from([(k.clone(), 1)]);
    let mut outer: BTreeMap<String, BTreeMap<K, i32>> = BTreeMap::new();
    outer.insert("o".into(), m.clone());
    rt("block map key", &m, so, strict)
        .or_else(|| rt("block map key after a dash", &vec![m.clone()], so, strict))
        .or_else(|| rt("nested block map key", &outer, so, strict))
        .or_else(|| rt("flow map key (outermost flow collection)", &serde_saphyr::FlowMap(m.clone()), so, strict))
        .or_else(|| rt("flow map key in a block sequence", &vec![serde_saphyr::FlowMap(m.clone())], so, strict))
        .or_else(|| rt("map key inside a flow sequence", &serde_saphyr::FlowSeq(vec![m.clone()]), so, strict))
}

fn option_vectors(quick: bool) -> Vec<(serde_saphyr::SerializerOptions, bool, String)> {
    let mut v = Vec::new();
    for qa in [false, true] {
        for y12 in [false, true] {
            for block in [true, false] {
                for (indent, compact) in if quick { vec![(2, false), (4, true)] } else { vec![(2, false), (2, true), (4, false), (4, true), (1, false), (8, false)] } {
                    v.push((sopts(qa, y12, block, indent, compact), y12, format!("quote_all={qa} yaml_12={y12} prefer_block={block} indent={indent} compact={compact}")));
                }
            }
        }
    }
    v
}

#[derive(Debug, PartialEq, Clone)]
struct Bytes(Vec<u8>);
impl Serialize for Bytes {
    fn serialize<S: serde::Serializer>(&self, s: S) -> Result<S::Ok, S::Error> {
        s.serialize_bytes(&self.0)
    }
}
impl<'de> Deserialize<'de> for Bytes {
    fn deserialize<D: serde::Deserializer<'de>>(d: D) -> Result<Self, D::Error> {
        struct V;
        impl<'de> serde::de::Visitor<'de> for V {
            type Value = Bytes;
            fn expecting(&self, f: &mut std::fmt::Formatter) -> std::fmt::Result {
                f.write_str("bytes")
            }
            fn visit_bytes<E: serde::de::Error>(self, v: &[u8]) -> Result<Bytes, E> {
                Ok(Bytes(v.to_vec()))
            }
            fn visit_byte_buf<E: serde::de::Error>(self, v: Vec<u8>) -> Result<Bytes, E> {
                Ok(Bytes(v))
            }
            fn visit_seq<A: serde::de::SeqAccess<'de>>(self, mut a: A) -> Result<Bytes, A::Error> {
                let mut out = Vec::new();
                while let Some(b) = a.next_element::<u8>()? {
                    out.push(b);
                }
                Ok(Bytes(out))
            }
        }
        d.deserialize_byte_buf(V)
    }
}

fn float_shape_ok(t: &str) -> bool {
    if matches!(t, ".nan" | ".inf" | "-.inf") {
        return true;
    }
    let t = t.strip_prefix('-').unwrap_or(t);
    let (mant, exp) = match t.find(['e', 'E']) {
        Some(p) => (&t[..p], Some(&t[p + 1..])),
        None => (t, None),
    };
    let Some((ip, fr)) = mant.split_once('.') else { return false };
    let digits = |x: &str| !x.is_empty() && x.bytes().all(|b| b.is_ascii_digit());
    if !digits(ip) || !digits(fr) {
        return false;
    }
    match exp {
        None => true,
        Some(e) => (e.starts_with('+') || e.starts_with('-')) && digits(&e[1..]),
    }
}


// ------------------------------------------------------------------ literal block scalars

/// header (`|`, optional digit, optional chomping indicator) and body lines of the single literal block in `text`
/// (the first line ends with the header); None when the serializer fell back to another style
fn split_block(text: &str) -> Option<(Option<u32>, &'static str, Vec<String>)> {
    let nl = text.find('\n')?;
    let first = &text[..nl];
    let bar = first.rfind('|')?;
    let hdr = &first[bar + 1..];
    let mut chars = hdr.chars().peekable();
    let mut digit = None;
    if let Some(c) = chars.peek().copied() {
        if c.is_ascii_digit() {
            digit = c.to_digit(10);
            chars.next();
        }
    }
    let chomp = match chars.next() {
        None => "Clip",
        Some('-') => "Strip",
        Some('+') => "Keep",
        Some(_) => return None,
    };
    if chars.next().is_some() || !first[..bar].chars().all(|c| matches!(c, 'k' | ':' | ' ' | '-')) {
        return None;
    }
    let body = &text[nl + 1..];
    let mut lines: Vec<String> = body.split('\n').map(|l| l.to_string()).collect();
    if lines.last().map(|l| l.is_empty()).unwrap_or(false) {
        lines.pop();
    } else if !body.is_empty() {
        return None; // a body without a final line break: not what the serializer writes
    }
    Some((digit, chomp, lines))
}

/// the value of the only literal scalar of `text` as the parser reads it (None: error or another structure)
fn literal_of(text: &str, scalars_expected: usize) -> Option<String> {
    let mut it = saphyr_parser::Parser::new_from_str(text);
    let mut found = None;
    let mut scalars = 0;
    loop {
        match it.next() {
            Some(Ok((saphyr_parser::Event::Scalar(v, style, ..), _))) => {
                scalars += 1;
                if matches!(style, saphyr_parser::ScalarStyle::Literal) {
                    if found.is_some() {
                        return None;
                    }
                    found = Some(v.to_string());
                }
            }
            Some(Ok(_)) => {}
            Some(Err(_)) => return None,
            None => break,
        }
    }
    if scalars == scalars_expected { found } else { None }
}

fn lines_term(lines: &[String]) -> String {
    coq::list(&lines.iter().map(|l| coq::s(l)).collect::<Vec<_>>(), "str")
}

/// K: what the serializer writes for LitString(v) (header, body lines) == emit_literal; what the parser reads from
/// that text, and from perturbed headers / blank lines, == read_literal.  S: the round trip itself.
fn block_scalars(ctx: &mut Ctx, quick: bool, rng: &mut crate::ctx::Rng) {
    use serde_saphyr::LitString;
    use std::collections::BTreeMap;
    let alphabet = ['a', ' ', '\n', '\t', '#', ':', '-', 'é'];
    let max_len = if quick { 4 } else { 5 };
    let mut strings: Vec<String> = vec![String::new()];
    let mut frontier = vec![String::new()];
    for _ in 0..max_len {
        let mut next = Vec::new();
        for s in &frontier {
            for c in alphabet {
                let mut t = s.clone();
                t.push(c);
                next.push(t);
            }
        }
        strings.extend(next.iter().cloned());
        frontier = next;
    }
    for _ in 0..(if quick { 300 } else { 5000 }) {
        let n = 5 + rng.below(20);
        strings.push((0..n).map(|_| *rng.pick(&alphabet)).collect());
    }
    for v in &strings {
        let pos = rng.below(4);
        let step = *rng.pick(&[2usize, 2, 2, 4, 3]);
        let mut so = serde_saphyr::SerializerOptions::default();
        so.indent_step = step;
        let (text, prefix_scalars) = match pos {
            0 => (serde_saphyr::to_string_with_options(&BTreeMap::from([("k", LitString(v.clone()))]), so), 1),
            1 => (serde_saphyr::to_string_with_options(&LitString(v.clone()), so), 0),
            2 => (serde_saphyr::to_string_with_options(&vec![LitString(v.clone())], so), 0),
            // the value of a key that sits inline after a dash (column 2, whatever the indentation step)
            _ => (serde_saphyr::to_string_with_options(&vec![BTreeMap::from([("k", LitString(v.clone()))])], so), 1),
        };
        let Ok(text) = text else {
            ctx.count("block:serializer_error");
            continue;
        };
        let Some((digit, chomp, lines)) = split_block(&text) else {
            ctx.count("block:fallback_to_other_style");
            continue;
        };
        ctx.count(&format!("block:position_{pos}_step_{step}"));
        let replay = json!({"kind": "block", "s": v, "position": pos, "indent_step": step, "text": text});
        // the parent node's indentation: 0, except for the key after a dash (column 2)
        let parent = if pos == 3 { 2usize } else { 0 };
        // K1: the writer (body indentation = one step; below a key after a dash the body is laid out from the key)
        if pos != 3 {
            ctx.case(format!("CLitEmit {} {} {} {chomp} {}", coq::n(step as u128), coq::s(v), coq::b(digit.is_some()), lines_term(&lines)), v.contains('\n') || v.starts_with(' '), replay.clone());
        }
        // the indicator counts from the parent's indentation
        let digit = digit.map(|d| d + parent as u32);
        if let Some(d) = digit {
            ctx.direct_evaluations += 1;
            if pos != 3 && d as usize != step {
                ctx.fail("block-indicator-value", format!("LitString({v:?}) at body indentation {step} is written with the indicator {d}: {text:?}"), replay.clone());
            }
        }
        // K2: the reader on the very text
        let got = literal_of(&text, prefix_scalars + 1);
        // (at the very end of the input the parser gives a CLIPPED block of nothing but blank lines one line feed,
        // elsewhere the empty string: the reader model is the "elsewhere" one, see the perturbed documents below)
        if chomp == "Clip" && lines.iter().all(|l| l.chars().all(|c| c == ' ')) {
            ctx.count("block:reader_case_skipped_blank_clip_at_end_of_input");
        } else {
            ctx.case(format!("CLitRead {} {chomp} {} {}", coq::opt(&digit, |d| coq::n(*d as u128)), lines_term(&lines), coq::opt(&got, |g| coq::s(g))), true, replay.clone());
        }
        // S: the round trip
        ctx.direct_evaluations += 1;
        if got.as_deref() != Some(v.as_str()) {
            let only_breaks = v.chars().all(|c| c == '\n');
            let class = if only_breaks { "block-round-trip-only-breaks" } else { "block-round-trip" };
            ctx.fail(class, format!("LitString({v:?}) is written {text:?} and read back as {got:?}"), replay.clone());
        }
        // K3: perturbed headers and blank lines (map-value form), reader only
        if pos == 0 && rng.chance(1, if quick { 3 } else { 1 }) {
            let mut lines2 = lines.clone();
            let mut digit2 = digit;
            let mut chomp2 = chomp;
            match rng.below(5) {
                0 => chomp2 = *rng.pick(&["Strip", "Clip", "Keep"]),
                1 => digit2 = if digit.is_some() && rng.chance(1, 2) { None } else { Some(1 + rng.below(4) as u32) },
                2 => {
                    let blanks: Vec<usize> = lines2.iter().enumerate().filter(|(_, l)| l.chars().all(|c| c == ' ')).map(|(i, _)| i).collect();
                    if !blanks.is_empty() {
                        let i = *rng.pick(&blanks);
                        lines2[i] = " ".repeat(rng.below(step + 3));
                    }
                }
                3 => {
                    // (only when every other line is blank: a less indented `#` line is a comment, a less indented
                    // line of tabs ends the scalar -- outside the model, which is given the scalar's own lines)
                    if !lines2.is_empty() && lines2[1..].iter().all(|l| l.chars().all(|c| c == ' ')) {
                        lines2[0] = format!("{}{}", " ".repeat(1 + rng.below(2)), lines2[0]);
                    }
                }
                _ => {
                    lines2.push(" ".repeat(rng.below(step + 2)));
                    chomp2 = *rng.pick(&["Strip", "Clip", "Keep"]);
                }
            }
            // the reader model is given the scalar's own lines: a less indented line that starts with `#` (a comment) or
            // with a tab ends the scalar in the parser and is no part of it
            let lead = |l: &String| l.chars().take_while(|c| *c == ' ').count();
            let n_ind = digit2.map(|d| d as usize).or_else(|| lines2.iter().find(|l| l.chars().any(|c| c != ' ')).map(lead)).unwrap_or(0);
            if lines2.iter().any(|l| lead(l) < n_ind && matches!(l.chars().nth(lead(l)), Some('#') | Some('\t'))) {
                ctx.count("block:perturbed_case_outside_reader_model_skipped");
                continue;
            }
            let hdr = format!("{}{}", digit2.map(|d| d.to_string()).unwrap_or_default(), match chomp2 { "Strip" => "-", "Keep" => "+", _ => "" });
            let mut doc = format!("k: |{hdr}\n");
            for l in &lines2 {
                doc.push_str(l);
                doc.push('\n');
            }
            // never at the end of the input (there the parser gives a clipped block of blank lines one line feed)
            doc.push_str("j: 1\n");
            let got2 = literal_of(&doc, 4);
            ctx.case(format!("CLitRead {} {chomp2} {} {}", coq::opt(&digit2, |d| coq::n(*d as u128)), lines_term(&lines2), coq::opt(&got2, |g| coq::s(g))), true,
                json!({"kind": "block_read", "text": doc}));
        }
    }
}


/// K + S: long one-line strings are written as folded blocks (`>-`) wrapped at `folded_wrap_chars`: the body lines
/// == emit_folded_line, the parser's reading of them == read_folded_paragraph, and the text reads back.
fn folded_paragraphs(ctx: &mut Ctx, quick: bool, rng: &mut crate::ctx::Rng) {
    use std::collections::BTreeMap;
    let words = ["a", "bb", "word", "longerword", "x1", "é", "日本", "unbreakablewordwithoutanyspaces", "t\tb", "q-r", "e.g.", "100%", "c:d"];
    let n = if quick { 400 } else { 8000 };
    for _ in 0..n {
        let k = 2 + rng.below(14);
        let mut v = String::new();
        for i in 0..k {
            if i > 0 {
                v.push_str(&" ".repeat(if rng.chance(1, 6) { 1 + rng.below(3) } else { 1 }));
            }
            let word: &str = *rng.pick(&words);
            v.push_str(word);
        }
        let w = *rng.pick(&[10usize, 12, 20, 40, 80]);
        let step = *rng.pick(&[2usize, 2, 4]);
        #[allow(deprecated)]
        let mut so = serde_saphyr::SerializerOptions::default();
        #[allow(deprecated)]
        {
            so.folded_wrap_chars = w;
            so.indent_step = step;
        }
        let Ok(text) = serde_saphyr::to_string_with_options(&BTreeMap::from([("k", v.clone())]), so) else { continue };
        let Some(body) = text.strip_prefix("k: >-\n") else {
            ctx.count("folded:not_auto_folded");
            continue;
        };
        let mut lines: Vec<String> = body.split('\n').map(|l| l.to_string()).collect();
        if lines.last().map(|l| l.is_empty()).unwrap_or(false) {
            lines.pop();
        }
        ctx.count(&format!("folded:wrap_{w}_lines_{}", lines.len().min(4)));
        let replay = json!({"kind": "folded", "s": v, "wrap": w, "indent_step": step, "text": text});
        ctx.case(format!("CFoldEmit {} {} {} {}", coq::n(step as u128), coq::n(w as u128), coq::s(&v), lines_term(&lines)), lines.len() > 1, replay.clone());
        // the parser's reading (never at the very end of the input)
        let doc = format!("{text}j: 1\n");
        let mut got = None;
        let mut scalars = 0;
        let mut bad = false;
        for ev in saphyr_parser::Parser::new_from_str(&doc) {
            match ev {
                Ok((saphyr_parser::Event::Scalar(val, style, ..), _)) => {
                    scalars += 1;
                    if matches!(style, saphyr_parser::ScalarStyle::Folded) {
                        got = Some(val.to_string());
                    }
                }
                Ok(_) => {}
                Err(_) => bad = true,
            }
        }
        let got = if bad || scalars != 4 { None } else { got };
        ctx.case(format!("CFoldRead None {} {}", lines_term(&lines), coq::opt(&got, |g| coq::s(g))), true, replay.clone());
        ctx.direct_evaluations += 1;
        if got.as_deref() != Some(v.as_str()) {
            ctx.fail("folded-round-trip", format!("{v:?} wrapped at {w} is written {text:?} and read back as {got:?}"), replay);
        }
    }
}

pub fn run(ctx: &mut Ctx) {
    util::quiet_panics();
    ctx.set_case_format("From SS Require Import Corr.SerScalar.\nLocal Open Scope N_scope.", "case", "check_case");
    ctx.rule = "cases: strings over an adversarial alphabet (indicators, quotes, escapes, breaks, blanks, C0/C1, BOM, LS/PS, look-alikes of \
                null/bool/number/merge/markers): all of length <= 2 over the alphabet, the word list and its one-character extensions, random \
                longer ones; x yaml_12 x flow for the predicates, x quote_all for the emitted value text, the emitted key text, the parser's \
                reading of quoted tokens, float digit strings; distinct = distinct Coq case term; non-trivial = quoting needed / predicates differ"
        .into();
    if let Some(r) = ctx.replay.clone() {
        println!("replay: {r}");
        if let Some(s) = r["s"].as_str() {
            for (so, y12, name) in option_vectors(false) {
                if let Some(m) = positions(&s.to_string(), so, y12) {
                    ctx.fail("string-round-trip", format!("[{name}] {m}"), r.clone());
                }
            }
        }
        return;
    }
    let quick = ctx.quick();
    let mut rng = ctx.rng.fork();

    // ---- literal block scalars (own model: Model/BlockScalar.v)
    {
        let mut r2 = rng.fork();
        block_scalars(ctx, quick, &mut r2);
        folded_paragraphs(ctx, quick, &mut r2);
    }

    // ---- the strings
    let mut strings: Vec<String> = WORDS.iter().map(|s| s.to_string()).collect();
    for a in ATOMS {
        strings.push(a.to_string());
    }
    let short: Vec<&str> = if quick { ATOMS.iter().step_by(2).copied().collect() } else { ATOMS.to_vec() };
    for a in &short {
        for b in &short {
            strings.push(format!("{a}{b}"));
        }
    }
    for w in WORDS {
        for a in ATOMS.iter().step_by(if quick { 6 } else { 1 }) {
            strings.push(format!("{w}{a}"));
            strings.push(format!("{a}{w}"));
        }
    }
    for _ in 0..(if quick { 300 } else { 6000 }) {
        strings.push(gen_string(&mut rng));
    }
    // block-scalar shaped strings: leading blanks on the first line, blank lines, only breaks,
    // every count of trailing breaks, short and longer than the fold column
    for lead in ["", " ", "  ", "   ", "\t"] {
        for body in ["x", "two words", &"w".repeat(90), &"word ".repeat(25)] {
            for mid in ["\n", "\n\n", "\n  \n", "\n indented\n"] {
                for tail in ["", "\n", "\n\n", "\n\n\n"] {
                    if quick && (lead.len() + mid.len() + tail.len()) % 3 == 1 {
                        continue;
                    }
                    strings.push(format!("{lead}{body}{mid}second{tail}"));
                }
            }
        }
    }
    // every multi-line string over a small alphabet of blanks, breaks and indicators, up to a length
    {
        let alpha: &[char] = &['a', ' ', '\n', '\t', '#', ':', '-', '\''];
        let maxlen = if quick { 4 } else { 6 };
        let mut cur: Vec<String> = vec![String::new()];
        for _ in 0..maxlen {
            let mut next = Vec::with_capacity(cur.len() * alpha.len());
            for p in &cur {
                for c in alpha {
                    let mut q = p.clone();
                    q.push(*c);
                    next.push(q);
                }
            }
            for q in &next {
                if q.contains('\n') {
                    strings.push(q.clone());
                }
            }
            cur = next;
        }
    }
    for n in [1usize, 2, 3, 5, 81, 85, 120] {
        strings.push("\n".repeat(n));
        strings.push(format!(" {}", "\n".repeat(n)));
        strings.push(format!("{}x", "\n".repeat(n)));
    }
    strings.sort();
    strings.dedup();
    ctx.count(&format!("strings:{}", strings.len()));

    let kstep = if quick { 9 } else { 1 };
    for (i, s) in strings.iter().enumerate() {
        if i % kstep == 0 || s.chars().count() <= 1 || WORDS.contains(&s.as_str()) {
            k_string(ctx, s);
        }
    }
    // reader side of the quoted styles
    for s in strings.iter().step_by(if quick { 5 } else { 1 }) {
        if s.chars().any(|c| (c.is_control() && c != '\t') || matches!(c, '\u{2028}' | '\u{2029}')) {
            continue; // raw breaks inside quotes are folded by the scanner and raw controls rejected; the emitter never writes either
        }
        let dq = format!("\"{}\"", s.replace('\\', "\\\\").replace('"', "\\\""));
        ctx.case(format!("CDq {} {}", coq::s(&dq), coq::opt(&scalar_of(&dq), |v| coq::s(v))), true, json!({"kind": "dq", "text": dq}));
        let sq = format!("'{}'", s.replace('\'', "''"));
        if !s.contains('\t') {
            ctx.case(format!("CSq {} {}", coq::s(&sq), coq::opt(&scalar_of(&sq), |v| coq::s(v))), true, json!({"kind": "sq", "text": sq}));
        }
    }
    for esc in ["\\0", "\\a", "\\b", "\\t", "\\n", "\\v", "\\f", "\\r", "\\e", "\\ ", "\\\"", "\\/", "\\\\", "\\N", "\\_", "\\L", "\\P", "\\x41", "\\xe9", "\\u00e9", "\\u263A", "\\U0001F600", "\\uD800", "\\q", "\\x4", "\\U00110000", "\\uFEFF"] {
        for ctxs in ["{}", "a{}b", "{}{}"] {
            let dq = format!("\"{}\"", ctxs.replace("{}", esc));
            ctx.case(format!("CDq {} {}", coq::s(&dq), coq::opt(&scalar_of(&dq), |v| coq::s(v))), true, json!({"kind": "dq", "text": dq}));
        }
    }

    // ---- S: strings in every position under every option vector
    let vectors = option_vectors(quick);
    let sstep = if quick { 4 } else { 1 };
    for (i, s) in strings.iter().enumerate() {
        if i % sstep != 0 && s.chars().count() > 1 && !WORDS.contains(&s.as_str()) {
            continue;
        }
        for (so, y12, name) in &vectors {
            ctx.direct_evaluations += 1;
            if let Some(m) = positions(s, *so, *y12) {
                ctx.fail("string-round-trip", format!("[{name}] {m}"), json!({"kind": "string", "s": s, "options": name}));
                break;
            }
            if let Some(m) = key_positions(s, *so, *y12) {
                ctx.fail("string-round-trip", format!("[{name}] {m}"), json!({"kind": "string", "s": s, "options": name}));
                break;
            }
            // as a mapping key
            let mut m = BTreeMap::new();
            m.insert(s.clone(), s.clone());
            let text = serde_saphyr::to_string_with_options(&m, *so).unwrap_or_default();
            match serde_saphyr::from_str_with_options::<BTreeMap<String, String>>(&text, dopts(*y12)) {
                Ok(b) if b == m => {}
                other => {
                    ctx.fail("string-round-trip", format!("[{name}] as key and value: emitted {text:?}, read back {:?}", other.map_err(|e| e.to_string().lines().next().unwrap_or("").to_string())), json!({"kind": "string", "s": s, "options": name}));
                    break;
                }
            }
            // never reads back as anything but that string (untyped reader, same boolean dialect)
            let text = serde_saphyr::to_string_with_options(&vec![s.clone()], *so).unwrap_or_default();
            match serde_saphyr::from_str_with_options::<Tree>(&text, dopts(*y12)) {
                Ok(Tree::Seq(items)) if items.len() == 1 && items[0] == Tree::Str(s.clone()) => {}
                other => {
                    ctx.fail("string-reads-back-as-something-else", format!("[{name}] emitted {text:?}, untyped reading gives {other:?}"), json!({"kind": "string", "s": s, "options": name}));
                    break;
                }
            }
        }
    }

    // ---- witnesses of recorded findings in the scalar positions (open ones print KNOWN-FINDING, fixed ones must hold)
    {
        use serde_saphyr::{FlowMap, FlowSeq};
        #[derive(Serialize, Deserialize, Debug, PartialEq, Clone)]
        enum E {
            New(String),
            T(i32, i32),
            St { x: i32 },
        }
        fn rt<U: Serialize + serde::de::DeserializeOwned + PartialEq + std::fmt::Debug>(u: &U) -> Result<(), String> {
            let text = serde_saphyr::to_string(u).map_err(|e| format!("serialization failed: {e}"))?;
            match serde_saphyr::from_str::<U>(&text) {
                Ok(b) if b == *u => Ok(()),
                Ok(b) => Err(format!("emitted {text:?}, read back {b:?}")),
                Err(e) => Err(format!("emitted {text:?}, reading fails: {}", e.to_string().lines().next().unwrap_or(""))),
            }
        }
        // F75 (fixed): enum variants with a payload inside flow collections
        for e in [E::New("v".into()), E::T(1, 2), E::St { x: 1 }] {
            ctx.direct_evaluations += 3;
            let checks = [
                rt(&FlowMap(BTreeMap::from([("k".to_string(), e.clone())]))),
                rt(&FlowSeq(vec![e.clone(), e.clone()])),
                rt(&FlowSeq(vec![BTreeMap::from([("k".to_string(), e.clone())])])),
            ];
            for (i, c) in checks.iter().enumerate() {
                if let Err(m) = c {
                    ctx.fail("enum-payload-in-flow-collection", format!("{e:?} in flow position {i}: {m}"), json!({"kind": "flow_variant", "value": format!("{e:?}"), "position": i}));
                }
            }
        }
        // F76 (open): string keys longer than the parser's 1024-character limit for implicit keys
        for n in [1023usize, 1024, 1025, 3000] {
            ctx.direct_evaluations += 1;
            if let Err(m) = rt(&BTreeMap::from([("k".repeat(n), 1u8)])) {
                let m: String = m.chars().filter(|c| *c != 'k').collect();
                ctx.fail(if n > 1024 { "F76:key-longer-than-1024" } else { "string-round-trip" }, format!("a key of {n} characters: {m}"), json!({"kind": "long_key", "length": n}));
            }
        }
        // F77 (open): Option<String> keys None and Some("null") collide (key fingerprints ignore the scalar style)
        ctx.direct_evaluations += 3;
        if let Err(m) = rt(&BTreeMap::from([(None, 1u8), (Some("null".to_string()), 2)])) {
            ctx.fail("F77:option-key-null-vs-quoted-null", format!("Option<String> keys None and Some(\"null\"): {m}"), json!({"kind": "option_keys"}));
        }
        if let Err(m) = rt(&BTreeMap::from([(None, 1u8), (Some(String::new()), 2), (Some("~".to_string()), 3)])) {
            ctx.fail("string-round-trip", format!("Option<String> keys None, Some(\"\"), Some(\"~\"): {m}"), json!({"kind": "option_keys"}));
        }
        // F79 (fixed): Some(empty bytes)
        #[derive(Serialize, Deserialize, Debug, PartialEq)]
        struct B {
            b: Option<Bytes>,
            c: Option<Bytes>,
        }
        if let Err(m) = rt(&B { b: Some(Bytes(vec![])), c: None }) {
            ctx.fail("bytes-round-trip", format!("Option<bytes> = Some(empty): {m}"), json!({"kind": "empty_bytes"}));
        }
    }

    // ---- S: integers
    let mut ints: Vec<i128> = vec![0, 1, -1, 7, 8, 9, 10, 63, 64, 100, 255, 256];
    for b in [7u32, 8, 15, 16, 31, 32, 63, 64, 126] {
        let p = 1i128 << b;
        ints.extend([p - 1, p, p + 1, -p, -p - 1, -p + 1]);
    }
    ints.push(i128::MAX);
    ints.push(i128::MIN);
    for _ in 0..(if quick { 50 } else { 2000 }) {
        ints.push(((rng.next_u64() as i128) << (rng.below(64) as u32)) ^ rng.next_u64() as i128);
    }
    macro_rules! int_rt {
        ($t:ty, $v:expr) => {
            if let Ok(x) = <$t>::try_from($v) {
                for (so, y12, name) in vectors.iter().step_by(3) {
                    ctx.direct_evaluations += 1;
                    if let Some(m) = positions(&x, *so, *y12).or_else(|| key_positions(&x, *so, *y12)) {
                        ctx.fail("integer-round-trip", format!("[{name}] {} {m}", stringify!($t)), json!({"kind": "int", "value": x.to_string(), "type": stringify!($t)}));
                        break;
                    }
                }
            }
        };
    }
    for v in &ints {
        int_rt!(i8, *v);
        int_rt!(i16, *v);
        int_rt!(i32, *v);
        int_rt!(i64, *v);
        int_rt!(i128, *v);
        int_rt!(u8, *v);
        int_rt!(u16, *v);
        int_rt!(u32, *v);
        int_rt!(u64, *v);
        int_rt!(u128, *v);
    }
    ctx.direct_evaluations += 1;
    if positions(&u128::MAX, vectors[0].0, false).is_some() {
        ctx.fail("integer-round-trip", "u128::MAX".into(), json!({"kind": "int", "value": u128::MAX.to_string()}));
    }

    // ---- S + K: floats
    let mut f64s: Vec<f64> = vec![0.0, -0.0, 1.0, -1.0, 0.1, 1e21, 1e-7, 1e15, 1e16, 123456789012345680.0, f64::MAX, f64::MIN, f64::MIN_POSITIVE, 5e-324, f64::INFINITY, f64::NEG_INFINITY, f64::NAN, f64::EPSILON, 1.7976931348623157e308, 4e-6, 1e6, 1e7, 1.5e300];
    for _ in 0..(if quick { 3000 } else { 300_000 }) {
        f64s.push(f64::from_bits(rng.next_u64()));
    }
    let mut seen_digits = 0usize;
    for (i, f) in f64s.iter().enumerate() {
        ctx.direct_evaluations += 1;
        let text = serde_saphyr::to_string(f).unwrap_or_default();
        let t = text.trim_end_matches('\n');
        if !float_shape_ok(t) {
            ctx.fail("float-text-not-yaml-float", format!("f64 {:#x} emitted as {t:?}", f.to_bits()), json!({"kind": "f64", "bits": f.to_bits().to_string()}));
        }
        match serde_saphyr::from_str::<f64>(&text) {
            Ok(b) if b.to_bits() == f.to_bits() || (b.is_nan() && f.is_nan()) => {}
            other => ctx.fail("float-round-trip", format!("f64 {:#x} emitted as {t:?}, read back {other:?}", f.to_bits()), json!({"kind": "f64", "bits": f.to_bits().to_string()})),
        }
        if f.is_finite() && (i < 40 || seen_digits < (if quick { 300 } else { 3000 })) {
            seen_digits += 1;
            let mut buf = zmij::Buffer::new();
            let d = buf.format_finite(*f).to_string();
            ctx.case(format!("CFloatNorm {} {}", coq::s(&d), coq::s(t)), d != t, json!({"kind": "float_norm", "digits": d}));
        }
        if i % 50 == 0 {
            if let Some(m) = positions(f, vectors[i % vectors.len()].0, vectors[i % vectors.len()].1).filter(|_| !f.is_nan()) {
                ctx.fail("float-round-trip", format!("f64 {:#x}: {m}", f.to_bits()), json!({"kind": "f64", "bits": f.to_bits().to_string()}));
            }
        }
    }
    let nf32 = if quick { 200_000u64 } else { 1u64 << 26 };
    let stride = (1u64 << 32) / nf32;
    let mut bad32 = 0;
    for k in 0..nf32 {
        let bits = (k * stride) as u32 ^ if stride > 1 { (rng.next_u64() % stride) as u32 } else { 0 };
        let f = f32::from_bits(bits);
        ctx.direct_evaluations += 1;
        let text = serde_saphyr::to_string(&f).unwrap_or_default();
        let t = text.trim_end_matches('\n');
        let ok_shape = float_shape_ok(t);
        let ok_rt = matches!(serde_saphyr::from_str::<f32>(&text), Ok(b) if b.to_bits() == bits || (b.is_nan() && f.is_nan()));
        if (!ok_shape || !ok_rt) && bad32 < 20 {
            bad32 += 1;
            ctx.fail(if ok_shape { "float-round-trip" } else { "float-text-not-yaml-float" }, format!("f32 {bits:#x} emitted as {t:?}, read back {:?}", serde_saphyr::from_str::<f32>(&text)), json!({"kind": "f32", "bits": bits}));
        }
    }

    // ---- S: chars, bools, unit, None, bytes
    for c in ATOMS.iter().flat_map(|a| a.chars()).chain(['\u{10ffff}', '\u{e000}', '\u{d7ff}', 'A', '~', '-']) {
        for (so, y12, name) in vectors.iter().step_by(2) {
            ctx.direct_evaluations += 1;
            if let Some(m) = positions(&c, *so, *y12) {
                ctx.fail("char-round-trip", format!("[{name}] {m}"), json!({"kind": "char", "c": c.to_string()}));
                break;
            }
        }
    }
    for (so, y12, name) in &vectors {
        ctx.direct_evaluations += 3;
        for b in [true, false] {
            if let Some(m) = positions(&b, *so, *y12) {
                ctx.fail("bool-round-trip", format!("[{name}] {m}"), json!({"kind": "bool"}));
            }
        }
        if let Some(m) = positions(&(), *so, *y12) {
            ctx.fail("unit-round-trip", format!("[{name}] {m}"), json!({"kind": "unit"}));
        }
        let none: Option<i32> = None;
        let text = serde_saphyr::to_string_with_options(&vec![none, Some(3)], *so).unwrap_or_default();
        if serde_saphyr::from_str::<Vec<Option<i32>>>(&text).ok() != Some(vec![None, Some(3)]) {
            ctx.fail("none-round-trip", format!("[{name}] emitted {text:?}"), json!({"kind": "none"}));
        }
    }
    let mut arrays: Vec<Vec<u8>> = vec![vec![], vec![0], vec![255], vec![0, 1, 2], b"hello".to_vec(), (0..=255).collect()];
    for a in 0..=255u8 {
        if !quick || a % 8 == 0 {
            arrays.push(vec![a]);
            arrays.push(vec![a, 255 - a]);
            arrays.push(vec![a, a, a]);
        }
    }
    for _ in 0..(if quick { 50 } else { 3000 }) {
        let n = rng.below(40);
        arrays.push((0..n).map(|_| rng.next_u64() as u8).collect());
    }
    for a in &arrays {
        for (so, y12, name) in vectors.iter().step_by(4) {
            ctx.direct_evaluations += 1;
            if let Some(m) = positions(&Bytes(a.clone()), *so, *y12) {
                ctx.fail("bytes-round-trip", format!("[{name}] {m}"), json!({"kind": "bytes", "bytes": a}));
                break;
            }
        }
    }
}
