//! C06 -- scalars are interpreted exactly per requested type and options; never wrapped.
//!
//! K (correspondence): hook-level pure functions and end-to-end single-scalar documents, compared
//!   with `SS.Model.Scalars` through the case files.
//! S (direct search): the property's own oracles on the implementation (independent big-number
//!   reference for integers, documented literal tables, the `base64` crate for !!binary).
//!    Also: the documented Option null table (tags none / !!str / !!null / !!binary x styles x every Option target) and the
//!    untyped integer inference against the exact 64-bit reference.
use crate::coq;
use crate::ctx::Ctx;
use crate::util;
use saphyr_parser::{Event, ScalarStyle};
use serde::de::{self, Deserialize, Deserializer, Visitor};
use serde_json::json;
use serde_saphyr::__verif as hk;
use std::fmt;

// ---------------------------------------------------------------- targets

#[derive(Clone, Debug, PartialEq)]
pub enum Target {
    Bool,
    Int(bool, u32),
    F32,
    F64,
    Char,
    String,
    Str,
    Bytes,
    Unit,
    Option(Box<Target>),
    Any,
}

impl Target {
    fn coq(&self) -> String {
        match self {
            Target::Bool => "TgBool".into(),
            Target::Int(s, b) => format!("(TgInt {} {})", coq::b(*s), coq::n(*b as u128)),
            Target::F32 => "TgF32".into(),
            Target::F64 => "TgF64".into(),
            Target::Char => "TgChar".into(),
            Target::String => "TgString".into(),
            Target::Str => "TgStr".into(),
            Target::Bytes => "TgBytes".into(),
            Target::Unit => "TgUnit".into(),
            Target::Option(t) => format!("(TgOption {})", t.coq()),
            Target::Any => "TgAny".into(),
        }
    }
}

/// Canonical scalar result (mirrors `sres`).
#[derive(Clone, Debug, PartialEq)]
pub enum SRes {
    Bool(bool),
    Int(i128),
    UInt(u128),
    F64(f64),
    F32(f32),
    Char(char),
    Str(String),
    Bytes(Vec<u8>),
    Unit,
    None,
    Some(Box<SRes>),
    Err(String),
    Other(String),
}

fn fclass64(v: f64) -> String {
    if v.is_nan() {
        "FNan".into()
    } else if v.is_infinite() {
        format!("(FInf {})", coq::b(v.is_sign_negative()))
    } else {
        "FFinite".into()
    }
}

impl SRes {
    fn coq(&self) -> String {
        match self {
            SRes::Bool(b) => format!("(RBool {})", coq::b(*b)),
            SRes::Int(v) => format!("(RInt {})", coq::z(*v)),
            SRes::UInt(v) => format!("(RInt {})", coq::zu(*v)),
            SRes::F64(v) => format!("(RFloat {})", fclass64(*v)),
            SRes::F32(v) => format!("(RFloat {})", fclass64(*v as f64)),
            SRes::Char(c) => format!("(RChar {})", coq::n(*c as u128)),
            SRes::Str(s) => format!("(RStr {})", coq::s(s)),
            SRes::Bytes(b) => format!("(RBytes {})", coq::bytes(b)),
            SRes::Unit => "RUnit".into(),
            SRes::None => "RNone".into(),
            SRes::Some(r) => format!("(RSome {})", r.coq()),
            SRes::Err(e) => format!("(RErr {e})"),
            SRes::Other(_) => "(RErr E_Message)".into(),
        }
    }
}

/// Accepts any of the string visits; driven through `deserialize_str`.
struct AnyStr(String);
impl<'de> Deserialize<'de> for AnyStr {
    fn deserialize<D: Deserializer<'de>>(d: D) -> Result<Self, D::Error> {
        struct V;
        impl<'de> Visitor<'de> for V {
            type Value = AnyStr;
            fn expecting(&self, f: &mut fmt::Formatter) -> fmt::Result {
                f.write_str("a string")
            }
            fn visit_str<E: de::Error>(self, v: &str) -> Result<AnyStr, E> {
                Ok(AnyStr(v.to_string()))
            }
        }
        d.deserialize_str(V)
    }
}

struct ByteBuf(Vec<u8>);
impl<'de> Deserialize<'de> for ByteBuf {
    fn deserialize<D: Deserializer<'de>>(d: D) -> Result<Self, D::Error> {
        struct V;
        impl<'de> Visitor<'de> for V {
            type Value = ByteBuf;
            fn expecting(&self, f: &mut fmt::Formatter) -> fmt::Result {
                f.write_str("bytes")
            }
            fn visit_byte_buf<E: de::Error>(self, v: Vec<u8>) -> Result<ByteBuf, E> {
                Ok(ByteBuf(v))
            }
            fn visit_bytes<E: de::Error>(self, v: &[u8]) -> Result<ByteBuf, E> {
                Ok(ByteBuf(v.to_vec()))
            }
        }
        d.deserialize_byte_buf(V)
    }
}

/// Records which `visit_*` the scalar arm of `deserialize_any` chose.
pub struct AnyVal(pub SRes);
impl<'de> Deserialize<'de> for AnyVal {
    fn deserialize<D: Deserializer<'de>>(d: D) -> Result<Self, D::Error> {
        struct V;
        impl<'de> Visitor<'de> for V {
            type Value = AnyVal;
            fn expecting(&self, f: &mut fmt::Formatter) -> fmt::Result {
                f.write_str("any scalar")
            }
            fn visit_unit<E: de::Error>(self) -> Result<AnyVal, E> {
                Ok(AnyVal(SRes::Unit))
            }
            fn visit_bool<E: de::Error>(self, v: bool) -> Result<AnyVal, E> {
                Ok(AnyVal(SRes::Bool(v)))
            }
            fn visit_i64<E: de::Error>(self, v: i64) -> Result<AnyVal, E> {
                Ok(AnyVal(SRes::Int(v as i128)))
            }
            fn visit_u64<E: de::Error>(self, v: u64) -> Result<AnyVal, E> {
                Ok(AnyVal(SRes::UInt(v as u128)))
            }
            fn visit_f64<E: de::Error>(self, v: f64) -> Result<AnyVal, E> {
                Ok(AnyVal(SRes::F64(v)))
            }
            fn visit_str<E: de::Error>(self, v: &str) -> Result<AnyVal, E> {
                Ok(AnyVal(SRes::Str(v.to_string())))
            }
            fn visit_seq<A: de::SeqAccess<'de>>(self, mut a: A) -> Result<AnyVal, A::Error> {
                while a.next_element::<de::IgnoredAny>()?.is_some() {}
                Ok(AnyVal(SRes::Other("seq".into())))
            }
            fn visit_map<A: de::MapAccess<'de>>(self, mut a: A) -> Result<AnyVal, A::Error> {
                while a.next_entry::<de::IgnoredAny, de::IgnoredAny>()?.is_some() {}
                Ok(AnyVal(SRes::Other("map".into())))
            }
        }
        d.deserialize_any(V)
    }
}

fn conv<T>(r: Result<T, serde_saphyr::Error>, f: impl FnOnce(T) -> SRes) -> SRes {
    match r {
        Ok(v) => f(v),
        Err(e) => SRes::Err(coq::eclass(&e)),
    }
}

fn run_plain(t: &Target, text: &str, o: serde_saphyr::Options) -> SRes {
    use serde_saphyr::from_str_with_options as fs;
    match t {
        Target::Bool => conv(fs::<bool>(text, o), SRes::Bool),
        Target::Int(true, 8) => conv(fs::<i8>(text, o), |v| SRes::Int(v as i128)),
        Target::Int(true, 16) => conv(fs::<i16>(text, o), |v| SRes::Int(v as i128)),
        Target::Int(true, 32) => conv(fs::<i32>(text, o), |v| SRes::Int(v as i128)),
        Target::Int(true, 64) => conv(fs::<i64>(text, o), |v| SRes::Int(v as i128)),
        Target::Int(true, _) => conv(fs::<i128>(text, o), SRes::Int),
        Target::Int(false, 8) => conv(fs::<u8>(text, o), |v| SRes::UInt(v as u128)),
        Target::Int(false, 16) => conv(fs::<u16>(text, o), |v| SRes::UInt(v as u128)),
        Target::Int(false, 32) => conv(fs::<u32>(text, o), |v| SRes::UInt(v as u128)),
        Target::Int(false, 64) => conv(fs::<u64>(text, o), |v| SRes::UInt(v as u128)),
        Target::Int(false, _) => conv(fs::<u128>(text, o), SRes::UInt),
        Target::F32 => conv(fs::<f32>(text, o), SRes::F32),
        Target::F64 => conv(fs::<f64>(text, o), SRes::F64),
        Target::Char => conv(fs::<char>(text, o), SRes::Char),
        Target::String => conv(fs::<String>(text, o), SRes::Str),
        Target::Str => conv(fs::<AnyStr>(text, o), |v| SRes::Str(v.0)),
        Target::Bytes => conv(fs::<ByteBuf>(text, o), |v| SRes::Bytes(v.0)),
        Target::Unit => conv(fs::<()>(text, o), |_| SRes::Unit),
        Target::Any => conv(fs::<AnyVal>(text, o), |v| v.0),
        Target::Option(_) => unreachable!(),
    }
}

fn some(x: SRes) -> SRes {
    SRes::Some(Box::new(x))
}

pub fn run_target(t: &Target, text: &str, o: serde_saphyr::Options) -> SRes {
    use serde_saphyr::from_str_with_options as fs;
    fn o2<T>(r: Result<Option<T>, serde_saphyr::Error>, f: impl FnOnce(T) -> SRes) -> SRes {
        match r {
            Ok(None) => SRes::None,
            Ok(Some(v)) => some(f(v)),
            Err(e) => SRes::Err(coq::eclass(&e)),
        }
    }
    match t {
        Target::Option(inner) => match &**inner {
            Target::Bool => o2(fs::<Option<bool>>(text, o), SRes::Bool),
            Target::Int(true, 8) => o2(fs::<Option<i8>>(text, o), |v| SRes::Int(v as i128)),
            Target::Int(true, 64) => o2(fs::<Option<i64>>(text, o), |v| SRes::Int(v as i128)),
            Target::Int(false, 64) => o2(fs::<Option<u64>>(text, o), |v| SRes::UInt(v as u128)),
            Target::F64 => o2(fs::<Option<f64>>(text, o), SRes::F64),
            Target::Char => o2(fs::<Option<char>>(text, o), SRes::Char),
            Target::String => o2(fs::<Option<String>>(text, o), SRes::Str),
            Target::Str => o2(fs::<Option<AnyStr>>(text, o), |v| SRes::Str(v.0)),
            Target::Bytes => o2(fs::<Option<ByteBuf>>(text, o), |v| SRes::Bytes(v.0)),
            Target::Unit => o2(fs::<Option<()>>(text, o), |_| SRes::Unit),
            Target::Any => o2(fs::<Option<AnyVal>>(text, o), |v| v.0),
            Target::Option(i2) if **i2 == Target::String => match fs::<Option<Option<String>>>(text, o) {
                Ok(None) => SRes::None,
                Ok(Some(None)) => some(SRes::None),
                Ok(Some(Some(s))) => some(some(SRes::Str(s))),
                Err(e) => SRes::Err(coq::eclass(&e)),
            },
            other => panic!("unsupported option target {other:?}"),
        },
        other => run_plain(other, text, o),
    }
}

pub fn all_targets() -> Vec<Target> {
    let mut v = vec![Target::Bool, Target::F32, Target::F64, Target::Char, Target::String, Target::Str,
        Target::Bytes, Target::Unit, Target::Any];
    for s in [true, false] {
        for b in [8u32, 16, 32, 64, 128] {
            v.push(Target::Int(s, b));
        }
    }
    for inner in [Target::Bool, Target::Int(true, 8), Target::Int(true, 64), Target::Int(false, 64), Target::F64,
        Target::Char, Target::String, Target::Str, Target::Bytes, Target::Unit, Target::Any,
        Target::Option(Box::new(Target::String))]
    {
        v.push(Target::Option(Box::new(inner)));
    }
    v
}

// ---------------------------------------------------------------- options

#[derive(Clone, Copy, Debug)]
pub struct OptVec {
    pub legacy: bool,
    pub strict: bool,
    pub ignore_bin: bool,
    pub no_schema: bool,
}
impl OptVec {
    pub fn all() -> Vec<OptVec> {
        let mut v = Vec::new();
        for m in 0..16u32 {
            v.push(OptVec { legacy: m & 1 != 0, strict: m & 2 != 0, ignore_bin: m & 4 != 0, no_schema: m & 8 != 0 });
        }
        v
    }
    pub fn options(&self) -> serde_saphyr::Options {
        #[allow(deprecated)]
        let mut o = serde_saphyr::Options::default();
        #[allow(deprecated)]
        {
            o.legacy_octal_numbers = self.legacy;
            o.strict_booleans = self.strict;
            o.ignore_binary_tag_for_string = self.ignore_bin;
            o.no_schema = self.no_schema;
            o.with_snippet = false;
        }
        o
    }
    fn coq(&self) -> String {
        format!("(mkCfg {} {} {} {})", coq::b(self.legacy), coq::b(self.strict), coq::b(self.ignore_bin), coq::b(self.no_schema))
    }
    fn json(&self) -> serde_json::Value {
        json!({"legacy_octal_numbers": self.legacy, "strict_booleans": self.strict,
               "ignore_binary_tag_for_string": self.ignore_bin, "no_schema": self.no_schema})
    }
}

// ---------------------------------------------------------------- token corpus

fn radix_str(mut v: u128, radix: u32, upper: bool) -> String {
    if v == 0 {
        return "0".into();
    }
    let mut s = Vec::new();
    while v > 0 {
        let d = (v % radix as u128) as u32;
        let c = std::char::from_digit(d, radix).unwrap();
        s.push(if upper { c.to_ascii_uppercase() } else { c });
        v /= radix as u128;
    }
    s.iter().rev().collect()
}

fn with_underscores(s: &str, rng: &mut crate::ctx::Rng) -> String {
    let mut out = String::new();
    for (i, c) in s.chars().enumerate() {
        if i > 0 && rng.chance(1, 3) {
            out.push('_');
        }
        out.push(c);
    }
    if rng.chance(1, 4) {
        out.push('_');
    }
    out
}

/// Every integer-width boundary +-1 in every radix, with signs, separators, upper-case prefixes.
fn boundary_tokens(rng: &mut crate::ctx::Rng) -> Vec<String> {
    let mut out = Vec::new();
    let mut mags: Vec<u128> = vec![0, 1, 7, 8, 9, 10, 15, 16, 63, 64];
    for b in [7u32, 8, 15, 16, 31, 32, 63, 64, 127] {
        let p = 1u128 << b;
        mags.extend([p - 2, p - 1, p, p + 1]);
    }
    mags.extend([u128::MAX - 1, u128::MAX]);
    for m in mags {
        for (radix, prefixes) in [(10u32, vec![""]), (16, vec!["0x", "0X"]), (8, vec!["0o", "0O", "00"]), (2, vec!["0b", "0B"])] {
            for p in &prefixes {
                for sign in ["", "+", "-"] {
                    let body = radix_str(m, radix, rng.chance(1, 2));
                    out.push(format!("{sign}{p}{body}"));
                    if rng.chance(1, 3) {
                        out.push(format!("{sign}{p}{}", with_underscores(&body, rng)));
                    }
                    if rng.chance(1, 8) {
                        out.push(format!(" {sign}{p}{body}\t"));
                    }
                }
            }
        }
    }
    // overflow beyond u128 in each radix
    out.push("340282366920938463463374607431768211456".into());
    out.push("-170141183460469231731687303715884105729".into());
    out.push("0x100000000000000000000000000000000".into());
    out.push("-0x80000000000000000000000000000001".into());
    out.push(format!("0b1{}", "0".repeat(128)));
    out.push(format!("0o4{}", "0".repeat(42)));
    out.push(format!("0o3{}", "7".repeat(42)));
    out.push("9".repeat(60));
    out.push(format!("-{}", "9".repeat(60)));
    out
}

const SPECIAL_TOKENS: &[&str] = &[
    "", "~", "null", "Null", "NULL", "nUll", "true", "True", "TRUE", "tRue", "false", "False", "FALSE", "y", "Y", "yes",
    "Yes", "YES", "n", "N", "no", "No", "NO", "on", "On", "ON", "off", "Off", "OFF", "oN", ".nan", ".NaN", ".NAN", "+.nan",
    "-.nan", ".inf", ".Inf", ".INF", "+.inf", "-.inf", "-.INF", "nan", "NaN", "inf", "-inf", "+inf", "Infinity", "infinity",
    "-Infinity", "+infinity", "1.5", "-1.5", "+1.5", "1.", ".5", "-.5", "1e3", "1E3", "1e+3", "1e-3", "1.5e300", "1e308",
    "1e309", "1.7976931348623157e308", "1.7976931348623158e308", "1.797693134862315807e308", "1.797693134862315808e308",
    "-1e309", "3.4028235e38", "3.4028236e38", "3.40282357e38", "3.402823571e38", "1e39", "1e-400", "0e999999999999999999999",
    "1e999999999999999999999", "1e-999999999999999999999", "4e", "e5", ".", "+", "-", "1_000.5", "0x1p3", "1.5.5", "1e5e5", "00",
    "007", "0077", "-007", "+007", "08", "0.0", "-0.0", "-0", "+0", "0_", "_0", "_", "0x", "0x_", "0o", "0b", "0b2", "0o8",
    "0xg", "0xG", "0xfF", "abc", "a", "é", "日本", "\u{1F600}", "x", "1 2", "- 1", "<<", "=", "QUJD", "QUI=", "QQ==", "QUJ=",
    "QR==", "Q===", "====", "QUJDRA==", "QU JD", "QUJ", "A", "null ", " null", "~ ", "  ", "\u{a0}1", "1\u{2003}", "\u{85}7",
    "0x7_fF", "0b1010_1010", "1__2", "12_", "+_1", "-_1", "0x-1", "--1", "+-1", "0x+1",
];

fn short_strings(alphabet: &[char], max_len: usize) -> Vec<String> {
    let mut out = vec![String::new()];
    let mut frontier = vec![String::new()];
    for _ in 0..max_len {
        let mut next = Vec::new();
        for s in &frontier {
            for c in alphabet {
                let mut t = s.clone();
                t.push(*c);
                next.push(t);
            }
        }
        out.extend(next.iter().cloned());
        frontier = next;
    }
    out
}

// ---------------------------------------------------------------- document construction

#[derive(Clone, Copy, Debug, PartialEq)]
enum Sty {
    Plain,
    Single,
    Double,
    Literal,
    Folded,
}
const STYLES: [Sty; 5] = [Sty::Plain, Sty::Single, Sty::Double, Sty::Literal, Sty::Folded];
const TAGS: [&str; 12] = ["", "!!str", "!!int", "!!float", "!!bool", "!!null", "!!binary", "!", "!custom", "!!timestamp", "!!seq", "!degrees"];

fn render_doc(tok: &str, sty: Sty, tag: &str) -> String {
    let t = if tag.is_empty() { String::new() } else { format!("{tag} ") };
    match sty {
        Sty::Plain => format!("{t}{tok}"),
        Sty::Single => format!("{t}'{}'", tok.replace('\'', "''")),
        Sty::Double => {
            let mut s = String::new();
            for c in tok.chars() {
                match c {
                    '"' => s.push_str("\\\""),
                    '\\' => s.push_str("\\\\"),
                    '\n' => s.push_str("\\n"),
                    '\t' => s.push_str("\\t"),
                    c if (c as u32) < 0x20 || c == '\u{85}' || c == '\u{a0}' => s.push_str(&format!("\\u{:04x}", c as u32)),
                    c => s.push(c),
                }
            }
            format!("{t}\"{s}\"")
        }
        Sty::Literal => format!("{t}|-\n  {tok}\n"),
        Sty::Folded => format!("{t}>-\n  {tok}\n"),
    }
}

struct RawScalar {
    value: String,
    style: u8,
    tag: Option<String>,
    tag_code: u8,
    col0: bool,
}

/// `Some(None)`: empty document; `Some(Some(..))`: exactly one scalar; `None`: anything else.
fn single_scalar(text: &str) -> Option<Option<RawScalar>> {
    let evs = util::raw_events(text).ok()?;
    let mut scalar = None;
    let mut docs = 0;
    for (e, span) in &evs {
        match e {
            Event::StreamStart | Event::StreamEnd | Event::DocumentEnd | Event::Nothing => {}
            Event::DocumentStart(_) => docs += 1,
            Event::Scalar(v, st, anchor, tag) => {
                if scalar.is_some() || *anchor != 0 {
                    return None;
                }
                scalar = Some(RawScalar {
                    value: v.to_string(),
                    style: match st {
                        ScalarStyle::Plain => 0,
                        ScalarStyle::SingleQuoted => 1,
                        ScalarStyle::DoubleQuoted => 2,
                        ScalarStyle::Literal => 3,
                        ScalarStyle::Folded => 4,
                    },
                    tag: tag.as_ref().map(|t| t.to_string()),
                    tag_code: hk::sftag_of(tag),
                    col0: span.start.col() == 0,
                });
            }
            _ => return None,
        }
    }
    if docs > 1 {
        return None;
    }
    Some(scalar)
}

fn style_ctor(code: u8) -> &'static str {
    ["Plain", "SingleQuoted", "DoubleQuoted", "Literal", "Folded"][code as usize]
}

// ---------------------------------------------------------------- reference oracles (S)

/// Independent reference for the documented integer notations: exact value as (negative, magnitude
/// digits in base 1e9 little endian); `None` = not an integer notation.
fn ref_int(s: &str, legacy: bool) -> Option<(bool, Vec<u32>)> {
    let t = s.trim();
    let (neg, rest) = if let Some(r) = t.strip_prefix('-') {
        (true, r)
    } else if let Some(r) = t.strip_prefix('+') {
        (false, r)
    } else {
        (false, t)
    };
    let lower2: String = rest.chars().take(2).collect::<String>().to_ascii_lowercase();
    let (radix, digits): (u32, String) = if lower2 == "0x" {
        (16, rest[2..].to_string())
    } else if lower2 == "0o" {
        (8, rest[2..].to_string())
    } else if lower2 == "0b" {
        (2, rest[2..].to_string())
    } else if legacy && rest.starts_with("00") {
        (8, if rest == "00" { "0".into() } else { rest[2..].to_string() })
    } else {
        (10, rest.to_string())
    };
    let mut big: Vec<u32> = vec![0];
    let mut saw = false;
    for c in digits.chars() {
        if c == '_' {
            continue;
        }
        let d = c.to_digit(radix)?;
        if !c.is_ascii() {
            return None;
        }
        saw = true;
        let mut carry = d as u64;
        for limb in big.iter_mut() {
            let v = *limb as u64 * radix as u64 + carry;
            *limb = (v % 1_000_000_000) as u32;
            carry = v / 1_000_000_000;
        }
        if carry > 0 {
            big.push(carry as u32);
        }
    }
    if !saw {
        return None;
    }
    while big.len() > 1 && *big.last().unwrap() == 0 {
        big.pop();
    }
    Some((neg, big))
}

fn big_of_u128(mut v: u128) -> Vec<u32> {
    let mut out = Vec::new();
    if v == 0 {
        return vec![0];
    }
    while v > 0 {
        out.push((v % 1_000_000_000) as u32);
        v /= 1_000_000_000;
    }
    out
}
fn big_cmp(a: &[u32], b: &[u32]) -> std::cmp::Ordering {
    if a.len() != b.len() {
        return a.len().cmp(&b.len());
    }
    for i in (0..a.len()).rev() {
        if a[i] != b[i] {
            return a[i].cmp(&b[i]);
        }
    }
    std::cmp::Ordering::Equal
}
fn big_to_u128(a: &[u32]) -> u128 {
    let mut v = 0u128;
    for limb in a.iter().rev() {
        v = v * 1_000_000_000 + *limb as u128;
    }
    v
}

/// Expected result of reading `s` as a signed integer of `bits` bits: Some(value) or None (error).
fn ref_signed(s: &str, bits: u32, legacy: bool) -> Option<i128> {
    let (neg, mag) = ref_int(s, legacy)?;
    let limit: u128 = if neg { 1u128 << (bits - 1) } else { (1u128 << (bits - 1)) - 1 };
    if big_cmp(&mag, &big_of_u128(limit)) == std::cmp::Ordering::Greater {
        return None;
    }
    let m = big_to_u128(&mag);
    Some(if neg { (m as i128).wrapping_neg() } else { m as i128 })
}
fn ref_unsigned(s: &str, bits: u32, legacy: bool) -> Option<u128> {
    let t = s.trim();
    if t.starts_with('-') {
        return None;
    }
    let (_, mag) = ref_int(s, legacy)?;
    let limit: u128 = if bits == 128 { u128::MAX } else { (1u128 << bits) - 1 };
    if big_cmp(&mag, &big_of_u128(limit)) == std::cmp::Ordering::Greater {
        return None;
    }
    Some(big_to_u128(&mag))
}

// ---------------------------------------------------------------- the run

pub fn run(ctx: &mut Ctx) {
    util::quiet_panics();
    ctx.set_case_format("From SS Require Import Corr.C06.\nLocal Open Scope N_scope.", "case", "check_case");
    ctx.rule = "cases: (pure parser function | single-scalar document) x argument tuple; distinct = distinct Coq case term; \
                non-trivial = the token is not rejected outright by every integer/float/bool parser, or the document \
                carries a tag/style/option that selects a non-default branch".into();
    if let Some(r) = ctx.replay.clone() {
        replay(ctx, &r);
        return;
    }
    let quick = ctx.quick();
    let mut rng = ctx.rng.fork();

    // ---- corpus
    let mut tokens: Vec<String> = boundary_tokens(&mut rng);
    tokens.extend(SPECIAL_TOKENS.iter().map(|s| s.to_string()));
    let alphabet: Vec<char> = "+-0189_xXoObBaAfF. eE".chars().collect();
    let shorts = short_strings(&alphabet, if quick { 3 } else { 4 });
    let stride = if quick { 7 } else { 3 };
    let off = rng.below(stride);
    for (i, s) in shorts.iter().enumerate() {
        if s.len() <= 2 || i % stride == off {
            tokens.push(s.clone());
        }
    }
    // case patterns of the literal words
    for w in ["true", "false", "yes", "no", "on", "off", "null", ".nan", ".inf", "-.inf", "nan", "inf", "infinity"] {
        let n = w.chars().filter(|c| c.is_ascii_alphabetic()).count();
        for mask in 0..(1u32 << n.min(8)) {
            if quick && n > 3 && !rng.chance(1, 4) {
                continue;
            }
            let mut k = 0;
            let t: String = w
                .chars()
                .map(|c| {
                    if c.is_ascii_alphabetic() {
                        let up = k < 8 && mask & (1 << k) != 0;
                        k += 1;
                        if up { c.to_ascii_uppercase() } else { c }
                    } else {
                        c
                    }
                })
                .collect();
            tokens.push(t);
        }
    }
    tokens.sort();
    tokens.dedup();
    ctx.count(&format!("tokens_total={}", tokens.len()));

    // ---- K1: pure functions through the hooks; S: integers against the reference
    for tok in &tokens {
        let interesting = ref_int(tok, true).is_some() || hk::parse_float64(tok).is_some() || hk::parse_yaml11_bool(tok).is_some();
        let pick = !quick || interesting || rng.chance(1, 3);
        for legacy in [false, true] {
            for bits in [8u32, 16, 32, 64, 128] {
                let got_s = hk::parse_int_signed(bits, tok, legacy);
                let got_u = hk::parse_int_unsigned(bits, tok, legacy);
                // S
                ctx.direct_evaluations += 2;
                let want_s = ref_signed(tok, bits, legacy);
                if got_s != want_s {
                    let class = "int-signed-mismatch";
                    ctx.fail(class, format!("parse_int_signed::<i{bits}>({tok:?}, legacy={legacy}) = {got_s:?}, exact = {want_s:?}"),
                        json!({"kind": "int_signed", "bits": bits, "legacy": legacy, "token": tok}));
                }
                let want_u = ref_unsigned(tok, bits, legacy);
                if got_u != want_u {
                    ctx.fail("int-unsigned-mismatch", format!("parse_int_unsigned::<u{bits}>({tok:?}, legacy={legacy}) = {got_u:?}, exact = {want_u:?}"),
                        json!({"kind": "int_unsigned", "bits": bits, "legacy": legacy, "token": tok}));
                }
                // K
                if pick && (bits == 128 || bits == 8 || interesting) {
                    ctx.case(format!("CIntS {} {} {} {}", coq::n(bits as u128), coq::b(legacy), coq::s(tok), coq::opt(&got_s, |v| coq::z(*v))),
                        interesting, json!({"fn": "parse_int_signed", "bits": bits, "legacy": legacy, "token": tok}));
                    ctx.case(format!("CIntU {} {} {} {}", coq::n(bits as u128), coq::b(legacy), coq::s(tok), coq::opt(&got_u, |v| coq::n(*v))),
                        interesting, json!({"fn": "parse_int_unsigned", "bits": bits, "legacy": legacy, "token": tok}));
                }
            }
        }
        if pick {
            let j = json!({"token": tok});
            ctx.case(format!("CBool {} {}", coq::s(tok), coq::opt(&hk::parse_yaml11_bool(tok), |v| coq::b(*v))), interesting, j.clone());
            ctx.case(format!("CLeadZero {} {}", coq::s(tok), coq::b(hk::leading_zero_decimal(tok))), interesting, j.clone());
            let f64c = hk::parse_float64(tok).map(|b| fclass64(f64::from_bits(b)));
            ctx.case(format!("CF64 {} {}", coq::s(tok), coq::opt(&f64c, |v| v.clone())), interesting, j.clone());
            let f32c = hk::parse_float32(tok).map(|b| fclass64(f32::from_bits(b) as f64));
            ctx.case(format!("CF32 {} {}", coq::s(tok), coq::opt(&f32c, |v| v.clone())), interesting, j.clone());
            for st in 0..5u8 {
                if st > 1 && !rng.chance(1, 3) {
                    continue;
                }
                ctx.case(format!("CNullish {} {} {}", coq::s(tok), coq::n(st as u128), coq::b(hk::scalar_is_nullish(tok, st))), interesting, j.clone());
                ctx.case(format!("CNullOpt {} {} {}", coq::s(tok), coq::n(st as u128), coq::b(hk::scalar_is_nullish_for_option(tok, st))), interesting, j.clone());
                ctx.case(format!("CMaybeNot {} {} {}", coq::s(tok), coq::n(st as u128), coq::b(hk::maybe_not_string(tok, st))), interesting, j.clone());
            }
        }
        // S: float value is Rust's own parse of the trimmed text (the crate adds only the YAML words)
        ctx.direct_evaluations += 1;
        let lower = tok.trim().to_ascii_lowercase();
        let yaml_word = [".nan", "+.nan", "-.nan", ".inf", "+.inf", "-.inf"].contains(&lower.as_str());
        if !yaml_word {
            let want = tok.trim().parse::<f64>().ok().map(|v| v.to_bits());
            let got = hk::parse_float64(tok);
            let same = match (want, got) {
                (Some(a), Some(b)) => a == b || (f64::from_bits(a).is_nan() && f64::from_bits(b).is_nan()),
                (None, None) => true,
                _ => false,
            };
            if !same {
                ctx.fail("float-value-mismatch", format!("parse_yaml12_float::<f64>({tok:?}) = {got:?}, f64::from_str = {want:?}"), json!({"kind": "float", "token": tok}));
            }
        }
    }

    // ---- base64: exhaustive short strings + random
    {
        use base64::Engine;
        let b64_alpha: Vec<char> = "AB+/=Q \ng".chars().collect();
        let mut inputs = short_strings(&b64_alpha, if quick { 4 } else { 5 });
        if quick {
            let mut keep = Vec::new();
            for (i, s) in inputs.iter().enumerate() {
                if s.len() <= 3 || i % 5 == rng.below(5) {
                    keep.push(s.clone());
                }
            }
            inputs = keep;
        }
        for _ in 0..(if quick { 300 } else { 3000 }) {
            let n = rng.below(12);
            let data: Vec<u8> = (0..n).map(|_| rng.below(256) as u8).collect();
            let mut enc = base64::engine::general_purpose::STANDARD.encode(&data);
            match rng.below(5) {
                0 => {
                    let p = rng.below(enc.len() + 1);
                    enc.insert(p, *rng.pick(&[' ', '\n', '\t', '=', '-', 'A']));
                }
                1 => {
                    if !enc.is_empty() {
                        let p = rng.below(enc.len());
                        enc.remove(p);
                    }
                }
                2 => {
                    // non-canonical trailing bits
                    if enc.ends_with('=') {
                        let idx = enc.find('=').unwrap() - 1;
                        let mut b = enc.into_bytes();
                        b[idx] = b"BCDEFGHIJKLMNOP"[rng.below(15)];
                        enc = String::from_utf8(b).unwrap();
                    }
                }
                _ => {}
            }
            inputs.push(enc);
        }
        inputs.extend(["\u{e9}QUJD".to_string(), "QUJD\u{a0}".to_string(), "QUJD\u{c}".to_string(), "QUJD\u{b}".to_string()]);
        for s in &inputs {
            let got = hk::decode_base64_yaml(s);
            ctx.case(format!("CB64 {} {}", coq::bytes(s.as_bytes()), coq::opt(&got, |v| coq::bytes(v))), got.is_some() || s.len() % 4 == 0,
                json!({"fn": "decode_base64_yaml", "text": s}));
            // S: strict canonical base64 per the `base64` crate after removing ASCII whitespace
            ctx.direct_evaluations += 1;
            let cleaned: String = s.chars().filter(|c| !(c.is_ascii() && (*c as u8).is_ascii_whitespace())).collect();
            let want = base64::engine::general_purpose::STANDARD.decode(cleaned.as_bytes()).ok();
            if got != want {
                ctx.fail("base64-mismatch", format!("decode_base64_yaml({s:?}) = {got:?}, strict RFC 4648 = {want:?}"), json!({"kind": "base64", "text": s}));
            }
        }
        ctx.count(&format!("base64_inputs={}", inputs.len()));
    }

    // ---- K2 + S: end-to-end single scalar documents
    let targets = all_targets();
    let optvecs = OptVec::all();
    let mut docs = 0u64;
    let doc_tokens: Vec<&String> = tokens.iter().filter(|t| !t.contains('\n')).collect();
    let per_token = if quick { 3 } else { 24 };
    let mut jobs: Vec<(String, Sty, &'static str, Target, OptVec)> = Vec::new();
    // the null table in full: null-like texts x styles x {no tag, !!str, !!null, !!int} x every Option / untyped / string target
    for tok in ["", "~", "null", "Null", "NULL", "nUll", "nul", "~~"] {
        for sty in STYLES {
            for tag in ["", "!!str", "!!null", "!!int", "!!binary"] {
                for tg in &targets {
                    if matches!(tg, Target::Option(_) | Target::Any | Target::String | Target::Unit) {
                        jobs.push((tok.to_string(), sty, tag, tg.clone(), optvecs[0]));
                        if !quick {
                            jobs.push((tok.to_string(), sty, tag, tg.clone(), *rng.pick(&optvecs)));
                        }
                    }
                }
            }
        }
    }
    for tok in &doc_tokens {
        for k in 0..per_token {
            let sty = if k == 0 { Sty::Plain } else { *rng.pick(&STYLES) };
            let tag = if k == 0 || rng.chance(1, 2) { "" } else { *rng.pick(&TAGS) };
            let tg = rng.pick(&targets).clone();
            let ov = *rng.pick(&optvecs);
            jobs.push((tok.to_string(), sty, tag, tg, ov));
        }
    }
    {
        for (tok, sty, tag, tg, ov) in jobs {
            let tok = &tok;
            let text = render_doc(tok, sty, tag);
            let Some(doc) = single_scalar(&text) else {
                ctx.skipped += 1;
                continue;
            };
            docs += 1;
            let got = match util::no_panic(|| run_target(&tg, &text, ov.options())) {
                Ok(r) => r,
                Err(p) => {
                    ctx.fail("panic", format!("panic {p} on {text:?} as {tg:?}"), json!({"kind": "doc", "text": text, "target": format!("{tg:?}"), "options": ov.json()}));
                    continue;
                }
            };
            let doc_term = match &doc {
                None => "None".to_string(),
                Some(sc) => {
                    // tie for tags.rs: the model recomputes the tag class from the tag text
                    ctx.case(format!("CTag {} {}", coq::opt(&sc.tag, |t| coq::s(t)), coq::n(sc.tag_code as u128)), sc.tag.is_some(),
                        json!({"fn": "SfTag::from_optional_cow", "tag": sc.tag}));
                    format!("(Some (mkScalar {} {} {}, {}))", coq::s(&sc.value), style_ctor(sc.style), coq::n(sc.tag_code as u128), coq::b(sc.col0))
                }
            };
            let replay = json!({"kind": "doc", "text": text, "target": format!("{tg:?}"), "options": ov.json()});
            let nontrivial = !tag.is_empty() || sty != Sty::Plain || ov.legacy || ov.strict || ov.no_schema || ov.ignore_bin || !matches!(got, SRes::Err(_));
            ctx.case(format!("CDeser {} {} {} {}", ov.coq(), tg.coq(), doc_term, got.coq()), nontrivial, replay.clone());
            ctx.count(&format!("result_kind={}", match &got { SRes::Err(e) => e.clone(), SRes::Some(_) => "Some".into(), other => format!("{other:?}").split('(').next().unwrap().to_string() }));
            // S: quoted scalars are never null / number / bool for string and untyped targets
            if let Some(sc) = &doc {
                ctx.direct_evaluations += 1;
                let quoted = sc.style == 1 || sc.style == 2;
                let plain_tag = sc.tag.is_none();
                if quoted && plain_tag && (tg == Target::String || tg == Target::Any || tg == Target::Str) && got != SRes::Str(sc.value.clone()) {
                    ctx.fail("quoted-not-string", format!("{text:?} as {tg:?} with {ov:?} gave {got:?}, expected the string {:?}", sc.value), replay.clone());
                }
                // S: documented tag table for String targets: !!binary is base64 of UTF-8 text (unless
                // ignore_binary_tag_for_string), the other core tags are not strings, !!str / ! / custom are
                if tg == Target::String && !(ov.no_schema && sc.style == 0) {
                    use base64::Engine;
                    let nullish_plain = sc.style == 0 && (sc.value.is_empty() || sc.value == "~" || sc.value.eq_ignore_ascii_case("null"));
                    let want: Option<Option<String>> = match sc.tag.as_deref() {
                        Some("!!binary") | Some("tag:yaml.org,2002:binary") if !ov.ignore_bin && !nullish_plain => {
                            let cleaned: String = sc.value.chars().filter(|c| !(c.is_ascii() && (*c as u8).is_ascii_whitespace())).collect();
                            Some(base64::engine::general_purpose::STANDARD.decode(cleaned.as_bytes()).ok().and_then(|b| String::from_utf8(b).ok()))
                        }
                        Some("!!int") | Some("!!float") | Some("!!bool") | Some("!!seq") | Some("!!map") | Some("!!timestamp") | Some("!degrees")
                            if !nullish_plain => Some(None),
                        Some("!!null") => Some(None),
                        _ => None,
                    };
                    if let Some(w) = want {
                        let ok = match (&w, &got) { (Some(s), SRes::Str(g)) => s == g, (None, SRes::Err(_)) => true, _ => false };
                        if !ok {
                            ctx.fail("string-tag-table", format!("{text:?} as String with {ov:?} gave {got:?}, documented {w:?}"), replay.clone());
                        }
                    }
                }
                // S: documented null table for Option<T>: None exactly for an empty unquoted scalar, a plain `~` / `null`
                // (any case) and `!!null`; a scalar tagged `!!str` is a string whatever its text; everything else is
                // Some(what T alone reads)
                if let Target::Option(inner) = &tg {
                    if matches!(tag, "" | "!!str" | "!!null" | "!!binary") {
                        let quoted = sc.style == 1 || sc.style == 2;
                        let table = (sc.value.is_empty() && !quoted) || (sc.style == 0 && (sc.value == "~" || sc.value.eq_ignore_ascii_case("null")));
                        // (`!!binary` with an empty payload is the empty byte string: F79, fixed)
                        let is_null = tag == "!!null" || (tag != "!!str" && tag != "!!binary" && table);
                        let want = if is_null {
                            SRes::None
                        } else {
                            match run_target(inner, &text, ov.options()) {
                                SRes::Err(e) => SRes::Err(e),
                                v => some(v),
                            }
                        };
                        let same = match (&want, &got) { (SRes::Err(_), SRes::Err(_)) => true, (a, b) => a.coq() == b.coq() };
                        if !same {
                            ctx.fail("option-null-table", format!("{text:?} as {tg:?} with {ov:?} gave {got:?}, documented {want:?}"), replay.clone());
                        }
                    }
                }
                // S: untyped inference (documented order null -> bool -> int -> float -> string) agrees with the exact
                // integer reference: a plain untagged token is an integer exactly when it is one for i64 / u64
                if tg == Target::Any && tag.is_empty() && sc.style == 0 && !ov.no_schema {
                    let t = sc.value.trim();
                    let nullish = sc.value.is_empty() || sc.value == "~" || sc.value.eq_ignore_ascii_case("null");
                    let tl = t.to_ascii_lowercase();
                    let is_bool = if ov.strict { matches!(tl.as_str(), "true" | "false") } else { matches!(sc.value.trim().to_ascii_lowercase().as_str(), "y" | "yes" | "true" | "on" | "n" | "no" | "false" | "off") };
                    if !nullish && !is_bool {
                        let want_int = ref_signed(t, 64, ov.legacy).map(SRes::Int).or_else(|| ref_unsigned(t, 64, ov.legacy).map(SRes::UInt));
                        let ok = match (&want_int, &got) {
                            (Some(SRes::Int(a)), SRes::Int(b)) => a == b,
                            (Some(SRes::Int(a)), SRes::UInt(b)) => *a >= 0 && *a as u128 == *b,
                            (Some(SRes::UInt(a)), SRes::UInt(b)) => a == b,
                            (Some(_), _) => false,
                            (None, SRes::Int(_) | SRes::UInt(_)) => false,
                            (None, _) => true,
                        };
                        if !ok {
                            ctx.fail("untyped-int-inference", format!("{text:?} untyped with {ov:?} gave {got:?}, exact 64-bit integer reading {want_int:?}"), replay.clone());
                        }
                    }
                }
                // S: integers end to end never wrap
                if let Target::Int(signed, bits) = tg {
                    let want = if signed { ref_signed(&sc.value, bits, ov.legacy).map(SRes::Int) } else { ref_unsigned(&sc.value, bits, ov.legacy).map(SRes::UInt) };
                    let ok = match (&want, &got) {
                        (Some(w), g) => w == g || matches!((w, g), (SRes::Int(a), SRes::UInt(b)) if *a >= 0 && *a as u128 == *b),
                        (None, SRes::Err(_)) => true,
                        (None, _) => false,
                    };
                    if !ok {
                        let class = "int-doc-mismatch";
                        ctx.fail(class, format!("{text:?} as {tg:?} gave {got:?}, exact {want:?}"), replay.clone());
                    }
                }
                // S: documented boolean table
                if tg == Target::Bool {
                    let t = sc.value.trim().to_ascii_lowercase();
                    let want = if ov.strict {
                        match t.as_str() { "true" => Some(true), "false" => Some(false), _ => None }
                    } else {
                        match t.as_str() { "y" | "yes" | "true" | "on" => Some(true), "n" | "no" | "false" | "off" => Some(false), _ => None }
                    };
                    let ok = match (want, &got) { (Some(b), SRes::Bool(g)) => b == *g, (None, SRes::Err(_)) => true, _ => false };
                    if !ok {
                        ctx.fail("bool-table", format!("{text:?} as bool with {ov:?} gave {got:?}, documented {want:?}"), replay.clone());
                    }
                }
            }
        }
    }
    ctx.count(&format!("documents={docs}"));

    // ---- witnesses of the known findings (replayed on the implementation every run)
    // fixed finding F10 stays in the corpus: i128::MIN in a non-decimal radix must be accepted
    for w in ["-0x80000000000000000000000000000000", "-0o2000000000000000000000000000000000000000000"] {
        ctx.direct_evaluations += 1;
        if serde_saphyr::from_str::<i128>(w).ok() != Some(i128::MIN) {
            ctx.fail("int-doc-mismatch", format!("{w} as i128 is not i128::MIN"), json!({"kind": "doc", "text": w, "target": "Int(true, 128)"}));
        }
    }
}

fn replay(ctx: &mut Ctx, r: &serde_json::Value) {
    let kind = r["kind"].as_str().unwrap_or("");
    match kind {
        "int_signed" => {
            let (bits, legacy, tok) = (r["bits"].as_u64().unwrap() as u32, r["legacy"].as_bool().unwrap(), r["token"].as_str().unwrap());
            let got = hk::parse_int_signed(bits, tok, legacy);
            let want = ref_signed(tok, bits, legacy);
            println!("replay: parse_int_signed::<i{bits}>({tok:?}, legacy={legacy}) = {got:?}; exact = {want:?}");
            if got != want {
                ctx.fail("int-signed-mismatch", "replayed".into(), r.clone());
            }
        }
        "int_unsigned" => {
            let (bits, legacy, tok) = (r["bits"].as_u64().unwrap() as u32, r["legacy"].as_bool().unwrap(), r["token"].as_str().unwrap());
            let got = hk::parse_int_unsigned(bits, tok, legacy);
            let want = ref_unsigned(tok, bits, legacy);
            println!("replay: parse_int_unsigned::<u{bits}>({tok:?}, legacy={legacy}) = {got:?}; exact = {want:?}");
            if got != want {
                ctx.fail("int-unsigned-mismatch", "replayed".into(), r.clone());
            }
        }
        _ => {
            println!("replay: {r}");
            if let Some(text) = r["text"].as_str() {
                println!("  from_str::<AnyVal> = {:?}", serde_saphyr::from_str::<AnyVal>(text).map(|v| v.0).map_err(|e| coq::eclass(&e)));
                println!("  from_str::<String> = {:?}", serde_saphyr::from_str::<String>(text).map_err(|e| coq::eclass(&e)));
                println!("  from_str::<i128> = {:?}", serde_saphyr::from_str::<i128>(text).map_err(|e| coq::eclass(&e)));
            }
        }
    }
}
