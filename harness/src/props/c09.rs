//! C09 -- all entry points agree: str, slice, reader (any chunking), borrowed vs owned.
//!
//! K: ChunkedChars under every partition of short byte strings, RingReader under interleavings of
//!    `read n` and `get_recent`, vs `SS.Model.Reader`.
//! S: from_str / from_slice / from_reader (many chunkings) / the closure helpers return the same
//!    value or an error of the same kind at the same line and column; a leading BOM is ignored by
//!    all; borrowed strings succeed exactly when the scalar is verbatim in the input.
use crate::coq;
use crate::ctx::Ctx;
use crate::docgen::{self, GenCfg};
use crate::scripted::{self, Scripted, Step};
use crate::tree::Tree;
use crate::util;
use serde::Deserialize;
use serde_json::json;

const DOCS: &[&str] = &[
    "a: 1\nb: [1, 2]\n",
    "- é\n- 日本語\n- \"\\u00e9 \\U0001F600\"\n- 😀\n",
    "key: |\n  literal é\n  text\nfolded: >\n  a\n  b\n",
    "a: [1, 2\n",
    "a: \"unterminated\n",
    "x: *nope\n",
    "--- a\n--- b\n",
    "a: 1\na: 2\n",
    "- !!binary aGVsbG8=\n- 0x10\n- ~\n",
    "\u{e9}: \u{65e5}\n# comment \u{1F600}\n",
    "",
    "   \n",
    "a:\r\n  - 1\r\n  - 2\r\n",
    "tab:\t\"x\ty\"\n",
    "--- {true : !!{float \"1\", \"c\" : 1.5}\n",
];

fn opts() -> serde_saphyr::Options {
    #[allow(deprecated)]
    let mut o = serde_saphyr::Options::default();
    #[allow(deprecated)]
    {
        o.with_snippet = false;
    }
    o
}

#[derive(Debug, PartialEq, Clone)]
enum Out {
    Ok(Tree),
    Err(String, u64, u64),
}
fn canon(r: Result<Tree, serde_saphyr::Error>) -> Out {
    match r {
        Ok(t) => Out::Ok(t),
        Err(e) => {
            let e2 = e.without_snippet();
            let (l, c) = e2.location().map(|l| (l.line(), l.column())).unwrap_or((0, 0));
            Out::Err(coq::variant_name(e2), l, c)
        }
    }
}

fn via_reader(bytes: &[u8], cuts: &[usize]) -> Out {
    let rd = Scripted::new(scripted::chunks_at(bytes, cuts));
    canon(serde_saphyr::from_reader_with_options::<_, Tree>(rd, opts()))
}

#[derive(Deserialize, Debug, PartialEq)]
struct Borrowing<'a> {
    #[serde(borrow)]
    v: Vec<&'a str>,
}
#[derive(Deserialize, Debug, PartialEq)]
struct Owning {
    v: Vec<String>,
}

pub fn run(ctx: &mut Ctx) {
    util::quiet_panics();
    ctx.set_case_format("From SS Require Import Corr.Reader.\nLocal Open Scope N_scope.", "case", "check_case");
    ctx.rule = "cases: ChunkedChars under every partition (2^(n-1)) of short byte strings with multi-byte characters; RingReader under \
                scripted interleavings of read(n) and get_recent() over chunked inner readers; distinct = distinct Coq case term; \
                non-trivial = at least one cut inside a multi-byte character, or at least one get_recent with pending read-ahead".into();
    if let Some(r) = ctx.replay.clone() {
        println!("replay: {r}");
        return;
    }
    let quick = ctx.quick();
    let mut rng = ctx.rng.fork();

    // ---- K1: every partition
    let shorts: Vec<Vec<u8>> = vec!["aé日😀b".as_bytes().to_vec(), "é\né".as_bytes().to_vec(), "k: \u{a0}v".as_bytes().to_vec()];
    for bytes in &shorts {
        let n = bytes.len();
        let total: u32 = 1 << (n - 1).min(if quick { 9 } else { 12 });
        for mask in 0..total {
            let cuts: Vec<usize> = (1..n).filter(|i| mask & (1 << (i - 1)) != 0).collect();
            let s = scripted::chunks_at(bytes, &cuts);
            let (chars, cell) = serde_saphyr::__verif::chunked_chars(Scripted::new(s.clone()), None, 10_000);
            let chars_term = coq::list(&chars.iter().map(|c| (*c as u32).to_string()).collect::<Vec<_>>(), "N");
            let inside = cuts.iter().any(|&c| !std::str::from_utf8(&bytes[..c]).is_ok());
            ctx.case(format!("CChars None {} 10000 {} {}", scripted::script_coq(&s), chars_term, coq::opt(&cell, |k| scripted::kind_coq(*k))), inside,
                json!({"kind": "partition", "bytes": bytes, "cuts": cuts}));
            // S: the characters do not depend on the partition
            ctx.direct_evaluations += 1;
            let want: Vec<char> = std::str::from_utf8(bytes).unwrap().chars().collect();
            if chars != want || cell.is_some() {
                ctx.fail("chunking-changes-chars", format!("partition {cuts:?} of {bytes:?} gives {chars:?} / {cell:?}"), json!({"kind": "partition", "bytes": bytes, "cuts": cuts}));
            }
        }
    }

    // ---- K2: RingReader scripts (ASCII data so that snapshots need no UTF-8 trimming)
    for round in 0..(if quick { 150 } else { 1500 }) {
        let len = if round % 10 == 0 { 5000 + rng.below(if round % 20 == 0 { 12000 } else { 3000 }) } else { rng.below(300) };
        let data: Vec<u8> = (0..len).map(|i| if i % 17 == 16 { b'\n' } else { b'a' + (i % 23) as u8 }).collect();
        // inner chunking
        let mut cuts = Vec::new();
        let mut p = 0;
        while p < len {
            p += 1 + rng.below(if round % 10 == 0 { if round % 20 == 0 { 9000 } else { 2000 } } else { 40 });
            cuts.push(p);
        }
        let mut steps = scripted::chunks_at(&data, &cuts);
        if rng.chance(1, 5) {
            let at = rng.below(steps.len() + 1);
            steps.insert(at, Step::Fail(std::io::ErrorKind::Other));
        }
        let nops = 2 + rng.below(12);
        let mut ops: Vec<Option<usize>> = Vec::new();
        for _ in 0..nops {
            if rng.chance(1, 3) { ops.push(None) } else { ops.push(Some(1 + rng.below(if round % 10 == 0 { if round % 20 == 0 { 9000 } else { 3000 } } else { 64 }))) }
        }
        let (out, snaps, err) = serde_saphyr::__verif::ring_reader_script(Scripted::new(steps.clone()), &ops);
        let ops_term = coq::list(&ops.iter().map(|o| match o { Some(n) => format!("OpRead {n}%nat"), None => "OpRecent".into() }).collect::<Vec<_>>(), "rop");
        let snaps_term = coq::list(&snaps.iter().map(|s| match s {
            Ok((o, l, b)) => format!("(None, ({o}, {l}, {}))", coq::bytes(b)),
            Err(k) => format!("(Some {}, (0, 0, ([] : list N)))", scripted::kind_coq(*k)),
        }).collect::<Vec<_>>(), "(option iokind * (N * N * list N))");
        ctx.case(format!("CRing {} {} {} {} {}", scripted::script_coq(&steps), ops_term, coq::bytes(&out), snaps_term, coq::opt(&err, |k| scripted::kind_coq(*k))),
            ops.iter().any(|o| o.is_none()), json!({"kind": "ring", "len": len, "ops": format!("{ops:?}")}));
        // S: what the consumer received is a prefix of the inner stream
        ctx.direct_evaluations += 1;
        if !data.starts_with(&out) {
            ctx.fail("ring-not-transparent", format!("RingReader handed out bytes that are not a prefix of the inner stream (ops {ops:?})"), json!({"kind": "ring", "ops": format!("{ops:?}")}));
        }
    }

    // ---- S: entry points agree
    let mut docs: Vec<String> = DOCS.iter().map(|s| s.to_string()).collect();
    for _ in 0..(if quick { 60 } else { 600 }) {
        let d = docgen::gen_doc(&mut rng, &GenCfg::default_for(12));
        let t = docgen::render_doc(&d);
        docs.push(if rng.chance(1, 5) { docgen::mutate(&mut rng, &t) } else { t });
    }
    for doc in &docs {
        for bom in [false, true] {
            let text = if bom { format!("\u{feff}{doc}") } else { doc.clone() };
            let bytes = text.as_bytes();
            let base = canon(serde_saphyr::from_str_with_options::<Tree>(doc, opts()));
            let replay = json!({"kind": "entry", "text": text});
            let mut results: Vec<(&str, Out)> = vec![
                ("from_str", canon(serde_saphyr::from_str_with_options::<Tree>(&text, opts()))),
                ("from_slice", canon(serde_saphyr::from_slice_with_options::<Tree>(bytes, opts()))),
                ("with_deserializer_from_str", canon(serde_saphyr::with_deserializer_from_str_with_options(&text, opts(), |d| Tree::deserialize(d)))),
                ("with_deserializer_from_slice", canon(serde_saphyr::with_deserializer_from_slice_with_options(bytes, opts(), |d| Tree::deserialize(d)))),
                ("with_deserializer_from_reader", canon(serde_saphyr::with_deserializer_from_reader_with_options(std::io::Cursor::new(bytes.to_vec()), opts(), |d| Tree::deserialize(d)))),
                ("from_reader(whole)", via_reader(bytes, &[])),
                ("from_reader(1-byte chunks)", via_reader(bytes, &(1..bytes.len()).collect::<Vec<_>>())),
            ];
            for k in [2usize, 3, 7] {
                let cuts: Vec<usize> = (1..bytes.len()).filter(|i| i % k == 0).collect();
                results.push(("from_reader(fixed chunks)", via_reader(bytes, &cuts)));
            }
            for _ in 0..3 {
                let cuts: Vec<usize> = (1..bytes.len()).filter(|_| rng.chance(1, 4)).collect();
                results.push(("from_reader(random chunks)", via_reader(bytes, &cuts)));
            }
            for (name, r) in results {
                ctx.direct_evaluations += 1;
                if r != base {
                    // the parser's two input back-ends scan a tag that runs into a flow indicator (`!!{float`)
                    // differently and stop at different places (recorded finding F32)
                    let both_scan_errors = matches!((&r, &base), (Out::Err(a, ..), Out::Err(b, ..)) if a == "ExternalMessage" && b == "ExternalMessage");
                    let tag_into_indicator = {
                        let b = text.as_bytes();
                        (0..b.len()).any(|i| b[i] == b'!' && {
                            let mut j = i + 1;
                            while j < b.len() && (b[j] == b'!' || b[j].is_ascii_alphanumeric()) { j += 1; }
                            j < b.len() && matches!(b[j], b'{' | b'}' | b'[' | b']' | b',')
                        })
                    };
                    let class = if both_scan_errors && tag_into_indicator && name.contains("reader") { "F32:tag-into-flow-indicator-scan-error-differs" }
                        else if bom && name.starts_with("from_reader") || bom && name.contains("from_reader") { "bom-reader" } else if bom { "bom-not-ignored" } else { "entry-points-differ" };
                    ctx.fail(class, format!("{name} on {text:?} gives {r:?}, from_str on the text without BOM gives {base:?}"), replay.clone());
                }
            }
        }
    }

    // ---- S: streams -- from_multiple, from_slice_multiple and the reader iterator (any chunking) give the same
    // sequence of documents
    {
        let pieces: &[&str] = &["a: 1\n", "- x\n- y\n", "~\n", "", "|\n", "|-\n", ">\n", ">-\n", "''\n", "\"\"\n", "null\n", "|\n  text\n", "# only a comment\n", "plain\n", "[]\n", "{}\n", "&a x\n", "!!str\n", "...\n"];
        let mut streams: Vec<String> = Vec::new();
        for a in pieces {
            for b in pieces {
                streams.push(format!("--- {a}--- {b}"));
                streams.push(format!("--- {a}...\n--- {b}...\n"));
            }
            streams.push(format!("--- {a}--- second\n--- {a}--- {a}"));
        }
        for text in &streams {
            let canon_list = |r: Result<Vec<Tree>, serde_saphyr::Error>| match r {
                Ok(v) => format!("{v:?}"),
                Err(e) => format!("Err({})", coq::variant_name(e.without_snippet())),
            };
            let base = canon_list(serde_saphyr::from_multiple_with_options::<Tree>(text, opts()));
            ctx.direct_evaluations += 1;
            let sl = canon_list(serde_saphyr::from_slice_multiple_with_options::<Tree>(text.as_bytes(), opts()));
            if sl != base {
                ctx.fail("stream-entry-points-differ", format!("from_slice_multiple on {text:?} gives {sl}, from_multiple {base}"), json!({"kind": "stream", "text": text}));
            }
            for step in [1usize, 3, 4096] {
                ctx.direct_evaluations += 1;
                let bytes = text.as_bytes();
                let cuts: Vec<usize> = (1..bytes.len()).filter(|i| i % step == 0).collect();
                let mut rd = Scripted::new(scripted::chunks_at(bytes, &cuts));
                // the iterator reports an error as an item and goes on; from_multiple stops at the first error
                let mut items: Vec<Tree> = Vec::new();
                let mut err: Option<String> = None;
                for it in serde_saphyr::read_with_options::<_, Tree>(&mut rd, opts()).take(64) {
                    match it {
                        Ok(v) => items.push(v),
                        Err(e) => {
                            err = Some(coq::variant_name(e.without_snippet()));
                            break;
                        }
                    }
                }
                let got = match err { None => format!("{items:?}"), Some(e) => format!("Err({e})") };
                if got != base {
                    ctx.fail("stream-entry-points-differ", format!("read ({step}-byte chunks) on {text:?} gives {got}, from_multiple {base}"), json!({"kind": "stream", "text": text, "step": step}));
                }
            }
        }
    }

    // ---- S: borrowed mapping keys (verbatim in the input, so they can be lent like values)
    {
        use std::collections::{BTreeMap, HashMap};
        for (text, verbatim) in [("k1: 1\nk2: 2\n", true), ("{'q k': 1, \"d\": 2}\n", true), ("\"esc\\n\": 1\n", false), ("? k\n: 1\n", true), ("日本: 1\né: 2\n", true)] {
            ctx.direct_evaluations += 2;
            let o = serde_saphyr::from_str::<BTreeMap<String, i32>>(text);
            let b = serde_saphyr::from_str::<BTreeMap<&str, i32>>(text).map(|m| m.into_iter().map(|(k, v)| (k.to_string(), v)).collect::<BTreeMap<String, i32>>());
            let h = serde_saphyr::from_slice_with_options::<HashMap<&str, i32>>(text.as_bytes(), opts()).map(|m| m.into_iter().map(|(k, v)| (k.to_string(), v)).collect::<BTreeMap<String, i32>>());
            for (name, got) in [("BTreeMap<&str, i32> via from_str", &b), ("HashMap<&str, i32> via from_slice_with_options", &h)] {
                let ok = match (&o, got) {
                    (Ok(x), Ok(y)) => verbatim && x == y,
                    (Ok(_), Err(_)) => !verbatim,
                    _ => false,
                };
                if !ok {
                    ctx.fail("borrow-mismatch", format!("{name} on {text:?}: borrowed keys {got:?}, owned {o:?}, keys verbatim in input: {verbatim}"), json!({"kind": "borrow-keys", "text": text}));
                }
            }
        }
    }

    // ---- S: borrowed strings
    let cases: &[(&str, Vec<bool>)] = &[
        ("v: [plain, 'single', \"double\", \"esc\\n\", 'it''s', two words]\n", vec![true, true, true, false, false, true]),
    ];
    for (text, verbatim) in cases {
        ctx.direct_evaluations += 1;
        let owned = serde_saphyr::from_str::<Owning>(text).map(|o| o.v);
        let borrowed = serde_saphyr::from_str::<Borrowing>(text).map(|b| b.v.iter().map(|s| s.to_string()).collect::<Vec<_>>());
        let all_verbatim = verbatim.iter().all(|b| *b);
        match (&owned, &borrowed) {
            (Ok(o), Ok(b)) if all_verbatim && o == b => {}
            (Ok(_), Err(_)) if !all_verbatim => {}
            other => ctx.fail("borrow-mismatch", format!("borrowing {text:?}: {other:?}"), json!({"kind": "borrow", "text": text})),
        }
        // element-wise
        for (i, v) in verbatim.iter().enumerate() {
            let one = format!("v: [{}]\n", text.trim_start_matches("v: [").trim_end_matches("]\n").split(", ").nth(i).unwrap());
            ctx.direct_evaluations += 1;
            let b = serde_saphyr::from_str::<Borrowing>(&one).map(|b| b.v.iter().map(|s| s.to_string()).collect::<Vec<_>>());
            let o = serde_saphyr::from_str::<Owning>(&one).map(|o| o.v);
            let ok = if *v { b.is_ok() && b.as_ref().ok() == o.as_ref().ok() } else { b.is_err() && o.is_ok() };
            if !ok {
                ctx.fail("borrow-mismatch", format!("{one:?}: borrowed {b:?}, owned {o:?}, verbatim in input: {v}"), json!({"kind": "borrow", "text": one}));
            }
            // reader input never lends
            let rb = serde_saphyr::from_reader::<_, Owning>(std::io::Cursor::new(one.as_bytes().to_vec())).map(|o| o.v);
            if rb.as_ref().ok() != o.as_ref().ok() {
                ctx.fail("reader-owned-differs", format!("{one:?}: from_reader {rb:?} vs from_str {o:?}"), json!({"kind": "borrow", "text": one}));
            }
        }
    }
    // ---- S: a borrowed target succeeds on every route by which a verbatim scalar can arrive
    #[derive(Deserialize, Debug, PartialEq)]
    struct HostB<'a> {
        #[serde(borrow)]
        host: &'a str,
    }
    #[derive(Deserialize, Debug, PartialEq)]
    struct HostO {
        host: String,
    }
    let scalars: &[(&str, bool)] = &[("example", true), ("'single q'", true), ("\"double q\"", true), ("日本 é", true), ("\"esc\\n\"", false), ("'it''s'", false), ("two words", true)];
    for (sc, verbatim) in scalars {
        let routes: Vec<(&str, String)> = vec![
            ("direct", format!("host: {sc}\n")),
            ("flow", format!("{{host: {sc}}}\n")),
            ("alias", format!("x: &a {sc}\nhost: *a\n")),
            ("merge-inline", format!("<<: {{host: {sc}}}\nother: 1\n")),
            ("merge-alias", format!("b: &b {{host: {sc}}}\n<<: *b\n")),
            ("merge-list", format!("b: &b {{host: {sc}}}\n<<: [*b, {{z: 1}}]\n")),
            ("after-other-keys", format!("zz: 1\nyy: [1, 2]\nhost: {sc}\n")),
        ];
        for (route, text) in routes {
            ctx.direct_evaluations += 1;
            ctx.count(&format!("borrow-route:{route}"));
            let o = serde_saphyr::from_str::<HostO>(&text).map(|h| h.host);
            let b = serde_saphyr::from_str::<HostB>(&text).map(|h| h.host.to_string());
            let ok = match (&o, &b) {
                (Ok(x), Ok(y)) => *verbatim && x == y,
                (Ok(_), Err(_)) => !*verbatim,
                _ => false,
            };
            if !ok {
                ctx.fail("borrow-mismatch", format!("route {route}, {text:?}: borrowed {b:?}, owned {o:?}, verbatim in input: {verbatim}"), json!({"kind": "borrow-route", "text": text}));
            }
        }
    }
}
