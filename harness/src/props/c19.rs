//! C19 -- robotics expressions evaluate totally and exactly; plain numbers are unchanged.
//!
//! K: the evaluator (src/robotics.rs) on generated expression texts x tags, and decimal literal
//!    conversion, vs `SS.Model.Robotics` (IEEE binary64 on Coq's primitive floats), bit for bit.
//! S: (1) an independent reference evaluator over the generated syntax trees (standard precedence,
//!    degrees converted once, mixed units with a Degrees tag rejected) gives the same bits;
//!    (2) arbitrary byte strings and pathological nestings neither panic nor take unbounded time;
//!    (3) every ordinary float literal has, with the option on, exactly the value it has with the
//!    option off, for f64 and f32 targets; (4) with the option off nothing is evaluated.
use crate::coq;
use crate::ctx::{Ctx, Rng};
use crate::util;
use serde_json::json;
use serde_saphyr::__verif as hooks;

const PI: f64 = std::f64::consts::PI;
const DEG2RAD: f64 = PI / 180.0;

#[derive(Clone, Debug)]
enum Ex {
    Num(String),
    Const(&'static str),
    Sexa(String, f64, f64, f64), // text, whole, minutes, seconds(with fraction)
    Neg(Box<Ex>),
    Pos(Box<Ex>),
    Bin(char, Box<Ex>, Box<Ex>),
    Paren(Box<Ex>),
    Deg(Box<Ex>),
    Rad(Box<Ex>),
}

fn gen_num(rng: &mut Rng) -> String {
    let digits = |rng: &mut Rng, n: usize| -> String {
        let mut s = String::new();
        for i in 0..n {
            s.push((b'0' + rng.below(10) as u8) as char);
            if i + 1 < n && rng.chance(1, 8) {
                s.push('_');
            }
        }
        s
    };
    let long_ip = rng.chance(1, 10);
    let ip = 1 + rng.below(if long_ip { 25 } else { 4 });
    let long_fp = rng.chance(1, 8);
    let fp = 1 + rng.below(if long_fp { 30 } else { 5 });
    let mut s = match rng.below(8) {
        0 => format!(".{}", digits(rng, fp)),
        1 => format!("{}.", digits(rng, ip)),
        2 | 3 => {
            let a = digits(rng, ip);
            let b = digits(rng, fp);
            format!("{a}.{b}")
        }
        _ => digits(rng, ip),
    };
    if rng.chance(1, 4) {
        let big = rng.chance(1, 10);
        let e = if big { rng.below(400) } else { rng.below(30) };
        s.push_str(&format!("{}{}{}", if rng.chance(1, 2) { "e" } else { "E" }, *rng.pick(&["", "+", "-"]), e));
    }
    s
}
fn clean(s: &str) -> String {
    s.replace('_', "")
}

fn gen_ex(rng: &mut Rng, depth: usize) -> Ex {
    let leaf = depth == 0 || rng.chance(2, 5);
    if leaf {
        return match rng.below(12) {
            0 => Ex::Const(*rng.pick(&["pi", "PI", "Pi", "tau", "TAU"])),
            1 => Ex::Const(*rng.pick(&["inf", ".inf", ".INF", "nan", ".NaN", "Inf"])),
            2 => {
                let w = rng.below(400);
                let m = rng.below(60);
                if rng.chance(1, 2) {
                    Ex::Sexa(format!("{w}:{m:02}"), w as f64, m as f64, 0.0)
                } else {
                    let s = rng.below(60);
                    if rng.chance(1, 2) {
                        let fr = rng.below(1000);
                        let text = format!("{w}:{m}:{s}.{fr:03}");
                        Ex::Sexa(text, w as f64, m as f64, s as f64 + (fr as f64) / 1000.0)
                    } else {
                        Ex::Sexa(format!("{w}:{m}:{s}"), w as f64, m as f64, s as f64)
                    }
                }
            }
            _ => Ex::Num(gen_num(rng)),
        };
    }
    match rng.below(10) {
        0 => Ex::Neg(Box::new(gen_ex(rng, depth - 1))),
        1 => Ex::Pos(Box::new(gen_ex(rng, depth - 1))),
        2 => Ex::Paren(Box::new(gen_ex(rng, depth - 1))),
        3 => Ex::Deg(Box::new(gen_ex(rng, depth - 1))),
        4 => Ex::Rad(Box::new(gen_ex(rng, depth - 1))),
        _ => Ex::Bin(*rng.pick(&['+', '-', '*', '/']), Box::new(gen_ex(rng, depth - 1)), Box::new(gen_ex(rng, depth - 1))),
    }
}

fn prec(e: &Ex) -> u8 {
    match e {
        Ex::Bin('+' | '-', ..) => 1,
        Ex::Bin(..) => 2,
        Ex::Neg(_) | Ex::Pos(_) => 3,
        _ => 4,
    }
}
fn sp(rng: &mut Rng) -> &'static str {
    *rng.pick(&["", "", " ", "  ", "\t"])
}
/// text whose parse (standard precedence, left associativity) is exactly this tree
fn render(e: &Ex, rng: &mut Rng) -> String {
    let wrap = |x: &Ex, min: u8, rng: &mut Rng| -> String {
        let t = render(x, rng);
        if prec(x) < min { format!("({}{}{})", sp(rng), t, sp(rng)) } else { t }
    };
    match e {
        Ex::Num(t) | Ex::Sexa(t, ..) => t.clone(),
        Ex::Const(c) => c.to_string(),
        Ex::Neg(x) => format!("-{}", wrap(x, 4, rng)),
        Ex::Pos(x) => format!("+{}", wrap(x, 4, rng)),
        Ex::Paren(x) => format!("({}{}{})", sp(rng), render(x, rng), sp(rng)),
        Ex::Deg(x) => format!("{}{}({}{})", *rng.pick(&["deg", "DEG", "Deg"]), sp(rng), render(x, rng), sp(rng)),
        Ex::Rad(x) => format!("{}{}({}{})", *rng.pick(&["rad", "RAD"]), sp(rng), render(x, rng), sp(rng)),
        Ex::Bin(op, a, b) => {
            let p = if matches!(op, '+' | '-') { 1 } else { 2 };
            // the operands of * and / are unary-level; a unary operand of + / - may be a term
            let l = wrap(a, p, rng);
            let r = wrap(b, if p == 1 { 2 } else { 3 }, rng);
            format!("{l}{}{op}{}{r}", sp(rng), sp(rng))
        }
    }
}

/// (value, used_unit, saw_plain); `in_fn` = inside deg()/rad()
fn reference(e: &Ex, tag: u8, in_fn: bool) -> Option<(f64, bool, bool)> {
    Some(match e {
        Ex::Num(t) => (clean(t).parse::<f64>().ok()?, false, true),
        Ex::Const(c) => match c.to_ascii_lowercase().as_str() {
            "pi" => (PI, false, true),
            "tau" => (2.0 * PI, false, true),
            "inf" | ".inf" => (f64::INFINITY, false, true),
            _ => (f64::NAN, false, true),
        },
        Ex::Sexa(_, w, m, s) => {
            let seconds = w * 3600.0 + m * 60.0 + s;
            let degrees = w + m / 60.0 + s / 3600.0;
            let v = if !in_fn {
                if tag == 1 || tag == 2 { degrees * DEG2RAD } else { seconds }
            } else if tag == 3 {
                seconds
            } else {
                degrees
            };
            (v, true, false)
        }
        Ex::Neg(x) => {
            let (v, u, p) = reference(x, tag, in_fn)?;
            (-1.0 * v, u, p)
        }
        Ex::Pos(x) => {
            let (v, u, p) = reference(x, tag, in_fn)?;
            (1.0 * v, u, p)
        }
        Ex::Paren(x) => reference(x, tag, in_fn)?,
        Ex::Deg(x) => (reference(x, tag, true)?.0 * DEG2RAD, true, false),
        Ex::Rad(x) => (reference(x, tag, true)?.0, true, false),
        Ex::Bin(op, a, b) => {
            let (x, u1, p1) = reference(a, tag, in_fn)?;
            let (y, u2, p2) = reference(b, tag, in_fn)?;
            let v = match op {
                '+' => x + y,
                '-' => x - y,
                '*' => x * y,
                _ => x / y,
            };
            (v, u1 | u2, p1 | p2)
        }
    })
}
fn reference_top(e: &Ex, tag: u8) -> Option<f64> {
    let (v, used, plain) = reference(e, tag, false)?;
    if !used {
        Some(if tag == 1 { v * DEG2RAD } else { v })
    } else if tag == 1 && plain {
        None
    } else {
        Some(v)
    }
}

fn same(a: Option<u64>, b: Option<f64>) -> bool {
    match (a, b) {
        (None, None) => true,
        (Some(x), Some(y)) => x == y.to_bits() || (f64::from_bits(x).is_nan() && y.is_nan()),
        _ => false,
    }
}
fn tag_coq(t: u8) -> &'static str {
    ["RtNone", "RtDegrees", "RtRadians", "RtTimeStamp"][t as usize]
}
fn eval_case(ctx: &mut Ctx, text: &str, tag: u8, nontrivial: bool, kind: &str) -> Option<u64> {
    let replay = json!({"kind": kind, "text": text, "tag": tag});
    match util::no_panic(|| hooks::robotics_eval(text, tag)) {
        Ok(r) => {
            if text.len() < 400 {
                ctx.case(format!("CEval {} {} {}", coq::bytes(text.as_bytes()), tag_coq(tag), coq::opt(&r, |b| b.to_string())), nontrivial, replay);
            }
            r
        }
        Err(p) => {
            ctx.fail("panic", format!("evaluator panicked on {text:?}: {p}"), replay);
            None
        }
    }
}

fn opts(angle: bool) -> serde_saphyr::Options {
    #[allow(deprecated)]
    let mut o = serde_saphyr::Options::default();
    #[allow(deprecated)]
    {
        o.angle_conversions = angle;
        o.with_snippet = false;
    }
    o
}

pub fn run(ctx: &mut Ctx) {
    util::quiet_panics();
    ctx.set_case_format("From SS Require Import Corr.Robotics.\nLocal Open Scope N_scope.", "case", "check_case");
    ctx.rule = "cases: expression texts rendered from random syntax trees (numbers with separators / fractions / exponents, pi tau inf nan, \
                unary signs, + - * /, parentheses, deg() rad(), sexagesimal forms, random blanks) x {no tag, degrees, radians, timestamp}; \
                malformed texts; nestings around the depth limit; decimal literals as (mantissa, exponent) pairs; distinct = distinct Coq \
                case term; non-trivial = an operator, function, unit or error is involved"
        .into();
    if let Some(r) = ctx.replay.clone() {
        println!("replay: {r}");
        if let Some(t) = r["text"].as_str() {
            let tag = r["tag"].as_u64().unwrap_or(0) as u8;
            println!("evaluator: {:?}", hooks::robotics_eval(t, tag).map(f64::from_bits));
        }
        return;
    }
    let quick = ctx.quick();
    let mut rng = ctx.rng.fork();

    // ---- K + S1: generated trees
    for round in 0..(if quick { 500 } else { 8000 }) {
        let e = gen_ex(&mut rng, 1 + round % 5);
        let text = render(&e, &mut rng);
        for tag in 0..4u8 {
            let got = eval_case(ctx, &text, tag, !matches!(e, Ex::Num(_)), "tree");
            ctx.direct_evaluations += 1;
            let want = reference_top(&e, tag);
            if !same(got, want) {
                ctx.fail("value-differs-from-reference", format!("{text:?} tag {}: evaluator {:?} ({:?}), reference {:?}", tag_coq(tag), got.map(f64::from_bits), got, want), json!({"kind": "tree", "text": text, "tag": tag}));
            }
        }
    }
    // ---- K: malformed and boundary texts
    let fixed = [
        "", " ", "(", ")", "()", "1+", "*2", "1 2", "1..2", "1.2.3", "1e", "1e+", "1e_5", "1__0", "_1", "1_", "1_.5", "1._5", "1.5_", "deg", "deg(", "deg()", "deg(1", "rad 1", "foo", "pi2", "2pi",
        "1:60", "1:2:60", "1::2", ":30", "1:", "1:2:", "1:2:3.", "1:2:3._1", "1_0:3_0", "4294967296:00", "1:4294967296", "deg(1:30)", "deg(1:30:30.5)", "1:30 + 1", "deg(90) + 1", "deg(90) + rad(1)",
        "--1", "-+-1", "- 1", "1 - - 1", "1/0", "-1/0", "0/0", "inf-inf", ".inf", ".nan", "-.inf", ".infx", ".5", "5.", ".", ".e5", "1e400", "1e-400", "0.1+0.2", "1e308*10", "4.9e-324/2",
        "9007199254740993", "1.00000005960464477539062500000001", "123456789012345678901234567890", "0.000000000000000000000000000001e30", "2**3", "2^3", "1,5", "1 + (2 * (3 - (4 / 5)))",
        "tau/4", "PI", "Deg ( 180 )", "deg(deg(1))", "rad(deg(180))", "deg(pi)", "1e5e5", "0x10", "1 + 2 # c", "١٢", "1é",
    ];
    for t in fixed {
        for tag in 0..4u8 {
            eval_case(ctx, t, tag, true, "fixed");
        }
    }
    for n in [1usize, 2, 10, 100, 255, 256, 257, 258, 300] {
        for (open, close) in [("(", ")"), ("deg(", ")"), ("-(", ")")] {
            let text = format!("{}1{}", open.repeat(n), close.repeat(n));
            let r = eval_case(ctx, &text, 0, true, "nesting");
            ctx.direct_evaluations += 1;
            if (n <= 256) != r.is_some() {
                ctx.fail("depth-limit-not-at-256", format!("{n} nested {open:?}: result {r:?}"), json!({"kind": "nesting", "n": n, "open": open}));
            }
        }
    }
    // ---- K: decimal literals
    for _ in 0..(if quick { 400 } else { 6000 }) {
        let longm = rng.chance(1, 6);
        let nd = 1 + rng.below(if longm { 40 } else { 18 });
        let mut m = String::new();
        for i in 0..nd {
            m.push((b'0' + if i == 0 { 1 + rng.below(9) } else { rng.below(10) } as u8) as char);
        }
        let e: i64 = match rng.below(4) {
            0 => rng.below(700) as i64 - 350,
            1 => -(nd as i64) - rng.below(5) as i64,
            _ => rng.below(60) as i64 - 30,
        };
        if let Ok(v) = format!("{m}e{e}").parse::<f64>() {
            ctx.case(format!("CLit {}%Z ({})%Z {}%Z {}", m, e, nd, v.to_bits()), true, json!({"kind": "literal", "mantissa": m, "exp": e}));
        }
    }

    // ---- S2: totality on arbitrary bytes and pathological shapes
    let t0 = std::time::Instant::now();
    for _ in 0..(if quick { 20_000 } else { 400_000 }) {
        let n = rng.below(24);
        let s: String = (0..n).map(|_| *rng.pick(&['0', '1', '9', '.', '_', 'e', 'E', '+', '-', '*', '/', '(', ')', ':', ' ', 'd', 'g', 'r', 'a', 'p', 'i', 'n', 'f', 't', 'u', '\t', 'é', '\0', 'x'])).collect();
        ctx.direct_evaluations += 1;
        if let Err(p) = util::no_panic(|| hooks::robotics_eval(&s, (n % 4) as u8)) {
            ctx.fail("panic", format!("evaluator panicked on {s:?}: {p}"), json!({"kind": "bytes", "text": s}));
        }
    }
    let shapes: Vec<String> = vec![format!("{}1", "-".repeat(200_000)), format!("1{}", "+1".repeat(200_000)), format!("{}1{}", "(".repeat(100_000), ")".repeat(100_000)), "9".repeat(900_000), format!("1{}", "_1".repeat(300_000)), format!("1:{}", "0".repeat(500_000))];
    // a child process evaluates each shape first: a stack overflow kills the process, not the check
    if let Ok(k) = std::env::var("VERIF_C19_SHAPE") {
        let k: usize = k.parse().unwrap_or(0);
        let _ = hooks::robotics_eval(&shapes[k.min(shapes.len() - 1)], 0);
        std::process::exit(0);
    }
    for (k, shape) in shapes.iter().enumerate() {
        ctx.direct_evaluations += 1;
        let child = std::process::Command::new(std::env::current_exe().unwrap()).arg("c19").env("VERIF_C19_SHAPE", k.to_string()).output();
        if !child.as_ref().map(|o| o.status.success()).unwrap_or(false) {
            ctx.fail("unbounded-recursion", format!("evaluating {} bytes starting {:?} kills the process ({:?}): recursion is not bounded by the depth limit", shape.len(), &shape[..8], child.map(|o| o.status)), json!({"kind": "shape", "prefix": &shape[..8], "len": shape.len(), "text_rule": "prefix repeated"}));
            continue;
        }
        let t = std::time::Instant::now();
        if let Err(p) = util::no_panic(|| hooks::robotics_eval(shape, 0)) {
            ctx.fail("panic", format!("evaluator panicked on a {}-byte input starting {:?}: {p}", shape.len(), &shape[..8]), json!({"kind": "shape", "prefix": &shape[..8], "len": shape.len()}));
        }
        if t.elapsed().as_secs_f64() > 5.0 {
            ctx.fail("unbounded-work", format!("{} bytes starting {:?} took {:.1}s", shape.len(), &shape[..8], t.elapsed().as_secs_f64()), json!({"kind": "shape", "prefix": &shape[..8], "len": shape.len()}));
        }
    }
    ctx.count(&format!("totality sweep {:.1}s", t0.elapsed().as_secs_f64()));

    // ---- S3 + S4: ordinary literals with the option on versus off; nothing evaluated when off
    let mut lits: Vec<String> = vec![
        "0", "-0", "0.0", "-0.0", "1", "1.0", "1.5", "-1.5", "+1.5", "1e3", "1E3", "1e+3", "1e-3", "1.5e300", "1e400", "-1e400", "1e-400", ".5", "5.", "0.1", "0.2", "0.30000000000000004",
        "1.00000005960464477539062500000001", "16777217", "16777217.0", "9007199254740993", "3.4028235e38", "3.4028236e38", "1.17549435e-38", "1e-45", "7e-46", "1.4e-45", ".inf", "-.inf", ".nan", ".NaN", "+.inf",
        "inf", "-inf", "nan", "NaN", "Infinity", "123456789.123456789", "0.000001", "1_000.5", "  1.5  ",
    ]
    .into_iter()
    .map(String::from)
    .collect();
    for _ in 0..(if quick { 3000 } else { 100_000 }) {
        let v = f64::from_bits(rng.next_u64());
        if v.is_finite() {
            lits.push(format!("{v:e}"));
            lits.push(format!("{v}").chars().take(60).collect());
            let f = f32::from_bits(rng.next_u64() as u32);
            if f.is_finite() {
                // a decimal that sits just above the midpoint of two adjacent f32 values
                let mid = (f as f64 + f32::from_bits(f.to_bits().wrapping_add(1)) as f64) / 2.0;
                lits.push(format!("{mid:.40}1").trim_start_matches('+').to_string());
            }
        }
    }
    for l in &lits {
        let doc = format!("{l}\n");
        ctx.direct_evaluations += 2;
        let off64 = serde_saphyr::from_str_with_options::<f64>(&doc, opts(false)).ok().map(f64::to_bits);
        let on64 = serde_saphyr::from_str_with_options::<f64>(&doc, opts(true)).ok().map(f64::to_bits);
        let off32 = serde_saphyr::from_str_with_options::<f32>(&doc, opts(false)).ok().map(f32::to_bits);
        let on32 = serde_saphyr::from_str_with_options::<f32>(&doc, opts(true)).ok().map(f32::to_bits);
        let nan64 = |a: Option<u64>, b: Option<u64>| matches!((a, b), (Some(x), Some(y)) if f64::from_bits(x).is_nan() && f64::from_bits(y).is_nan());
        let nan32 = |a: Option<u32>, b: Option<u32>| matches!((a, b), (Some(x), Some(y)) if f32::from_bits(x).is_nan() && f32::from_bits(y).is_nan());
        // accepted without the extension => same value with it (the extension may accept more, e.g. separators)
        if off64.is_some() && off64 != on64 && !nan64(off64, on64) {
            ctx.fail("literal-changes-with-option:f64", format!("{l:?}: option off {off64:x?}, option on {on64:x?}"), json!({"kind": "literal_on_off", "text": l}));
        }
        if off32.is_some() && off32 != on32 && !nan32(off32, on32) {
            ctx.fail("literal-changes-with-option:f32", format!("{l:?}: option off {off32:x?}, option on {on32:x?}"), json!({"kind": "literal_on_off", "text": l}));
        }
    }
    for t in ["deg(180)", "1+1", "2*pi", "1:30", "1_000.5"] {
        ctx.direct_evaluations += 1;
        if serde_saphyr::from_str_with_options::<f64>(&format!("{t}\n"), opts(false)).is_ok() {
            ctx.fail("evaluated-with-option-off", format!("{t:?} is accepted as a float with angle_conversions off"), json!({"kind": "off", "text": t}));
        }
    }
    for (t, want) in [("!degrees 180", PI), ("!radians 2", 2.0), ("!degrees deg(90)", PI / 2.0), ("deg(180)", PI)] {
        ctx.direct_evaluations += 1;
        let r = serde_saphyr::from_str_with_options::<f64>(&format!("{t}\n"), opts(true));
        if r.as_ref().ok().map(|v| v.to_bits()) != Some(want.to_bits()) {
            ctx.fail("angle-tag-pipeline", format!("{t:?} with the option on gives {r:?}, expected {want}"), json!({"kind": "tagged", "text": t}));
        }
    }
    // a bare number under a degrees tag: the f64 product, rounded once to the target
    for n in 1..=360u32 {
        ctx.direct_evaluations += 1;
        let want64 = (n as f64) * DEG2RAD;
        let got64 = serde_saphyr::from_str_with_options::<f64>(&format!("!degrees {n}\n"), opts(true)).ok().map(f64::to_bits);
        let got32 = serde_saphyr::from_str_with_options::<f32>(&format!("!degrees {n}\n"), opts(true)).ok().map(f32::to_bits);
        let fun32 = serde_saphyr::from_str_with_options::<f32>(&format!("deg({n})\n"), opts(true)).ok().map(f32::to_bits);
        if got64 != Some(want64.to_bits()) || got32 != Some((want64 as f32).to_bits()) || got32 != fun32 {
            ctx.fail("degrees-tag-value", format!("!degrees {n}: f64 {got64:x?} (expected {:x}), f32 {got32:x?} (expected {:x}; deg({n}) gives {fun32:x?})", want64.to_bits(), (want64 as f32).to_bits()), json!({"kind": "degrees_tag", "n": n}));
        }
    }
    ctx.witness("F16", serde_saphyr::from_str_with_options::<f32>("1.00000005960464477539062500000001\n", opts(true)).ok().map(f32::to_bits) != Some(0x3F80_0001), "f32 literal just above a rounding midpoint is double-rounded with the option on");
}
