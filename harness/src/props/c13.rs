//! C13 -- every data-model shape round-trips as one well-formed YAML document.
//!
//! K: the block layout of sequences / mappings / scalars under the default options vs the regular
//!    layout model `SS.Model.Emit` (exact text), on all small trees.
//! S: values of a recursive grammar covering every Serde shape in every parent position (root,
//!    sequence item, mapping value, mapping key, variant payload), all small trees and random larger
//!    ones, x all combinations of indent step, compact list indent, empty-as-braces, quote-all,
//!    YAML-1.2 mode, block-scalar preference and tagged enums: the emitted text is one document (a
//!    second document is never started) and deserializes back into an equal value of the same type.
//!    The grammar includes struct variants with plain collection fields and with field names that need quoting; every
//!    position is tried even when an earlier one fails; scalar leaves run under all indent_step = 1 vectors in the quick tier.
use crate::coq;
use crate::ctx::{Ctx, Rng};
use crate::util;
use serde::{Deserialize, Serialize};
use serde_json::json;
use std::collections::BTreeMap;

#[derive(Serialize, Deserialize, PartialEq, Eq, PartialOrd, Ord, Debug, Clone)]
enum K {
    Str(String),
    Int(i32),
    Pair(i32, i32),
    Rec { a: i32 },
    Unit,
    Seq(Vec<i32>),
}
#[derive(Serialize, Deserialize, PartialEq, Debug, Clone)]
struct St {
    a: Val,
    b: Option<Val>,
    c: Vec<Val>,
}
#[derive(Serialize, Deserialize, PartialEq, Debug, Clone)]
struct PlainSt {
    a: i32,
    b: String,
}
#[derive(Serialize, Deserialize, PartialEq, Debug, Clone)]
struct Tst(Val, bool);
#[derive(Serialize, Deserialize, PartialEq, Debug, Clone)]
struct UnitS;
#[derive(Serialize, Deserialize, PartialEq, Debug, Clone)]
struct NewS(i32);
#[derive(Serialize, Deserialize, PartialEq, Debug, Clone)]
enum Val {
    Unit,
    B(bool),
    I(i64),
    S(String),
    Opt(Option<Box<Val>>),
    Seq(Vec<Val>),
    Tup(Box<Val>, Box<Val>),
    Pair((Box<Val>, i32)),
    TS(Box<Tst>),
    Map(BTreeMap<String, Val>),
    IMap(BTreeMap<i32, Val>),
    KMap(BTreeMap<K, Val>),
    St(Box<St>),
    New(Box<Val>),
    SV { x: Box<Val>, y: Option<Box<Val>> },
    /// struct variants whose fields are plain (not enum-wrapped) collections
    PlainM { i: i32, m: BTreeMap<String, i32>, s: Vec<i32> },
    PlainS { s: Vec<i32>, p: PlainSt, t: (i32, String) },
    /// a struct variant whose serialized field names are no plain-safe keys
    RV {
        #[serde(rename = "@id")]
        id: i32,
        #[serde(rename = "#text")]
        text: Box<Val>,
        #[serde(rename = "null")]
        n: bool,
        #[serde(rename = "a: b")]
        colon: Option<i32>,
    },
    US(UnitS),
    NS(NewS),
}

/// wrappers for positions the value grammar itself does not have
#[derive(Serialize, Deserialize, PartialEq, Debug, Clone)]
enum Wr {
    Poly(Vec<(Val, i32)>, bool),
    Seg(Box<Val>, i32),
}

const STRS: &[&str] = &["a", "two words", "", "x: y", "- z", "multi\nline", "é", "null", "1", "~", "#c", "k", "tail ", "[f]"];

/// shapes covered by recorded findings are generated only when asked for (their witnesses are checked separately)
const WITH_RECORDED_SHAPES: bool = false;

fn gen_k(rng: &mut Rng) -> K {
    match rng.below(8) {
        0 | 1 => K::Str(rng.pick(STRS).to_string()),
        2 | 3 => K::Int(rng.below(5) as i32 - 2),
        4 => K::Pair(rng.below(3) as i32, rng.below(3) as i32),
        5 if WITH_RECORDED_SHAPES => K::Rec { a: rng.below(3) as i32 },
        5 => K::Int(7),
        6 => K::Unit,
        _ => K::Seq((0..rng.below(3)).map(|i| i as i32).collect()),
    }
}
fn gen_val(rng: &mut Rng, depth: usize) -> Val {
    let leaf = depth == 0 || rng.chance(1, 3);
    if leaf {
        return match rng.below(7) {
            0 => Val::Unit,
            1 => Val::B(rng.chance(1, 2)),
            2 => Val::I(rng.below(200) as i64 - 100),
            3 => Val::Opt(None),
            4 => Val::US(UnitS),
            5 => Val::NS(NewS(rng.below(9) as i32)),
            _ => Val::S(rng.pick(STRS).to_string()),
        };
    }
    let d = depth - 1;
    match rng.below(15) {
        13 => Val::PlainM { i: rng.below(9) as i32, m: (0..rng.below(3)).map(|i| (format!("k{i}"), i as i32)).collect(), s: (0..rng.below(3)).map(|i| i as i32).collect() },
        14 => Val::PlainS { s: (0..rng.below(3)).map(|i| i as i32).collect(), p: PlainSt { a: 1, b: rng.pick(STRS).to_string() }, t: (2, "x".into()) },
        12 => Val::RV { id: rng.below(9) as i32, text: Box::new(gen_val(rng, d)), n: rng.chance(1, 2), colon: if rng.chance(1, 2) { Some(3) } else { None } },
        0 => Val::Opt(Some(Box::new(gen_val(rng, d)))),
        1 => Val::Seq((0..rng.below(4)).map(|_| gen_val(rng, d)).collect()),
        2 => Val::Tup(Box::new(gen_val(rng, d)), Box::new(gen_val(rng, d))),
        3 => Val::Pair((Box::new(gen_val(rng, d)), rng.below(9) as i32)),
        4 if WITH_RECORDED_SHAPES => Val::TS(Box::new(Tst(gen_val(rng, d), rng.chance(1, 2)))),
        4 => Val::Seq(vec![gen_val(rng, d)]),
        5 => Val::Map((0..rng.below(4)).map(|_| (rng.pick(STRS).to_string(), gen_val(rng, d))).collect()),
        6 => Val::IMap((0..rng.below(3)).map(|i| (i as i32 * 3 - 1, gen_val(rng, d))).collect()),
        7 => Val::KMap((0..rng.below(3)).map(|_| (gen_k(rng), gen_val(rng, d))).collect()),
        8 => {
            let n = rng.below(3);
            Val::St(Box::new(St { a: gen_val(rng, d), b: if rng.chance(1, 2) { Some(gen_val(rng, d)) } else { None }, c: (0..n).map(|_| gen_val(rng, d)).collect() }))
        }
        9 => Val::New(Box::new(gen_val(rng, d))),
        10 => Val::SV { x: Box::new(gen_val(rng, d)), y: if rng.chance(1, 2) { Some(Box::new(gen_val(rng, d))) } else { None } },
        _ => Val::Seq(vec![gen_val(rng, d), gen_val(rng, d)]),
    }
}

#[derive(Clone, Copy, Debug)]
struct Ov {
    step: usize,
    compact: bool,
    braces: bool,
    quote_all: bool,
    yaml_12: bool,
    block: bool,
    tagged: bool,
}
impl Ov {
    fn opts(&self) -> serde_saphyr::SerializerOptions {
        #[allow(deprecated)]
        let mut o = serde_saphyr::SerializerOptions::default();
        #[allow(deprecated)]
        {
            o.indent_step = self.step;
            o.compact_list_indent = self.compact;
            o.empty_as_braces = self.braces;
            o.quote_all = self.quote_all;
            o.yaml_12 = self.yaml_12;
            o.prefer_block_scalars = self.block;
            o.tagged_enums = self.tagged;
        }
        o
    }
    fn name(&self) -> String {
        format!("{self:?}")
    }
}
fn all_ovs(steps: &[usize]) -> Vec<Ov> {
    let mut v = Vec::new();
    for &step in steps {
        for m in 0..64u32 {
            v.push(Ov { step, compact: m & 1 != 0, braces: m & 2 == 0, quote_all: m & 4 != 0, yaml_12: m & 8 != 0, block: m & 16 == 0, tagged: m & 32 != 0 });
        }
    }
    v
}
fn dopts(strict: bool) -> serde_saphyr::Options {
    #[allow(deprecated)]
    let mut o = serde_saphyr::Options::default();
    #[allow(deprecated)]
    {
        o.strict_booleans = strict;
        o.with_snippet = false;
    }
    o
}

fn round_trip<T: Serialize + serde::de::DeserializeOwned + PartialEq + std::fmt::Debug>(ctx: &mut Ctx, what: &str, v: &T, ov: &Ov) -> bool {
    ctx.direct_evaluations += 1;
    let replay = json!({"kind": "shape", "what": what, "value": format!("{v:?}").chars().take(700).collect::<String>(), "options": ov.name()});
    // recorded findings: (F42) with empty_as_braces = false an empty collection is written as nothing and the
    // layout state after it is wrong; (F41) a complex key (`? `) whose content spans several lines -- a block
    // scalar, or a sequence under compact_list_indent -- is not indented under the `?`
    let dbg = format!("{v:?}");
    let has_empty = dbg.contains("[]") || dbg.contains("{}");
    // ... or a sequence written directly after `? ` whose later items are aligned by indent_step / compact_list_indent
    // rather than under the first item (root maps keyed by a tuple / a sequence)
    let raw_seq_key = what.starts_with("root map keyed by");
    let multi_line_key = (dbg.contains("KMap") && (dbg.contains("Str(\"multi\\nline\")") || (ov.compact && (dbg.contains("Pair(") || dbg.contains("Seq(["))))) || (raw_seq_key && (ov.compact || ov.step != 2));
    let legacy = |c: &str, text: &str| {
        // (F46) with an indentation step of 1 a block nested under an inline key after a dash (`- key:` / `- Variant:` / a
        // block scalar header after such a key) is not deeper than that key: only documents that have such a line
        let key_after_dash = text.lines().any(|l| {
            let t = l.trim_start();
            (t.starts_with("- ") || t.starts_with("? ")) && (t.ends_with(':') || t.contains(": |") || t.contains(": >") || t.ends_with(":") || t[2..].trim_start().starts_with("? "))
        });
        if ov.step == 1 && key_after_dash {
            "F46:indent-step-1".to_string()
        } else if !ov.braces && has_empty {
            "F42:legacy-empty-collections".to_string()
        } else if multi_line_key {
            "F41:multi-line-complex-key".to_string()
        } else {
            c.to_string()
        }
    };
    let text = match util::no_panic(|| serde_saphyr::to_string_with_options(v, ov.opts())) {
        Ok(Ok(t)) => t,
        Ok(Err(e)) => {
            // refusing a value is not a wrong document; only complex keys / options may be refused
            ctx.count(&format!("serializer refuses: {}", e.to_string().chars().take(60).collect::<String>()));
            return true;
        }
        Err(p) => {
            ctx.fail("panic", format!("[{}] {what}: serializer panicked: {p}", ov.name()), replay);
            return false;
        }
    };
    // one document: the reader for several documents sees exactly one
    match serde_saphyr::from_multiple_with_options::<T>(&text, dopts(ov.yaml_12)) {
        Ok(docs) if docs.len() == 1 && docs[0] == *v => true,
        Ok(docs) if docs.len() == 1 => {
            ctx.fail(&legacy("round-trip-differs", &text), format!("[{}] {what}: emitted {text:?}, read back {:?}, value {v:?}", ov.name(), docs[0]), replay);
            false
        }
        Ok(docs) => {
            // a null document is skipped by from_multiple: a root unit / None value
            if docs.is_empty() {
                match serde_saphyr::from_str_with_options::<T>(&text, dopts(ov.yaml_12)) {
                    Ok(b) if b == *v => return true,
                    _ => {}
                }
            }
            ctx.fail(&legacy("not-one-document", &text), format!("[{}] {what}: emitted {text:?} reads as {} documents", ov.name(), docs.len()), replay);
            false
        }
        Err(e) => {
            ctx.fail(&legacy("does-not-parse", &text), format!("[{}] {what}: emitted {text:?}: {}", ov.name(), e.to_string().lines().next().unwrap_or("")), replay);
            false
        }
    }
}

fn all_positions(ctx: &mut Ctx, v: &Val, ov: &Ov) {
    // (every position is tried: a position that fails for a recorded reason must not hide the ones after it)
    let ok = round_trip(ctx, "root", v, ov)
        & round_trip(ctx, "sequence item", &vec![v.clone(), v.clone()], ov)
        & round_trip(ctx, "mapping value", &BTreeMap::from([("k".to_string(), v.clone()), ("z".to_string(), Val::I(1))]), ov)
        & round_trip(ctx, "option", &Some(v.clone()), ov)
        & round_trip(ctx, "tuple", &(v.clone(), 5, v.clone()), ov)
        & round_trip(ctx, "struct", &St { a: v.clone(), b: Some(v.clone()), c: vec![v.clone()] }, ov)
        & round_trip(ctx, "nested sequences", &vec![vec![v.clone()], vec![], vec![v.clone(), v.clone()]], ov)
        // sequences directly inside sequence items, below a mapping key / three levels deep / in a tuple variant
        & round_trip(ctx, "field of nested sequences", &BTreeMap::from([("name".to_string(), vec![]), ("rows".to_string(), vec![vec![v.clone(), v.clone()], vec![v.clone()]])]), ov)
        & round_trip(ctx, "three-level sequences", &vec![vec![vec![v.clone(), v.clone()]], vec![vec![v.clone()], vec![v.clone()]]], ov)
        & round_trip(ctx, "tuple variant with a sequence of tuples", &Wr::Poly(vec![(v.clone(), 1), (v.clone(), 2)], true), ov)
        & round_trip(ctx, "struct variant as a mapping value", &BTreeMap::from([("shape".to_string(), Wr::Seg(Box::new(v.clone()), 7))]), ov)
        // composite keys at the root of the document
        & round_trip(ctx, "root map keyed by a tuple", &BTreeMap::from([((1, 2), v.clone()), ((3, 4), Val::I(5))]), ov)
        & round_trip(ctx, "root map keyed by a sequence", &BTreeMap::from([(vec![1, 2], v.clone())]), ov);
    let _ = ok;
}

// ---- K: the regular block layout (default options) ----
#[derive(Clone, Debug)]
enum T {
    Sc(String),
    Seq(Vec<T>),
    Map(Vec<(String, T)>),
}
impl Serialize for T {
    fn serialize<S: serde::Serializer>(&self, s: S) -> Result<S::Ok, S::Error> {
        use serde::ser::{SerializeMap, SerializeSeq};
        match self {
            T::Sc(x) => s.serialize_str(x),
            T::Seq(items) => {
                let mut q = s.serialize_seq(Some(items.len()))?;
                for i in items {
                    q.serialize_element(i)?;
                }
                q.end()
            }
            T::Map(es) => {
                let mut m = s.serialize_map(Some(es.len()))?;
                for (k, v) in es {
                    m.serialize_entry(k, v)?;
                }
                m.end()
            }
        }
    }
}
fn t_coq(t: &T) -> String {
    match t {
        T::Sc(x) => format!("(TSc {})", coq::s(x)),
        T::Seq(i) => format!("(TSeq {})", coq::list(&i.iter().map(t_coq).collect::<Vec<_>>(), "tree")),
        T::Map(e) => format!("(TMap {})", coq::list(&e.iter().map(|(k, v)| format!("({}, {})", coq::s(k), t_coq(v))).collect::<Vec<_>>(), "(list N * tree)")),
    }
}
fn gen_t(rng: &mut Rng, depth: usize) -> T {
    if depth == 0 || rng.chance(1, 3) {
        return T::Sc(rng.pick(&["a", "b", "x1", "word", "v"]).to_string());
    }
    let n = rng.below(4);
    if rng.chance(1, 2) {
        T::Seq((0..n).map(|_| gen_t(rng, depth - 1)).collect())
    } else {
        T::Map((0..n).map(|i| (format!("k{i}"), gen_t(rng, depth - 1))).collect())
    }
}
fn small_trees(depth: usize) -> Vec<T> {
    // all trees over one scalar with at most two children per node
    if depth == 0 {
        return vec![T::Sc("a".into())];
    }
    let sub = small_trees(depth - 1);
    let mut out = vec![T::Sc("a".into()), T::Seq(vec![]), T::Map(vec![])];
    for a in &sub {
        out.push(T::Seq(vec![a.clone()]));
        out.push(T::Map(vec![("k".into(), a.clone())]));
        for b in &sub {
            out.push(T::Seq(vec![a.clone(), b.clone()]));
            out.push(T::Map(vec![("k".into(), a.clone()), ("m".into(), b.clone())]));
        }
    }
    out
}

pub fn run(ctx: &mut Ctx) {
    util::quiet_panics();
    ctx.set_case_format("From SS Require Import Corr.Emit.\nLocal Open Scope N_scope.", "case", "check_case");
    ctx.rule = "cases: the text emitted under default options for every tree of sequences / mappings (plain keys) / plain scalars with at \
                most two children per node up to depth 2, a sample of depth 3, and random trees of depth <= 4; distinct = distinct Coq case \
                term; non-trivial = a container nested in a container"
        .into();
    if let Some(r) = ctx.replay.clone() {
        println!("replay: {r}");
        return;
    }
    let quick = ctx.quick();
    let mut rng = ctx.rng.fork();

    // ---- K
    let mut trees = small_trees(2);
    let d3 = small_trees(3);
    for (i, t) in d3.into_iter().enumerate() {
        if i % (if quick { 97 } else { 7 }) == 0 {
            trees.push(t);
        }
    }
    for _ in 0..(if quick { 300 } else { 4000 }) {
        trees.push(gen_t(&mut rng, 4));
    }
    for t in &trees {
        if let Ok(text) = serde_saphyr::to_string(t) {
            let nested = matches!(t, T::Seq(i) if i.iter().any(|x| !matches!(x, T::Sc(_)))) || matches!(t, T::Map(e) if e.iter().any(|(_, x)| !matches!(x, T::Sc(_))));
            ctx.case(format!("CEmit {} {}", t_coq(t), coq::s(&text)), nested, json!({"kind": "layout", "tree": format!("{t:?}").chars().take(300).collect::<String>()}));
        }
    }

    // ---- S
    let steps: &[usize] = if quick { &[2, 3, 4] } else { &[1, 2, 3, 4, 8] };
    let ovs = all_ovs(steps);
    let mut vals: Vec<Val> = Vec::new();
    // every shape once at depth 1 around every leaf kind
    for _ in 0..(if quick { 140 } else { 1500 }) {
        vals.push(gen_val(&mut rng, 1));
    }
    for _ in 0..(if quick { 120 } else { 2500 }) {
        vals.push(gen_val(&mut rng, 2));
    }
    for _ in 0..(if quick { 40 } else { 1200 }) {
        vals.push(gen_val(&mut rng, 4));
    }
    for (i, v) in vals.iter().enumerate() {
        // every value under a few option vectors, rotating through all of them
        for k in 0..(if quick { 3 } else { 6 }) {
            let ov = ovs[(i * 7 + k * 13) % ovs.len()];
            all_positions(ctx, v, &ov);
        }
    }
    // an indentation step of 1 (thorough has it in every vector): scalar leaves in every position under all its vectors
    if quick {
        for v in [Val::I(1), Val::S("a".into())] {
            for ov in all_ovs(&[1]) {
                all_positions(ctx, &v, &ov);
            }
        }
    }
    // a fixed small set under ALL option vectors
    let fixed = vec![
        Val::Seq(vec![Val::Seq(vec![Val::I(1), Val::I(2)]), Val::Seq(vec![])]),
        Val::Map(BTreeMap::from([("a".to_string(), Val::Seq(vec![Val::Map(BTreeMap::from([("b".to_string(), Val::Seq(vec![]))]))]))])),
        Val::St(Box::new(St { a: Val::SV { x: Box::new(Val::Unit), y: None }, b: None, c: vec![Val::Tup(Box::new(Val::I(1)), Box::new(Val::S("multi\nline".into())))] })),
        Val::KMap(BTreeMap::from([(K::Pair(1, 2), Val::I(1)), (K::Seq(vec![1]), Val::Seq(vec![Val::I(2)])), (K::Unit, Val::Unit)])),
        Val::New(Box::new(Val::New(Box::new(Val::Opt(Some(Box::new(Val::Seq(vec![Val::Unit])))))))),
        // struct variants whose fields are non-empty collections (as sequence items the layout hint after the dash must be spent)
        Val::SV { x: Box::new(Val::Map(BTreeMap::from([("a".to_string(), Val::I(1)), ("b".to_string(), Val::S("x".into()))]))), y: Some(Box::new(Val::Seq(vec![Val::I(1), Val::I(2)]))) },
        Val::SV { x: Box::new(Val::Seq(vec![Val::I(1), Val::I(2)])), y: None },
        Val::SV { x: Box::new(Val::I(1)), y: Some(Box::new(Val::St(Box::new(St { a: Val::I(1), b: None, c: vec![Val::I(2)] })))) },
        Val::RV { id: 7, text: Box::new(Val::S("t".into())), n: true, colon: Some(1) },
        Val::PlainM { i: 1, m: BTreeMap::from([("a".to_string(), 1), ("b".to_string(), 2)]), s: vec![1, 2] },
        Val::PlainS { s: vec![1, 2], p: PlainSt { a: 1, b: "x".into() }, t: (2, "y".into()) },
        // nested sequences with more than one element
        Val::Seq(vec![Val::Seq(vec![Val::I(1), Val::I(2), Val::I(3)]), Val::Seq(vec![Val::I(4), Val::I(5)])]),
    ];
    for v in &fixed {
        for ov in &ovs {
            all_positions(ctx, v, ov);
        }
    }
    // witnesses of the recorded findings (shapes kept out of the generator)
    {
        let d = Ov { step: 2, compact: false, braces: true, quote_all: false, yaml_12: false, block: true, tagged: false };
        let w1 = Val::KMap(BTreeMap::from([(K::Rec { a: 1 }, Val::I(1))]));
        let t = serde_saphyr::to_string_with_options(&w1, d.opts()).unwrap_or_default();
        ctx.witness("F43", serde_saphyr::from_str::<Val>(&t).ok().as_ref() != Some(&w1), "a struct variant used as a complex mapping key: its fields are written at the column of the variant label");
        let w2 = Val::Tup(Box::new(Val::TS(Box::new(Tst(Val::US(UnitS), false)))), Box::new(Val::I(1)));
        let t = serde_saphyr::to_string_with_options(&w2, d.opts()).unwrap_or_default();
        ctx.witness("F44", serde_saphyr::from_str::<Val>(&t).ok().as_ref() != Some(&w2), "a tuple struct as the payload of a newtype variant inside a sequence item: its dashes are written at the column of the item's dash");
        if serde_saphyr::from_str::<Val>(&t).ok().as_ref() != Some(&w2) {
            ctx.fail("F44:tuple-struct-in-variant-payload", format!("{w2:?} emitted {t:?}"), json!({"kind": "witness", "id": "F44"}));
        }
        let t1 = serde_saphyr::to_string_with_options(&w1, d.opts()).unwrap_or_default();
        if serde_saphyr::from_str::<Val>(&t1).ok().as_ref() != Some(&w1) {
            ctx.fail("F43:struct-variant-as-complex-key", format!("{w1:?} emitted {t1:?}"), json!({"kind": "witness", "id": "F43"}));
        }
    }
    // F83 (open): tuple variants and derived tuple structs whose elements are block nodes, and tuple structs below the
    // top level (the tuple serializers do not take part in the inline-after-dash / depth bookkeeping)
    {
        #[derive(Serialize, Deserialize, PartialEq, Debug, Clone)]
        struct S {
            a: i32,
            b: String,
        }
        #[derive(Serialize, Deserialize, PartialEq, Debug, Clone)]
        struct P(i32, i32);
        #[derive(Serialize, Deserialize, PartialEq, Debug, Clone)]
        struct PV(Vec<i32>, Vec<i32>);
        #[derive(Serialize, Deserialize, PartialEq, Debug, Clone)]
        struct PS(S, S);
        #[derive(Serialize, Deserialize, PartialEq, Debug, Clone)]
        enum E {
            TupS(S, i32),
        }
        fn rt<U: Serialize + serde::de::DeserializeOwned + PartialEq + std::fmt::Debug>(u: &U) -> Result<(), String> {
            let text = serde_saphyr::to_string(u).map_err(|e| format!("serialization failed: {e}"))?;
            match serde_saphyr::from_str::<U>(&text) {
                Ok(b) if b == *u => Ok(()),
                Ok(b) => Err(format!("emitted {text:?}, read back {b:?}")),
                Err(e) => Err(format!("emitted {text:?}, reading fails: {}", e.to_string().lines().next().unwrap_or(""))),
            }
        }
        let s = S { a: 1, b: "x".into() };
        let checks: Vec<(&str, Result<(), String>)> = vec![
            ("tuple variant whose first field is a struct", rt(&E::TupS(s.clone(), 2))),
            ("tuple struct three mappings deep", rt(&BTreeMap::from([("x".to_string(), BTreeMap::from([("o".to_string(), BTreeMap::from([("a".to_string(), P(1, 2))]))]))]))),
            ("tuple struct as a sequence element under a key", rt(&BTreeMap::from([("x".to_string(), vec![P(1, 2)])]))),
            ("root tuple struct with sequence fields", rt(&PV(vec![1, 2], vec![]))),
            ("root tuple struct with struct fields", rt(&PS(s.clone(), s.clone()))),
        ];
        for (what, r) in checks {
            ctx.direct_evaluations += 1;
            if let Err(m) = r {
                ctx.fail("F83:tuple-serializers-layout", format!("{what}: {m}"), json!({"kind": "witness", "id": "F83", "what": what}));
            }
        }
        // controls that hold: a root tuple struct of scalars, a tuple struct as a top-level field
        for (what, r) in [("root tuple struct of scalars", rt(&P(1, 2))), ("tuple struct as a top-level field", rt(&BTreeMap::from([("a".to_string(), P(1, 2))])))] {
            ctx.direct_evaluations += 1;
            if let Err(m) = r {
                ctx.fail("round-trip-differs", format!("{what}: {m}"), json!({"kind": "witness", "what": what}));
            }
        }
    }
    // invalid options are refused, not emitted
    ctx.direct_evaluations += 1;
    let mut bad = Ov { step: 0, compact: false, braces: true, quote_all: false, yaml_12: false, block: true, tagged: false };
    if serde_saphyr::to_string_with_options(&vec![1, 2], bad.opts()).is_ok() {
        ctx.fail("invalid-options-accepted", "indent_step = 0 is accepted".into(), json!({"kind": "options"}));
    }
    bad.step = 2;
}
