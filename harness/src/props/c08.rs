//! C08 -- expansion work and memory are bounded by the budget and alias limits.
//!
//! K: parameterised attack families (alias bombs, chains, aliases inside anchored containers,
//!    nested anchors, wide merges) through the live pump under default and tightened limits vs
//!    `SS.Model.Live`.
//! S: delivered events never exceed raw + permitted replay; the alias limits reject exactly when the
//!    independent expansion size exceeds them; peak heap (counting allocator) stays within a fixed
//!    multiple of input size + delivered events.
//!    Also: Budget::max_events / max_nodes bound what is delivered, replayed events included.
use crate::alloc_count;
use crate::ctx::Ctx;
use crate::live::{self, PumpOpts};
use crate::util;
use serde_json::json;
use serde_saphyr::options::AliasLimits;

/// fan-out^levels alias bomb: a0 = [x..], a1 = [*a0 x fanout], ...
pub fn bomb(fanout: usize, levels: usize) -> String {
    let mut s = String::from("a0: &a0 [x, y]\n");
    for l in 1..=levels {
        let items: Vec<String> = (0..fanout).map(|_| format!("*a{}", l - 1)).collect();
        s.push_str(&format!("a{l}: &a{l} [{}]\n", items.join(", ")));
    }
    s
}
/// chain: each anchor is an alias-wrapping sequence of the previous one
pub fn chain(n: usize) -> String {
    let mut s = String::from("c0: &c0 v\n");
    for i in 1..=n {
        s.push_str(&format!("c{i}: &c{i} [*c{}]\n", i - 1));
    }
    s
}
/// aliases used inside anchored containers which are aliased again
pub fn alias_in_anchored(n: usize) -> String {
    let mut s = String::from("base: &b {k: v}\n");
    s.push_str("box: &x\n");
    for i in 0..n {
        s.push_str(&format!("  f{i}: *b\n"));
    }
    s.push_str("use1: *x\nuse2: *x\n");
    s
}
/// d anchored containers nested around n scalars, no alias at all
pub fn nest(d: usize, n: usize) -> String {
    let mut s = String::new();
    for i in 0..d {
        s.push_str(&format!("&n{i} ["));
    }
    let items: Vec<String> = (0..n).map(|i| format!("s{i}")).collect();
    s.push_str(&items.join(", "));
    for _ in 0..d {
        s.push(']');
    }
    s.push('\n');
    s
}
/// d *un-anchored* containers around n scalars (control for the memory measure)
pub fn nest_plain(d: usize, n: usize) -> String {
    let mut s = String::new();
    for _ in 0..d {
        s.push('[');
    }
    let items: Vec<String> = (0..n).map(|i| format!("s{i}")).collect();
    s.push_str(&items.join(", "));
    for _ in 0..d {
        s.push(']');
    }
    s.push('\n');
    s
}
/// aliases of two anchors interleaved: per-anchor counts must be kept apart
pub fn interleaved(k: usize) -> String {
    let mut s = String::from("a: &A [x]\nb: &B [y, z]\nc: &C w\nseq:\n");
    for i in 0..k {
        s.push_str(if i % 2 == 0 { "  - *B\n" } else { "  - *A\n" });
        if i % 3 == 2 {
            s.push_str("  - *C\n");
        }
    }
    s
}
pub fn wide_merge(n: usize) -> String {
    let mut s = String::new();
    for i in 0..n {
        s.push_str(&format!("m{i}: &m{i} {{k{i}: {i}, shared: {i}}}\n"));
    }
    let refs: Vec<String> = (0..n).map(|i| format!("*m{i}")).collect();
    s.push_str(&format!("all:\n  <<: [{}]\n  own: 1\n", refs.join(", ")));
    s
}

/// Independent count of the events an alias-complete pump must deliver, with per-anchor expansion
/// counts; `None` on unknown anchors / syntax errors.
fn expansion(text: &str) -> Option<(usize, usize, usize)> {
    // (raw content events, replayed events, max expansions of one anchor)
    use saphyr_parser::Event;
    let mut sizes: std::collections::HashMap<usize, usize> = std::collections::HashMap::new();
    let mut open: Vec<(usize, usize)> = Vec::new(); // (anchor id, expanded size so far) for every open container
    let mut uses: std::collections::HashMap<usize, usize> = std::collections::HashMap::new();
    let (mut raw, mut replayed) = (0usize, 0usize);
    for item in saphyr_parser::Parser::new_from_str(text) {
        let (ev, _) = item.ok()?;
        let mut add = |k: usize, open: &mut Vec<(usize, usize)>| {
            for o in open.iter_mut() {
                o.1 += k;
            }
        };
        match ev {
            Event::Scalar(_, _, a, _) => {
                raw += 1;
                add(1, &mut open);
                if a != 0 {
                    sizes.insert(a, 1);
                }
            }
            Event::SequenceStart(a, _) | Event::MappingStart(a, _) => {
                raw += 1;
                add(1, &mut open);
                open.push((a, 1));
            }
            Event::SequenceEnd | Event::MappingEnd => {
                raw += 1;
                add(1, &mut open);
                let (a, sz) = open.pop()?;
                if a != 0 {
                    sizes.insert(a, sz);
                }
            }
            Event::Alias(a) => {
                let sz = *sizes.get(&a)?;
                replayed += sz;
                *uses.entry(a).or_insert(0) += 1;
                add(sz, &mut open);
            }
            Event::DocumentStart(_) => {
                sizes.clear();
            }
            _ => {}
        }
    }
    Some((raw, replayed, uses.values().copied().max().unwrap_or(0)))
}

fn alias_error(r: &serde_saphyr::__verif::PumpResult) -> Option<String> {
    r.error.as_ref().map(|e| crate::coq::variant_name(e))
}

pub fn run(ctx: &mut Ctx) {
    util::quiet_panics();
    ctx.set_case_format("From SS Require Import Corr.Live.\nLocal Open Scope N_scope.", "case", "check_case");
    ctx.rule = "cases: member of an attack family (bomb fanout^levels, chain n, aliases inside anchored containers, d nested anchors \
                around n scalars, wide merges) x alias limits (default / at the measured expansion / one below) through the live pump; \
                distinct = distinct Coq case term; non-trivial = the document replays at least one event or nests anchors".into();
    if let Some(r) = ctx.replay.clone() {
        replay(ctx, &r);
        return;
    }
    let quick = ctx.quick();
    let mut rng = ctx.rng.fork();
    let mut family: Vec<(String, String)> = Vec::new();
    for fanout in 2..=(if quick { 4 } else { 8 }) {
        for levels in 1..=(if quick { 4 } else { 6 }) {
            family.push((format!("bomb({fanout},{levels})"), bomb(fanout, levels)));
        }
    }
    for n in [1usize, 2, 5, 20, if quick { 40 } else { 200 }] {
        family.push((format!("chain({n})"), chain(n)));
        family.push((format!("alias_in_anchored({n})"), alias_in_anchored(n)));
        family.push((format!("wide_merge({n})"), wide_merge(n.min(60))));
    }
    for (d, n) in [(1usize, 5usize), (2, 5), (3, 10), (5, 20), (8, 30)] {
        family.push((format!("nest({d},{n})"), nest(d, n)));
    }
    for k in [3usize, 5, 8, 13] {
        family.push((format!("interleaved({k})"), interleaved(k)));
    }
    // generated documents with anchors and aliases (the same generator as C02)
    {
        let mut g = ctx.rng.fork();
        let mut n = 0;
        while n < (if quick { 120 } else { 1500 }) {
            let mut cfg = crate::docgen::GenCfg::default_for(if quick { 14 } else { 26 });
            cfg.merges = false;
            cfg.dup_keys = false;
            let d = crate::docgen::gen_doc(&mut g, &cfg);
            if !d.has_alias() {
                continue;
            }
            n += 1;
            family.push((format!("generated#{n}"), crate::docgen::render_doc(&d)));
        }
    }
    for (name, text) in &family {
        let Some((raw, replayed, max_uses)) = expansion(text) else {
            ctx.skipped += 1;
            continue;
        };
        ctx.count(&format!("family_{}", name.split('(').next().unwrap()));
        // limits: default, exactly the expansion, one below it (total and per-anchor)
        let mut settings: Vec<(&str, AliasLimits)> = vec![("default", AliasLimits::default())];
        settings.push(("total=exact", AliasLimits { max_total_replayed_events: replayed, ..AliasLimits::default() }));
        if replayed > 0 {
            settings.push(("total=exact-1", AliasLimits { max_total_replayed_events: replayed - 1, ..AliasLimits::default() }));
            settings.push(("per_anchor=exact", AliasLimits { max_alias_expansions_per_anchor: max_uses, ..AliasLimits::default() }));
            settings.push(("per_anchor=exact-1", AliasLimits { max_alias_expansions_per_anchor: max_uses - 1, ..AliasLimits::default() }));
            settings.push(("stack_depth=1", AliasLimits { max_replay_stack_depth: 1, ..AliasLimits::default() }));
            settings.push(("stack_depth=0", AliasLimits { max_replay_stack_depth: 0, ..AliasLimits::default() }));
        }
        for (label, lim) in settings {
            let mut o = PumpOpts::new(None);
            o.limits = lim;
            o.use_peek = rng.chance(1, 2);
            o.max_events = 400_000;
            // the hook stops after max_events deliveries: an expansion that large (within the default limit of
            // 1 000 000 replayed events) cannot be observed to its end and is left out
            if raw + replayed.min(lim.max_total_replayed_events) + 10 > o.max_events {
                ctx.count("family_member_beyond_the_hook_cap_skipped");
                continue;
            }
            if raw + replayed > (if quick { 3000 } else { 20_000 }) {
                // huge expansions are checked by the oracle only (case files stay small)
                let (r, _) = live::run_pump(text, &o);
                oracle(ctx, name, label, text, &o, &r, raw, replayed, max_uses);
                continue;
            }
            let (term, r, _, _) = live::pump_case(text, &o);
            ctx.case(term, replayed > 0 || name.starts_with("nest"), json!({"kind": "pump", "family": name, "limits": label, "text": text, "opts": o.json()}));
            oracle(ctx, name, label, text, &o, &r, raw, replayed, max_uses);
        }
    }
    // ---- the event / node limits of the budget bound what is delivered, replayed events included
    for (name, text) in &family {
        let Some((raw, replayed, _)) = expansion(text) else { continue };
        if replayed == 0 || raw + replayed > 20_000 {
            continue;
        }
        for (label, m) in [("max_events=total-1", raw + replayed - 1), ("max_events=half", (raw + replayed) / 2 + 1)] {
            let mut b = live::big_budget();
            b.max_events = m;
            let mut o = PumpOpts::new(Some(b));
            o.max_events = 400_000;
            let (r, _) = live::run_pump(text, &o);
            ctx.direct_evaluations += 1;
            let delivered = r.events.len();
            if delivered > m {
                ctx.fail("delivered-exceeds-budget", format!("{name} [{label}]: {delivered} events delivered under Budget::max_events = {m} (raw {raw} + replayed {replayed}); result {:?}", r.error.as_ref().map(|e| crate::coq::variant_name(e))),
                    json!({"kind": "budget_events", "family": name, "text": text, "max_events": m}));
            }
        }
        {
            // nodes: scalars and container starts, replayed ones included
            let mut b = live::big_budget();
            let (r0, _) = live::run_pump(text, &PumpOpts::new(Some(live::big_budget())));
            let nodes = r0.events.iter().filter(|e| matches!(e.kind, 0 | 1 | 3)).count();
            if nodes < 2 || r0.error.is_some() {
                continue;
            }
            b.max_nodes = nodes / 2;
            let (r, _) = live::run_pump(text, &PumpOpts::new(Some(b)));
            ctx.direct_evaluations += 1;
            let got = r.events.iter().filter(|e| matches!(e.kind, 0 | 1 | 3)).count();
            if got > nodes / 2 {
                ctx.fail("delivered-exceeds-budget", format!("{name}: {got} nodes delivered under Budget::max_nodes = {}", nodes / 2), json!({"kind": "budget_nodes", "family": name, "text": text, "max_nodes": nodes / 2}));
            }
        }
    }
    iterator_recovery(ctx);
    memory(ctx);
}

/// The alias counters are per document also on the iterator's recovery path: a document that
/// replays events and then fails must not eat into the next document's allowance.
fn iterator_recovery(ctx: &mut Ctx) {
    #[derive(serde::Deserialize, Debug)]
    #[allow(dead_code)]
    struct R {
        v: Vec<Vec<i32>>,
    }
    let good = "base: &b [1, 2, 3]\nv: [*b, *b]\n"; // replays 2 x 5 events
    let bad = "base: &b [1, 2, 3]\nv: [*b, *b, oops]\n";
    for (limit_total, limit_anchor) in [(10usize, usize::MAX), (1_000_000, 2)] {
        for stream in [format!("---\n{bad}---\n{good}"), format!("---\n{good}---\n{bad}---\n{good}---\n{good}")] {
            ctx.direct_evaluations += 1;
            #[allow(deprecated)]
            let mut o = serde_saphyr::Options::default();
            #[allow(deprecated)]
            {
                o.with_snippet = false;
                o.alias_limits.max_total_replayed_events = limit_total;
                o.alias_limits.max_alias_expansions_per_anchor = limit_anchor;
            }
            let mut cur = std::io::Cursor::new(stream.as_bytes().to_vec());
            let items: Vec<String> = serde_saphyr::read_with_options::<_, R>(&mut cur, o).take(10)
                .map(|r| match r { Ok(_) => "Ok".to_string(), Err(e) => crate::coq::variant_name(&e) }).collect();
            let want: Vec<bool> = stream.split("---\n").skip(1).map(|d| d == good).collect();
            let ok = items.len() == want.len() && items.iter().zip(&want).all(|(i, w)| (i == "Ok") == *w);
            if !ok {
                ctx.fail("limit-over-enforced", format!("read with alias limits (total {limit_total}, per anchor {limit_anchor}): items {items:?}, documents that fit their own limits: {want:?}"),
                    json!({"kind": "iterator", "text": stream, "total": limit_total, "per_anchor": limit_anchor}));
            }
        }
    }
}

#[allow(clippy::too_many_arguments)]
fn oracle(ctx: &mut Ctx, name: &str, label: &str, text: &str, o: &PumpOpts, r: &serde_saphyr::__verif::PumpResult, raw: usize, replayed: usize, max_uses: usize) {
    ctx.direct_evaluations += 1;
    let replay = json!({"kind": "pump", "family": name, "limits": label, "text": text, "opts": o.json()});
    let delivered = r.events.len();
    let cap = raw + o.limits.max_total_replayed_events.min(replayed);
    if delivered > cap {
        ctx.fail("delivered-exceeds-bound", format!("{name} [{label}]: delivered {delivered} events > raw {raw} + permitted replay"), replay.clone());
    }
    let within = replayed <= o.limits.max_total_replayed_events && max_uses <= o.limits.max_alias_expansions_per_anchor
        && (replayed == 0 || o.limits.max_replay_stack_depth >= 1);
    let err = alias_error(r);
    let is_alias_limit_err = matches!(err.as_deref(), Some("AliasReplayLimitExceeded") | Some("AliasExpansionLimitExceeded") | Some("AliasReplayStackDepthExceeded"));
    if within && is_alias_limit_err {
        ctx.fail("limit-over-enforced", format!("{name} [{label}]: expansion (replayed {replayed}, max uses {max_uses}) is within the limits but got {err:?}"), replay.clone());
    }
    if within && err.is_none() && delivered != raw + replayed {
        ctx.fail("delivered-count", format!("{name} [{label}]: delivered {delivered}, expected raw {raw} + replayed {replayed}"), replay.clone());
    }
    if !within && !is_alias_limit_err {
        ctx.fail("limit-not-enforced", format!("{name} [{label}]: expansion (replayed {replayed}, max uses {max_uses}) exceeds the limits but result is {err:?} after {delivered} events"), replay);
    }
}

/// Peak heap of a full untyped read, against a fixed multiple of input size + delivered events.
fn memory(ctx: &mut Ctx) {
    const BYTES_PER_UNIT: usize = 512; // generous: one delivered event or input byte may cost up to 512 B
    let quick = ctx.quick();
    let mut cases: Vec<(String, String, bool)> = Vec::new(); // (name, text, nested anchors)
    for (d, n) in [(1usize, 200usize), (4, 200), (if quick { 40 } else { 200 }, if quick { 400 } else { 2000 })] {
        cases.push((format!("nest({d},{n})"), nest(d, n), d >= 2));
        cases.push((format!("nest_plain({d},{n})"), nest_plain(d, n), false));
    }
    cases.push(("bomb(3,5)".into(), bomb(3, 5), false));
    cases.push(("chain(100)".into(), chain(100), false));
    cases.push(("wide_merge(50)".into(), wide_merge(50), false));
    for (name, text, nested) in cases {
        let o = PumpOpts::new(Some(live::big_budget()));
        let ((r, _), peak) = alloc_count::peak_during(|| live::run_pump(&text, &o));
        let delivered = r.events.len();
        // the pump hook keeps every delivered event alive (the dump), so it is charged at the same rate
        let bound = BYTES_PER_UNIT * (text.len() + delivered);
        ctx.direct_evaluations += 1;
        ctx.count(&format!("mem {name}: peak {peak} B, bound {bound} B"));
        if peak > bound {
            let class = if nested { "F15:nested-anchor-recording-quadratic" } else { "memory-exceeds-linear-bound" };
            ctx.fail(class, format!("{name}: peak heap {peak} B > {BYTES_PER_UNIT} B x (input {} B + {delivered} events)", text.len()),
                json!({"kind": "memory", "family": name, "text_len": text.len()}));
        }
    }
    // the deserializer on top of the pump: a full read into IgnoredAny (every node is visited, nothing is kept)
    let dk = if quick { 300usize } else { 800 };
    let typed: Vec<(String, String, bool)> = vec![
        (format!("typed nest_plain(40,400)"), nest_plain(40, 400), false),
        (format!("typed block_seq({dk})"), format!("{}x", "- ".repeat(dk)), false),
        (format!("typed wide_map(2000)"), (0..2000).map(|i| format!("k{i}: {i}\n")).collect(), false),
        (format!("typed seq_keys(300)"), (0..300).map(|i| format!("? [a, b, {i}]\n: {i}\n")).collect(), false),
        (format!("typed nested_complex_keys({dk})"), format!("{}x", "? ".repeat(dk)), true),
    ];
    for (name, text, nested_keys) in typed {
        let events = util::raw_events(&text).map(|v| v.len()).unwrap_or(0);
        let (r, peak) = alloc_count::peak_during(|| serde_saphyr::from_str::<serde::de::IgnoredAny>(&text).is_ok());
        let bound = BYTES_PER_UNIT * (text.len() + events);
        ctx.direct_evaluations += 1;
        ctx.count(&format!("mem {name}: ok={r} peak {peak} B, bound {bound} B"));
        if peak > bound {
            let class = if nested_keys { "F52:nested-complex-keys-quadratic" } else { "memory-exceeds-linear-bound" };
            ctx.fail(class, format!("{name}: peak heap {peak} B > {BYTES_PER_UNIT} B x (input {} B + {events} events)", text.len()),
                json!({"kind": "memory_typed", "family": name, "text_len": text.len()}));
        }
        if nested_keys {
            ctx.witness("F52", peak > bound, "complex keys nested d deep: every level captures (copies) the whole remaining key subtree, d^2/2 buffered events");
        }
    }
    // witness of F15 (open finding): d anchored containers around n scalars cost about d*n recorded events
    let (d, n) = (150usize, 1500usize);
    let text = nest(d, n);
    let o = PumpOpts::new(Some(live::big_budget()));
    let ((r, _), peak) = alloc_count::peak_during(|| live::run_pump(&text, &o));
    let bound = BYTES_PER_UNIT * (text.len() + r.events.len());
    ctx.witness("F15", peak > bound, "recording clones every event into every open anchored frame: nest(150,1500) peaks far above 512 B x (input + events)");
}

fn replay(ctx: &mut Ctx, r: &serde_json::Value) {
    let text = r["text"].as_str().unwrap_or("");
    let o = PumpOpts::from_json(&r["opts"]);
    let (res, _) = live::run_pump(text, &o);
    println!("replay {}: delivered {} events, error {:?}; independent expansion {:?}", r["family"], res.events.len(), alias_error(&res), expansion(text));
    let _ = ctx;
}
