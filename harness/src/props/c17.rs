//! C17 -- rendered error reports are terminal-safe, cropped and show the right line.
//!
//! K: the pure helpers of src/de/snippet.rs (sanitize, column->byte conversion, crop_line_by_cols,
//!    crop_window_text, crop_source_window, the secondary window renderer) and the ring's UTF-8 edge
//!    trimming vs `SS.Model.Snippet`.
//! S: full pipeline: every failing (input, type) pair x crop radius x snippet on/off x formatter x
//!    str / reader entry point x miette: no panic, no C0/DEL/C1 in the output, at most five numbered
//!    source rows around the reported line, the reported line is among them, it is the right text
//!    cropped to the radius, the caret is under the reported column.
//!    Scenarios include lines beyond the 4 KiB storage threshold, two-location errors whose definition is on a line with a
//!    two- / three-digit number, and a reader line longer than the recent-bytes ring; carets are measured in absolute columns.
use crate::coq;
use crate::ctx::{Ctx, Rng};
use crate::docgen::{self, GenCfg};
use crate::tree::Tree;
use crate::util;
use serde::Deserialize;
use serde_json::{Value, json};
use serde_saphyr::__verif as hooks;
use std::collections::BTreeMap;
use unicode_width::UnicodeWidthChar;

fn forbidden(c: char) -> bool {
    (c < ' ' && c != '\n' && c != '\t') || c == '\u{7f}' || ('\u{80}'..='\u{9f}').contains(&c)
}
fn clean_char(c: char) -> char {
    if (c < ' ' && c != '\n' && c != '\t') || c == '\u{7f}' {
        ' '
    } else if ('\u{80}'..='\u{9f}').contains(&c) {
        '\u{a0}'
    } else {
        c
    }
}

// ---------- text generation for the helper correspondence ----------
const ATOMS: &[&str] = &[
    "a", "b", "key", ": ", " ", "-", "x", "0", "é", "日", "😀", "\u{a0}", "\u{85}", "\u{9b}", "\u{80}", "\u{9f}", "\u{1b}", "\u{7}", "\0", "\u{7f}",
    "\t", "\u{c2}", "Â", "ß", "\u{7ff}", "\u{800}", "\u{ffff}", "\u{10000}", "\u{1b}[31m", "#", "\"", "\u{feff}",
];
fn gen_line(rng: &mut Rng, max: usize) -> String {
    let n = rng.below(max + 1);
    let mut s = String::new();
    for _ in 0..n {
        s.push_str(*rng.pick(ATOMS));
    }
    s
}
fn gen_text(rng: &mut Rng, lines: usize, max: usize) -> String {
    let mut s = String::new();
    let n = rng.below(lines + 1);
    for i in 0..n {
        s.push_str(&gen_line(rng, max));
        let last = i + 1 == n;
        match rng.below(if last { 14 } else { 10 }) {
            0 => s.push_str("\r\n"),
            1 => s.push('\r'),
            2 => s.push_str("\r\r\n"),
            10..=13 => {}
            _ => s.push('\n'),
        }
    }
    s
}
fn boundaries(s: &str) -> Vec<usize> {
    let mut v: Vec<usize> = s.char_indices().map(|(i, _)| i).collect();
    v.push(s.len());
    v
}
const RADII: &[usize] = &[0, 1, 2, 3, 5, 8, 20, 64, 1000, usize::MAX];

fn on(v: Option<usize>) -> String {
    coq::opt(&v, |x| coq::n(*x as u128))
}
fn b(s: &str) -> String {
    coq::bytes(s.as_bytes())
}

fn helper_cases(ctx: &mut Ctx, rng: &mut Rng) {
    let quick = ctx.quick();
    let rounds = if quick { 260 } else { 2600 };
    for round in 0..rounds {
        // sanitize / is_clean
        let t = gen_text(rng, 3, 8);
        let out = hooks::snippet_sanitize(t.clone());
        let ci = hooks::snippet_is_clean(&t);
        ctx.case(format!("CSanitize {} {} {}", b(&t), b(&out), coq::b(ci)), !ci, json!({"kind": "sanitize", "text": t}));
        ctx.direct_evaluations += 1;
        if out.len() != t.len() || out.chars().any(|c| forbidden(c) && c != '\r') || !hooks::snippet_is_clean(&out) {
            ctx.fail("sanitize-leaves-controls", format!("sanitize({t:?}) = {out:?}"), json!({"kind": "sanitize", "text": t}));
        }

        // column -> byte
        let line = gen_line(rng, 10);
        let col = rng.below(line.chars().count() + 4);
        let r = hooks::snippet_col_to_byte(&line, col);
        ctx.case(format!("CColToByte {} {} {}", b(&line), coq::n(col as u128), on(r)), !line.is_ascii(), json!({"kind": "col_to_byte", "line": line, "col": col}));

        // (row, col) -> byte, line starts, next boundary
        let text = gen_text(rng, 6, 6);
        let rows = hooks::snippet_line_starts(&text);
        let row = rng.below(rows.len() + 3);
        let col = rng.below(9);
        let r = hooks::snippet_line_col_to_byte(&text, row, col);
        let starts = coq::list(&rows.iter().map(|x| coq::n(*x as u128)).collect::<Vec<_>>(), "N");
        ctx.case(format!("CLineCol {} {} {} {} {}", b(&text), coq::n(row as u128), coq::n(col as u128), starts, on(r)), r.is_some(),
            json!({"kind": "line_col", "text": text, "row": row, "col": col}));
        let bs = boundaries(&text);
        let start = if rng.chance(1, 6) { text.len() + rng.below(3) } else { *rng.pick(&bs) };
        let r = hooks::snippet_next_boundary(&text, start);
        ctx.case(format!("CNextB {} {} {}", b(&text), coq::n(start as u128), on(r)), r.is_some(), json!({"kind": "next_boundary", "text": text, "start": start}));

        // crop_line_by_cols in the shape its callers use: left = max(col - r, 1), right = col + r
        let line = gen_line(rng, 14);
        let col = rng.below(line.chars().count() + 4);
        let radius = *rng.pick(RADII);
        let left = col.saturating_sub(radius).max(1);
        let right = col.saturating_add(radius);
        let (o, sb, pb) = hooks::snippet_crop_line(&line, left, right);
        ctx.case(format!("CCropLine {} {} {} {} {} {}", b(&line), coq::n(left as u128), coq::n(right as u128), b(&o), sb, pb), o != line,
            json!({"kind": "crop_line", "line": line, "left": left, "right": right}));

        // crop_window_text: consistent arguments (as Snippet::fmt_or_fallback computes them) or arbitrary ones
        let w = gen_text(rng, 5, if round % 7 == 0 { 30 } else { 8 });
        let wsr = 1 + rng.below(4);
        let nlines = hooks::snippet_line_starts(&w).len().max(1);
        let erow = if rng.chance(1, 8) { rng.below(12) } else { wsr + rng.below(nlines) };
        let ecol = rng.below(20);
        let radius = *rng.pick(RADII);
        // (the stored window never holds a lone CR: crop_source_window turns them into LF, and crop_window_text counts
        // rows by LF only -- with one the (row, column) given by line_starts would name another line)
        let lone_cr = w.as_bytes().iter().enumerate().any(|(i, b)| *b == b'\r' && w.as_bytes().get(i + 1) != Some(&b'\n'));
        let consistent = rng.chance(3, 4) && !lone_cr;
        let (ls, le) = if consistent {
            match hooks::snippet_line_col_to_byte(&w, (erow + 1).saturating_sub(wsr), ecol) {
                Some(s) => {
                    let e = match w.as_bytes().get(s) {
                        Some(b'\n') | Some(b'\r') => s,
                        _ => hooks::snippet_next_boundary(&w, s).unwrap_or(s),
                    };
                    (s, e)
                }
                None => (0, 0),
            }
        } else {
            let bs = boundaries(&w);
            let a = *rng.pick(&bs);
            let c = *rng.pick(&bs);
            (a.min(c), a.max(c))
        };
        let rep = json!({"kind": "crop_window", "w": w, "wsr": wsr, "erow": erow, "ecol": ecol, "radius": radius.to_string(), "ls": ls, "le": le});
        match util::no_panic(|| hooks::snippet_crop_window(&w, wsr, erow, ecol, radius, ls, le)) {
            Ok((o, ns, ne)) => {
                ctx.case(format!("CCropWindow {} {} {} {} {} {} {} {} {} {}", b(&w), wsr, erow, ecol, coq::n(radius as u128), ls, le, b(&o), ns, ne), o != w, rep.clone());
                ctx.direct_evaluations += 1;
                // (for arguments not derived from (row, column) the end may fall inside the ellipsis; callers never do that)
                if !(ns <= ne && ne <= o.len() && (!consistent || (o.is_char_boundary(ns) && o.is_char_boundary(ne)))) {
                    ctx.fail("rebased-span-invalid", format!("crop_window_text gives span {ns}..{ne} in {o:?}"), rep.clone());
                }
                if o.chars().any(forbidden) {
                    ctx.fail("window-not-sanitised", format!("crop_window_text output {o:?}"), rep);
                }
            }
            Err(p) => ctx.fail("panic", format!("crop_window_text panicked: {p}"), rep),
        }

        // crop_source_window
        let long = round % 40 == 5;
        let mut text = gen_text(rng, 9, 6);
        if long {
            let filler: String = (0..(4100 + rng.below(900))).map(|i| if i % 97 == 3 { 'é' } else { (b'a' + (i % 26) as u8) as char }).collect();
            let at = *rng.pick(&boundaries(&text));
            text.insert_str(at, &filler);
        }
        if rng.chance(1, 12) {
            text.insert(0, '\u{feff}');
        }
        let nl = hooks::snippet_line_starts(&text).len();
        let mapping = if rng.chance(1, 2) { None } else { Some(1 + rng.below(30)) };
        let line = mapping.unwrap_or(1).saturating_sub(if rng.chance(1, 10) { 1 } else { 0 }) + rng.below(nl + 2) + if mapping.is_none() && rng.chance(9, 10) { 0 } else { 0 };
        let col = if long && rng.chance(1, 2) { rng.below(5000) } else { rng.below(12) };
        // half of the long rounds aim at the long line itself
        let line = if long && rng.chance(1, 2) {
            let row = text[..text.char_indices().find(|(_, c)| *c == 'é' || c.is_ascii_lowercase()).map(|(i, _)| i).unwrap_or(0)].matches('\n').count();
            mapping.unwrap_or(1) + row
        } else {
            line
        };
        let radius = *rng.pick(RADII);
        let rep = json!({"kind": "crop_source", "text": text, "line": line, "col": col, "mapping": mapping, "radius": radius.to_string()});
        match util::no_panic(|| hooks::snippet_crop_source_window(&text, line, col, mapping, radius)) {
            Ok((o, st)) => {
                ctx.case(format!("CCropSource {} {} {} {} {} {} {}", b(&text), line, col, on(mapping), coq::n(radius as u128), b(&o), st), !o.is_empty(), rep.clone());
                ctx.direct_evaluations += 1;
                if o.split('\n').count() > 6 {
                    ctx.fail("window-too-tall", format!("crop_source_window returned {} lines", o.split('\n').count()), rep);
                }
            }
            Err(p) => ctx.fail("panic", format!("crop_source_window panicked: {p}"), rep),
        }

        // the secondary window renderer
        let text = gen_text(rng, 7, 7);
        let nl = hooks::snippet_line_starts(&text).len();
        let mapping = if rng.chance(1, 2) { None } else { Some(1 + rng.below(120)) };
        let line = mapping.unwrap_or(1) + rng.below(nl + 1);
        let col = rng.below(10);
        let radius = *rng.pick(RADII);
        let msg = if rng.chance(1, 3) { String::new() } else { "defined here".to_string() };
        let rep = json!({"kind": "fmt_window", "text": text, "line": line, "col": col, "mapping": mapping, "radius": radius.to_string(), "msg": msg});
        match util::no_panic(|| hooks::snippet_fmt_window(&text, line, col, mapping, &msg, radius)) {
            Ok(o) => {
                ctx.case(format!("CFmtWindow {} {} {} {} {} {} {}", b(&text), line, col, on(mapping), b(&msg), coq::n(radius as u128), b(&o)), !o.is_empty(), rep.clone());
                ctx.direct_evaluations += 1;
                if o.chars().any(forbidden) {
                    ctx.fail("window-not-sanitised", format!("secondary window {o:?}"), rep);
                }
            }
            Err(p) => ctx.fail("panic", format!("secondary window renderer panicked: {p}"), rep),
        }

        // ring snapshot trimming: arbitrary bytes
        let n = rng.below(12);
        let bytes: Vec<u8> = (0..n).map(|_| *rng.pick(&[0x61u8, 0x0a, 0x80, 0xbf, 0xc2, 0xc3, 0xe2, 0x82, 0xac, 0xf0, 0x9f, 0x98, 0xf5, 0xff, 0xc0])).collect();
        let off = rng.below(1000) as u64;
        let sl = 1 + rng.below(50);
        let (o2, l2, b2) = hooks::ring_trim_utf8(bytes.clone(), off, sl);
        ctx.case(format!("CTrim {} {} {} {} {} {}", coq::bytes(&bytes), off, sl, o2, l2, coq::bytes(&b2)), b2.len() != bytes.len(), json!({"kind": "trim", "bytes": bytes, "off": off, "line": sl}));
    }
}

// ---------- the full pipeline ----------

/// lines of the input as the parser counts them: LF, CRLF and lone CR all end a line; BOM ignored
fn yaml_lines(text: &str) -> Vec<String> {
    let t = text.strip_prefix('\u{feff}').unwrap_or(text);
    let mut out = Vec::new();
    let mut cur = String::new();
    let mut it = t.chars().peekable();
    while let Some(c) = it.next() {
        if c == '\n' {
            out.push(std::mem::take(&mut cur));
        } else if c == '\r' {
            if it.peek() == Some(&'\n') {
                it.next();
            }
            out.push(std::mem::take(&mut cur));
        } else {
            cur.push(c);
        }
    }
    out.push(cur);
    out
}
fn has_lone_cr(text: &str) -> bool {
    let b = text.as_bytes();
    (0..b.len()).any(|i| b[i] == b'\r' && b.get(i + 1) != Some(&b'\n'))
}

/// what a terminal shows for a source fragment: sanitised, tabs as four spaces
fn shown(s: impl Iterator<Item = char>) -> String {
    let mut o = String::new();
    for c in s {
        if c == '\t' {
            o.push_str("    ");
        } else {
            o.push(clean_char(c));
        }
    }
    o
}
fn width(s: &str) -> usize {
    s.chars().map(|c| c.width().unwrap_or(0)).sum()
}

struct Row {
    num: usize,
    text: String,
    text_col: usize,      // characters before the row's text in the rendered line (indentation, gutter, " | ")
    caret: Option<usize>, // offset of the first '^' on the following marker line, measured from the column where the
                          // numbered row's text starts (so a marker row with another gutter is seen as misplaced)
}

/// numbered source rows of one rendered window
fn parse_rows(rendered: &str) -> Vec<Vec<Row>> {
    let mut windows: Vec<Vec<Row>> = Vec::new();
    let mut cur: Vec<Row> = Vec::new();
    let mut in_window = false;
    for l in rendered.split('\n') {
        let t = l.trim_start();
        let digits: String = t.chars().take_while(|c| c.is_ascii_digit()).collect();
        let rest = &t[digits.len()..];
        if !digits.is_empty() && (rest.starts_with(" | ") || rest == " |") && in_window {
            let lead = l.chars().count() - t.chars().count();
            cur.push(Row { num: digits.parse().unwrap_or(0), text: rest.get(3..).unwrap_or("").to_string(), text_col: lead + digits.len() + 3, caret: None });
        } else if t.starts_with("| ") || t == "|" {
            // a line of text inside the frame ("| This value comes indirectly from the anchor at ...") starts the
            // next window
            let after = t[1..].trim_start();
            if !after.is_empty() && !after.starts_with('^') && !after.starts_with('-') && in_window && !cur.is_empty() {
                windows.push(std::mem::take(&mut cur));
            }
            if !in_window {
                in_window = true;
            }
            if let Some(p) = t.find('^')
                && t[..p].chars().skip(2).all(|c| c == ' ')
                && let Some(last) = cur.last_mut()
                && last.caret.is_none()
            {
                let lead = l.chars().count() - t.chars().count();
                let abs = lead + t[..p].chars().count();
                last.caret = Some(abs.saturating_sub(last.text_col));
                if abs < last.text_col {
                    last.caret = Some(usize::MAX); // left of the text: never a valid place
                }
            }
        } else {
            if in_window && !cur.is_empty() {
                windows.push(std::mem::take(&mut cur));
            }
            in_window = false;
        }
    }
    if !cur.is_empty() {
        windows.push(cur);
    }
    windows
}

struct Custom;
impl serde_saphyr::MessageFormatter for Custom {
    fn format_message<'a>(&self, err: &'a serde_saphyr::Error) -> std::borrow::Cow<'a, str> {
        let inner = serde_saphyr::DefaultMessageFormatter.format_message(err);
        std::borrow::Cow::Owned(format!("[custom] {inner}"))
    }
}

#[derive(Deserialize, Debug)]
#[serde(deny_unknown_fields)]
#[allow(dead_code)]
struct Strict {
    a: Option<i32>,
    b: Option<String>,
}
#[derive(Deserialize, Debug)]
#[allow(dead_code)]
enum Choice {
    Alpha,
    Beta,
}

#[derive(Clone, Copy, Debug, PartialEq)]
enum Target {
    MapI32,
    Strict,
    Choice,
    Tree,
    VecI32,
}

fn run_str(t: Target, text: &str, o: serde_saphyr::Options) -> Option<serde_saphyr::Error> {
    match t {
        Target::MapI32 => serde_saphyr::from_str_with_options::<BTreeMap<String, i32>>(text, o).err(),
        Target::Strict => serde_saphyr::from_str_with_options::<Strict>(text, o).err(),
        Target::Choice => serde_saphyr::from_str_with_options::<Choice>(text, o).err(),
        Target::Tree => serde_saphyr::from_str_with_options::<Tree>(text, o).err(),
        Target::VecI32 => serde_saphyr::from_str_with_options::<Vec<i32>>(text, o).err(),
    }
}
fn run_reader(t: Target, text: &str, o: serde_saphyr::Options) -> Option<serde_saphyr::Error> {
    let rd = std::io::Cursor::new(text.as_bytes().to_vec());
    match t {
        Target::MapI32 => serde_saphyr::from_reader_with_options::<_, BTreeMap<String, i32>>(rd, o).err(),
        Target::Strict => serde_saphyr::from_reader_with_options::<_, Strict>(rd, o).err(),
        Target::Choice => serde_saphyr::from_reader_with_options::<_, Choice>(rd, o).err(),
        Target::Tree => serde_saphyr::from_reader_with_options::<_, Tree>(rd, o).err(),
        Target::VecI32 => serde_saphyr::from_reader_with_options::<_, Vec<i32>>(rd, o).err(),
    }
}

fn options(radius: usize, snippet: bool) -> serde_saphyr::Options {
    #[allow(deprecated)]
    let mut o = serde_saphyr::Options::default();
    #[allow(deprecated)]
    {
        o.with_snippet = snippet;
        o.crop_radius = radius;
    }
    o
}

/// the error line as the documented cropping shows it, and the display offset of the error column
fn expected_error_line(line: &str, col: usize, radius: usize) -> (String, Option<usize>) {
    let chars: Vec<char> = line.chars().collect();
    let n = chars.len();
    let left = col.saturating_sub(radius).max(1);
    let right = col.saturating_add(radius);
    let (lo, hi, lc, rc) = if n == 0 || left >= n + 1 || (left <= 1 && right >= n) { (0, n, false, false) } else { (left - 1, right.min(n), left > 1, right < n) };
    let mut s = String::new();
    if lc {
        s.push('…');
    }
    let caret = if col >= 1 && col - 1 >= lo && col - 1 <= hi { Some(width(&s) + width(&shown(chars[lo..col - 1].iter().copied()))) } else { None };
    s.push_str(&shown(chars[lo..hi].iter().copied()));
    if rc {
        s.push('…');
    }
    (s, caret)
}

struct Scenario<'a> {
    text: &'a str,
    target: Target,
    family: &'a str,
}

fn check_rendered(ctx: &mut Ctx, sc: &Scenario, e: &serde_saphyr::Error, radius: usize, snippet: bool, entry: &str, replay: &Value) {
    let user = serde_saphyr::UserMessageFormatter;
    let dev = serde_saphyr::DefaultMessageFormatter;
    let custom = Custom;
    let fmts: [(&str, &dyn serde_saphyr::MessageFormatter); 3] = [("developer", &dev), ("user", &user), ("custom", &custom)];
    let lone_cr = has_lone_cr(sc.text);
    let lines = yaml_lines(sc.text);
    let inner = e.without_snippet();
    let loc = inner.location();
    let both = inner.locations();
    for (fname, f) in fmts {
        for mode in [serde_saphyr::SnippetMode::Auto, serde_saphyr::SnippetMode::Off] {
            let mut ro = serde_saphyr::RenderOptions::new(f);
            ro.snippets = mode;
            ctx.direct_evaluations += 1;
            ctx.count(&format!("render:{entry}:{fname}"));
            let rendered = match util::no_panic(|| e.render_with_options(ro)) {
                Ok(r) => r,
                Err(p) => {
                    ctx.fail("panic", format!("[{}] rendering panicked ({entry}, radius {radius}, {fname}): {p}", sc.family), replay.clone());
                    continue;
                }
            };
            if let Some(c) = rendered.chars().find(|c| forbidden(*c)) {
                let class = if c == '\r' && lone_cr { "control-char:lone-cr-input" } else { "control-char-in-output" };
                ctx.fail(class, format!("[{}] rendered report ({entry}, radius {radius}, snippet {snippet}, {fname}, {mode:?}) contains U+{:04X}: {rendered:?}", sc.family, c as u32), replay.clone());
                continue;
            }
            if mode == serde_saphyr::SnippetMode::Off || !snippet || radius == 0 {
                continue;
            }
            let Some(loc) = loc else { continue };
            if loc.line() == 0 {
                continue;
            }
            let windows = parse_rows(&rendered);
            let l = loc.line() as usize;
            let col = loc.column() as usize;
            if windows.is_empty() {
                // the reader's ring always holds the last 3072 bytes read, so a line that starts within the
                // last 3000 bytes of the whole input cannot have been evicted
                let tail_start: usize = lines.iter().take(l.saturating_sub(1)).map(|x| x.len() + 1).sum();
                let in_ring_for_sure = entry == "reader" && l <= lines.len() && sc.text.len().saturating_sub(tail_start) < 3000 && !lone_cr;
                if in_ring_for_sure && !lines[l - 1].is_empty() {
                    ctx.fail("no-snippet-from-reader-window", format!("[{}] reader input of {} bytes: the error line {l} starts {} bytes before the end, yet no source window was rendered ({fname}): {:?}", sc.family, sc.text.len(), sc.text.len() - tail_start, rendered.chars().take(200).collect::<String>()), replay.clone());
                }
                if entry == "str" && l <= lines.len() {
                    ctx.fail(if lone_cr { "no-snippet:lone-cr-input" } else { "no-snippet" }, format!("[{}] no source window rendered for an error at line {l} column {col} of a {}-line input ({fname}): {rendered:?}", sc.family, lines.len()), replay.clone());
                }
                continue;
            }
            ctx.count("windows_checked");
            // which location each window is about: the first is the reported (use-site) location, a
            // second one the definition site
            let mut expect: Vec<(usize, usize)> = vec![(l, col)];
            if let Some(b) = both
                && b.defined_location.line() != 0
                && b.defined_location != b.reference_location
            {
                expect[0] = (b.reference_location.line() as usize, b.reference_location.column() as usize);
                expect.push((b.defined_location.line() as usize, b.defined_location.column() as usize));
            }
            for (wi, rows) in windows.iter().enumerate() {
                let Some(&(l, col)) = expect.get(wi) else { break };
                // F74 (open): from a reader, an error line longer than the recent-bytes ring is shown as the fragment the
                // ring still holds, with the column counted inside that fragment
                let f74 = entry == "reader" && sc.family == "reader-window-starts-mid-line";
                let cls = |c: &str| if f74 { "F74:reader-window-starts-mid-line".to_string() } else if lone_cr { format!("{c}:lone-cr-input") } else { c.to_string() };
                if rows.len() > 5 {
                    ctx.fail(&cls("window-too-tall"), format!("[{}] {} numbered rows in one window: {rendered:?}", sc.family, rows.len()), replay.clone());
                }
                let contiguous = rows.windows(2).all(|p| p[1].num == p[0].num + 1);
                let in_range = rows.iter().all(|r| r.num + 2 >= l && r.num <= l + 2);
                if !contiguous || !in_range {
                    ctx.fail(&cls("window-rows-wrong"), format!("[{}] rows {:?} for an error at line {l}: {rendered:?}", sc.family, rows.iter().map(|r| r.num).collect::<Vec<_>>()), replay.clone());
                    continue;
                }
                let Some(er) = rows.iter().find(|r| r.num == l) else {
                    // a position on the empty line after the final break is shown at the end of the last line
                    let at_eof = l == lines.len() && lines[l - 1].is_empty();
                    if entry == "str" && !at_eof {
                        ctx.fail(&cls("error-line-missing"), format!("[{}] window does not contain line {l}: {rendered:?}", sc.family), replay.clone());
                    }
                    continue;
                };
                // context rows: a crop of the right source line
                for r in rows {
                    let Some(src) = lines.get(r.num - 1) else {
                        ctx.fail(&cls("row-beyond-input"), format!("[{}] row {} shown for a {}-line input: {rendered:?}", sc.family, r.num, lines.len()), replay.clone());
                        continue;
                    };
                    let full = shown(src.chars());
                    let core = r.text.trim_start_matches('…').trim_end_matches('…');
                    let annot_cropped = r.text.contains("...") && !full.contains("...");
                    if !annot_cropped && !full.contains(core) && !full.trim_end().contains(core.trim_end()) {
                        ctx.fail(&cls("row-text-wrong"), format!("[{}] row {} shows {:?}, source line is {:?}", sc.family, r.num, r.text, full), replay.clone());
                    }
                    // a context line that ends left of the crop window is documented to be kept intact
                    // ("avoids turning short context lines into just an ellipsis")
                    let left_of_window = src.chars().count() < col.saturating_sub(radius).max(1);
                    if radius < 1000 && !annot_cropped && !left_of_window {
                        let limit = 4 * (2 * radius + 1) + 2;
                        if r.text.chars().count() > limit {
                            ctx.fail(&cls("row-not-cropped"), format!("[{}] row {} has {} characters at radius {radius}", sc.family, r.num, r.text.chars().count()), replay.clone());
                        }
                    }
                }
                // the error row: exactly the documented crop, caret under the column
                let src = &lines[l - 1];
                let (want, want_caret) = expected_error_line(src, col, radius);
                let fits = width(&want) + 8 < 140;
                // (the renderer itself shifts a row whose caret label would not fit its 140 columns and marks the cut with
                // three ASCII dots; what remains must still be the tail / a part of the documented crop)
                let renderer_cut = er.text.contains("...") && !want.contains("...");
                let renderer_cut_ok = renderer_cut && er.text.split("...").all(|piece| want.contains(piece.trim_end()));
                if fits && wi == 0 && !renderer_cut_ok {
                    if er.text.trim_end() != want.trim_end() {
                        ctx.fail(&cls("error-row-text"), format!("[{}] line {l} column {col} radius {radius} ({fname}, {entry}): row shows {:?}, expected {:?}", sc.family, er.text, want), replay.clone());
                    } else if let (Some(wc), Some(gc)) = (want_caret, er.caret) {
                        ctx.count("carets_checked");
                        if wc != gc {
                            ctx.fail(&cls("caret-misplaced"), format!("[{}] line {l} column {col} radius {radius} ({fname}, {entry}): caret at display offset {gc}, column is at {wc}: {rendered:?}", sc.family), replay.clone());
                        }
                    } else if want_caret.is_some() && er.caret.is_none() {
                        ctx.fail(&cls("caret-missing"), format!("[{}] no marker under line {l}: {rendered:?}", sc.family), replay.clone());
                    }
                } else if wi == 1 {
                    // secondary window: our own renderer, no tab expansion
                    let chars: Vec<char> = src.chars().collect();
                    if let Some(gc) = er.caret {
                        ctx.count("carets_checked");
                        let pre: String = er.text.chars().take(gc).collect();
                        let lc = pre.starts_with('…');
                        let k = gc - lc as usize;
                        let left = col.saturating_sub(radius).max(1);
                        let start = if lc { left - 1 } else { 0 };
                        if start + k != col.saturating_sub(1).min(chars.len()) {
                            ctx.fail(&cls("caret-misplaced"), format!("[{}] definition window: caret {gc} chars into {:?}, column {col} radius {radius}", sc.family, er.text), replay.clone());
                        }
                    } else {
                        ctx.fail(&cls("caret-missing"), format!("[{}] no marker in the definition window: {rendered:?}", sc.family), replay.clone());
                    }
                }
            }
        }
    }
    // Display is render() with the default options
    ctx.direct_evaluations += 1;
    match util::no_panic(|| e.to_string()) {
        Ok(s) => {
            if let Some(c) = s.chars().find(|c| forbidden(*c)) {
                let class = if c == '\r' && lone_cr { "control-char:lone-cr-input" } else { "control-char-in-output" };
                ctx.fail(class, format!("[{}] Display output contains U+{:04X}: {s:?}", sc.family, c as u32), replay.clone());
            }
        }
        Err(p) => ctx.fail("panic", format!("[{}] Display panicked: {p}", sc.family), replay.clone()),
    }
    // miette
    if entry == "str" {
        ctx.direct_evaluations += 1;
        let text = sc.text.strip_prefix('\u{feff}').unwrap_or(sc.text);
        let r = util::no_panic(|| {
            let rep = serde_saphyr::miette::to_miette_report(e, text, "input.yaml");
            let mut out = String::new();
            let h = miette::GraphicalReportHandler::new_themed(miette::GraphicalTheme::unicode_nocolor()).with_width(200);
            let _ = h.render_report(&mut out, rep.as_ref());
            out
        });
        match r {
            Ok(out) => {
                if let Some(c) = out.chars().find(|c| forbidden(*c)) {
                    let class = if c == '\r' && lone_cr { "control-char:lone-cr-input" } else { "control-char-in-miette" };
                    ctx.fail(class, format!("[{}] miette report contains U+{:04X}: {out:?}", sc.family, c as u32), replay.clone());
                }
            }
            Err(p) => ctx.fail("panic", format!("[{}] miette conversion / rendering panicked: {p}", sc.family), replay.clone()),
        }
    }
}

fn scenario(ctx: &mut Ctx, sc: &Scenario) {
    let radii: &[usize] = if ctx.quick() { &[0, 1, 5, 64, usize::MAX] } else { &[0, 1, 2, 5, 17, 64, 500, usize::MAX] };
    let mut any = false;
    for &radius in radii {
        for snippet in [true, false] {
            if !snippet && radius != 64 {
                continue;
            }
            let replay = json!({"kind": "pipeline", "family": sc.family, "text": sc.text, "target": format!("{:?}", sc.target), "radius": radius.to_string(), "snippet": snippet});
            match util::no_panic(|| run_str(sc.target, sc.text, options(radius, snippet))) {
                Ok(Some(e)) => {
                    any = true;
                    check_rendered(ctx, sc, &e, radius, snippet, "str", &replay);
                }
                Ok(None) => {}
                Err(p) => ctx.fail("panic", format!("from_str panicked: {p}"), replay.clone()),
            }
            match util::no_panic(|| run_reader(sc.target, sc.text, options(radius, snippet))) {
                Ok(Some(e)) => check_rendered(ctx, sc, &e, radius, snippet, "reader", &replay),
                Ok(None) => {}
                Err(p) => ctx.fail("panic", format!("from_reader panicked: {p}"), replay.clone()),
            }
        }
    }
    ctx.count(if any { "scenario_failing_input" } else { "scenario_input_accepted" });
    ctx.count(&format!("family:{}", sc.family));
}

const ESCAPES: &[&str] = &["\\e[31m", "\\u009b", "\\a", "\\x7f", "\\r", "\\0", "\\b", "\\N", "\\_", "\\x85", "\\e]0;t\\a", "\\x1b[2J", "\\t", "é", "日本", "😀"];
const BREAKS: &[&str] = &["\n", "\n", "\n", "\r\n", "\r\n", "\r"];

fn key(rng: &mut Rng, i: usize) -> String {
    match rng.below(6) {
        0 => format!("k{i}é"),
        1 => format!("日{i}"),
        2 => format!("key_{i}_{}", "x".repeat(rng.below(40))),
        3 => format!("😀{i}"),
        _ => format!("k{i}"),
    }
}

fn gen_scenarios(rng: &mut Rng, n: usize) -> Vec<(String, Target, &'static str)> {
    let mut v = Vec::new();
    for round in 0..n {
        let br = *rng.pick(BREAKS);
        let nl = 1 + rng.below(8);
        let bad = rng.below(nl);
        // A: map of i32 with one bad value at a known place
        let mut t = String::new();
        if rng.chance(1, 10) {
            t.push('\u{feff}');
        }
        for i in 0..nl {
            let k = key(rng, i);
            let sep = if rng.chance(1, 8) { ":\t" } else { ": " };
            if i == bad {
                let pad = if rng.chance(1, 4) { " ".repeat(rng.below(200)) } else { String::new() };
                let val = match rng.below(5) {
                    0 => "xé日".to_string(),
                    1 => format!("\"v{}\"", rng.pick(ESCAPES)),
                    2 => "y".repeat(1 + rng.below(300)),
                    3 => "z\tw".to_string(),
                    _ => "oops".to_string(),
                };
                let trail = if rng.chance(1, 3) { format!(" # {}", "c".repeat(rng.below(150))) } else { String::new() };
                t.push_str(&format!("{k}{sep}{pad}{val}{trail}"));
            } else if rng.chance(1, 6) {
                t.push_str(&format!("{k}{sep}{} # {}", rng.below(100), "w".repeat(rng.below(300))));
            } else if rng.chance(1, 10) {
                t.push_str(&format!("# comment {}", rng.pick(ESCAPES)));
            } else {
                t.push_str(&format!("{k}{sep}{}", rng.below(1000)));
            }
            if i + 1 < nl || rng.chance(3, 4) {
                t.push_str(br);
            }
        }
        v.push((t, Target::MapI32, "bad-value-in-map"));
        // B / C / D: reflected text
        let esc = format!("{}{}", rng.pick(ESCAPES), rng.pick(ESCAPES));
        match round % 4 {
            0 => v.push((format!("a: 1{br}\"b{esc}\": 2{br}"), Target::Strict, "unknown-field-reflected")),
            1 => v.push((format!("\"k{esc}\": 1{br}x: 2{br}\"k{esc}\": 3{br}"), Target::MapI32, "duplicate-key-reflected")),
            2 => v.push((format!("\"Gamma{esc}\"{br}"), Target::Choice, "unknown-variant-reflected")),
            _ => v.push((format!("- 1{br}- &a{round} \"n{esc}\"{br}- 3{br}- *a{round}{br}"), Target::VecI32, "alias-two-locations")),
        }
        // E: alias errors with the two sites far apart
        if round % 3 == 0 {
            let gap = rng.below(7);
            let mut t = format!("first: &anc {}{br}", if rng.chance(1, 2) { "text" } else { "\"t\\e[0m\"" });
            for i in 0..gap {
                t.push_str(&format!("g{i}: {i}{br}"));
            }
            t.push_str(&format!("{}use: *anc{br}", if rng.chance(1, 2) { "é" } else { "" }));
            v.push((t, Target::MapI32, "alias-two-locations"));
            // the same with a value that is valid where it is defined (a string) and not where it is used (an integer):
            // the error then has two different locations and the report two windows
            let lead = rng.below(14);
            let mut t = String::new();
            for i in 0..lead {
                t.push_str(&format!("# lead {i}{br}"));
            }
            t.push_str(&format!("b: {}&anc {}{br}", " ".repeat(rng.below(90)), if rng.chance(1, 2) { "text" } else { "\"t\\e[0m\"" }));
            for i in 0..gap {
                t.push_str(&format!("# gap {i}{br}"));
            }
            t.push_str(&format!("a: *anc{br}"));
            v.push((t, Target::Strict, "alias-two-locations"));
        }
        // F: scanner errors
        if round % 5 == 0 {
            let t = match rng.below(4) {
                0 => format!("a: 1{br}b: [1, 2{br}c: 3{br}"),
                1 => format!("é: \"unterminated {}{br}x: 1{br}", rng.pick(ESCAPES)),
                2 => format!("a: 1{br}\tb: 2{br}"),
                _ => format!("a: 1{br}b: *nope{br}"),
            };
            v.push((t, Target::Tree, "syntax-error"));
        }
        // G: raw control characters in the source itself (the parser rejects most of them)
        if round % 4 == 1 {
            let c = *rng.pick(&['\u{1b}', '\u{7}', '\u{0}', '\u{7f}', '\u{85}', '\u{9b}', '\u{b}']);
            v.push((format!("a: 1{br}b: x{c}[31mRED{br}c: 3{br}"), Target::MapI32, "raw-control-in-source"));
            v.push((format!("a: 1 # c{c}[2J{br}b: zz{br}"), Target::MapI32, "raw-control-in-source"));
        }
        // H: the C01 space
        let d = docgen::gen_doc(rng, &GenCfg::default_for(10));
        let t = docgen::render_doc(&d);
        let t = if rng.chance(1, 2) { docgen::mutate(rng, &t) } else { t };
        v.push((t, *rng.pick(&[Target::MapI32, Target::VecI32, Target::Tree, Target::Strict]), "generated-document"));
    }
    v
}

const FIXED: &[(&str, &str)] = &[
    ("a: 1\rb: 2\nc: 3\nd: x\ne: 5", "lone-cr"),
    ("a: 1\r\nb: 2\r\nc: x\r\nd: 4\r\n", "crlf"),
    ("\u{feff}a: 1\nb: x\n", "bom"),
    ("a: x", "single-line-no-break"),
    ("a: 1\n\n\nb: x\n\n\n", "blank-lines"),
];

pub fn run(ctx: &mut Ctx) {
    util::quiet_panics();
    ctx.set_case_format("From SS Require Import Corr.Snippet.\nLocal Open Scope N_scope.", "case", "check_case");
    ctx.rule = "cases: the snippet helpers on generated texts (ASCII, 2/3/4-byte characters, C0/DEL/C1 controls, tabs, LF/CRLF/CR breaks, \
                >4 KiB lines) x columns x crop radii {0,1,2,3,5,8,20,64,1000,usize::MAX} x identity/offset line mapping; distinct = distinct \
                Coq case term; non-trivial = output differs from input / conversion succeeds / window non-empty. direct: failing \
                (input, type) pairs x radius x snippet on/off x {developer,user,custom} formatter x SnippetMode x {str,reader} x miette"
        .into();
    if let Some(r) = ctx.replay.clone() {
        if r["kind"] == "pipeline" {
            let text = r["text"].as_str().unwrap_or("").to_string();
            let target = match r["target"].as_str().unwrap_or("") {
                "Strict" => Target::Strict,
                "Choice" => Target::Choice,
                "Tree" => Target::Tree,
                "VecI32" => Target::VecI32,
                _ => Target::MapI32,
            };
            scenario(ctx, &Scenario { text: &text, target, family: "replay" });
        } else {
            println!("replay (helper case): {r}");
        }
        return;
    }
    let mut rng = ctx.rng.fork();
    helper_cases(ctx, &mut rng);

    for (t, fam) in FIXED {
        scenario(ctx, &Scenario { text: t, target: Target::MapI32, family: fam });
    }
    // large inputs: the reader's recent-bytes ring has wrapped many times when the error is reached
    for (lines, width, bad_at) in [(1500usize, 8usize, 1490usize), (300, 60, 297), (120, 200, 118), (2500, 3, 2499)] {
        let mut t = String::new();
        for i in 0..lines {
            if i == bad_at {
                t.push_str(&format!("bad{i}: oops\n"));
            } else {
                t.push_str(&format!("k{i}: {}\n", "7".repeat(1 + (i * 7 + width) % width.max(2))));
            }
        }
        scenario(ctx, &Scenario { text: &t, target: Target::MapI32, family: "large-reader-input" });
    }
    // an error early in a line that is longer than the reader's recent-bytes ring (3 KiB)
    {
        let items: Vec<String> = (0..1200).map(|i| if i == 300 { "*unk".to_string() } else { format!("v{i:04}") }).collect();
        let t = format!("a: 1\nb: [{}]\nc: 3\n", items.join(", "));
        scenario(ctx, &Scenario { text: &t, target: Target::Tree, family: "reader-window-starts-mid-line" });
    }
    // two-location errors whose definition site is on a line with a two- / three-digit number (F73: the marker row of
    // the second window had a one-digit gutter)
    for lead in [7usize, 8, 9, 97, 98, 120] {
        let mut t = String::new();
        for i in 0..lead {
            t.push_str(&format!("# c{i}\n"));
        }
        // (valid where it is defined -- a string --, invalid where it is used -- an integer)
        t.push_str("b: &anc text\n# between\na: *anc\n");
        scenario(ctx, &Scenario { text: &t, target: Target::Strict, family: "alias-two-locations" });
    }
    // lines longer than the 4 KiB storage threshold: the stored window is cropped before it is kept; the error line
    // keeps everything left of the error column (the renderer crops it again around the column)
    for (pad, long_ctx) in [(4500usize, false), (70, false), (9000, false), (200, true), (5, true)] {
        let long_line = format!("ctx: {}\n", "7".repeat(4300));
        let t = format!("a: 1\n{}k:{}oops\n{}z: 3\n", if long_ctx { long_line.as_str() } else { "" }, " ".repeat(pad), if long_ctx { long_line.as_str() } else { "" });
        scenario(ctx, &Scenario { text: &t, target: Target::MapI32, family: "line-beyond-storage-threshold" });
        let t = format!("a: 1\n{}: oops\nz: 3\n", "x".repeat(pad.max(4200)));
        scenario(ctx, &Scenario { text: &t, target: Target::MapI32, family: "line-beyond-storage-threshold" });
    }
    let n = if ctx.quick() { 60 } else { 700 };
    for (t, target, fam) in gen_scenarios(&mut rng, n) {
        scenario(ctx, &Scenario { text: &t, target, family: fam });
    }
}
