//! C18 -- validating entry points agree with plain ones and locate every failed field.
//!
//! K: PathMap::search (exact, then unique match under the looser comparisons) on generated maps of
//!    recorded paths and validator paths, vs `SS.Model.PathMap`.
//! S: generated documents for a fixed family of validated types (nested structs, sequences of
//!    structs, renamed fields, values supplied directly / through aliases / through merges), the
//!    violated constraints chosen at random, for garde and validator, string and reader entry points,
//!    single and multi-document: when validation passes the result is that of the plain entry point;
//!    when it fails every reported path is located at the position where the value is used and, if
//!    it came through an anchor, also where it was defined; every failing document of a stream is
//!    reported.
//!    Also: the validating iterators under a per-document budget, and a repeated key under the last-wins policy.
use crate::coq;
use crate::ctx::{Ctx, Rng};
use crate::util;
use serde::Deserialize;
use serde_json::json;
use serde_saphyr::__verif as hooks;

const NAMES: &[&str] = &[
    "firstItem", "first_item", "FirstItem", "first-item", "FIRSTITEM", "FIRST_ITEM", "firstitem", "items", "Items", "item", "0", "1", "10", "r#type", "type", "Type", "HTTPServer2", "http_server_2",
    "httpServer2", "http_server2", "name", "Name", "n a m e", "naMe", "x", "", "a1", "a_1", "A1", "é", "user_id", "userID", "userId",
];

fn gen_path(rng: &mut Rng, len: usize) -> Vec<(bool, String)> {
    (0..len)
        .map(|_| {
            if rng.chance(1, 4) {
                (true, rng.below(3).to_string())
            } else {
                (false, rng.pick(NAMES).to_string())
            }
        })
        .collect()
}
fn path_coq(p: &[(bool, String)]) -> String {
    coq::list(&p.iter().map(|(i, n)| format!("({}, {})", coq::b(*i), coq::s(n))).collect::<Vec<_>>(), "seg")
}

// ---------- the validated family ----------
mod g {
    use garde::Validate;
    use serde::Deserialize;
    #[derive(Debug, Deserialize, Validate, PartialEq, Clone)]
    pub struct Inner {
        #[garde(length(min = 3))]
        pub name: String,
        #[garde(range(min = 1, max = 10))]
        pub level: i32,
    }
    #[derive(Debug, Deserialize, Validate, PartialEq, Clone)]
    pub enum Kind {
        A(#[garde(dive)] Inner),
        B {
            #[garde(dive)]
            inner: Inner,
        },
    }
    #[derive(Debug, Deserialize, Validate, PartialEq, Clone)]
    pub struct WithEnum {
        #[garde(dive)]
        pub kind: Kind,
        #[garde(dive)]
        pub opt: Option<Inner>,
        #[garde(dive)]
        pub map: std::collections::BTreeMap<String, Inner>,
    }
    #[derive(Debug, Deserialize, Validate, PartialEq, Clone)]
    #[serde(rename_all = "camelCase")]
    pub struct Cfg {
        #[garde(dive)]
        pub first_item: Inner,
        #[garde(dive)]
        pub items: Vec<Inner>,
        #[garde(length(min = 2))]
        pub short_name: String,
        #[garde(range(min = 0))]
        #[serde(rename = "max-count")]
        pub max_count: i32,
    }
}
mod v {
    use serde::Deserialize;
    use validator::Validate;
    #[derive(Debug, Deserialize, Validate, PartialEq, Clone)]
    pub struct Inner {
        #[validate(length(min = 3))]
        pub name: String,
        #[validate(range(min = 1, max = 10))]
        pub level: i32,
    }
    #[derive(Debug, Deserialize, Validate, PartialEq, Clone)]
    #[serde(rename_all = "camelCase")]
    pub struct Cfg {
        #[validate(nested)]
        pub first_item: Inner,
        #[validate(nested)]
        pub items: Vec<Inner>,
        #[validate(length(min = 2))]
        pub short_name: String,
        #[validate(range(min = 0))]
        #[serde(rename = "max-count")]
        pub max_count: i32,
    }
}

/// containers (a nested struct, a sequence of structs with a renamed leaf) that reach their parent directly
/// or through a merge
mod g2 {
    use garde::Validate;
    use serde::Deserialize;
    #[derive(Debug, Deserialize, Validate)]
    #[serde(rename_all = "camelCase")]
    pub struct Item {
        #[garde(length(min = 2))]
        pub item_name: String,
        #[garde(range(max = 9))]
        pub sha_sum: u32,
    }
    #[derive(Debug, Deserialize, Validate)]
    pub struct Inner {
        #[garde(length(min = 2))]
        pub label: String,
        #[garde(range(min = 1))]
        pub count: u32,
    }
    #[derive(Debug, Deserialize, Validate)]
    pub struct Root {
        #[garde(skip)]
        #[serde(default)]
        #[allow(dead_code)]
        pub defaults: serde::de::IgnoredAny,
        #[garde(length(min = 2))]
        pub name: String,
        #[garde(range(min = 1))]
        pub level: u32,
        #[garde(dive)]
        pub inner: Inner,
        #[garde(dive)]
        #[serde(rename = "item-list")]
        pub item_list: Vec<Item>,
    }
}
mod v2 {
    use serde::Deserialize;
    use validator::Validate;
    #[derive(Debug, Deserialize, Validate)]
    #[serde(rename_all = "camelCase")]
    pub struct Item {
        #[validate(length(min = 2))]
        pub item_name: String,
        #[validate(range(max = 9))]
        pub sha_sum: u32,
    }
    #[derive(Debug, Deserialize, Validate)]
    pub struct Inner {
        #[validate(length(min = 2))]
        pub label: String,
        #[validate(range(min = 1))]
        pub count: u32,
    }
    #[derive(Debug, Deserialize, Validate)]
    pub struct Root {
        #[serde(default)]
        #[allow(dead_code)]
        pub defaults: serde::de::IgnoredAny,
        #[validate(length(min = 2))]
        pub name: String,
        #[validate(range(min = 1))]
        pub level: u32,
        #[validate(nested)]
        pub inner: Inner,
        #[validate(nested)]
        #[serde(rename = "item-list")]
        pub item_list: Vec<Item>,
    }
}

/// a document for g2::Root / v2::Root: `level`, `inner` and `item-list` are each given directly or merged in
fn gen_doc2(rng: &mut Rng) -> GenDoc {
    let mut lines: Vec<String> = Vec::new();
    let mut violated: Vec<(String, (usize, usize), (usize, usize))> = Vec::new();
    let merged: Vec<bool> = (0..3).map(|_| rng.chance(1, 2)).collect();
    let any_merged = merged.iter().any(|m| *m);
    let n_items = 1 + rng.below(4);
    let level_bad = rng.chance(1, 2);
    let label_bad = rng.chance(1, 2);
    let count_bad = rng.chance(1, 3);
    let items: Vec<(bool, bool)> = (0..n_items).map(|_| (rng.chance(1, 3), rng.chance(1, 3))).collect();
    // positions of the values where they are written
    let mut pos: std::collections::BTreeMap<String, (usize, usize)> = Default::default();
    let mut block = |lines: &mut Vec<String>, indent: usize, which: usize| {
        let pad = " ".repeat(indent);
        match which {
            0 => {
                lines.push(format!("{pad}level: {}", if level_bad { 0 } else { 3 }));
                pos.insert("level".into(), (lines.len(), indent + 8));
            }
            1 => {
                lines.push(format!("{pad}inner:"));
                lines.push(format!("{pad}  label: {}", if label_bad { "y" } else { "yy" }));
                pos.insert("inner.label".into(), (lines.len(), indent + 10));
                lines.push(format!("{pad}  count: {}", if count_bad { 0 } else { 4 }));
                pos.insert("inner.count".into(), (lines.len(), indent + 10));
            }
            _ => {
                lines.push(format!("{pad}item-list:"));
                for (i, (nb, sb)) in items.iter().enumerate() {
                    lines.push(format!("{pad}  - itemName: {}", if *nb { "a" } else { "ab" }));
                    pos.insert(format!("item_list[{i}].item_name"), (lines.len(), indent + 15));
                    lines.push(format!("{pad}    shaSum: {}", if *sb { 77 } else { 7 }));
                    pos.insert(format!("item_list[{i}].sha_sum"), (lines.len(), indent + 13));
                }
            }
        }
    };
    if any_merged {
        lines.push("defaults: &d".into());
        for w in 0..3 {
            if merged[w] {
                block(&mut lines, 2, w);
            }
        }
    }
    let name_bad = rng.chance(1, 3);
    lines.push(format!("name: {}", if name_bad { "x" } else { "xx" }));
    if name_bad {
        violated.push(("name".into(), (lines.len(), 7), (lines.len(), 7)));
    }
    for w in 0..3 {
        if !merged[w] {
            block(&mut lines, 0, w);
        }
    }
    let mut merge_pos = (0, 0);
    if any_merged {
        lines.push("<<: *d".into());
        merge_pos = (lines.len(), 5);
    }
    let mut want = |path: String, bad: bool, which: usize| {
        if bad {
            let def = pos[&path];
            violated.push((path, if merged[which] { merge_pos } else { def }, def));
        }
    };
    want("level".into(), level_bad, 0);
    want("inner.label".into(), label_bad, 1);
    want("inner.count".into(), count_bad, 1);
    for (i, (nb, sb)) in items.iter().enumerate() {
        want(format!("item_list[{i}].item_name"), *nb, 2);
        want(format!("item_list[{i}].sha_sum"), *sb, 2);
    }
    GenDoc { text: lines.join("\n") + "\n", violated }
}

/// one generated document: text, and for every field path the expected (use line, use col, def line, def col)
struct GenDoc {
    text: String,
    violated: Vec<(String, (usize, usize), (usize, usize))>,
}

#[derive(Clone, Copy, PartialEq)]
enum Supply {
    Direct,
    Alias,
    Merge,
}

fn gen_doc(rng: &mut Rng) -> GenDoc {
    // every Inner is supplied directly, through an alias to an anchored mapping, or through a merge
    let mut lines: Vec<String> = Vec::new();
    let mut violated = Vec::new();
    let mut push = |lines: &mut Vec<String>, s: String| {
        lines.push(s);
        lines.len()
    };
    let bad_name = |rng: &mut Rng| if rng.chance(1, 3) { ("ab".to_string(), true) } else { ("abcd".to_string(), false) };
    let bad_level = |rng: &mut Rng| if rng.chance(1, 3) { (if rng.chance(1, 2) { 50 } else { 0 }, true) } else { (5, false) };

    let n_items = 1 + rng.below(3);
    let mut supplies = vec![*rng.pick(&[Supply::Direct, Supply::Alias, Supply::Merge])];
    for _ in 0..n_items {
        supplies.push(*rng.pick(&[Supply::Direct, Supply::Direct, Supply::Alias, Supply::Merge]));
    }
    // anchored definitions first
    let mut defs: Vec<Option<((usize, usize), (usize, usize), bool, bool)>> = Vec::new(); // positions of name / level values, and whether bad
    for (i, s) in supplies.iter().enumerate() {
        if *s == Supply::Direct {
            defs.push(None);
            continue;
        }
        let (name, nb) = bad_name(rng);
        let (level, lb) = bad_level(rng);
        push(&mut lines, format!("def{i}: &d{i}"));
        let ln = push(&mut lines, format!("  name: {name}"));
        let ll = push(&mut lines, format!("  level: {level}"));
        defs.push(Some(((ln, 9), (ll, 10), nb, lb)));
    }
    // firstItem
    let mut emit_inner = |lines: &mut Vec<String>, violated: &mut Vec<(String, (usize, usize), (usize, usize))>, rng: &mut Rng, path: &str, key_prefix: &str, indent: &str, idx: usize| {
        match supplies[idx] {
            Supply::Direct => {
                let (name, nb) = bad_name(rng);
                let (level, lb) = bad_level(rng);
                let first = format!("{key_prefix}name: {name}");
                let ln = push(lines, first.clone());
                let name_col = key_prefix.len() + 7;
                let ll = push(lines, format!("{indent}level: {level}"));
                let level_col = indent.len() + 8;
                if nb {
                    violated.push((format!("{path}.name"), (ln, name_col), (ln, name_col)));
                }
                if lb {
                    violated.push((format!("{path}.level"), (ll, level_col), (ll, level_col)));
                }
            }
            Supply::Alias => {
                let l = push(lines, format!("{}*d{idx}", key_prefix.trim_end_matches(' ').to_string() + " "));
                let col = key_prefix.trim_end_matches(' ').len() + 2;
                let (np, lp, nb, lb) = defs[idx].unwrap();
                if nb {
                    violated.push((format!("{path}.name"), (l, col), np));
                }
                if lb {
                    violated.push((format!("{path}.level"), (l, col), lp));
                }
            }
            Supply::Merge => {
                let l = push(lines, format!("{key_prefix}<<: *d{idx}"));
                let col = key_prefix.len() + 5;
                let (np, lp, nb, lb) = defs[idx].unwrap();
                if nb {
                    violated.push((format!("{path}.name"), (l, col), np));
                }
                if lb {
                    violated.push((format!("{path}.level"), (l, col), lp));
                }
            }
        }
    };
    match supplies[0] {
        Supply::Alias => emit_inner(&mut lines, &mut violated, rng, "first_item", "firstItem: ", "", 0),
        _ => {
            push(&mut lines, "firstItem:".to_string());
            emit_inner(&mut lines, &mut violated, rng, "first_item", "  ", "  ", 0);
        }
    }
    push(&mut lines, "items:".to_string());
    for i in 0..n_items {
        emit_inner(&mut lines, &mut violated, rng, &format!("items[{i}]"), "  - ", "    ", i + 1);
    }
    let short_bad = rng.chance(1, 3);
    let l = push(&mut lines, format!("shortName: {}", if short_bad { "z" } else { "zz" }));
    if short_bad {
        violated.push(("shortName".to_string(), (l, 12), (l, 12)));
    }
    let count_bad = rng.chance(1, 4);
    let l = push(&mut lines, format!("max-count: {}", if count_bad { -3 } else { 3 }));
    if count_bad {
        violated.push(("max-count".to_string(), (l, 12), (l, 12)));
    }
    GenDoc { text: lines.join("\n") + "\n", violated }
}

fn opts() -> serde_saphyr::Options {
    #[allow(deprecated)]
    let mut o = serde_saphyr::Options::default();
    #[allow(deprecated)]
    {
        o.with_snippet = false;
    }
    o
}

/// "validation error at <path>: <msg> at line L, column C" -> (path, line, col)
fn parse_report(msg: &str) -> Vec<(String, usize, usize)> {
    let mut out = Vec::new();
    for line in msg.lines() {
        let Some(rest) = line.strip_prefix("validation error at ") else { continue };
        let Some((path, tail)) = rest.split_once(": ") else { continue };
        let Some(p) = tail.rfind(" at line ") else {
            out.push((path.to_string(), 0, 0));
            continue;
        };
        let loc = &tail[p + 9..];
        let mut it = loc.split(", column ");
        let l = it.next().and_then(|x| x.trim().parse().ok()).unwrap_or(0);
        let c = it.next().and_then(|x| x.trim().trim_end_matches(|ch: char| !ch.is_ascii_digit()).parse().ok()).unwrap_or(0);
        out.push((path.to_string(), l, c));
    }
    out
}

fn norm(p: &str) -> String {
    // the reported leaf is the YAML spelling, the expected path uses the Rust field names of the first segment
    p.replace("firstItem", "first_item").replace("itemName", "item_name").replace("shaSum", "sha_sum").replace("item-list", "item_list")
}

fn check_result(ctx: &mut Ctx, which: &str, d: &GenDoc, res: Result<String, serde_saphyr::Error>, plain: &Result<String, String>, replay: &serde_json::Value) {
    ctx.direct_evaluations += 1;
    match res {
        Ok(v) => {
            if !d.violated.is_empty() {
                ctx.fail("violation-not-reported", format!("[{which}] constraints violated at {:?} but validation passed", d.violated.iter().map(|x| &x.0).collect::<Vec<_>>()), replay.clone());
            } else if plain.as_ref().ok() != Some(&v) {
                ctx.fail("validated-result-differs-from-plain", format!("[{which}] validated entry point gives {v}, plain gives {plain:?}"), replay.clone());
            }
        }
        Err(e) => {
            let msg = e.to_string();
            if d.violated.is_empty() {
                if plain.is_ok() {
                    ctx.fail("spurious-validation-error", format!("[{which}] nothing is violated, yet: {msg}"), replay.clone());
                }
                return;
            }
            let rep = parse_report(&msg);
            for (path, use_pos, _def_pos) in &d.violated {
                match rep.iter().find(|(p, _, _)| norm(p) == norm(path)) {
                    None => ctx.fail("violated-field-not-reported", format!("[{which}] {path} is violated but not in the report: {msg}"), replay.clone()),
                    Some((_, l, c)) => {
                        if (*l, *c) != *use_pos {
                            ctx.fail("violation-at-wrong-position", format!("[{which}] {path}: reported at line {l} column {c}, the value is used at line {} column {}; report: {msg}", use_pos.0, use_pos.1), replay.clone());
                        }
                    }
                }
            }
            if rep.len() != d.violated.len() {
                ctx.fail("report-count-differs", format!("[{which}] {} fields violated, {} reported: {msg}", d.violated.len(), rep.len()), replay.clone());
            }
        }
    }
}

pub fn run(ctx: &mut Ctx) {
    util::quiet_panics();
    ctx.set_case_format("From SS Require Import Corr.PathMap.\nLocal Open Scope N_scope.", "case", "check_case");
    ctx.rule = "cases: PathMap::search on maps of 0-6 recorded paths (1-3 segments over a vocabulary of field spellings: camel / snake / \
                kebab / upper case, raw identifiers, digits, index segments) and targets drawn from the same vocabulary or from the map; \
                distinct = distinct Coq case term; non-trivial = found through a looser comparison or ambiguous"
        .into();
    if let Some(r) = ctx.replay.clone() {
        println!("replay: {r}");
        return;
    }
    let quick = ctx.quick();
    let mut rng = ctx.rng.fork();

    // ---- K
    for _ in 0..(if quick { 1500 } else { 20000 }) {
        let len = 1 + rng.below(3);
        let n = rng.below(7);
        let mut entries: Vec<(Vec<(bool, String)>, u32)> = Vec::new();
        for i in 0..n {
            let plen = if rng.chance(1, 6) { 1 + rng.below(3) } else { len };
            let p = gen_path(&mut rng, plen);
            if !entries.iter().any(|(q, _)| *q == p) {
                entries.push((p, i as u32 + 1));
            }
        }
        let target = if !entries.is_empty() && rng.chance(1, 3) { entries[rng.below(entries.len())].0.clone() } else if rng.chance(1, 20) { Vec::new() } else { gen_path(&mut rng, len) };
        let r = hooks::pathmap_search(&entries, &target);
        let exact = entries.iter().any(|(p, _)| *p == target);
        let term = format!(
            "CSearch {} {} {}",
            coq::list(&entries.iter().map(|(p, id)| format!("({}, {id})", path_coq(p))).collect::<Vec<_>>(), "(path * N)"),
            path_coq(&target),
            coq::opt(&r, |(id, leaf)| format!("({id}, {})", coq::s(leaf)))
        );
        ctx.case(term, r.is_some() && !exact, json!({"kind": "search", "entries": format!("{entries:?}"), "target": format!("{target:?}")}));
    }

    // ---- S
    for _ in 0..(if quick { 250 } else { 4000 }) {
        let d = gen_doc(&mut rng);
        let replay = json!({"kind": "validated", "text": d.text, "violated": d.violated.iter().map(|x| x.0.clone()).collect::<Vec<_>>()});
        let plain_g = serde_saphyr::from_str_with_options::<g::Cfg>(&d.text, opts()).map(|v| format!("{v:?}")).map_err(|e| e.to_string());
        let plain_v = serde_saphyr::from_str_with_options::<v::Cfg>(&d.text, opts()).map(|v| format!("{v:?}")).map_err(|e| e.to_string());
        check_result(ctx, "garde from_str", &d, serde_saphyr::from_str_with_options_valid::<g::Cfg>(&d.text, opts()).map(|v| format!("{v:?}")), &plain_g, &replay);
        check_result(ctx, "validator from_str", &d, serde_saphyr::from_str_with_options_validate::<v::Cfg>(&d.text, opts()).map(|v| format!("{v:?}")), &plain_v, &replay);
        check_result(ctx, "garde from_reader", &d, serde_saphyr::from_reader_with_options_valid::<_, g::Cfg>(std::io::Cursor::new(d.text.as_bytes().to_vec()), opts()).map(|v| format!("{v:?}")), &plain_g, &replay);
        check_result(ctx, "validator from_reader", &d, serde_saphyr::from_reader_with_options_validate::<_, v::Cfg>(std::io::Cursor::new(d.text.as_bytes().to_vec()), opts()).map(|v| format!("{v:?}")), &plain_v, &replay);
        ctx.count(if d.violated.is_empty() { "doc_valid" } else { "doc_violating" });
    }
    // containers that reach their parent through a merge; renamed leaves inside sequences of several elements
    for _ in 0..(if quick { 250 } else { 4000 }) {
        let d = gen_doc2(&mut rng);
        let replay = json!({"kind": "validated2", "text": d.text, "violated": d.violated.iter().map(|x| x.0.clone()).collect::<Vec<_>>()});
        let plain_g = serde_saphyr::from_str_with_options::<g2::Root>(&d.text, opts()).map(|v| format!("{v:?}")).map_err(|e| e.to_string());
        let plain_v = serde_saphyr::from_str_with_options::<v2::Root>(&d.text, opts()).map(|v| format!("{v:?}")).map_err(|e| e.to_string());
        check_result(ctx, "garde from_str (merged containers)", &d, serde_saphyr::from_str_with_options_valid::<g2::Root>(&d.text, opts()).map(|v| format!("{v:?}")), &plain_g, &replay);
        check_result(ctx, "validator from_str (merged containers)", &d, serde_saphyr::from_str_with_options_validate::<v2::Root>(&d.text, opts()).map(|v| format!("{v:?}")), &plain_v, &replay);
        check_result(ctx, "garde from_reader (merged containers)", &d, serde_saphyr::from_reader_with_options_valid::<_, g2::Root>(std::io::Cursor::new(d.text.as_bytes().to_vec()), opts()).map(|v| format!("{v:?}")), &plain_g, &replay);
        check_result(ctx, "validator from_slice (merged containers)", &d, serde_saphyr::from_slice_with_options_validate::<v2::Root>(d.text.as_bytes(), opts()).map(|v| format!("{v:?}")), &plain_v, &replay);
        ctx.count(if d.violated.is_empty() { "doc2_valid" } else { "doc2_violating" });
    }
    // values inside enum variant payloads, options and maps (garde)
    for (text, want) in [
        ("kind:\n  A:\n    name: ab\n    level: 5\nopt:\n  name: x\n  level: 3\nmap:\n  k1:\n    name: y\n    level: 2\n", vec![("kind[0].name", 3, 11), ("opt.name", 6, 9), ("map.k1.name", 10, 11)]),
        ("kind:\n  B:\n    inner:\n      name: ab\n      level: 77\nopt: null\nmap: {}\n", vec![("kind.inner.name", 4, 13), ("kind.inner.level", 5, 14)]),
        ("base: &b {name: ab, level: 5}\nkind:\n  A: *b\nopt: *b\nmap:\n  k: *b\n", vec![("kind[0].name", 3, 6), ("opt.name", 4, 6), ("map.k.name", 6, 6)]),
    ] {
        ctx.direct_evaluations += 1;
        let replay = json!({"kind": "enum_payload", "text": text});
        match serde_saphyr::from_str_with_options_valid::<g::WithEnum>(text, opts()) {
            Ok(_) => ctx.fail("violation-not-reported", format!("{text:?} passes validation"), replay),
            Err(e) => {
                let rep = parse_report(&e.to_string());
                for (path, l, c) in &want {
                    match rep.iter().find(|(p, _, _)| p == path) {
                        Some((_, gl, gc)) if gl == l && gc == c => {}
                        other => ctx.fail("violation-at-wrong-position", format!("{path} expected at line {l} column {c}, reported {other:?}; report: {e}"), replay.clone()),
                    }
                }
            }
        }
    }
    // streams: every failing document is reported
    for _ in 0..(if quick { 60 } else { 800 }) {
        let docs: Vec<GenDoc> = (0..(2 + rng.below(3))).map(|_| gen_doc(&mut rng)).collect();
        let text: String = docs.iter().map(|d| format!("---\n{}", d.text)).collect();
        let failing: Vec<usize> = docs.iter().enumerate().filter(|(_, d)| !d.violated.is_empty()).map(|(i, _)| i).collect();
        let replay = json!({"kind": "stream", "text": text, "failing_documents": failing});
        ctx.direct_evaluations += 2;
        for (which, res) in [
            ("garde from_multiple", serde_saphyr::from_multiple_with_options_valid::<g::Cfg>(&text, opts()).map(|v| v.len())),
            ("validator from_multiple", serde_saphyr::from_multiple_with_options_validate::<v::Cfg>(&text, opts()).map(|v| v.len())),
        ] {
            match res {
                Ok(n) => {
                    if !failing.is_empty() || n != docs.len() {
                        ctx.fail("stream-violation-not-reported", format!("[{which}] documents {failing:?} violate constraints, result Ok({n})"), replay.clone());
                    }
                }
                Err(e) => {
                    let msg = e.to_string();
                    if failing.is_empty() {
                        ctx.fail("spurious-validation-error", format!("[{which}] no document violates anything: {msg}"), replay.clone());
                        continue;
                    }
                    // every violated field of every failing document appears (paths repeat across documents: count them)
                    let rep = parse_report(&msg);
                    let want: usize = docs.iter().map(|d| d.violated.len()).sum();
                    if rep.len() != want {
                        ctx.fail("stream-report-incomplete", format!("[{which}] {want} violated fields in documents {failing:?}, {} reported: {msg}", rep.len()), replay.clone());
                    }
                }
            }
        }
    }
    // the streaming iterators: one result per document, an error exactly for the violating ones, and the
    // stream goes on after a document that fails validation
    for _ in 0..(if quick { 60 } else { 800 }) {
        let docs: Vec<GenDoc> = (0..(2 + rng.below(4))).map(|_| gen_doc(&mut rng)).collect();
        let text: String = docs.iter().map(|d| format!("---\n{}", d.text)).collect();
        let failing: Vec<bool> = docs.iter().map(|d| !d.violated.is_empty()).collect();
        let replay = json!({"kind": "stream_iter", "text": text, "failing_documents": failing});
        ctx.direct_evaluations += 4;
        let mut r1 = std::io::Cursor::new(text.as_bytes().to_vec());
        let got_g: Vec<bool> = serde_saphyr::read_valid::<_, g::Cfg>(&mut r1).take(docs.len() + 3).map(|r| r.is_err()).collect();
        let mut r2 = std::io::Cursor::new(text.as_bytes().to_vec());
        let got_v: Vec<bool> = serde_saphyr::read_validate::<_, v::Cfg>(&mut r2).take(docs.len() + 3).map(|r| r.is_err()).collect();
        let mut r3 = std::io::Cursor::new(text.as_bytes().to_vec());
        let got_go: Vec<bool> = serde_saphyr::read_with_options_valid::<_, g::Cfg>(&mut r3, opts()).take(docs.len() + 3).map(|r| r.is_err()).collect();
        let mut r4 = std::io::Cursor::new(text.as_bytes().to_vec());
        let got_vo: Vec<bool> = serde_saphyr::read_with_options_validate::<_, v::Cfg>(&mut r4, opts()).take(docs.len() + 3).map(|r| r.is_err()).collect();
        for (which, got) in [("garde read_valid", got_g), ("validator read_validate", got_v), ("garde read_with_options_valid", got_go), ("validator read_with_options_validate", got_vo)] {
            if got != failing {
                ctx.fail("stream-iterator-results-differ", format!("[{which}] per-document failure expected {failing:?}, got {got:?}"), replay.clone());
            }
        }
    }
    // the validating iterators take the options of the plain one: a budget every document meets on its own is met by
    // the stream (the iterators enforce it per document), whatever its length
    {
        let valid: Vec<GenDoc> = (0..200).map(|_| gen_doc(&mut rng)).filter(|d| d.violated.is_empty()).take(if quick { 6 } else { 30 }).collect();
        for d in &valid {
            let mut b = serde_saphyr::budget::Budget::default();
            // the tightest node limit the document alone passes under
            let mut lim = 1usize;
            loop {
                b.max_nodes = lim;
                let mut o = opts();
                o.budget = Some(b.clone());
                if serde_saphyr::from_str_with_options::<g::Cfg>(&d.text, o).is_ok() || lim > 4096 {
                    break;
                }
                lim += 1;
            }
            b.max_documents = 2;
            let text: String = (0..4).map(|_| format!("---\n{}", d.text)).collect();
            let mk = || {
                let mut o = opts();
                o.budget = Some(b.clone());
                o
            };
            ctx.direct_evaluations += 3;
            let plain: Vec<bool> = serde_saphyr::read_with_options::<_, g::Cfg>(&mut std::io::Cursor::new(text.as_bytes().to_vec()), mk()).take(8).map(|r| r.is_ok()).collect();
            let gv: Vec<bool> = serde_saphyr::read_with_options_valid::<_, g::Cfg>(&mut std::io::Cursor::new(text.as_bytes().to_vec()), mk()).take(8).map(|r| r.is_ok()).collect();
            let vv: Vec<bool> = serde_saphyr::read_with_options_validate::<_, v::Cfg>(&mut std::io::Cursor::new(text.as_bytes().to_vec()), mk()).take(8).map(|r| r.is_ok()).collect();
            let replay = json!({"kind": "stream_budget", "text": text, "max_nodes": lim});
            if plain != vec![true; 4] {
                ctx.fail("stream-iterator-results-differ", format!("[plain read_with_options] four copies of a document that fits max_nodes = {lim}: {plain:?}"), replay.clone());
            }
            if gv != plain || vv != plain {
                ctx.fail("stream-iterator-results-differ", format!("under max_nodes = {lim}, max_documents = 2 the plain iterator gives {plain:?}, garde {gv:?}, validator {vv:?}"), replay);
            }
        }
    }
    // a repeated key under the last-wins policy: the value is the last occurrence, and so is the reported position
    {
        let text = "kind:\n  A:\n    name: abc\n    level: 5\nopt: null\nmap:\n  k:\n    name: okay\n    level: 2\n  k:\n    name: y\n    level: 2\n";
        let mut o = opts();
        o.duplicate_keys = serde_saphyr::DuplicateKeyPolicy::LastWins;
        ctx.direct_evaluations += 1;
        let replay = json!({"kind": "last_wins", "text": text});
        match serde_saphyr::from_str_with_options_valid::<g::WithEnum>(text, o) {
            Ok(_) => ctx.fail("violation-not-reported", format!("{text:?} passes validation under LastWins"), replay),
            Err(e) => {
                let rep = parse_report(&e.to_string());
                match rep.iter().find(|(p, _, _)| p == "map.k.name") {
                    Some((_, 11, 11)) => {}
                    other => ctx.fail("violation-at-wrong-position", format!("map.k.name (last occurrence wins) expected at line 11 column 11, reported {other:?}; report: {e}"), replay),
                }
            }
        }
    }
    let _ = <g::Cfg as Deserialize>::deserialize::<serde::de::value::UnitDeserializer<serde::de::value::Error>>;
}
