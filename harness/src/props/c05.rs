//! C05 -- typed deserialization is position-faithful; shape mismatches are errors.
//!
//! K: (document, run-time type) pairs through `with_deserializer_from_str` + run-time seeds vs
//!    `SS.Model.Deser` (value or error class).
//! S: a tree-walking reference interpreter: every Rust position is filled from the YAML node at the
//!    corresponding position; arity, field names, option/null and the three enum notations are
//!    honoured; anything else must be an error -- never a silent re-synchronisation.
//!    Fixed families: complex mapping keys (exact / surplus / missing / nested surplus elements), block scalars with
//!    null-looking text under Option, and `!V payload` == `{V: payload}` over payload types x null-like / numeric texts.
use crate::ctx::{Ctx, Rng};
use crate::deserk::{self, DOpts};
use crate::docgen::{self, Node, Sty};
use crate::rt::{Ty, VShape, Val};
use crate::util;
use serde_json::json;
use serde_saphyr::DuplicateKeyPolicy as P;

const FIELD_NAMES: &[&str] = &["a", "b", "c", "id", "name"];
const VARIANT_NAMES: &[&str] = &["A", "B", "Cee", "D"];

fn gen_ty(rng: &mut Rng, depth: usize) -> Ty {
    let leaf = depth == 0 || rng.chance(2, 5);
    if leaf {
        return match rng.below(9) {
            0 => Ty::Bool,
            1 => Ty::Int(true, 32),
            2 => Ty::Int(false, 8),
            3 => Ty::F64,
            4 => Ty::String,
            5 => Ty::Char,
            6 => Ty::Unit,
            7 => Ty::Int(true, 64),
            _ => Ty::String,
        };
    }
    match rng.below(10) {
        0 | 1 => Ty::Option(Box::new(gen_ty(rng, depth - 1))),
        2 | 3 => Ty::Seq(Box::new(gen_ty(rng, depth - 1))),
        4 | 5 => {
            let n = rng.below(4);
            Ty::Tuple((0..n).map(|_| gen_ty(rng, depth - 1)).collect())
        }
        6 => {
            let kt = match rng.below(8) {
                0 | 1 => Ty::Int(true, 32),
                2 => Ty::Tuple(vec![Ty::Int(true, 32), Ty::String]),
                3 => Ty::Seq(Box::new(Ty::Int(false, 8))),
                4 => Ty::Tuple(vec![Ty::Int(true, 32), Ty::Int(true, 32)]),
                _ => Ty::String,
            };
            Ty::Map(Box::new(kt), Box::new(gen_ty(rng, depth - 1)))
        }
        7 | 8 => {
            let n = 1 + rng.below(3);
            let fields = FIELD_NAMES[..n].iter().map(|f| (f.to_string(), gen_ty(rng, depth - 1))).collect();
            Ty::Struct(fields, rng.chance(1, 3))
        }
        _ => {
            let n = 1 + rng.below(4);
            let vs = VARIANT_NAMES[..n]
                .iter()
                .map(|v| {
                    let sh = match rng.below(4) {
                        0 => VShape::Unit,
                        1 => VShape::Newtype(gen_ty(rng, depth - 1)),
                        2 => VShape::Tuple((0..1 + rng.below(2)).map(|_| gen_ty(rng, depth - 1)).collect()),
                        _ => VShape::Struct(FIELD_NAMES[..1 + rng.below(2)].iter().map(|f| (f.to_string(), gen_ty(rng, depth - 1))).collect()),
                    };
                    (v.to_string(), sh)
                })
                .collect();
            Ty::Enum("E".to_string(), vs)
        }
    }
}

fn sc(t: &str, sty: Sty) -> Node {
    Node::Scalar { text: t.to_string(), sty, tag: None, anchor: None }
}
fn null() -> Node {
    sc("~", Sty::Plain)
}

/// a document node that matches `ty`
fn gen_node(rng: &mut Rng, ty: &Ty) -> Node {
    match ty {
        Ty::Bool => sc(*rng.pick(&["true", "false", "yes", "No", "on"]), Sty::Plain),
        Ty::Int(s, b) => {
            let v: i64 = if *s { rng.below(200) as i64 - 100 } else { rng.below(1 << (*b).min(7)) as i64 };
            if rng.chance(1, 8) { sc(&format!("0x{:x}", v.unsigned_abs()), Sty::Plain) } else { sc(&v.to_string(), Sty::Plain) }
        }
        Ty::F64 => sc(*rng.pick(&["1.5", "-0.25", "3", ".inf", "1e3", ".nan"]), Sty::Plain),
        Ty::Char => {
            let t = *rng.pick(&["x", "é", "7"]);
            sc(t, if rng.chance(1, 3) { Sty::Double } else { Sty::Plain })
        }
        Ty::String | Ty::Str => {
            let t = *rng.pick(&["hello", "a b", "x", "12", "true", "null", "", "~", "multi word text", "é"]);
            let sty = if docgen::plain_ok(t) && !["12", "true", "null", "", "~"].contains(&t) && rng.chance(2, 3) { Sty::Plain } else { Sty::Double };
            // block scalars (strip chomping) whose text looks like null / a number: text, never null, at every position
            if rng.chance(1, 6) {
                let t = *rng.pick(&["null", "~", "Null", "NULL", "true", "12", "hello", "a b"]);
                return sc(t, if rng.chance(1, 2) { Sty::Literal } else { Sty::Folded });
            }
            sc(t, sty)
        }
        Ty::Bytes => Node::Scalar { text: "QUJD".into(), sty: Sty::Plain, tag: Some("!!binary".into()), anchor: None },
        Ty::Unit | Ty::UnitStruct => null(),
        Ty::Option(t) => if rng.chance(1, 3) { null() } else { gen_node(rng, t) },
        Ty::Seq(t) => {
            let n = rng.below(4);
            Node::Seq { items: (0..n).map(|_| gen_node(rng, t)).collect(), flow: rng.chance(1, 2), tag: None, anchor: None }
        }
        Ty::Tuple(ts) => Node::Seq { items: ts.iter().map(|t| gen_node(rng, t)).collect(), flow: rng.chance(1, 2), tag: None, anchor: None },
        Ty::Map(k, v) | Ty::Pairs(k, v) => {
            let n = rng.below(3);
            let mut entries = Vec::new();
            for i in 0..n {
                let key = match &**k {
                    Ty::Int(_, _) => sc(&(i + 1).to_string(), Sty::Plain),
                    // complex keys: distinct by their first element
                    Ty::Tuple(ts) if !ts.is_empty() => {
                        let mut items: Vec<Node> = ts.iter().map(|t| gen_node(rng, t)).collect();
                        items[0] = sc(&(i + 1).to_string(), Sty::Plain);
                        Node::Seq { items, flow: true, tag: None, anchor: None }
                    }
                    Ty::Seq(_) => Node::Seq { items: (0..=i).map(|j| sc(&(j + 1).to_string(), Sty::Plain)).collect(), flow: true, tag: None, anchor: None },
                    _ => sc(["k1", "k2", "k3"][i], Sty::Plain),
                };
                entries.push((key, gen_node(rng, v)));
            }
            Node::Map { entries, flow: rng.chance(1, 2), anchor: None }
        }
        Ty::Struct(fs, _) => {
            let mut entries = Vec::new();
            for (n, t) in fs {
                if matches!(t, Ty::Option(_)) && rng.chance(1, 3) {
                    continue;
                }
                entries.push((sc(n, Sty::Plain), gen_node(rng, t)));
            }
            if rng.chance(1, 4) {
                entries.reverse();
            }
            Node::Map { entries, flow: rng.chance(1, 2), anchor: None }
        }
        Ty::Enum(_, vs) => {
            let (name, shape) = rng.pick(vs).clone();
            let payload = match &shape {
                VShape::Unit => None,
                VShape::Newtype(t) => Some(gen_node(rng, t)),
                VShape::Tuple(ts) => Some(Node::Seq { items: ts.iter().map(|t| gen_node(rng, t)).collect(), flow: true, tag: None, anchor: None }),
                VShape::Struct(fs) => Some(Node::Map { entries: fs.iter().map(|(n, t)| (sc(n, Sty::Plain), gen_node(rng, t))).collect(), flow: true, anchor: None }),
            };
            match payload {
                None => if rng.chance(2, 3) { sc(&name, Sty::Plain) } else { Node::Map { entries: vec![(sc(&name, Sty::Plain), null())], flow: true, anchor: None } },
                Some(p) => {
                    // {Variant: payload} or !Variant payload (scalars and sequences only)
                    let taggable = matches!(p, Node::Scalar { .. } | Node::Seq { .. });
                    if taggable && rng.chance(1, 3) {
                        match p {
                            Node::Scalar { text, sty, .. } => {
                                let sty2 = if sty == Sty::Plain && text_is_empty(&text) { Sty::Double } else { sty };
                                Node::Scalar { text, sty: sty2, tag: Some(format!("!{name}")), anchor: None }
                            }
                            Node::Seq { items, .. } => Node::Seq { items, flow: true, tag: Some(format!("!{name}")), anchor: None },
                            other => other,
                        }
                    } else {
                        Node::Map { entries: vec![(sc(&name, Sty::Plain), p)], flow: rng.chance(1, 2), anchor: None }
                    }
                }
            }
        }
        Ty::Any | Ty::Ignored => sc("anything", Sty::Plain),
        Ty::Spanned(t) => gen_node(rng, t),
        Ty::Tree | Ty::FailCustom | Ty::FailInvalid => sc("anything", Sty::Plain),
    }
}
fn text_is_empty(t: &str) -> bool {
    t.is_empty()
}

/// one structural mutation somewhere in the tree: surplus / missing element, wrong kind, unknown
/// field or variant, null in place of a container
fn mutate_node(rng: &mut Rng, n: &Node) -> Node {
    fn count(n: &Node) -> usize {
        match n {
            Node::Seq { items, .. } => 1 + items.iter().map(count).sum::<usize>(),
            Node::Map { entries, .. } => 1 + entries.iter().map(|(k, v)| count(k) + count(v)).sum::<usize>(),
            _ => 1,
        }
    }
    fn go(rng: &mut Rng, n: &Node, target: &mut isize) -> Node {
        *target -= 1;
        if *target == -1 {
            return match n {
                Node::Scalar { .. } => match rng.below(4) {
                    0 => Node::Seq { items: vec![n.clone()], flow: true, tag: None, anchor: None },
                    1 => Node::Map { entries: vec![(sc("zz", Sty::Plain), n.clone())], flow: true, anchor: None },
                    2 => sc("Zed", Sty::Plain),
                    _ => null(),
                },
                Node::Seq { items, flow, tag, anchor } => {
                    let mut it = items.clone();
                    match rng.below(4) {
                        0 => it.push(sc("9", Sty::Plain)),
                        1 => {
                            if !it.is_empty() {
                                let p = rng.below(it.len());
                                it.remove(p);
                            } else {
                                it.push(sc("1", Sty::Plain));
                            }
                        }
                        2 => it.push(Node::Seq { items: vec![sc("3", Sty::Plain), sc("4", Sty::Plain)], flow: true, tag: None, anchor: None }),
                        _ => return null(),
                    }
                    Node::Seq { items: it, flow: *flow, tag: tag.clone(), anchor: anchor.clone() }
                }
                Node::Map { entries, flow, anchor } => {
                    let mut e = entries.clone();
                    match rng.below(4) {
                        0 => e.push((sc("extra", Sty::Plain), sc("1", Sty::Plain))),
                        1 => {
                            if !e.is_empty() {
                                let p = rng.below(e.len());
                                e.remove(p);
                            }
                        }
                        2 => {
                            if !e.is_empty() {
                                let p = rng.below(e.len());
                                e[p].0 = sc("Unknown", Sty::Plain);
                            }
                        }
                        _ => return null(),
                    }
                    Node::Map { entries: e, flow: *flow, anchor: anchor.clone() }
                }
                other => other.clone(),
            };
        }
        match n {
            Node::Seq { items, flow, tag, anchor } => Node::Seq { items: items.iter().map(|i| go(rng, i, target)).collect(), flow: *flow, tag: tag.clone(), anchor: anchor.clone() },
            Node::Map { entries, flow, anchor } => {
                // keys are positions too: a complex key with a surplus element must not be accepted
                Node::Map { entries: entries.iter().map(|(k, v)| { let k2 = go(rng, k, target); (k2, go(rng, v, target)) }).collect(), flow: *flow, anchor: anchor.clone() }
            }
            other => other.clone(),
        }
    }
    let mut target = rng.below(count(n)) as isize;
    go(rng, n, &mut target)
}

// ------------------------------------------------------------------ reference interpreter

fn is_nullish(n: &Node) -> bool {
    match n {
        Node::Scalar { text, sty, tag, .. } => {
            tag.as_deref() == Some("!!null") || (*sty == Sty::Plain && (text.is_empty() || text == "~" || text.eq_ignore_ascii_case("null")))
        }
        _ => false,
    }
}
fn scalar_alone(n: &Node, ty: &Ty) -> Result<Val, ()> {
    let t = docgen::render_doc(n);
    deserk::run(&t, ty, &DOpts::new(P::Error)).map_err(|_| ())
}
fn key_text(n: &Node) -> Option<String> {
    match n {
        Node::Scalar { text, sty, tag, anchor } => Some(docgen::event_text(text, *sty, tag, anchor)),
        _ => None,
    }
}

/// `Err(())` = the document does not have the shape of the type: the implementation must fail.
/// `Ok(None)` = the reference does not decide this case (documented leniencies are listed here).
fn interp(ty: &Ty, n: &Node) -> Result<Option<Val>, ()> {
    Ok(Some(match ty {
        Ty::Bool | Ty::Int(_, _) | Ty::F64 | Ty::Char | Ty::String | Ty::Str | Ty::Bytes | Ty::Unit | Ty::UnitStruct => match n {
            Node::Scalar { .. } => scalar_alone(n, ty)?,
            Node::Map { entries, .. } if *ty == Ty::UnitStruct && entries.is_empty() => Val::Unit,
            _ => return Err(()),
        },
        Ty::Option(t) => {
            if is_nullish(n) {
                Val::None
            } else {
                match interp(t, n)? {
                    Some(v) => Val::Some(Box::new(v)),
                    None => return Ok(None),
                }
            }
        }
        Ty::Seq(t) => match n {
            Node::Seq { items, tag: None, .. } => {
                let mut out = Vec::new();
                for i in items {
                    match interp(t, i)? {
                        Some(v) => out.push(v),
                        None => return Ok(None),
                    }
                }
                Val::Seq(out)
            }
            _ if is_nullish(n) => Val::Seq(vec![]), // documented: null reads as an empty sequence
            _ => return Err(()),
        },
        Ty::Tuple(ts) => match n {
            Node::Seq { items, tag: None, .. } => {
                if items.len() != ts.len() {
                    return Err(());
                }
                let mut out = Vec::new();
                for (t, i) in ts.iter().zip(items) {
                    match interp(t, i)? {
                        Some(v) => out.push(v),
                        None => return Ok(None),
                    }
                }
                Val::Seq(out)
            }
            _ if is_nullish(n) && ts.is_empty() => Val::Seq(vec![]),
            _ => return Err(()),
        },
        Ty::Map(k, v) | Ty::Pairs(k, v) => match n {
            Node::Map { entries, .. } => {
                let mut out = Vec::new();
                for (kn, vn) in entries {
                    let (Some(kv), Some(vv)) = (interp(k, kn)?, interp(v, vn)?) else { return Ok(None) };
                    out.push((kv, vv));
                }
                Val::Map(out)
            }
            _ if is_nullish(n) => Val::Map(vec![]),
            _ => return Err(()),
        },
        Ty::Struct(fs, deny) => {
            let entries: Vec<(Node, Node)> = match n {
                Node::Map { entries, .. } => entries.clone(),
                _ if is_nullish(n) => vec![],
                _ => return Err(()),
            };
            let mut got: Vec<Option<Val>> = vec![None; fs.len()];
            for (kn, vn) in &entries {
                let Some(name) = key_text(kn) else { return Err(()) };
                if is_nullish(kn) {
                    return Err(());
                }
                match fs.iter().position(|(f, _)| *f == name) {
                    Some(i) => {
                        if got[i].is_some() {
                            return Err(());
                        }
                        match interp(&fs[i].1, vn)? {
                            Some(v) => got[i] = Some(v),
                            None => return Ok(None),
                        }
                    }
                    None => {
                        if *deny {
                            return Err(());
                        }
                        // an unknown field is ignored, but the mapping is still subject to the duplicate-key policy
                        // (Error by default): the same unknown key twice is rejected
                        if entries.iter().filter(|(k2, _)| key_text(k2).as_deref() == Some(name.as_str())).count() > 1 {
                            return Err(());
                        }
                    }
                }
            }
            let mut out = Vec::new();
            for (i, (f, t)) in fs.iter().enumerate() {
                match got[i].take() {
                    Some(v) => out.push((f.clone(), v)),
                    None => match t {
                        Ty::Option(_) => out.push((f.clone(), Val::None)),
                        _ => return Err(()),
                    },
                }
            }
            Val::Struct(out)
        }
        Ty::Enum(_, vs) => {
            let payload_of = |name: &str, p: Option<&Node>| -> Result<Option<Val>, ()> {
                let Some((_, shape)) = vs.iter().find(|(v, _)| v == name) else { return Err(()) };
                let absent = null();
                let p = p.unwrap_or(&absent);
                let v = match shape {
                    VShape::Unit => {
                        if !is_nullish(p) {
                            return Err(());
                        }
                        Val::Unit
                    }
                    VShape::Newtype(t) => match interp(t, p)? {
                        Some(v) => v,
                        None => return Ok(None),
                    },
                    VShape::Tuple(ts) => match interp(&Ty::Tuple(ts.clone()), p)? {
                        Some(v) => v,
                        None => return Ok(None),
                    },
                    VShape::Struct(fs) => match interp(&Ty::Struct(fs.clone(), false), p)? {
                        Some(v) => v,
                        None => return Ok(None),
                    },
                };
                Ok(Some(Val::Variant(name.to_string(), Box::new(v))))
            };
            match n {
                Node::Scalar { text, tag: Some(t), sty, .. } if t.starts_with('!') && !t.starts_with("!!") => {
                    let name = &t[1..];
                    if vs.iter().any(|(v, _)| v == name) {
                        // !Variant payload: the scalar, without the tag, is the payload -- exactly as in `{Variant: payload}`
                        let p = Node::Scalar { text: text.clone(), sty: *sty, tag: None, anchor: None };
                        match payload_of(name, Some(&p))? {
                            Some(v) => v,
                            None => return Ok(None),
                        }
                    } else {
                        return Ok(None); // a tag that is no variant name: TaggedEnumMismatch or plain variant text
                    }
                }
                Node::Scalar { text, sty, tag, anchor } if tag.is_none() || tag.as_deref() == Some("!!str") => {
                    let name = docgen::event_text(text, *sty, &None, anchor);
                    match payload_of(&name, None)? {
                        Some(v) => v,
                        None => return Ok(None),
                    }
                }
                Node::Seq { items, tag: Some(t), .. } if t.starts_with('!') && !t.starts_with("!!") && vs.iter().any(|(v, _)| v == &t[1..]) => {
                    let p = Node::Seq { items: items.clone(), flow: true, tag: None, anchor: None };
                    match payload_of(&t[1..], Some(&p))? {
                        Some(v) => v,
                        None => return Ok(None),
                    }
                }
                Node::Map { entries, .. } if entries.len() == 1 => {
                    let Some(name) = key_text(&entries[0].0) else { return Err(()) };
                    match payload_of(&name, Some(&entries[0].1))? {
                        Some(v) => v,
                        None => return Ok(None),
                    }
                }
                _ => return Err(()),
            }
        }
        Ty::Any | Ty::Ignored | Ty::Spanned(_) | Ty::Tree | Ty::FailCustom | Ty::FailInvalid => return Ok(None),
    }))
}

pub fn run(ctx: &mut Ctx) {
    util::quiet_panics();
    ctx.set_case_format("From SS Require Import Corr.Deser.\nLocal Open Scope N_scope.", "case", "check_case");
    ctx.rule = "cases: (run-time type from a schema grammar, document generated to match it and then mutated in 0..2 places: \
                surplus/missing element, wrong kind, unknown field/variant, null for a container); distinct = distinct Coq case \
                term; non-trivial = the type has at least one composite constructor".into();
    if let Some(r) = ctx.replay.clone() {
        replay(ctx, &r);
        return;
    }
    let quick = ctx.quick();
    let mut rng = ctx.rng.fork();
    let n = if quick { 2500 } else { 30000 };
    // corpus of former findings first
    let e = Ty::Enum("E".into(), vec![("A".into(), VShape::Newtype(Ty::Int(true, 32))), ("B".into(), VShape::Unit),
        ("Cee".into(), VShape::Tuple(vec![Ty::Int(true, 32), Ty::Int(true, 32)])), ("D".into(), VShape::Struct(vec![("a".into(), Ty::Int(true, 32))]))]);
    let mut pairs: Vec<(Ty, Node, usize)> = vec![
        (Ty::Seq(Box::new(e.clone())), Node::Seq { items: vec![sc("A", Sty::Plain), sc("5", Sty::Plain)], flow: true, tag: None, anchor: None }, 1),
        (Ty::Seq(Box::new(e.clone())), Node::Seq { items: vec![sc("B", Sty::Plain), sc("A", Sty::Plain), sc("7", Sty::Plain), sc("B", Sty::Plain)], flow: true, tag: None, anchor: None }, 1),
        (Ty::Seq(Box::new(e.clone())), Node::Seq { items: vec![sc("Cee", Sty::Plain), Node::Seq { items: vec![sc("1", Sty::Plain), sc("2", Sty::Plain)], flow: true, tag: None, anchor: None }], flow: false, tag: None, anchor: None }, 1),
        (Ty::Seq(Box::new(e.clone())), Node::Seq { items: vec![sc("D", Sty::Plain), Node::Map { entries: vec![(sc("a", Sty::Plain), sc("1", Sty::Plain))], flow: true, anchor: None }], flow: false, tag: None, anchor: None }, 1),
    ];
    // complex mapping keys are positions too (F59: a surplus element of a recorded key was dropped silently)
    {
        let i32t = Ty::Int(true, 32);
        let fseq = |items: Vec<Node>| Node::Seq { items, flow: true, tag: None, anchor: None };
        let n = |t: &str| sc(t, Sty::Plain);
        let key_tys = [Ty::Tuple(vec![i32t.clone(), i32t.clone()]), Ty::Tuple(vec![i32t.clone(), Ty::String]), Ty::Seq(Box::new(Ty::Int(false, 8))),
            Ty::Tuple(vec![i32t.clone(), Ty::Tuple(vec![i32t.clone(), i32t.clone()])]), Ty::Tuple(vec![i32t.clone()]), Ty::Tuple(vec![])];
        let keys = [fseq(vec![n("1"), n("2")]), fseq(vec![n("1"), n("2"), n("3")]), fseq(vec![n("1")]), fseq(vec![]),
            fseq(vec![n("1"), fseq(vec![n("2"), n("3")])]), fseq(vec![n("1"), fseq(vec![n("2"), n("3"), n("4")])]),
            fseq(vec![n("1"), fseq(vec![n("2"), n("3")]), n("4")]), fseq(vec![n("1"), n("x")]), fseq(vec![n("1"), n("x"), n("y")]),
            Node::Map { entries: vec![(n("1"), n("2"))], flow: true, anchor: None }, n("1")];
        for kt in &key_tys {
            for k in &keys {
                for flow in [true, false] {
                    for second in [false, true] {
                        let mut entries = vec![(k.clone(), n("5"))];
                        if second {
                            entries.push((fseq(vec![n("7"), n("8")]), n("6")));
                        }
                        pairs.push((Ty::Map(Box::new(kt.clone()), Box::new(i32t.clone())), Node::Map { entries, flow, anchor: None }, 1));
                    }
                }
            }
        }
    }
    for _ in 0..n {
        let ty = gen_ty(&mut rng, 3);
        let mut node = gen_node(&mut rng, &ty);
        let muts = match rng.below(10) { 0..=3 => 0, 4..=8 => 1, _ => 2 };
        for _ in 0..muts {
            node = mutate_node(&mut rng, &node);
        }
        pairs.push((ty, node, muts));
    }
    for (ty, node, muts) in &pairs {
        let text = docgen::render_doc(node);
        let o = DOpts::new(P::Error);
        let (term, got, rs) = deserk::deser_case(&text, ty, &o);
        if rs.scan_error {
            ctx.skipped += 1;
            continue;
        }
        ctx.count(&format!("mutations_{muts}"));
        ctx.count(if got.is_ok() { "impl_ok" } else { "impl_err" });
        let replay = json!({"kind": "typed", "text": text, "ty": format!("{ty:?}"), "ty_coq": ty.coq()});
        ctx.case(term, ty.size() > 1, replay.clone());
        // S
        ctx.direct_evaluations += 1;
        match interp(ty, node) {
            Ok(Some(want)) => match &got {
                Ok(v) if *v == want => {}
                Ok(v) => ctx.fail("wrong-value", format!("{text:?} as {ty:?}: implementation {v:?}, position-faithful value {want:?}"), replay),
                Err(e) => ctx.fail("rejects-matching-document", format!("{text:?} as {ty:?}: implementation fails with {} but the document has the shape of the type: {want:?}", crate::coq::variant_name(e)), replay),
            },
            Ok(None) => ctx.count("reference_undecided"),
            Err(()) => {
                if let Ok(v) = &got {
                    ctx.fail("shape-mismatch-accepted", format!("{text:?} as {ty:?}: the document does not have the shape of the type but reads as {v:?}"), replay);
                }
            }
        }
    }    notation_equivalence(ctx);
}

/// The three enum notations name the same payload node: `!V payload` reads exactly as `{V: payload}` does (the tag
/// selects the variant and is not part of the payload: F62).
fn notation_equivalence(ctx: &mut Ctx) {
    let payload_tys = [Ty::Option(Box::new(Ty::String)), Ty::Option(Box::new(Ty::Int(true, 32))), Ty::String, Ty::Int(true, 32), Ty::Bool, Ty::F64, Ty::Any,
        Ty::Option(Box::new(Ty::Map(Box::new(Ty::String), Box::new(Ty::Bool)))), Ty::Unit, Ty::Char];
    let texts = ["~", "null", "Null", "123", "0x1F", "true", "yes", "x", "''", "\"null\"", "1.5", ".inf", "<<", "-"];
    for pt in &payload_tys {
        let ty = Ty::Enum("E".into(), vec![("V".into(), VShape::Newtype(pt.clone())), ("W".into(), VShape::Unit)]);
        for t in texts {
            let tagged = format!("!V {t}\n");
            let mapped = format!("V: {t}\n");
            let o = DOpts::new(P::Error);
            let (term, a, _) = deserk::deser_case(&tagged, &ty, &o);
            ctx.case(term, true, json!({"kind": "typed", "text": tagged, "ty": format!("{ty:?}"), "ty_coq": ty.coq()}));
            let (term, b, _) = deserk::deser_case(&mapped, &ty, &o);
            ctx.case(term, true, json!({"kind": "typed", "text": mapped, "ty": format!("{ty:?}"), "ty_coq": ty.coq()}));
            ctx.direct_evaluations += 1;
            let same = match (&a, &b) { (Ok(x), Ok(y)) => x == y, (Err(_), Err(_)) => true, _ => false };
            if !same {
                ctx.fail("enum-notations-differ", format!("{tagged:?} reads as {:?} but {mapped:?} as {:?} (payload type {pt:?})", a.as_ref().map_err(|e| crate::coq::variant_name(e)), b.as_ref().map_err(|e| crate::coq::variant_name(e))),
                    json!({"kind": "typed", "text": tagged, "ty": format!("{ty:?}"), "ty_coq": ty.coq()}));
            }
        }
    }
}

fn replay(ctx: &mut Ctx, r: &serde_json::Value) {
    println!("replay: {} as {}", r["text"], r["ty"]);
    let _ = ctx;
}
