//! C10 -- I/O faults and the input-size cap are never swallowed (reader and writer).
//!
//! K: ChunkedChars (the byte -> char re-assembler with the shared error cell and the cap) over
//!    scripted readers vs `SS.Model.Reader`.
//! S: documents x every fault position x error kinds x EOF inside a character x caps around the
//!    input length x {from_reader, read, with_deserializer_from_reader} x targets: a fault always
//!    gives an error, a cap >= the input changes nothing, the reader is not over-pulled; writers
//!    failing at the k-th write give the I/O error and a prefix of the fault-free output.
use crate::coq;
use crate::ctx::Ctx;
use crate::scripted::{self, FailingWriter, Scripted, Step};
use crate::tree::Tree;
use crate::util;
use serde::{Deserialize, Serialize};
use serde_json::json;
use std::io;

const DOCS: &[&str] = &[
    "a: 1\nb: [1, 2]\n",
    "- x\n- {k: v}\n- [1, [2, 3]]\n",
    "name: \"quoted \\u00e9 text\"\nlist:\n  - é\n  - 日本\n",
    "a: 1\n...\n",
    "~\n",
    "5\n",
    "",
    "--- a\n--- b\n",
    "k: &a [1, 2]\nj: *a\n",
    "a: xé",
    "- 日本",
    "k: 😀",
    // a document closed with `...` and a trailer the parser has to scan past its look-ahead (faults and caps inside it)
    "- 1\n- 2\n...\n# trailing comment, longer than the scanner's look-ahead of sixteen characters\n",
    "a: 1\nb: [1, 2]\n...\n\n\n\n\n\n\n\n\n\n\n\n\n\n\n\n\n\n\n\n\n",
    "a: 1\nb: [1, 2]\n... # closing\n# more\n# and more comment lines after the end marker\n",
];

const KINDS: [io::ErrorKind; 4] = [io::ErrorKind::Other, io::ErrorKind::BrokenPipe, io::ErrorKind::InvalidData, io::ErrorKind::UnexpectedEof];

#[derive(Debug, Deserialize, PartialEq)]
struct Rec {
    a: i32,
    b: Vec<i32>,
}

fn opts(cap: Option<Option<usize>>) -> serde_saphyr::Options {
    #[allow(deprecated)]
    let mut o = serde_saphyr::Options::default();
    #[allow(deprecated)]
    {
        o.with_snippet = false;
        if let Some(c) = cap {
            let mut b = serde_saphyr::Budget::default();
            b.max_reader_input_bytes = c;
            o.budget = Some(b);
        }
    }
    o
}

/// outcome of one entry point on one scripted reader: per item "Ok"/error class
fn run_entry(entry: usize, target: usize, steps: Vec<Step>, sticky: bool, o: serde_saphyr::Options) -> (Vec<String>, usize) {
    let mut rd = if sticky { Scripted::sticky(steps) } else { Scripted::new(steps) };
    fn cls<T>(r: Result<T, serde_saphyr::Error>) -> String {
        match r {
            Ok(_) => "Ok".into(),
            Err(e) => coq::variant_name(&e),
        }
    }
    let items = match (entry, target) {
        (0, 0) => vec![cls(serde_saphyr::from_reader_with_options::<_, Tree>(&mut rd, o))],
        (0, 1) => vec![cls(serde_saphyr::from_reader_with_options::<_, Option<Tree>>(&mut rd, o))],
        (0, 2) => vec![cls(serde_saphyr::from_reader_with_options::<_, ()>(&mut rd, o))],
        (0, _) => vec![cls(serde_saphyr::from_reader_with_options::<_, Rec>(&mut rd, o))],
        (1, 0) => serde_saphyr::read_with_options::<_, Tree>(&mut rd, o).take(50).map(cls).collect(),
        (1, 1) => serde_saphyr::read_with_options::<_, Option<Tree>>(&mut rd, o).take(50).map(cls).collect(),
        (1, 2) => serde_saphyr::read_with_options::<_, ()>(&mut rd, o).take(50).map(cls).collect(),
        (1, _) => serde_saphyr::read_with_options::<_, Rec>(&mut rd, o).take(50).map(cls).collect(),
        (_, 0) => vec![cls(serde_saphyr::with_deserializer_from_reader_with_options(&mut rd, o, |d| Tree::deserialize(d)))],
        (_, 1) => vec![cls(serde_saphyr::with_deserializer_from_reader_with_options(&mut rd, o, |d| Option::<Tree>::deserialize(d)))],
        (_, 2) => vec![cls(serde_saphyr::with_deserializer_from_reader_with_options(&mut rd, o, |d| <()>::deserialize(d)))],
        (_, _) => vec![cls(serde_saphyr::with_deserializer_from_reader_with_options(&mut rd, o, |d| Rec::deserialize(d)))],
    };
    (items, rd.delivered)
}

const ENTRY: [&str; 3] = ["from_reader", "read", "with_deserializer_from_reader"];
const TARGET: [&str; 4] = ["untyped", "Option<untyped>", "()", "struct"];

#[derive(Serialize)]
struct Inner {
    x: i32,
    s: String,
}
#[derive(Serialize)]
struct Out {
    name: String,
    speed: serde_saphyr::Commented<f64>,
    label: serde_saphyr::Commented<String>,
    items: Vec<Inner>,
    note: serde_saphyr::SpaceAfter<serde_saphyr::LitString>,
    tail: Vec<i32>,
}

pub fn run(ctx: &mut Ctx) {
    util::quiet_panics();
    ctx.set_case_format("From SS Require Import Corr.Reader.\nLocal Open Scope N_scope.", "case", "check_case");
    ctx.rule = "cases: byte string (valid / invalid UTF-8, multi-byte) x read schedule (every cut position, fault of each kind at \
                every position, EOF inside a character) x cap around the length, through ChunkedChars; distinct = distinct Coq \
                case term; non-trivial = the schedule has a fault, a cut inside a multi-byte character, or a cap within 2 of the length".into();
    if let Some(r) = ctx.replay.clone() {
        replay(ctx, &r);
        return;
    }
    let quick = ctx.quick();
    let mut rng = ctx.rng.fork();

    // ---- K: ChunkedChars
    let texts: Vec<Vec<u8>> = vec![
        b"ab".to_vec(), "é".as_bytes().to_vec(), "a\u{e9}b\u{65e5}c\u{1F600}d".as_bytes().to_vec(), vec![0xC3], vec![0xE6, 0x97], vec![0xF0, 0x9F, 0x98],
        vec![0xFF, b'a'], vec![b'a', 0x80, b'b'], vec![0xC3, 0x28], vec![0xE2, 0x28, 0xA1], vec![0xF8, 0x88], vec![0xED, 0xA0, 0x80], vec![0xC0, 0xAF],
        vec![0xF4, 0x90, 0x80, 0x80], b"key: value\n".to_vec(), vec![],
    ];
    for bytes in &texts {
        let n = bytes.len();
        // every single cut, every pair of cuts (short inputs), with and without a fault after byte k
        let mut schedules: Vec<Vec<Step>> = vec![vec![Step::Chunk(bytes.clone())], bytes.iter().map(|b| Step::Chunk(vec![*b])).collect()];
        for c in 1..n {
            schedules.push(scripted::chunks_at(bytes, &[c]));
            for c2 in (c + 1)..n {
                if n <= 8 {
                    schedules.push(scripted::chunks_at(bytes, &[c, c2]));
                }
            }
        }
        let base = schedules.clone();
        for s in base {
            for k in [io::ErrorKind::Other, io::ErrorKind::UnexpectedEof, io::ErrorKind::Interrupted, io::ErrorKind::InvalidData] {
                for pos in 0..=s.len() {
                    if quick && !rng.chance(1, 3) {
                        continue;
                    }
                    let mut t = s.clone();
                    t.insert(pos, Step::Fail(k));
                    schedules.push(t);
                }
            }
        }
        for s in schedules {
            let s: Vec<Step> = s.into_iter().filter(|x| !matches!(x, Step::Chunk(b) if b.is_empty())).collect();
            for cap in [None, Some(n.saturating_sub(1)), Some(n), Some(n + 1)] {
                if cap.is_some() && quick && !rng.chance(1, 3) {
                    continue;
                }
                let (chars, cell) = serde_saphyr::__verif::chunked_chars(Scripted::new(s.clone()), cap, 10_000);
                let chars_term = coq::list(&chars.iter().map(|c| (*c as u32).to_string()).collect::<Vec<_>>(), "N");
                let nontrivial = s.iter().any(|x| matches!(x, Step::Fail(_))) || s.len() > 1 || cap.is_some();
                ctx.case(
                    format!("CChars {} {} 10000 {} {}", coq::opt(&cap, |c| c.to_string()), scripted::script_coq(&s), chars_term, coq::opt(&cell, |k| scripted::kind_coq(*k))),
                    nontrivial,
                    json!({"kind": "chunked", "bytes": bytes, "schedule": format!("{s:?}"), "cap": cap}),
                );
            }
        }
    }

    // ---- S1: a fault at any position, of any kind, is an error for every entry point and target
    for (di, doc) in DOCS.iter().enumerate() {
        let bytes = doc.as_bytes();
        for pos in 0..=bytes.len() {
            if quick && bytes.len() > 12 && !rng.chance(1, 2) {
                continue;
            }
            for kind in KINDS {
                for entry in 0..3 {
                    for target in 0..4 {
                        if quick && !rng.chance(1, 3) {
                            continue;
                        }
                        let sticky = rng.chance(1, 2);
                        let mut steps = Vec::new();
                        if pos > 0 {
                            // random chunking of the prefix
                            let cut = rng.below(pos + 1);
                            steps.extend(scripted::chunks_at(&bytes[..pos], &[cut]));
                        }
                        steps.push(Step::Fail(kind));
                        // after a one-off fault the rest of the input follows (the caller must still fail)
                        if !sticky && pos < bytes.len() {
                            steps.push(Step::Chunk(bytes[pos..].to_vec()));
                        }
                        ctx.direct_evaluations += 1;
                        let label = format!("{} as {} doc#{di} fault {kind:?} after byte {pos} sticky={sticky}", ENTRY[entry], TARGET[target]);
                        let replay = json!({"kind": "fault", "doc": doc, "pos": pos, "error_kind": format!("{kind:?}"), "entry": entry, "target": target, "sticky": sticky});
                        match util::no_panic(|| run_entry(entry, target, steps.clone(), sticky, opts(None))) {
                            Err(p) => ctx.fail("panic", format!("{label}: panic {p}"), replay),
                            Ok((items, _)) => {
                                // the fault must surface as an error: the single result, or (iterator) one of the
                                // items -- with a one-off fault the iterator may go on afterwards
                                let ok = if entry == 1 { items.iter().any(|l| l != "Ok") } else { items.last().map(|l| l != "Ok").unwrap_or(false) };
                                if !ok {
                                    let class = if kind == io::ErrorKind::UnexpectedEof { "F1:reported-unexpected-eof-is-eof" } else { "fault-swallowed" };
                                    ctx.fail(class, format!("{label}: items {items:?} -- the reader reported an error but no error was returned at the end"), replay);
                                }
                            }
                        }
                    }
                }
            }
        }
        // EOF inside a multi-byte character
        for (i, _) in doc.char_indices().filter(|(_, c)| c.len_utf8() > 1) {
            for cutoff in 1..doc[i..].chars().next().unwrap().len_utf8() {
                for entry in 0..3 {
                    ctx.direct_evaluations += 1;
                    let steps = vec![Step::Chunk(bytes[..i + cutoff].to_vec()), Step::Eof];
                    let (items, _) = run_entry(entry, 0, steps, false, opts(None));
                    if items.last().map(|l| l == "Ok").unwrap_or(true) {
                        ctx.fail("eof-inside-character-accepted", format!("{} doc#{di}: input ends inside the character at byte {i}: items {items:?}", ENTRY[entry]),
                            json!({"kind": "eof_in_char", "doc": doc, "at": i + cutoff, "entry": entry}));
                    }
                    // the same input behind a UTF-8 byte order mark (F84, fixed: it went through a lossy transcoding), and
                    // with the character replaced by an invalid byte
                    ctx.direct_evaluations += 2;
                    let mut with_bom = vec![0xEF, 0xBB, 0xBF];
                    with_bom.extend_from_slice(&bytes[..i + cutoff]);
                    let (items, _) = run_entry(entry, 0, vec![Step::Chunk(with_bom.clone()), Step::Eof], false, opts(None));
                    if items.last().map(|l| l == "Ok").unwrap_or(true) {
                        ctx.fail("eof-inside-character-accepted", format!("{} doc#{di}: input with a BOM ends inside the character at byte {i}: items {items:?}", ENTRY[entry]),
                            json!({"kind": "eof_in_char_bom", "doc": doc, "at": i + cutoff, "entry": entry}));
                    }
                    let mut invalid = vec![0xEF, 0xBB, 0xBF];
                    invalid.extend_from_slice(&bytes[..i]);
                    invalid.push(0xFF);
                    invalid.extend_from_slice(&bytes[i + doc[i..].chars().next().unwrap().len_utf8()..]);
                    let (items, _) = run_entry(entry, 0, vec![Step::Chunk(invalid), Step::Eof], false, opts(None));
                    if items.last().map(|l| l == "Ok").unwrap_or(true) && !items.iter().any(|l| l != "Ok") {
                        ctx.fail("invalid-utf8-accepted", format!("{} doc#{di}: input with a BOM and the byte 0xFF at {i} is accepted: items {items:?}", ENTRY[entry]),
                            json!({"kind": "invalid_utf8_bom", "doc": doc, "at": i, "entry": entry}));
                    }
                }
            }
        }
        // ---- S2: the size cap
        let n = bytes.len();
        for entry in 0..3 {
            let (base, _) = run_entry(entry, 0, vec![Step::Chunk(bytes.to_vec())], false, opts(Some(None)));
            for cap in [n.saturating_sub(2), n.saturating_sub(1), n, n + 1, n + 2] {
                ctx.direct_evaluations += 1;
                let (items, _) = run_entry(entry, 0, vec![Step::Chunk(bytes.to_vec())], false, opts(Some(Some(cap))));
                let replay = json!({"kind": "cap", "doc": doc, "cap": cap, "entry": entry});
                if cap >= n && items != base {
                    ctx.fail("cap-changes-result", format!("{} doc#{di}: cap {cap} >= length {n} but items {items:?} differ from uncapped {base:?}", ENTRY[entry]), replay);
                } else if cap < n && (if entry == 1 { !items.iter().any(|l| l != "Ok") } else { items.last().map(|l| l == "Ok").unwrap_or(true) }) {
                    ctx.fail("cap-not-enforced", format!("{} doc#{di}: cap {cap} < length {n} but items {items:?}", ENTRY[entry]), replay);
                }
            }
        }
    }
    // ---- a fault while the iterator skips the rest of a failed document (F19)
    {
        let head = "a: [oops]\nb: [1]\nfiller:\n";
        let mut body = String::from(head);
        for i in 0..400 {
            body.push_str(&format!("  - item {i}\n"));
        }
        for cut in [head.len() + 40, body.len() / 2, body.len() - 3] {
            for kind in [io::ErrorKind::Other, io::ErrorKind::BrokenPipe] {
                ctx.direct_evaluations += 1;
                let steps = vec![Step::Chunk(body.as_bytes()[..cut].to_vec()), Step::Fail(kind)];
                let (items, _) = run_entry(1, 3, steps, true, opts(None));
                if !items.iter().any(|i| i == "IOError") {
                    ctx.fail("F19:fault-during-skip-dropped", format!("read as struct: type error in the first document, reader fails ({kind:?}) at byte {cut} while the rest is skipped: items {items:?}"),
                        json!({"kind": "fault_during_skip", "cut": cut}));
                }
            }
        }
    }
    // the reader is not pulled much beyond the cap
    {
        let mut big = String::new();
        for i in 0..20000 {
            big.push_str(&format!("- item number {i}\n"));
        }
        for cap in [100usize, 5000, 50_000] {
            ctx.direct_evaluations += 1;
            let (items, delivered) = run_entry(0, 0, vec![Step::Chunk(big.as_bytes().to_vec())], false, opts(Some(Some(cap))));
            let allowance = 64 * 1024;
            if delivered > cap + allowance || items.last().map(|l| l == "Ok").unwrap_or(true) {
                ctx.fail("cap-overpull", format!("cap {cap}: pulled {delivered} bytes from the reader (allowance {allowance}), items {items:?}"), json!({"kind": "overpull", "cap": cap}));
            }
            ctx.count(&format!("cap {cap}: pulled {delivered} bytes"));
        }
    }

    // ---- S3: writer faults
    let value = Out {
        name: "config \"x\"".into(),
        speed: serde_saphyr::Commented(0.5, "fraction of c".into()),
        label: serde_saphyr::Commented("plain".into(), "a comment with # and : inside".into()),
        items: vec![Inner { x: 1, s: "a: b".into() }, Inner { x: -2, s: "multi\nline\n".into() }],
        note: serde_saphyr::SpaceAfter(serde_saphyr::LitString("line1\nline2\n".into())),
        tail: vec![1, 2, 3],
    };
    let mut full = Vec::new();
    serde_saphyr::to_io_writer(&mut full, &value).expect("fault-free serialization");
    let mut probe = FailingWriter::new(usize::MAX, false);
    serde_saphyr::to_io_writer(&mut probe, &value).expect("fault-free serialization");
    let writes = probe.calls;
    ctx.count(&format!("writer: {writes} write calls, {} bytes", full.len()));
    for k in 0..writes {
        for sticky in [true, false] {
            ctx.direct_evaluations += 1;
            let mut w = FailingWriter::new(k, sticky);
            let r = serde_saphyr::to_io_writer(&mut w, &value);
            let replay = json!({"kind": "writer", "fail_at": k, "sticky": sticky});
            if r.is_ok() {
                ctx.fail("write-fault-swallowed", format!("writer failing at write #{k} (sticky={sticky}): serialization returned Ok"), replay);
            } else if !matches!(&r, Err(serde_saphyr::ser::Error::IO { error }) if error.kind() == io::ErrorKind::Other) {
                ctx.fail("write-fault-not-reported-as-io", format!("writer failing at write #{k} (sticky={sticky}): serialization returned {r:?}, not the writer's I/O error"), replay);
            } else if !full.starts_with(&w.written) {
                let class = if !sticky { "F22:write-after-failure" } else { "written-not-a-prefix" };
                ctx.fail(class, format!("writer failing at write #{k} (sticky={sticky}): what was written is not a prefix of the fault-free output: {:?}",
                    String::from_utf8_lossy(&w.written)), replay);
            }
        }
    }

    // witnesses of recorded findings
    let f1 = run_entry(0, 0, vec![Step::Chunk(b"a: 1\n".to_vec()), Step::Fail(io::ErrorKind::UnexpectedEof)], true, opts(None)).0;
    ctx.witness("F1", f1.last().map(|l| l == "Ok").unwrap_or(false), "a reader error of kind UnexpectedEof after `a: 1\\n` is treated as clean end of input");
}

fn replay(ctx: &mut Ctx, r: &serde_json::Value) {
    println!("replay: {r}");
    if r["kind"] == "fault" {
        let doc = r["doc"].as_str().unwrap_or("");
        let pos = r["pos"].as_u64().unwrap_or(0) as usize;
        let kind = match r["error_kind"].as_str().unwrap_or("") {
            "BrokenPipe" => io::ErrorKind::BrokenPipe,
            "InvalidData" => io::ErrorKind::InvalidData,
            "UnexpectedEof" => io::ErrorKind::UnexpectedEof,
            _ => io::ErrorKind::Other,
        };
        let sticky = r["sticky"].as_bool().unwrap_or(true);
        let mut steps = vec![];
        if pos > 0 {
            steps.push(Step::Chunk(doc.as_bytes()[..pos].to_vec()));
        }
        steps.push(Step::Fail(kind));
        if !sticky && pos < doc.len() {
            steps.push(Step::Chunk(doc.as_bytes()[pos..].to_vec()));
        }
        let (items, _) = run_entry(r["entry"].as_u64().unwrap_or(0) as usize, r["target"].as_u64().unwrap_or(0) as usize, steps, sticky, opts(None));
        println!("  items: {items:?}");
        if items.last().map(|l| l == "Ok").unwrap_or(true) {
            ctx.fail("fault-swallowed", "replayed".into(), r.clone());
        }
    }
}
