//! C14 -- shared-pointer topology survives the round trip through anchors and aliases.
//!
//! K: the anchor / alias marks the serializer writes for a sequence of anchored nodes (their
//!    allocation addresses reduced to classes) and the allocations the deserializer builds from a
//!    sequence of marks, vs `SS.Model.Anchors` (serialize / deserialize).
//! S: generated object graphs (DAGs over Rc and Arc anchors with random sharing, nested shared
//!    nodes in sequences / maps / structs, weak edges to live and dropped targets, cycles through the
//!    recursive wrappers, unshared wrappers in between): the pointer-equality partition is the same
//!    before and after; aliases read into plain fields give equal independent copies.
//!    Also: a shared node of every kind (None, unit, scalars, block-scalar strings, flow collections, tuples, structs, all
//!    enum variant kinds) as struct fields / sequence elements / map values / through Arc with live and dangling weak edges.
use crate::coq;
use crate::ctx::{Ctx, Rng};
use crate::util;
use serde::{Deserialize, Serialize};
use serde_json::json;
use serde_saphyr::{ArcAnchor, ArcRecursion, ArcRecursive, ArcWeakAnchor, RcAnchor, RcRecursion, RcRecursive, RcWeakAnchor};
use std::collections::BTreeMap;
use std::rc::Rc;
use std::sync::Arc;

#[derive(Serialize, Deserialize, Debug)]
struct Node {
    name: String,
    kids: Vec<RcAnchor<Node>>,
    #[serde(default)]
    by_key: BTreeMap<String, RcAnchor<Node>>,
}
#[derive(Serialize, Deserialize, Debug)]
struct ANode {
    name: String,
    kids: Vec<ArcAnchor<ANode>>,
}
#[derive(Serialize, Deserialize, Debug)]
struct Doc {
    roots: Vec<RcAnchor<Node>>,
    extra: RcAnchor<Node>,
}

/// classes by first occurrence
fn classes<T: PartialEq + Copy>(ptrs: &[T]) -> Vec<usize> {
    ptrs.iter().map(|p| ptrs.iter().position(|q| q == p).unwrap()).collect()
}

/// anchored nodes in document order; children of a node are visited at its first sight only
fn sightings(n: &RcAnchor<Node>, seen: &mut Vec<usize>, out: &mut Vec<usize>) {
    let p = Rc::as_ptr(&n.0) as usize;
    out.push(p);
    if seen.contains(&p) {
        return;
    }
    seen.push(p);
    for k in &n.0.kids {
        sightings(k, seen, out);
    }
    for k in n.0.by_key.values() {
        sightings(k, seen, out);
    }
}
/// every path, children always followed (the deserialized side has no "first sight")
fn all_paths(n: &RcAnchor<Node>, out: &mut Vec<usize>, names: &mut Vec<String>) {
    out.push(Rc::as_ptr(&n.0) as usize);
    names.push(n.0.name.clone());
    for k in &n.0.kids {
        all_paths(k, out, names);
    }
    for k in n.0.by_key.values() {
        all_paths(k, out, names);
    }
}

fn gen_graph(rng: &mut Rng, n: usize) -> Vec<RcAnchor<Node>> {
    // nodes are created leaves first; node i may point to any earlier node (a DAG), with sharing
    let mut pool: Vec<RcAnchor<Node>> = Vec::new();
    for i in 0..n {
        let nk = if pool.is_empty() { 0 } else { rng.below(4) };
        let kids: Vec<RcAnchor<Node>> = (0..nk).map(|_| RcAnchor(pool[rng.below(pool.len())].0.clone())).collect();
        let mut by_key = BTreeMap::new();
        if !pool.is_empty() && rng.chance(1, 3) {
            by_key.insert(format!("k{}", rng.below(3)), RcAnchor(pool[rng.below(pool.len())].0.clone()));
        }
        pool.push(RcAnchor(Rc::new(Node { name: format!("n{i}"), kids, by_key })));
    }
    let nr = 1 + rng.below(4);
    (0..nr).map(|_| RcAnchor(pool[rng.below(pool.len())].0.clone())).collect()
}

fn marks_in(text: &str) -> Vec<(bool, usize)> {
    // `&aN` defines, `*aN` aliases, in text order
    let b = text.as_bytes();
    let mut out = Vec::new();
    let mut i = 0;
    while i + 2 < b.len() {
        if (b[i] == b'&' || b[i] == b'*') && b[i + 1] == b'a' && b[i + 2].is_ascii_digit() && (i == 0 || matches!(b[i - 1], b' ' | b'\n')) {
            let mut j = i + 2;
            let mut v = 0usize;
            while j < b.len() && b[j].is_ascii_digit() {
                v = v * 10 + (b[j] - b'0') as usize;
                j += 1;
            }
            out.push((b[i] == b'&', v));
            i = j;
        } else {
            i += 1;
        }
    }
    out
}
fn marks_coq(m: &[(bool, usize)]) -> String {
    coq::list(&m.iter().map(|(d, id)| format!("{} {id}", if *d { "Define" } else { "Alias" })).collect::<Vec<_>>(), "mark")
}
fn nl(v: &[usize]) -> String {
    coq::list(&v.iter().map(|x| x.to_string()).collect::<Vec<_>>(), "N")
}

#[derive(Serialize, Deserialize, Debug)]
struct WeakDoc {
    strong: Vec<RcAnchor<Node>>,
    weak: Vec<RcWeakAnchor<Node>>,
}
#[derive(Serialize, Deserialize, Debug)]
struct Ring {
    name: String,
    next: RcRecursion<Ring>,
}
#[derive(Serialize, Deserialize, Debug)]
struct RingDoc {
    first: RcRecursive<Ring>,
}
#[derive(Serialize, Deserialize, Debug, PartialEq, Clone)]
struct PlainLeaf {
    name: String,
}
#[derive(Serialize, Deserialize, Debug)]
struct SharedLeaves {
    a: RcAnchor<PlainLeaf>,
    b: RcAnchor<PlainLeaf>,
    c: ArcAnchor<PlainLeaf>,
    d: ArcAnchor<PlainLeaf>,
}
#[derive(Deserialize, Debug)]
struct PlainLeaves {
    a: PlainLeaf,
    b: PlainLeaf,
    c: PlainLeaf,
    d: PlainLeaf,
}


// ------------------------------------------------------------------ shared nodes of every kind, in every position

#[derive(Serialize, Deserialize, Debug, PartialEq, Clone)]
enum Pay {
    U,
    N(i32),
    T(i32, String),
    St { x: i32 },
}

#[derive(Serialize, Deserialize, Debug)]
struct Fields<P: 'static> {
    a: RcAnchor<P>,
    mid: i32,
    b: RcAnchor<P>,
    c: RcAnchor<P>,
    tail: String,
}
#[derive(Serialize, Deserialize, Debug)]
struct InSeq<P: 'static> {
    items: Vec<RcAnchor<P>>,
    by_key: BTreeMap<String, RcAnchor<P>>,
}
#[derive(Serialize, Deserialize, Debug)]
#[serde(bound(deserialize = "P: serde::de::DeserializeOwned + Send + Sync + 'static"))]
struct ArcFields<P: 'static> {
    a: ArcAnchor<P>,
    b: ArcAnchor<P>,
    w: ArcWeakAnchor<P>,
    gone: ArcWeakAnchor<P>,
    n: i32,
}
#[derive(Serialize, Deserialize, Debug)]
struct WeakFirst {
    w: RcWeakAnchor<Vec<i32>>,
    s: RcAnchor<Vec<i32>>,
}
#[derive(Serialize, Deserialize, Debug)]
struct Link {
    name: String,
    up: Option<RcRecursion<Link>>,
    next: Option<RcRecursive<Link>>,
}

/// A shared node of kind `P` (value `v`) as struct fields, sequence elements, map values, and through Arc with a live
/// and a dangling weak edge: the text reads back, allocations are shared exactly as before, values are equal.
fn shared_kind<P>(ctx: &mut Ctx, kind: &str, v: P, known: Option<&str>)
where
    P: Serialize + serde::de::DeserializeOwned + std::fmt::Debug + PartialEq + Clone + Send + Sync + 'static,
{
    let cls = |c: &str| known.map(|k| k.to_string()).unwrap_or_else(|| c.to_string());
    ctx.direct_evaluations += 3;
    // struct fields
    {
        let x = Rc::new(v.clone());
        let doc = Fields { a: RcAnchor(x.clone()), mid: 5, b: RcAnchor(x), c: RcAnchor(Rc::new(v.clone())), tail: "t".into() };
        let text = serde_saphyr::to_string(&doc).unwrap_or_else(|e| format!("<serializer error: {e}>"));
        let replay = json!({"kind": "shared_kind", "payload": kind, "position": "fields", "text": text});
        match serde_saphyr::from_str::<Fields<P>>(&text) {
            Ok(r) => {
                if !(Rc::ptr_eq(&r.a.0, &r.b.0) && !Rc::ptr_eq(&r.a.0, &r.c.0)) {
                    ctx.fail(&cls("sharing-differs"), format!("shared {kind} in struct fields: a/b shared {}, a/c shared {} after the round trip; text {text:?}", Rc::ptr_eq(&r.a.0, &r.b.0), Rc::ptr_eq(&r.a.0, &r.c.0)), replay);
                } else if !(*r.a.0 == v && *r.c.0 == v && r.mid == 5 && r.tail == "t") {
                    ctx.fail(&cls("values-differ"), format!("shared {kind} in struct fields reads back as {r:?}; text {text:?}"), replay);
                }
            }
            Err(e) => ctx.fail(&cls("round-trip-failed"), format!("shared {kind} in struct fields {text:?}: {}", e.to_string().lines().next().unwrap_or("")), replay),
        }
    }
    // sequence elements and map values
    {
        let x = Rc::new(v.clone());
        let y = Rc::new(v.clone());
        let doc = InSeq { items: vec![RcAnchor(x.clone()), RcAnchor(y.clone()), RcAnchor(x.clone())], by_key: BTreeMap::from([("k1".to_string(), RcAnchor(y)), ("k2".to_string(), RcAnchor(x))]) };
        let text = serde_saphyr::to_string(&doc).unwrap_or_else(|e| format!("<serializer error: {e}>"));
        let replay = json!({"kind": "shared_kind", "payload": kind, "position": "seq_map", "text": text});
        match serde_saphyr::from_str::<InSeq<P>>(&text) {
            Ok(r) => {
                let ptrs: Vec<usize> = r.items.iter().chain(r.by_key.values()).map(|a| Rc::as_ptr(&a.0) as *const u8 as usize).collect();
                if r.items.len() != 3 || r.by_key.len() != 2 || classes(&ptrs) != vec![0, 1, 0, 1, 0] {
                    ctx.fail(&cls("sharing-differs"), format!("shared {kind} in a sequence and a map: classes {:?}, expected [0, 1, 0, 1, 0]; text {text:?}", classes(&ptrs)), replay);
                } else if r.items.iter().chain(r.by_key.values()).any(|a| *a.0 != v) {
                    ctx.fail(&cls("values-differ"), format!("shared {kind} in a sequence and a map reads back as {r:?}; text {text:?}"), replay);
                }
            }
            Err(e) => ctx.fail(&cls("round-trip-failed"), format!("shared {kind} in a sequence and a map {text:?}: {}", e.to_string().lines().next().unwrap_or("")), replay),
        }
    }
    // Arc, a live weak edge and a dangling one
    {
        let x = Arc::new(v.clone());
        let dead = Arc::new(v.clone());
        let gone = ArcWeakAnchor(Arc::downgrade(&dead));
        drop(dead);
        let doc = ArcFields { a: ArcAnchor(x.clone()), b: ArcAnchor(x.clone()), w: ArcWeakAnchor(Arc::downgrade(&x)), gone, n: 1 };
        let text = serde_saphyr::to_string(&doc).unwrap_or_else(|e| format!("<serializer error: {e}>"));
        let replay = json!({"kind": "shared_kind", "payload": kind, "position": "arc_weak", "text": text});
        match serde_saphyr::from_str::<ArcFields<P>>(&text) {
            Ok(r) => {
                let live = r.w.0.upgrade().map(|t| Arc::ptr_eq(&t, &r.a.0)).unwrap_or(false);
                if !(Arc::ptr_eq(&r.a.0, &r.b.0) && live && r.gone.0.upgrade().is_none() && *r.a.0 == v && r.n == 1) {
                    ctx.fail(&cls("sharing-differs"), format!("shared {kind} through Arc: a/b shared {}, weak edge to a {live}, dangling edge dangling {}; text {text:?}", Arc::ptr_eq(&r.a.0, &r.b.0), r.gone.0.upgrade().is_none()), replay);
                }
            }
            Err(e) => ctx.fail(&cls("round-trip-failed"), format!("shared {kind} through Arc with weak edges {text:?}: {}", e.to_string().lines().next().unwrap_or("")), replay),
        }
    }
}

fn shared_kinds(ctx: &mut Ctx) {
    use serde_saphyr::{FlowMap, FlowSeq, LitString};
    shared_kind::<Option<i32>>(ctx, "None", None, None);
    shared_kind::<Option<i32>>(ctx, "Some(7)", Some(7), None);
    shared_kind::<()>(ctx, "unit", (), None);
    shared_kind::<bool>(ctx, "bool", true, None);
    shared_kind::<f64>(ctx, "float", 1.5, None);
    shared_kind::<String>(ctx, "word", "word".into(), None);
    shared_kind::<String>(ctx, "empty string", String::new(), None);
    shared_kind::<String>(ctx, "null-looking string", "null".into(), None);
    // F67 (open): a shared string written as a block scalar loses its anchor (a test of the suite pins `key: >`)
    shared_kind::<String>(ctx, "multi-line string", "line1\nline2\n".into(), Some("F67:shared-block-scalar"));
    shared_kind::<LitString>(ctx, "literal wrapper", LitString("a\nb".into()), Some("F67:shared-block-scalar"));
    shared_kind::<String>(ctx, "one-line string with a quote", "it's".into(), None);
    shared_kind::<Vec<i32>>(ctx, "sequence", vec![1, 2], None);
    shared_kind::<Vec<i32>>(ctx, "empty sequence", vec![], None);
    shared_kind::<BTreeMap<String, i32>>(ctx, "mapping", BTreeMap::from([("k".to_string(), 1)]), None);
    shared_kind::<BTreeMap<String, i32>>(ctx, "empty mapping", BTreeMap::new(), None);
    shared_kind::<FlowSeq<Vec<i32>>>(ctx, "flow sequence", FlowSeq(vec![1, 2]), None);
    shared_kind::<FlowMap<BTreeMap<String, i32>>>(ctx, "flow mapping", FlowMap(BTreeMap::from([("k".to_string(), 1)])), None);
    shared_kind::<(i32, String)>(ctx, "tuple", (1, "x".into()), None);
    shared_kind::<PlainLeaf>(ctx, "struct", PlainLeaf { name: "n".into() }, None);
    shared_kind::<Pay>(ctx, "unit variant", Pay::U, None);
    // F65 (fixed): the anchor of a shared enum value with a payload belongs before the variant label
    shared_kind::<Pay>(ctx, "newtype variant", Pay::N(1), None);
    shared_kind::<Pay>(ctx, "tuple variant", Pay::T(1, "x".into()), None);
    shared_kind::<Pay>(ctx, "struct variant", Pay::St { x: 1 }, None);

    // F64 (open): a weak reference serialized before its strong target carries the definition
    ctx.direct_evaluations += 1;
    let s = Rc::new(vec![1]);
    let doc = WeakFirst { w: RcWeakAnchor(Rc::downgrade(&s)), s: RcAnchor(s.clone()) };
    let text = serde_saphyr::to_string(&doc).unwrap_or_default();
    match serde_saphyr::from_str::<WeakFirst>(&text) {
        Ok(r) if r.w.0.upgrade().map(|t| Rc::ptr_eq(&t, &r.s.0)).unwrap_or(false) => {}
        other => ctx.fail("F64:weak-before-strong", format!("weak edge written before its strong target: {text:?} reads back as {:?}", other.map(|_| "a different graph").map_err(|e| e.to_string().lines().next().unwrap_or("").to_string())),
            json!({"kind": "weak_first", "text": text})),
    }
    // F66 (open): an optional back link to a node that is still being read comes back as None
    ctx.direct_evaluations += 1;
    // (the text is what the serializer writes for root { next: kid { up: -> root } })
    let text = "&a1\nname: root\nup: null\nnext: &a2\n  name: kid\n  up: *a1\n  next: null\n";
    match serde_saphyr::from_str::<RcRecursive<Link>>(text) {
        Ok(r) => {
            let kid_up = (|| {
                let g = r.0.borrow();
                let kid = g.as_ref()?.next.as_ref()?;
                let kg = kid.0.borrow();
                Some(kg.as_ref()?.up.is_some())
            })();
            if kid_up != Some(true) {
                ctx.fail("F66:optional-back-link", format!("Option<RcRecursion<_>> pointing at the node being read comes back as None: {text:?}"), json!({"kind": "back_link", "text": text}));
            }
        }
        Err(e) => ctx.fail("F66:optional-back-link", format!("{text:?}: {}", e.to_string().lines().next().unwrap_or("")), json!({"kind": "back_link", "text": text})),
    }
}

pub fn run(ctx: &mut Ctx) {
    util::quiet_panics();
    ctx.set_case_format("From SS Require Import Corr.Anchors.\nLocal Open Scope N_scope.", "case", "check_case");
    ctx.rule = "cases: document-order sightings of anchored nodes in generated DAGs (address classes) with the marks found in the emitted \
                text; mark sequences with the allocation classes the deserializer builds; distinct = distinct Coq case term; non-trivial = \
                at least one alias"
        .into();
    if let Some(r) = ctx.replay.clone() {
        println!("replay: {r}");
        return;
    }
    let quick = ctx.quick();
    let mut rng = ctx.rng.fork();

    for round in 0..(if quick { 400 } else { 6000 }) {
        let roots = gen_graph(&mut rng, 1 + round % 9);
        let extra = RcAnchor(roots[rng.below(roots.len())].0.clone());
        let doc = Doc { roots, extra };
        let replay = json!({"kind": "graph", "debug": format!("{doc:?}").chars().take(600).collect::<String>()});
        let text = match util::no_panic(|| serde_saphyr::to_string(&doc)) {
            Ok(Ok(t)) => t,
            other => {
                ctx.fail("serialize-failed", format!("{other:?}"), replay);
                continue;
            }
        };
        // ---- K: serializer marks
        let mut seen = Vec::new();
        let mut sight = Vec::new();
        for r in &doc.roots {
            sightings(r, &mut seen, &mut sight);
        }
        sightings(&doc.extra, &mut seen, &mut sight);
        let marks = marks_in(&text);
        let cls = classes(&sight);
        ctx.case(format!("CSer {} {}", nl(&cls), marks_coq(&marks)), marks.iter().any(|m| !m.0), json!({"kind": "ser", "classes": cls, "text": text}));

        // ---- read back
        let back: Doc = match util::no_panic(|| serde_saphyr::from_str::<Doc>(&text)) {
            Ok(Ok(d)) => d,
            other => {
                ctx.fail("round-trip-failed", format!("emitted {text:?}; reading gives {:?}", other.map(|r| r.map(|_| ()).map_err(|e| e.to_string().lines().next().unwrap_or("").to_string()))), replay);
                continue;
            }
        };
        // ---- S: the pointer-equality partition over all paths is unchanged, and so are the names
        let (mut p0, mut n0, mut p1, mut n1) = (Vec::new(), Vec::new(), Vec::new(), Vec::new());
        for r in &doc.roots {
            all_paths(r, &mut p0, &mut n0);
        }
        all_paths(&doc.extra, &mut p0, &mut n0);
        for r in &back.roots {
            all_paths(r, &mut p1, &mut n1);
        }
        all_paths(&back.extra, &mut p1, &mut n1);
        ctx.direct_evaluations += 1;
        if n0 != n1 {
            ctx.fail("values-differ", format!("names along all paths differ after the round trip: {n0:?} vs {n1:?}; text {text:?}"), replay.clone());
        } else if classes(&p0) != classes(&p1) {
            ctx.fail("sharing-differs", format!("pointer-equality classes before {:?}, after {:?}; text {text:?}", classes(&p0), classes(&p1)), replay.clone());
        }
        // ---- K: deserializer allocations for the marks of this text (first-sight order of the reader = text order)
        let mut seen = Vec::new();
        let mut sight1 = Vec::new();
        for r in &back.roots {
            sightings(r, &mut seen, &mut sight1);
        }
        sightings(&back.extra, &mut seen, &mut sight1);
        if sight1.len() == marks.len() {
            ctx.case(format!("CDe {} {}", marks_coq(&marks), nl(&classes(&sight1))), marks.iter().any(|m| !m.0), json!({"kind": "de", "text": text}));
        }
    }

    // ---- Arc DAGs
    for round in 0..(if quick { 100 } else { 1500 }) {
        let mut pool: Vec<ArcAnchor<ANode>> = Vec::new();
        for i in 0..(1 + round % 7) {
            let nk = if pool.is_empty() { 0 } else { rng.below(3) };
            let kids = (0..nk).map(|_| ArcAnchor(pool[rng.below(pool.len())].0.clone())).collect();
            pool.push(ArcAnchor(Arc::new(ANode { name: format!("a{i}"), kids })));
        }
        let roots: Vec<ArcAnchor<ANode>> = (0..(1 + rng.below(3))).map(|_| ArcAnchor(pool[rng.below(pool.len())].0.clone())).collect();
        fn paths(n: &ArcAnchor<ANode>, out: &mut Vec<usize>) {
            out.push(Arc::as_ptr(&n.0) as usize);
            for k in &n.0.kids {
                paths(k, out);
            }
        }
        ctx.direct_evaluations += 1;
        let text = serde_saphyr::to_string(&roots).unwrap_or_default();
        match serde_saphyr::from_str::<Vec<ArcAnchor<ANode>>>(&text) {
            Ok(back) => {
                let (mut a, mut b) = (Vec::new(), Vec::new());
                roots.iter().for_each(|r| paths(r, &mut a));
                back.iter().for_each(|r| paths(r, &mut b));
                if classes(&a) != classes(&b) {
                    ctx.fail("sharing-differs", format!("Arc graph: classes before {:?}, after {:?}; text {text:?}", classes(&a), classes(&b)), json!({"kind": "arc", "text": text}));
                }
            }
            Err(e) => ctx.fail("round-trip-failed", format!("Arc graph {text:?}: {}", e.to_string().lines().next().unwrap_or("")), json!({"kind": "arc", "text": text})),
        }
    }

    // ---- weak edges: to live targets (resolve to the same allocation) and to dropped ones (null)
    for round in 0..(if quick { 60 } else { 800 }) {
        let strong: Vec<RcAnchor<Node>> = (0..(1 + round % 4)).map(|i| RcAnchor(Rc::new(Node { name: format!("s{i}"), kids: vec![], by_key: BTreeMap::new() }))).collect();
        let dropped = Rc::new(Node { name: "gone".into(), kids: vec![], by_key: BTreeMap::new() });
        let mut weak: Vec<RcWeakAnchor<Node>> = Vec::new();
        let mut targets: Vec<Option<usize>> = Vec::new();
        for _ in 0..(1 + rng.below(4)) {
            if rng.chance(1, 4) {
                weak.push(RcWeakAnchor::from(&dropped));
                targets.push(None);
            } else {
                let k = rng.below(strong.len());
                weak.push(RcWeakAnchor::from(&strong[k]));
                targets.push(Some(k));
            }
        }
        drop(dropped);
        let doc = WeakDoc { strong, weak };
        ctx.direct_evaluations += 1;
        let text = serde_saphyr::to_string(&doc).unwrap_or_default();
        match serde_saphyr::from_str::<WeakDoc>(&text) {
            Ok(back) => {
                for (i, t) in targets.iter().enumerate() {
                    let up = back.weak[i].upgrade();
                    let ok = match t {
                        None => up.is_none(),
                        Some(k) => up.is_some_and(|u| Rc::ptr_eq(&u, &back.strong[*k].0)),
                    };
                    if !ok {
                        ctx.fail("weak-edge-differs", format!("weak #{i} should point at {t:?}; text {text:?}"), json!({"kind": "weak", "text": text}));
                    }
                }
            }
            Err(e) => ctx.fail("round-trip-failed", format!("weak graph {text:?}: {}", e.to_string().lines().next().unwrap_or("")), json!({"kind": "weak", "text": text})),
        }
    }

    // ---- a cycle through the recursive wrappers
    {
        ctx.direct_evaluations += 1;
        let first = RcRecursive::wrapping(Ring { name: "one".into(), next: RcRecursion(std::rc::Weak::new()) });
        {
            let weak = RcRecursion::from(&first);
            first.0.borrow_mut().as_mut().unwrap().next = weak;
        }
        let doc = RingDoc { first };
        let text = serde_saphyr::to_string(&doc).unwrap_or_default();
        match serde_saphyr::from_str::<RingDoc>(&text) {
            Ok(back) => {
                let again = back.first.borrow().next.upgrade();
                if !again.is_some_and(|a| Rc::ptr_eq(&a.0, &back.first.0)) {
                    ctx.fail("cycle-not-restored", format!("self-reference is not restored; text {text:?}"), json!({"kind": "ring", "text": text}));
                }
            }
            Err(e) => ctx.fail("round-trip-failed", format!("ring {text:?}: {}", e.to_string().lines().next().unwrap_or("")), json!({"kind": "ring", "text": text})),
        }
    }

    // ---- shared scalars (the alias replays a single event) in sequences, with weak edges to them
    for round in 0..(if quick { 60 } else { 900 }) {
        #[derive(Serialize, Deserialize, Debug)]
        struct Scalars {
            strs: Vec<RcAnchor<String>>,
            nums: Vec<ArcAnchor<u32>>,
            weak: Vec<RcWeakAnchor<String>>,
        }
        let pool_s: Vec<Rc<String>> = (0..(1 + round % 3)).map(|i| Rc::new(format!("s{i}"))).collect();
        let pool_n: Vec<Arc<u32>> = (0..(1 + round % 3)).map(|i| Arc::new(i as u32 * 7)).collect();
        let si: Vec<usize> = (0..(1 + rng.below(5))).map(|_| rng.below(pool_s.len())).collect();
        let ni: Vec<usize> = (0..(1 + rng.below(5))).map(|_| rng.below(pool_n.len())).collect();
        let wi: Vec<usize> = (0..rng.below(3)).map(|_| si[rng.below(si.len())]).collect();
        let doc = Scalars {
            strs: si.iter().map(|&i| RcAnchor(pool_s[i].clone())).collect(),
            nums: ni.iter().map(|&i| ArcAnchor(pool_n[i].clone())).collect(),
            weak: wi.iter().map(|&i| RcWeakAnchor::from(&pool_s[i])).collect(),
        };
        ctx.direct_evaluations += 1;
        let text = serde_saphyr::to_string(&doc).unwrap_or_default();
        match serde_saphyr::from_str::<Scalars>(&text) {
            Ok(back) => {
                let a: Vec<usize> = back.strs.iter().map(|x| Rc::as_ptr(&x.0) as usize).collect();
                let b: Vec<usize> = back.nums.iter().map(|x| Arc::as_ptr(&x.0) as usize).collect();
                let weak_ok = wi.iter().enumerate().all(|(k, &i)| {
                    let first = si.iter().position(|&j| j == i).unwrap();
                    back.weak[k].upgrade().is_some_and(|u| Rc::ptr_eq(&u, &back.strs[first].0))
                });
                if classes(&a) != classes(&si) || classes(&b) != classes(&ni) || !weak_ok {
                    ctx.fail("sharing-differs", format!("shared scalars: strings {:?} -> {:?}, numbers {:?} -> {:?}, weak edges intact: {weak_ok}; text {text:?}", classes(&si), classes(&a), classes(&ni), classes(&b)), json!({"kind": "scalars", "text": text}));
                }
            }
            Err(e) => ctx.fail("round-trip-failed", format!("shared scalars {text:?}: {}", e.to_string().lines().next().unwrap_or("")), json!({"kind": "scalars", "text": text})),
        }
    }

    // ---- back-references across two levels through the recursive wrappers, Rc and Arc
    {
        #[derive(Serialize, Deserialize)]
        struct RNode {
            name: String,
            up: RcRecursion<RNode>,
            kids: Vec<RcRecursive<RNode>>,
        }
        #[derive(Serialize, Deserialize)]
        struct ANode2 {
            name: String,
            up: ArcRecursion<ANode2>,
            kids: Vec<ArcRecursive<ANode2>>,
        }
        ctx.direct_evaluations += 2;
        // Rc
        let root: RcRecursive<RNode> = RcRecursive(Rc::new(std::cell::RefCell::new(None)));
        let kid = RcRecursive::wrapping(RNode { name: "kid".into(), up: RcRecursion::from(&root), kids: vec![] });
        *root.0.borrow_mut() = Some(RNode { name: "root".into(), up: RcRecursion::from(&root), kids: vec![RcRecursive(kid.0.clone())] });
        let text = serde_saphyr::to_string(&root).unwrap_or_default();
        match serde_saphyr::from_str::<RcRecursive<RNode>>(&text) {
            Ok(back) => {
                let ok = (|| {
                    let g = back.0.borrow();
                    let n = g.as_ref()?;
                    let self_ok = Rc::ptr_eq(&n.up.upgrade()?.0, &back.0);
                    let k = n.kids.first()?;
                    let kg = k.0.borrow();
                    let up = kg.as_ref()?.up.upgrade()?;
                    Some(self_ok && Rc::ptr_eq(&up.0, &back.0) && !Rc::ptr_eq(&k.0, &back.0))
                })();
                if ok != Some(true) {
                    ctx.fail("cycle-not-restored", format!("Rc two-level back-reference is not restored; text {text:?}"), json!({"kind": "ring2", "text": text}));
                }
            }
            Err(e) => ctx.fail("round-trip-failed", format!("Rc two-level ring {text:?}: {}", e.to_string().lines().next().unwrap_or("")), json!({"kind": "ring2", "text": text})),
        }
        // Arc
        let root: ArcRecursive<ANode2> = ArcRecursive(Arc::new(std::sync::Mutex::new(None)));
        let kid = ArcRecursive::wrapping(ANode2 { name: "kid".into(), up: ArcRecursion::from(&root), kids: vec![] });
        *root.0.lock().unwrap() = Some(ANode2 { name: "root".into(), up: ArcRecursion::from(&root), kids: vec![ArcRecursive(kid.0.clone())] });
        let text = serde_saphyr::to_string(&root).unwrap_or_default();
        match serde_saphyr::from_str::<ArcRecursive<ANode2>>(&text) {
            Ok(back) => {
                let ok = (|| {
                    let (self_ok, k) = {
                        let g = back.0.lock().ok()?;
                        let n = g.as_ref()?;
                        (Arc::ptr_eq(&n.up.upgrade()?.0, &back.0), ArcRecursive(n.kids.first()?.0.clone()))
                    };
                    let up = {
                        let kg = k.0.lock().ok()?;
                        kg.as_ref()?.up.upgrade()?
                    };
                    Some(self_ok && Arc::ptr_eq(&up.0, &back.0) && !Arc::ptr_eq(&k.0, &back.0))
                })();
                if ok != Some(true) {
                    ctx.fail("cycle-not-restored", format!("Arc two-level back-reference is not restored; text {text:?}"), json!({"kind": "ring2", "text": text}));
                }
            }
            Err(e) => ctx.fail("round-trip-failed", format!("Arc two-level ring {text:?}: {}", e.to_string().lines().next().unwrap_or("")), json!({"kind": "ring2", "text": text})),
        }
    }

    // ---- aliases read into plain fields: equal, independent copies
    {
        ctx.direct_evaluations += 1;
        let x = Rc::new(PlainLeaf { name: "shared".into() });
        let y = Arc::new(PlainLeaf { name: "shared-arc".into() });
        let doc = SharedLeaves { a: RcAnchor(x.clone()), b: RcAnchor(x), c: ArcAnchor(y.clone()), d: ArcAnchor(y) };
        let text = serde_saphyr::to_string(&doc).unwrap_or_default();
        match serde_saphyr::from_str::<PlainLeaves>(&text) {
            Ok(p) if p.a == p.b && p.c == p.d && p.a.name == "shared" && p.c.name == "shared-arc" => {}
            other => ctx.fail("alias-into-plain-field", format!("{text:?} read into plain fields gives {other:?}"), json!({"kind": "plain", "text": text})),
        }
    }
    // shared containers as struct field values after a block-valued sibling
    {
        #[derive(Serialize, Deserialize, Debug)]
        struct Fields {
            first: Vec<i32>,
            shared: RcAnchor<Vec<i32>>,
            again: RcAnchor<Vec<i32>>,
            m: BTreeMap<String, i32>,
            shared_map: RcAnchor<BTreeMap<String, i32>>,
            again_map: RcAnchor<BTreeMap<String, i32>>,
        }
        ctx.direct_evaluations += 1;
        let v = Rc::new(vec![10, 20]);
        let m = Rc::new(BTreeMap::from([("k".to_string(), 1)]));
        let doc = Fields { first: vec![1, 2], shared: RcAnchor(v.clone()), again: RcAnchor(v), m: BTreeMap::from([("z".to_string(), 0)]), shared_map: RcAnchor(m.clone()), again_map: RcAnchor(m) };
        let text = serde_saphyr::to_string(&doc).unwrap_or_default();
        match serde_saphyr::from_str::<Fields>(&text) {
            Ok(b) if Rc::ptr_eq(&b.shared.0, &b.again.0) && Rc::ptr_eq(&b.shared_map.0, &b.again_map.0) && *b.shared.0 == vec![10, 20] => {}
            Ok(_) => ctx.fail("sharing-differs", format!("shared field values after a block sibling; text {text:?}"), json!({"kind": "fields", "text": text})),
            Err(e) => ctx.fail("round-trip-failed", format!("shared field values {text:?}: {}", e.to_string().lines().next().unwrap_or("")), json!({"kind": "fields", "text": text})),
        }
    }
    // F13 witness: an anchored sequence of anchored strings without anchors of their own
    {
        ctx.direct_evaluations += 1;
        let r = serde_saphyr::from_str::<RcAnchor<Vec<RcAnchor<String>>>>("&a\n- x\n- y\n").map(|v| v.0.iter().map(|s| s.0.to_string()).collect::<Vec<_>>());
        if r.as_ref().ok() != Some(&vec!["x".to_string(), "y".to_string()]) {
            ctx.fail("F13:inner-wrapper-takes-outer-anchor", format!("`&a [x, y]` as RcAnchor<Vec<RcAnchor<String>>> gives {r:?}"), json!({"kind": "f13"}));
        }
    }
    shared_kinds(ctx);
}
