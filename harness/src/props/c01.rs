//! C01 -- deserialization and error rendering are total: no panic, abort or hang.
//!
//! K: the live event pump (next_impl: inject stack, replay, synthesized null, scan errors) on short
//!    token strings and generated / mutated documents under default and tiny limits vs
//!    `SS.Model.Live` (same events, same stop, number of deliveries within the proved bound).
//! S: every entry point x option vector x target type on (a) all strings of up to 1..4 tokens over the
//!    YAML indicator alphabet, (b) scalar edge cases (radix prefixes, signs, tags, base64), (c) generated
//!    and byte-mutated documents, invalid UTF-8 included, (d) pathological deep / wide inputs around
//!    the depth limit of the default budget.  Jobs run in child processes on a thread with an 8 MiB
//!    stack: a panic is caught and reported, an abort (stack overflow, SIGSEGV/SIGABRT) or a hang kills
//!    only the child and is attributed to the job that was running.  Every returned error is rendered
//!    through Display, Debug, render(), render_with_formatter, render_with_options, the miette report
//!    and its location accessors.
//!    Further families: aliases to anchors still open below 1..100 nested anchored containers (flow and block); runs of
//!    up to a million signs / operators / parentheses / separators for the expression evaluator and the number parsers.
use crate::ctx::{Ctx, Rng, Tier};
use crate::docgen;
use crate::live::{self, PumpOpts};
use crate::rawcoq;
use serde::Deserialize;
use serde::de::DeserializeOwned;
use serde_json::{Value, json};
use serde_saphyr::options::AliasLimits;
use serde_saphyr::{Budget, DuplicateKeyPolicy, Error, Options};
use std::borrow::Cow;
use std::collections::{BTreeMap, HashMap};
use std::io::{BufRead, BufReader, Read};
use std::panic::{AssertUnwindSafe, catch_unwind};
use std::process::{Command, Stdio};
use std::sync::mpsc;
use std::time::{Duration, Instant};

// ------------------------------------------------------------------ target types

#[derive(Deserialize, Debug)]
#[allow(dead_code)]
enum En {
    Unit,
    New(i64),
    Tup(i8, f32),
    Struct { x: bool, y: char },
}
#[derive(Deserialize, Debug)]
#[allow(dead_code)]
struct Plain {
    a: i32,
    b: Option<String>,
    #[serde(default)]
    c: Vec<u8>,
    #[serde(default)]
    d: Option<En>,
}
#[derive(Deserialize, Debug)]
#[serde(untagged)]
#[allow(dead_code)]
enum Untagged {
    N(i64),
    S(String),
    L(Vec<Untagged>),
    M(BTreeMap<String, Untagged>),
}
#[derive(Deserialize, Debug)]
#[serde(tag = "t")]
#[allow(dead_code)]
enum Internal {
    A { x: i32 },
    B { y: String },
}
#[derive(Deserialize, Debug)]
#[serde(tag = "t", content = "c")]
#[allow(dead_code)]
enum Adjacent {
    A(i32),
    B(Vec<String>),
}
#[derive(Deserialize, Debug)]
#[allow(dead_code)]
struct Flat {
    id: u8,
    #[serde(flatten)]
    rest: BTreeMap<String, Value>,
}
#[derive(Deserialize, Debug)]
#[serde(deny_unknown_fields)]
#[allow(dead_code)]
struct Deny {
    k: u64,
    #[serde(default)]
    opt: Option<Box<Deny>>,
}
#[derive(Deserialize, Debug)]
struct UnitS;
#[derive(Deserialize, Debug)]
#[allow(dead_code)]
struct Newtype(i128);
#[derive(Deserialize, Debug)]
#[allow(dead_code)]
struct TupleS(u128, f64, char);
#[derive(Deserialize, Debug)]
#[allow(dead_code)]
enum Rec {
    Leaf(i32),
    Node(Vec<Rec>),
    Pair(Box<Rec>, Box<Rec>),
}
/// asks for bytes / a byte buffer
#[derive(Debug)]
#[allow(dead_code)]
struct Bytes(Vec<u8>);
impl<'de> Deserialize<'de> for Bytes {
    fn deserialize<D: serde::Deserializer<'de>>(d: D) -> Result<Self, D::Error> {
        struct V;
        impl<'de> serde::de::Visitor<'de> for V {
            type Value = Bytes;
            fn expecting(&self, f: &mut std::fmt::Formatter) -> std::fmt::Result {
                f.write_str("bytes")
            }
            fn visit_bytes<E>(self, v: &[u8]) -> Result<Bytes, E> {
                Ok(Bytes(v.to_vec()))
            }
            fn visit_byte_buf<E>(self, v: Vec<u8>) -> Result<Bytes, E> {
                Ok(Bytes(v))
            }
            fn visit_seq<A: serde::de::SeqAccess<'de>>(self, mut a: A) -> Result<Bytes, A::Error> {
                let mut out = Vec::new();
                while let Some(b) = a.next_element::<u8>()? {
                    out.push(b);
                }
                Ok(Bytes(out))
            }
        }
        d.deserialize_bytes(V)
    }
}
#[derive(Debug)]
#[allow(dead_code)]
struct ByteBuf(Vec<u8>);
impl<'de> Deserialize<'de> for ByteBuf {
    fn deserialize<D: serde::Deserializer<'de>>(d: D) -> Result<Self, D::Error> {
        struct V;
        impl<'de> serde::de::Visitor<'de> for V {
            type Value = ByteBuf;
            fn expecting(&self, f: &mut std::fmt::Formatter) -> std::fmt::Result {
                f.write_str("byte buffer")
            }
            fn visit_bytes<E>(self, v: &[u8]) -> Result<ByteBuf, E> {
                Ok(ByteBuf(v.to_vec()))
            }
            fn visit_byte_buf<E>(self, v: Vec<u8>) -> Result<ByteBuf, E> {
                Ok(ByteBuf(v))
            }
            fn visit_str<E>(self, v: &str) -> Result<ByteBuf, E> {
                Ok(ByteBuf(v.as_bytes().to_vec()))
            }
        }
        d.deserialize_byte_buf(V)
    }
}
#[derive(Deserialize, Debug)]
#[allow(dead_code)]
struct Borrowed<'a> {
    #[serde(borrow)]
    s: &'a str,
    #[serde(borrow, default)]
    c: Option<Cow<'a, str>>,
    #[serde(borrow, default)]
    b: Option<&'a [u8]>,
}
#[derive(Deserialize, Debug)]
#[allow(dead_code)]
struct WithSpans {
    a: serde_saphyr::Spanned<String>,
    #[serde(default)]
    b: Option<serde_saphyr::Spanned<Vec<serde_saphyr::Spanned<i64>>>>,
}
#[derive(Deserialize, Debug)]
#[allow(dead_code)]
struct Shared {
    first: serde_saphyr::RcAnchor<Vec<String>>,
    #[serde(default)]
    second: Option<serde_saphyr::RcAnchor<Vec<String>>>,
    #[serde(default)]
    weak: Option<serde_saphyr::RcWeakAnchor<Vec<String>>>,
}

pub const TYPE_NAMES: &[&str] = &[
    "serde_json::Value", "Plain{a:i32,b:Option<String>,c:Vec<u8>,d:Option<En>}", "En", "Untagged", "Internal(tag=t)", "Adjacent(tag=t,content=c)", "Flat(flatten)", "Deny(deny_unknown_fields, Box<Self>)",
    "UnitS", "Newtype(i128)", "TupleS(u128,f64,char)", "Rec(recursive enum)", "Bytes(deserialize_bytes)", "ByteBuf(deserialize_byte_buf)", "String", "i8", "u64", "f32", "f64", "bool", "char", "()",
    "Option<Option<i32>>", "Vec<Option<String>>", "BTreeMap<String,Vec<i64>>", "HashMap<i32,bool>", "Vec<(String,f64)>", "[u8;3]", "(i32,String)", "IgnoredAny", "WithSpans", "Shared(RcAnchor)", "i128", "u8", "i16",
    "u32", "BTreeMap<Vec<String>,i32>", "Vec<En>", "Option<UnitS>",
    // borrowed
    "&str", "Borrowed{&str,Cow<str>,&[u8]}", "&[u8]", "Cow<str>", "Vec<&str>",
];
const N_OWNED: u8 = 39;
const N_TYPES: u8 = 44;
/// scalar-like targets, for the scalar edge-case family
const SCALAR_TYPES: &[u8] = &[0, 14, 15, 16, 17, 18, 19, 20, 21, 22, 9, 32, 33, 34, 35, 12, 13, 2, 39, 42, 8, 38];
/// types whose deserialization recurses with the nesting of the document
const DEEP_TYPES: &[u8] = &[0, 3, 7, 11, 29, 6, 23, 36];

// ------------------------------------------------------------------ options

pub const OPT_NAMES: &[&str] = &[
    "default", "budget=None", "tiny budget", "FirstWins+legacy_octal+strict_booleans", "LastWins+ignore_binary_tag+angle_conversions", "no_schema, no snippet", "crop_radius=0", "crop_radius=1", "crop_radius=usize::MAX",
    "alias limits 0", "alias limits tiny, budget=None", "crop_radius=3, reader limit 5 bytes", "budget all zero", "budget report callback",
];
const N_OPTS: u8 = 14;
/// option vectors that keep the default budget's depth limit (stack probes are only claimed under it)
const DEFAULT_DEPTH_OPTS: &[u8] = &[0, 3, 4, 5, 6, 7, 8, 9, 13];

#[allow(deprecated)]
fn mk_opts(id: u8) -> Options {
    let mut o = Options::default();
    match id {
        1 => o.budget = None,
        2 => {
            o.budget = Some(Budget {
                max_reader_input_bytes: Some(24),
                max_events: 12,
                max_aliases: 1,
                max_anchors: 1,
                max_depth: 2,
                max_documents: 2,
                max_nodes: 8,
                max_total_scalar_bytes: 16,
                max_merge_keys: 1,
                enforce_alias_anchor_ratio: true,
                alias_anchor_min_aliases: 1,
                alias_anchor_ratio_multiplier: 1,
            })
        }
        3 => {
            o.duplicate_keys = DuplicateKeyPolicy::FirstWins;
            o.legacy_octal_numbers = true;
            o.strict_booleans = true;
        }
        4 => {
            o.duplicate_keys = DuplicateKeyPolicy::LastWins;
            o.ignore_binary_tag_for_string = true;
            o.angle_conversions = true;
        }
        5 => {
            o.no_schema = true;
            o.with_snippet = false;
        }
        6 => o.crop_radius = 0,
        7 => o.crop_radius = 1,
        8 => o.crop_radius = usize::MAX,
        9 => o.alias_limits = AliasLimits { max_total_replayed_events: 0, max_replay_stack_depth: 0, max_alias_expansions_per_anchor: 0 },
        10 => {
            o.budget = None;
            o.alias_limits = AliasLimits { max_total_replayed_events: 5, max_replay_stack_depth: 1, max_alias_expansions_per_anchor: 2 };
        }
        11 => {
            o.crop_radius = 3;
            let mut b = Budget::default();
            b.max_reader_input_bytes = Some(5);
            o.budget = Some(b);
        }
        12 => {
            o.budget = Some(Budget {
                max_reader_input_bytes: Some(0),
                max_events: 0,
                max_aliases: 0,
                max_anchors: 0,
                max_depth: 0,
                max_documents: 0,
                max_nodes: 0,
                max_total_scalar_bytes: 0,
                max_merge_keys: 0,
                enforce_alias_anchor_ratio: true,
                alias_anchor_min_aliases: 0,
                alias_anchor_ratio_multiplier: 0,
            })
        }
        13 => return o.with_budget_report(|_r| {}),
        _ => {}
    }
    o
}

// ------------------------------------------------------------------ entry points

pub const ENTRY_NAMES: &[&str] = &[
    "from_str", "from_slice", "from_reader", "from_reader (1-3 byte chunks)", "from_reader (io error midway)", "from_multiple", "from_slice_multiple", "read (iterator)", "with_deserializer_from_str",
    "with_deserializer_from_slice", "with_deserializer_from_reader", "with_deserializer_from_str (closure ignores the deserializer)",
];
const N_ENTRIES: u8 = 12;

struct Chunky<'a> {
    data: &'a [u8],
    pos: usize,
    step: usize,
    fail_at: Option<usize>,
}
impl Read for Chunky<'_> {
    fn read(&mut self, buf: &mut [u8]) -> std::io::Result<usize> {
        if let Some(f) = self.fail_at {
            if self.pos >= f {
                return Err(std::io::Error::other("injected io failure"));
            }
        }
        let n = self.step.min(buf.len()).min(self.data.len() - self.pos);
        buf[..n].copy_from_slice(&self.data[self.pos..self.pos + n]);
        self.pos += n;
        self.step = self.step % 3 + 1;
        Ok(n)
    }
}

#[derive(Default)]
struct Out {
    oks: usize,
    errs: Vec<Error>,
    note: Option<String>,
}
impl Out {
    fn push<T>(&mut self, r: Result<T, Error>) {
        match r {
            Ok(_) => self.oks += 1,
            Err(e) => self.errs.push(e),
        }
    }
}

#[derive(Clone, Debug)]
pub struct Job {
    input: Vec<u8>,
    entry: u8,
    opts: u8,
    ty: u8,
    fam: &'static str,
    heavy: bool,
}
impl Job {
    fn json(&self) -> Value {
        let text = String::from_utf8_lossy(&self.input);
        let shown: String = if text.chars().count() > 300 { format!("{}…({} bytes)", text.chars().take(300).collect::<String>(), self.input.len()) } else { text.to_string() };
        json!({"kind": "job", "family": self.fam, "entry": ENTRY_NAMES[self.entry as usize], "options": OPT_NAMES[self.opts as usize], "type": TYPE_NAMES[self.ty as usize],
               "entry_id": self.entry, "opts_id": self.opts, "type_id": self.ty, "input_len": self.input.len(), "input_text": shown,
               "input_hex": if self.input.len() <= 4096 { Value::String(self.input.iter().map(|b| format!("{b:02x}")).collect()) } else { Value::Null }})
    }
}

fn run_owned<T: DeserializeOwned>(j: &Job) -> Out {
    let mut out = Out::default();
    let text = std::str::from_utf8(&j.input).ok();
    let dflt = j.opts == 0;
    let bytes = &j.input[..];
    // entry points that need a &str fall back to their slice twin on invalid UTF-8
    let entry = match (j.entry, text) {
        (0, None) => 1,
        (5, None) => 6,
        (8 | 11, None) => 9,
        (e, _) => e,
    };
    match entry {
        0 => {
            let t = text.unwrap();
            out.push(if dflt { serde_saphyr::from_str::<T>(t) } else { serde_saphyr::from_str_with_options::<T>(t, mk_opts(j.opts)) });
        }
        1 => out.push(if dflt { serde_saphyr::from_slice::<T>(bytes) } else { serde_saphyr::from_slice_with_options::<T>(bytes, mk_opts(j.opts)) }),
        2 => out.push(if dflt { serde_saphyr::from_reader::<_, T>(std::io::Cursor::new(bytes)) } else { serde_saphyr::from_reader_with_options::<_, T>(std::io::Cursor::new(bytes), mk_opts(j.opts)) }),
        3 => {
            let r = Chunky { data: bytes, pos: 0, step: 1, fail_at: None };
            out.push(if dflt { serde_saphyr::from_reader::<_, T>(r) } else { serde_saphyr::from_reader_with_options::<_, T>(r, mk_opts(j.opts)) });
        }
        4 => {
            let r = Chunky { data: bytes, pos: 0, step: 2, fail_at: Some(bytes.len() / 2) };
            out.push(serde_saphyr::from_reader_with_options::<_, T>(r, mk_opts(j.opts)));
        }
        5 => {
            let t = text.unwrap();
            match if dflt { serde_saphyr::from_multiple::<T>(t) } else { serde_saphyr::from_multiple_with_options::<T>(t, mk_opts(j.opts)) } {
                Ok(v) => out.oks += v.len().max(1),
                Err(e) => out.errs.push(e),
            }
        }
        6 => match if dflt { serde_saphyr::from_slice_multiple::<T>(bytes) } else { serde_saphyr::from_slice_multiple_with_options::<T>(bytes, mk_opts(j.opts)) } {
            Ok(v) => out.oks += v.len().max(1),
            Err(e) => out.errs.push(e),
        },
        7 => {
            let mut rd = Chunky { data: bytes, pos: 0, step: 3, fail_at: None };
            let it: Box<dyn Iterator<Item = Result<T, Error>>> = if dflt { serde_saphyr::read::<_, T>(&mut rd) } else { Box::new(serde_saphyr::read_with_options::<_, T>(&mut rd, mk_opts(j.opts))) };
            let cap = bytes.len() + 4;
            let mut n = 0usize;
            for item in it {
                n += 1;
                if n > cap {
                    out.note = Some(format!("iterator-never-ends: more than {cap} items from {} bytes", bytes.len()));
                    break;
                }
                match item {
                    Ok(_) => out.oks += 1,
                    Err(e) => {
                        if out.errs.len() < 8 {
                            out.errs.push(e)
                        }
                    }
                }
            }
        }
        8 => {
            let t = text.unwrap();
            out.push(if dflt { serde_saphyr::with_deserializer_from_str(t, |de| T::deserialize(de)) } else { serde_saphyr::with_deserializer_from_str_with_options(t, mk_opts(j.opts), |de| T::deserialize(de)) });
        }
        9 => out.push(if dflt { serde_saphyr::with_deserializer_from_slice(bytes, |de| T::deserialize(de)) } else { serde_saphyr::with_deserializer_from_slice_with_options(bytes, mk_opts(j.opts), |de| T::deserialize(de)) }),
        10 => {
            let r = Chunky { data: bytes, pos: 0, step: 2, fail_at: None };
            out.push(if dflt { serde_saphyr::with_deserializer_from_reader(r, |de| T::deserialize(de)) } else { serde_saphyr::with_deserializer_from_reader_with_options(r, mk_opts(j.opts), |de| T::deserialize(de)) });
        }
        _ => {
            let t = text.unwrap();
            out.push(serde_saphyr::with_deserializer_from_str_with_options(t, mk_opts(j.opts), |_de| Ok(())));
        }
    }
    out
}

fn run_borrowed<'de, T: Deserialize<'de>>(j: &'de Job) -> Out {
    let mut out = Out::default();
    let text = std::str::from_utf8(&j.input).ok();
    let bytes = &j.input[..];
    let entry = match (j.entry % 4, text) {
        (0, Some(_)) => 0,
        (2, Some(_)) => 8,
        (1, _) | (0, None) => 1,
        _ => 9,
    };
    match entry {
        0 => out.push(serde_saphyr::from_str_with_options::<T>(text.unwrap(), mk_opts(j.opts))),
        1 => out.push(serde_saphyr::from_slice_with_options::<T>(bytes, mk_opts(j.opts))),
        8 => out.push(serde_saphyr::with_deserializer_from_str_with_options(text.unwrap(), mk_opts(j.opts), |de| T::deserialize(de))),
        _ => out.push(serde_saphyr::with_deserializer_from_slice_with_options(bytes, mk_opts(j.opts), |de| T::deserialize(de))),
    }
    out
}

fn run_job(j: &Job) -> Out {
    match j.ty {
        0 => run_owned::<Value>(j),
        1 => run_owned::<Plain>(j),
        2 => run_owned::<En>(j),
        3 => run_owned::<Untagged>(j),
        4 => run_owned::<Internal>(j),
        5 => run_owned::<Adjacent>(j),
        6 => run_owned::<Flat>(j),
        7 => run_owned::<Deny>(j),
        8 => run_owned::<UnitS>(j),
        9 => run_owned::<Newtype>(j),
        10 => run_owned::<TupleS>(j),
        11 => run_owned::<Rec>(j),
        12 => run_owned::<Bytes>(j),
        13 => run_owned::<ByteBuf>(j),
        14 => run_owned::<String>(j),
        15 => run_owned::<i8>(j),
        16 => run_owned::<u64>(j),
        17 => run_owned::<f32>(j),
        18 => run_owned::<f64>(j),
        19 => run_owned::<bool>(j),
        20 => run_owned::<char>(j),
        21 => run_owned::<()>(j),
        22 => run_owned::<Option<Option<i32>>>(j),
        23 => run_owned::<Vec<Option<String>>>(j),
        24 => run_owned::<BTreeMap<String, Vec<i64>>>(j),
        25 => run_owned::<HashMap<i32, bool>>(j),
        26 => run_owned::<Vec<(String, f64)>>(j),
        27 => run_owned::<[u8; 3]>(j),
        28 => run_owned::<(i32, String)>(j),
        29 => run_owned::<serde::de::IgnoredAny>(j),
        30 => run_owned::<WithSpans>(j),
        31 => run_owned::<Shared>(j),
        32 => run_owned::<i128>(j),
        33 => run_owned::<u8>(j),
        34 => run_owned::<i16>(j),
        35 => run_owned::<u32>(j),
        36 => run_owned::<BTreeMap<Vec<String>, i32>>(j),
        37 => run_owned::<Vec<En>>(j),
        38 => run_owned::<Option<UnitS>>(j),
        39 => run_borrowed::<&str>(j),
        40 => run_borrowed::<Borrowed>(j),
        41 => run_borrowed::<&[u8]>(j),
        42 => run_borrowed::<Cow<str>>(j),
        _ => run_borrowed::<Vec<&str>>(j),
    }
}

/// every way of turning the error into text; returns the number of bytes produced
fn render_all(e: &Error, source: Option<&str>) -> usize {
    let mut n = 0;
    n += e.to_string().len();
    n += format!("{e:?}").len();
    n += e.render().len();
    n += e.render_with_formatter(&serde_saphyr::DefaultMessageFormatter).len();
    n += e.render_with_formatter(&serde_saphyr::UserMessageFormatter).len();
    let user = serde_saphyr::UserMessageFormatter;
    let o = serde_saphyr::render_options! { formatter: &user, snippets: serde_saphyr::SnippetMode::Off };
    n += e.render_with_options(o).len();
    let _ = e.location();
    let _ = e.locations();
    n += e.without_snippet().to_string().len();
    if let Some(src) = source {
        let rep = serde_saphyr::miette::to_miette_report(e, src, "input.yaml");
        n += format!("{rep:?}").len();
        n += format!("{rep}").len();
    }
    n
}

fn panic_text(p: Box<dyn std::any::Any + Send>) -> String {
    if let Some(s) = p.downcast_ref::<&str>() {
        s.to_string()
    } else if let Some(s) = p.downcast_ref::<String>() {
        s.clone()
    } else {
        "panic".to_string()
    }
}

/// Run one job in this thread.  Returns (failures as (class, what), outcome label).
fn exec(j: &Job) -> (Vec<(String, String)>, String) {
    let mut fails = Vec::new();
    let t0 = Instant::now();
    let r = catch_unwind(AssertUnwindSafe(|| run_job(j)));
    let label;
    match r {
        Err(p) => {
            fails.push(("panic".to_string(), format!("{} panicked: {}", ENTRY_NAMES[j.entry as usize], panic_text(p))));
            label = "panic".to_string();
        }
        Ok(out) => {
            if let Some(n) = &out.note {
                fails.push(("hang".to_string(), n.clone()));
            }
            label = if out.errs.is_empty() { "ok".to_string() } else { format!("err:{}", crate::coq::variant_name(&out.errs[0])) };
            let src = std::str::from_utf8(&j.input).ok();
            for e in &out.errs {
                // miette rendering of very large sources is quadratic in nothing we claim; cap the source
                let src = src.filter(|s| s.len() <= 200_000);
                if let Err(p) = catch_unwind(AssertUnwindSafe(|| render_all(e, src))) {
                    fails.push(("render-panic".to_string(), format!("rendering {} panicked: {}", crate::coq::variant_name(e), panic_text(p))));
                }
            }
        }
    }
    // a job that takes long but finishes is not a violation of totality (hangs are caught by the parent's
    // watchdog); the slowest ones are reported in the distribution
    let dt = t0.elapsed().as_secs_f64();
    let label = if dt > 10.0 { format!("{label} (took more than 10 s)") } else { label };
    (fails, label)
}

// ------------------------------------------------------------------ job enumeration

const TOKENS: &[&str] = &[
    "-", " ", "\n", ":", "?", "[", "]", "{", "}", ",", "&a", "*a", "!", "!!", "|", ">", "'", "\"", "#", "%", "@", "`", "a", "1", "<<", "---", "...", "~", "\t", "\\", "\r", "\u{FEFF}", "é", "0x", "!!binary", "!!str", "=", "- ", ": ",
    "&", "*",
];

fn mix(i: u64) -> u64 {
    let mut z = i.wrapping_add(0x9E37_79B9_7F4A_7C15);
    z = (z ^ (z >> 30)).wrapping_mul(0xBF58_476D_1CE4_E5B9);
    z = (z ^ (z >> 27)).wrapping_mul(0x94D0_49BB_1331_11EB);
    z ^ (z >> 31)
}

/// `d` nested block levels written one line per level, indentation growing by `step` (O(d^2) bytes)
fn nest_lines(d: usize, step: usize, line: impl Fn(usize) -> String, innermost: &str) -> String {
    let mut s = String::new();
    for i in 0..d {
        s.push_str(&" ".repeat(i * step));
        s.push_str(&line(i));
        s.push('\n');
    }
    s.push_str(&" ".repeat(d * step));
    s.push_str(innermost);
    s.push('\n');
    s
}

/// The parser caps FLOW nesting at 255 levels, so depth has to come from block style.
fn deep_inputs(d: usize) -> Vec<(&'static str, String)> {
    let mut v: Vec<(&'static str, String)> = Vec::new();
    v.push(("block-seq", format!("{}x", "- ".repeat(d))));
    v.push(("explicit-keys", format!("{}x", "? ".repeat(d))));
    v.push(("complex-key-deep-seq", format!("? {}x\n: 1\n", "- ".repeat(d.saturating_sub(1)))));
    v.push(("alias-of-deep", format!("a: &a\n  {}x\nb: *a\nc: *a\n", "- ".repeat(d.saturating_sub(2)))));
    v.push(("flow-seq (parser limit)", format!("{}{}", "[".repeat(d), "]".repeat(d))));
    v.push(("flow-map (parser limit)", format!("{}1{}", "{a: ".repeat(d), "}".repeat(d))));
    v.push(("seq-in-flow-in-seq", format!("{}[[[[x]]]]", "- ".repeat(d.saturating_sub(4)))));
    if d == 2000 {
        // depth reached through alias replay only: each anchor wraps an alias of the previous one in 400 block
        // sequence levels; 40 links expand to 16 000 levels, far beyond max_depth, with 400 levels in the text
        let mut t = format!("a0: &a0\n  {}x\n", "- ".repeat(400));
        for k in 1..40 {
            t.push_str(&format!("a{k}: &a{k}\n  {}*a{}\n", "- ".repeat(400), k - 1));
        }
        v.push(("alias-depth-chain", t));
        let mut t = format!("a0: &a0\n{}", nest_lines(300, 1, |_| "m:".to_string(), "k: v").lines().map(|l| format!("  {l}\n")).collect::<String>());
        for k in 1..20 {
            t.push_str(&format!("a{k}: &a{k}\n{}", nest_lines(300, 1, |_| "m:".to_string(), &format!("k: *a{}", k - 1)).lines().map(|l| format!("  {l}\n")).collect::<String>()));
        }
        v.push(("alias-depth-chain-maps", t));
    }
    if d <= 2100 {
        v.push(("block-map", nest_lines(d, 1, |_| "a:".to_string(), "x")));
        v.push(("block-seq-lines", nest_lines(d, 1, |_| "-".to_string(), "- x")));
        v.push(("anchored-nest", nest_lines(d, 1, |i| format!("- &a{i}"), "- x")));
        v.push(("merge-nest", nest_lines(d, 1, |_| "<<:".to_string(), "k: v")));
        v.push(("map-seq-alternating", nest_lines(d / 2, 2, |_| "- a:".to_string(), "- x")));
        v.push(("rec-enum", nest_lines(d / 2, 2, |_| "- Node:".to_string(), "- Leaf: 1")));
        v.push(("rec-enum-root", format!("Node:\n{}", nest_lines(d / 2 - 1, 2, |_| "- Node:".to_string(), "- Leaf: 1"))));
        {
            let mut t = String::new();
            for i in 0..d {
                t.push_str(&" ".repeat(i));
                t.push_str("k: 1\n");
                t.push_str(&" ".repeat(i));
                t.push_str("opt:\n");
            }
            t.push_str(&" ".repeat(d));
            t.push_str("k: 1\n");
            v.push(("deny-box", t));
        }
        v.push(("anchored-maps-then-aliases", format!("{}\nz: [*m0, *m{}]\n", nest_lines(d.min(1500), 1, |i| format!("m: &m{i}"), "k: v").trim_end(), d.min(1500) - 1)));
        v.push(("tagged-nest", nest_lines(d, 1, |_| "- !t".to_string(), "- x")));
    }
    v
}

fn wide_inputs(thorough: bool) -> Vec<(&'static str, String)> {
    let k = if thorough { 4 } else { 1 };
    vec![
        ("wide-seq", "- a\n".repeat(60_000 * k)),
        ("wide-flow", format!("[{}]", "1,".repeat(100_000 * k))),
        ("commas", format!("[{}", ",".repeat(200_000 * k))),
        ("long-scalar", "a".repeat(2_000_000 * k)),
        ("long-line-error", format!("{}: : :", "a".repeat(1_000_000 * k))),
        ("long-line-error-multibyte", format!("{}: : :", "é".repeat(500_000 * k))),
        ("many-docs", "---\na\n".repeat(3_000)),
        ("many-anchors", (0..60_000).map(|i| format!("- &a{i} x\n")).collect()),
        ("many-aliases", format!("- &a x\n{}", "- *a\n".repeat(60_000))),
        ("long-key", format!("{}: 1", "k".repeat(1_000_000))),
        ("many-keys", (0..50_000 * k).map(|i| format!("k{i}: {i}\n")).collect()),
        ("dup-keys", "k: 1\n".repeat(50_000)),
        ("many-merges", format!("base: &b {{x: 1}}\nm:\n{}", "  <<: *b\n".repeat(20_000))),
        ("long-comment", format!("a: 1 #{}\nb: [", "c".repeat(1_000_000))),
        ("many-lines-then-error", format!("{}]", "a: 1\n".repeat(100_000))),
        ("crlf-lines-then-error", format!("{}]", "a: 1\r\n".repeat(50_000))),
        ("cr-lines-then-error", format!("{}]", "a: 1\r".repeat(50_000))),
        ("long-tag", format!("!{} x", "t".repeat(500_000))),
        ("long-quoted-escapes", format!("\"{}\"", "\\n\\t\\u00e9".repeat(100_000))),
        ("binary-long", format!("!!binary {}", "QUJD".repeat(200_000))),
        ("digits", "9".repeat(1_000_000)),
        ("underscored-digits", format!("1{}", "_1".repeat(300_000))),
        ("sexagesimal", format!("1{}", ":59".repeat(200_000))),
    ]
}

fn scalar_edge_inputs() -> Vec<String> {
    let prefixes = ["", "+", "-", " ", "!!int ", "!!float ", "!!binary ", "!!str ", "!!bool ", "!!null ", "! ", "!!timestamp ", "- ", "k: ", "&a ", "[", "? "];
    let cores = [
        "0x", "0o", "0b", "00", "0", "08", "0x_", "0xg", "é", "0é", "00é", "0xé", "0Xé", "0b2", "0o8", "1_", "_", "__", "1e", "1e+", ".", ".e", "-.", "..", ".inf", ".nan", ".Inf", "1:", "1:2:3", ":", "~", "", "a", "==", "Q", "QQ", "QQ=", "Q===", "=", "\u{80}",
        "0x7fffffffffffffffffffffffffffffff", "0x80000000000000000000000000000000", "-0x80000000000000000000000000000000", "340282366920938463463374607431768211455", "340282366920938463463374607431768211456",
        "-170141183460469231731687303715884105728", "-170141183460469231731687303715884105729", "1e400", "-1e400", "1e-400", "0e0", "0x1p3", "1_000", "١٢٣", "１２３", "+-1", "--1", "++1", "- 1", "1 ", "'1'", "\"1\"", "|\n 1", ">\n 1", "true", "True", "TRUE", "y", "Y",
        "yes", "on", "off", "null", "Null", "NULL", "180deg", "1rad", "pi", "2*pi", "1+1", "(1)", "((((1))))", "1e", "deg", "-", "+", "0x-1", "0o-1", "0b-1", "-0x", "+0x", "-00", "+00", "000", "0_0", "00_", "0x__", "12345678901234567890123", "1.7976931348623157e308", "1.7976931348623159e308", "4.9e-324",
        "aé", "\u{10FFFF}", "a\u{0301}", "ab", "'ab'", "'\u{e9}'", "\"\\x41\"", "\"\\u0041\\u0301\"", "\"\\", "\"\\x", "\"\\u12", "\"\\U0011", "\"\\U00110000\"", "\"\\ud800\"", "'", "''", "'''",
    ];
    let mut v = Vec::new();
    for p in prefixes {
        for c in cores {
            v.push(format!("{p}{c}"));
        }
    }
    v
}

/// byte-level mutation, invalid UTF-8 included
fn mutate_bytes(rng: &mut Rng, text: &[u8]) -> Vec<u8> {
    let mut out = text.to_vec();
    let n = 1 + rng.below(3);
    for _ in 0..n {
        let pos = if out.is_empty() { 0 } else { rng.below(out.len() + 1) };
        match rng.below(7) {
            0 => out.insert(pos.min(out.len()), *rng.pick(&[b'[', b']', b'{', b'}', b':', b',', b'&', b'*', b'!', b'|', b'>', b'\'', b'"', b'#', b'-', b'?', b'\n', b' ', b'\t', b'%', b'@', b'`', b'\r', 0, 0x80, 0xff, 0xc3, 0xe2, 0xf0, 0xed])),
            1 if !out.is_empty() => {
                out.remove(pos.min(out.len() - 1));
            }
            2 if !out.is_empty() => {
                let p = pos.min(out.len() - 1);
                out[p] ^= 1 << rng.below(8);
            }
            3 if !out.is_empty() => out.truncate(pos),
            4 if !out.is_empty() => {
                // duplicate a slice
                let a = rng.below(out.len());
                let b = (a + 1 + rng.below(12)).min(out.len());
                let piece = out[a..b].to_vec();
                let at = pos.min(out.len());
                out.splice(at..at, piece);
            }
            5 => {
                let tok = rng.pick(TOKENS).as_bytes().to_vec();
                let at = pos.min(out.len());
                out.splice(at..at, tok);
            }
            _ => {
                let at = pos.min(out.len());
                out.splice(at..at, "\u{2028}é\u{FEFF}".bytes().skip(rng.below(4)).take(1 + rng.below(5)));
            }
        }
    }
    out
}

/// Enumerate the jobs of a run in a fixed order; `f` returns false to stop.
fn for_each_job(tier: Tier, seed: u64, f: &mut dyn FnMut(usize, Job) -> bool) {
    let quick = tier == Tier::Quick;
    let mut i = 0usize;
    macro_rules! emit {
        ($job:expr) => {{
            if !f(i, $job) {
                return;
            }
            i += 1;
        }};
    }
    let nt = TOKENS.len();
    // C: pathological deep inputs around the depth limit of the default budget (first: they are the slow ones)
    let depths: &[usize] = if quick { &[1990, 1999, 2000, 2001, 2500, 20_000] } else { &[1000, 1900, 1990, 1998, 1999, 2000, 2001, 2002, 2100, 4000, 20_000, 200_000] };
    for &d in depths {
        for (name, text) in deep_inputs(d) {
            // shapes whose cost grows with the square or cube of the depth run under two targets and one entry point
            let costly = matches!(name, "merge-nest" | "explicit-keys" | "complex-key-deep-seq" | "anchored-nest" | "anchored-maps-then-aliases");
            for (k, &ty) in DEEP_TYPES.iter().enumerate() {
                if costly && !(ty == 0 || ty == 29) {
                    continue;
                }
                let entries: &[u8] = if costly { &[0] } else if quick { &[0, 3, 7] } else { &[0, 1, 2, 3, 5, 7, 8, 10] };
                for &entry in entries {
                    let opts = DEFAULT_DEPTH_OPTS[(k + entry as usize + d) % DEFAULT_DEPTH_OPTS.len()];
                    emit!(Job { input: text.clone().into_bytes(), entry, opts, ty, fam: "deep", heavy: true });
                }
            }
        }
    }
    for (name, text) in wide_inputs(!quick) {
        let _ = name;
        for (k, &ty) in [0u8, 29, 24, 23, 14, 1, 36].iter().enumerate() {
            let entry = [0u8, 2, 7, 5, 3, 8, 10][k];
            emit!(Job { input: text.clone().into_bytes(), entry, opts: [0u8, 6, 8, 0, 7, 4, 3][k], ty, fam: "wide", heavy: true });
        }
    }
    // D: an alias to an anchor that is still open, below k nested anchored containers (flow and block)
    for k in [1usize, 2, 3, 7, 8, 9, 16, 40, 100] {
        for target in [1usize, k] {
            let mut t = String::new();
            for i in 1..=k {
                t.push_str(&format!("&a{i} ["));
            }
            t.push_str(&format!("*a{target}"));
            t.push_str(&"]".repeat(k));
            let mut b = String::from("r:\n");
            for i in 1..=k {
                b.push_str(&format!("{}- &b{i}\n", " ".repeat(i)));
            }
            b.push_str(&format!("{}- *b{target}\n", " ".repeat(k + 1)));
            for text in [t, b] {
                for (j, &ty) in [0u8, 29, 23, 31, 3].iter().enumerate() {
                    let entry = [0u8, 3, 7, 2, 5][j];
                    emit!(Job { input: text.clone().into_bytes(), entry, opts: [0u8, 1, 9, 10, 0][j], ty, fam: "recursive-alias-under-anchors", heavy: false });
                }
            }
        }
    }
    // E: long runs of one operator / sign / parenthesis for the expression evaluator (angle_conversions) and the number parsers
    for n in [1_000usize, 100_000, 1_000_000] {
        for text in [format!("x: {}1", "-".repeat(n)), format!("{}1", "+".repeat(n)), format!("1{}", "+1".repeat(n / 2)), format!("{}1", "- ".repeat(n.min(1000))), format!("{}1{}", "(".repeat(n.min(100_000)), ")".repeat(n.min(100_000))), format!("1{}", "_".repeat(n)), format!("0x{}", "f".repeat(n))] {
            for &ty in &[18u8, 17, 0, 32, 16] {
                emit!(Job { input: text.clone().into_bytes(), entry: 0, opts: 4, ty, fam: "long-operator-run", heavy: true });
                emit!(Job { input: text.clone().into_bytes(), entry: 3, opts: 0, ty, fam: "long-operator-run", heavy: true });
            }
        }
    }
    // A0: every token string of length <= 1 x every type x every entry x every option vector
    let mut short: Vec<String> = vec![String::new()];
    short.extend(TOKENS.iter().map(|t| t.to_string()));
    for s in &short {
        for ty in 0..N_TYPES {
            for entry in 0..N_ENTRIES {
                for opts in 0..N_OPTS {
                    emit!(Job { input: s.clone().into_bytes(), entry, opts, ty, fam: "tokens<=1 x all", heavy: false });
                }
            }
        }
    }
    // A1: length 2 x every type, rotating entry/options (thorough: x every entry)
    for a in 0..nt {
        for b in 0..nt {
            let s = format!("{}{}", TOKENS[a], TOKENS[b]);
            for ty in 0..N_TYPES {
                let h = mix((a * nt + b) as u64 * 64 + ty as u64);
                if quick {
                    for r in 0..2u64 {
                        let h = mix(h + r);
                        emit!(Job { input: s.clone().into_bytes(), entry: (h % N_ENTRIES as u64) as u8, opts: ((h >> 8) % N_OPTS as u64) as u8, ty, fam: "tokens=2", heavy: false });
                    }
                } else {
                    for entry in 0..N_ENTRIES {
                        emit!(Job { input: s.clone().into_bytes(), entry, opts: ((h >> 8).wrapping_add(entry as u64) % N_OPTS as u64) as u8, ty, fam: "tokens=2", heavy: false });
                    }
                }
            }
        }
    }
    // A2: length 3 (thorough: x every type; quick: three rotating combinations)
    for a in 0..nt {
        for b in 0..nt {
            for c in 0..nt {
                let s = format!("{}{}{}", TOKENS[a], TOKENS[b], TOKENS[c]);
                let base = mix(((a * nt + b) * nt + c) as u64);
                if quick {
                    for r in 0..3u64 {
                        let h = mix(base + r);
                        emit!(Job { input: s.clone().into_bytes(), entry: (h % N_ENTRIES as u64) as u8, opts: ((h >> 8) % N_OPTS as u64) as u8, ty: ((h >> 16) % N_TYPES as u64) as u8, fam: "tokens=3", heavy: false });
                    }
                } else {
                    for ty in 0..N_TYPES {
                        let h = mix(base + ty as u64);
                        emit!(Job { input: s.clone().into_bytes(), entry: (h % N_ENTRIES as u64) as u8, opts: ((h >> 8) % N_OPTS as u64) as u8, ty, fam: "tokens=3", heavy: false });
                    }
                }
            }
        }
    }
    // A3 (thorough): length 4, two rotating combinations each
    if !quick {
        for a in 0..nt {
            for b in 0..nt {
                for c in 0..nt {
                    for d in 0..nt {
                        let s = format!("{}{}{}{}", TOKENS[a], TOKENS[b], TOKENS[c], TOKENS[d]);
                        let base = mix((((a * nt + b) * nt + c) * nt + d) as u64 ^ 0x44);
                        for r in 0..2u64 {
                            let h = mix(base + r);
                            emit!(Job { input: s.clone().into_bytes(), entry: (h % N_ENTRIES as u64) as u8, opts: ((h >> 8) % N_OPTS as u64) as u8, ty: ((h >> 16) % N_TYPES as u64) as u8, fam: "tokens=4", heavy: false });
                        }
                    }
                }
            }
        }
    }
    // B: scalar edge cases x scalar-like types x plain / legacy-octal / angle options
    for s in scalar_edge_inputs() {
        for &ty in SCALAR_TYPES {
            for (k, opts) in [0u8, 3, 4, 5].into_iter().enumerate() {
                let entry = [0u8, 1, 3, 8][(k + ty as usize) % 4];
                emit!(Job { input: s.clone().into_bytes(), entry, opts, ty, fam: "scalar-edges", heavy: false });
            }
        }
    }
    // D: generated documents, as they are and mutated at the byte level
    let mut rng = Rng(seed ^ 0xC01);
    let ndocs = if quick { 2500 } else { 60_000 };
    for n in 0..ndocs {
        let cfg = docgen::GenCfg { bad_aliases: n % 7 == 0, ..docgen::GenCfg::default_for(4 + n % 24) };
        let doc = docgen::gen_doc(&mut rng, &cfg);
        let mut text = docgen::render_doc(&doc).into_bytes();
        if n % 3 != 0 {
            text = mutate_bytes(&mut rng, &text);
        }
        if n % 11 == 0 {
            let mut more = b"\n---\n".to_vec();
            more.extend(mutate_bytes(&mut rng, &text));
            text.extend(more);
        }
        for _ in 0..(if quick { 3 } else { 4 }) {
            let h = rng.next_u64();
            emit!(Job { input: text.clone(), entry: (h % N_ENTRIES as u64) as u8, opts: ((h >> 8) % N_OPTS as u64) as u8, ty: ((h >> 16) % N_TYPES as u64) as u8, fam: "generated+mutated", heavy: false });
        }
    }
    let _ = i;
}

fn nth_job(tier: Tier, seed: u64, idx: usize) -> Option<Job> {
    let mut found = None;
    for_each_job(tier, seed, &mut |i, j| {
        if i == idx {
            found = Some(j);
            false
        } else {
            true
        }
    });
    found
}

// ------------------------------------------------------------------ worker (child process)

const STACK: usize = 8 << 20;

/// `VERIF_C01_WORKER=k:n:start:trace` -- run the jobs i with i % n == k, i >= start
fn worker(spec: &str, tier: Tier, seed: u64) -> ! {
    let parts: Vec<usize> = spec.split(':').map(|x| x.parse().unwrap_or(0)).collect();
    let (k, n, start, trace) = (parts[0], parts[1].max(1), parts[2], parts[3] != 0);
    let h = std::thread::Builder::new()
        .stack_size(STACK)
        .spawn(move || {
            use std::io::Write;
            let so = std::io::stdout();
            let mut dist: BTreeMap<String, u64> = BTreeMap::new();
            let mut done = 0u64;
            for_each_job(tier, seed, &mut |i, j| {
                if i % n != k || i < start {
                    return true;
                }
                if trace || j.heavy || done % 64 == 0 {
                    let mut l = so.lock();
                    let _ = writeln!(l, "C {i}");
                    let _ = l.flush();
                }
                let (fails, label) = exec(&j);
                done += 1;
                *dist.entry(format!("family:{}", j.fam)).or_insert(0) += 1;
                *dist.entry(format!("entry:{}", ENTRY_NAMES[j.entry as usize])).or_insert(0) += 1;
                *dist.entry(format!("outcome:{label}")).or_insert(0) += 1;
                for (class, what) in fails {
                    let mut l = so.lock();
                    let _ = writeln!(l, "F {}", json!({"i": i, "class": class, "what": what, "job": j.json()}));
                    let _ = l.flush();
                }
                true
            });
            let mut l = so.lock();
            let _ = writeln!(l, "END {}", json!({"done": done, "dist": dist}));
            let _ = l.flush();
        })
        .unwrap();
    let _ = h.join();
    std::process::exit(0);
}

struct ShardResult {
    done: u64,
    dist: BTreeMap<String, u64>,
    failures: Vec<Value>,
    notes: Vec<String>,
}

enum ChildEnd {
    Finished,
    Died(String),
    Hung,
}

fn run_child(k: usize, n: usize, start: usize, trace: bool, tier: Tier, seed: u64, hang_secs: u64, res: &mut ShardResult) -> (ChildEnd, Option<usize>) {
    let exe = std::env::current_exe().unwrap();
    let mut child = Command::new(exe)
        .arg("c01")
        .arg("--tier")
        .arg(if tier == Tier::Quick { "quick" } else { "thorough" })
        .arg("--seed")
        .arg(seed.to_string())
        .env("VERIF_C01_WORKER", format!("{k}:{n}:{start}:{}", trace as u8))
        .stdout(Stdio::piped())
        .stderr(Stdio::null())
        .spawn()
        .expect("spawn worker");
    let stdout = child.stdout.take().unwrap();
    let (tx, rx) = mpsc::channel::<String>();
    let reader = std::thread::spawn(move || {
        for line in BufReader::new(stdout).lines() {
            match line {
                Ok(l) => {
                    if tx.send(l).is_err() {
                        break;
                    }
                }
                Err(_) => break,
            }
        }
    });
    let mut last: Option<usize> = None;
    let mut finished = false;
    let end;
    loop {
        match rx.recv_timeout(Duration::from_secs(hang_secs)) {
            Ok(l) => {
                if let Some(rest) = l.strip_prefix("C ") {
                    last = rest.trim().parse().ok();
                } else if let Some(rest) = l.strip_prefix("F ") {
                    if let Ok(v) = serde_json::from_str::<Value>(rest) {
                        res.failures.push(v);
                    }
                } else if let Some(rest) = l.strip_prefix("END ") {
                    if let Ok(v) = serde_json::from_str::<Value>(rest) {
                        res.done += v["done"].as_u64().unwrap_or(0);
                        if let Some(m) = v["dist"].as_object() {
                            for (key, val) in m {
                                *res.dist.entry(key.clone()).or_insert(0) += val.as_u64().unwrap_or(0);
                            }
                        }
                    }
                    finished = true;
                }
            }
            Err(mpsc::RecvTimeoutError::Timeout) => {
                let _ = child.kill();
                let _ = child.wait();
                end = ChildEnd::Hung;
                break;
            }
            Err(mpsc::RecvTimeoutError::Disconnected) => {
                let st = child.wait();
                end = if finished {
                    ChildEnd::Finished
                } else {
                    ChildEnd::Died(match st {
                        Ok(s) => {
                            use std::os::unix::process::ExitStatusExt;
                            match s.signal() {
                                Some(sig) => format!("killed by signal {sig}"),
                                None => format!("exit status {:?}", s.code()),
                            }
                        }
                        Err(e) => format!("wait failed: {e}"),
                    })
                };
                break;
            }
        }
    }
    let _ = reader.join();
    (end, last)
}

fn run_shard(k: usize, n: usize, tier: Tier, seed: u64) -> ShardResult {
    let mut res = ShardResult { done: 0, dist: BTreeMap::new(), failures: Vec::new(), notes: Vec::new() };
    let hang_secs = if tier == Tier::Quick { 300 } else { 600 };
    let mut start = 0usize;
    let mut trace = false;
    let mut incidents = 0;
    loop {
        // a restarted child counts the jobs it re-runs again: keep the count of completed runs only
        let before = res.done;
        let (end, last) = run_child(k, n, start, trace, tier, seed, hang_secs, &mut res);
        match end {
            ChildEnd::Finished => break,
            ChildEnd::Died(_) | ChildEnd::Hung if !trace => {
                // locate the job: restart from the last checkpoint, reporting every job
                res.done = before;
                start = last.unwrap_or(start);
                trace = true;
            }
            ChildEnd::Died(how) => {
                let i = last.unwrap_or(start);
                let job = nth_job(tier, seed, i);
                res.failures.push(json!({"i": i, "class": "abort", "what": format!("the process running this job was {how} (8 MiB stack, release build): stack exhaustion or abort"), "job": job.map(|j| j.json())}));
                res.done = before;
                start = i + 1;
                trace = false;
                incidents += 1;
            }
            ChildEnd::Hung => {
                let i = last.unwrap_or(start);
                let job = nth_job(tier, seed, i);
                res.failures.push(json!({"i": i, "class": "hang", "what": format!("no progress for {hang_secs}s while running this job"), "job": job.map(|j| j.json())}));
                res.done = before;
                start = i + 1;
                trace = false;
                incidents += 1;
            }
        }
        if incidents > 12 {
            res.notes.push(format!("shard {k}: stopped after {incidents} aborts/hangs; jobs after index {start} of this shard were not run"));
            break;
        }
    }
    res
}

// ------------------------------------------------------------------ the property run (parent)

fn k_case(ctx: &mut Ctx, text: &str, budget: Option<Budget>, limits: AliasLimits) {
    let o = PumpOpts { budget, limits, stop: false, use_peek: false, max_events: 20_000 };
    let rs = rawcoq::raw_stream(live::strip_bom(text));
    let Ok((r, rep)) = crate::util::no_panic(|| live::run_pump(text, &o)) else {
        ctx.fail("panic", format!("the event pump panicked on {text:?}"), json!({"kind": "pump", "text": text, "options": o.json()}));
        return;
    };
    let nontrivial = r.error.is_some() || text.contains('*');
    let term = format!("CTotal {} {} {} {} {}", o.max_events, rawcoq::opt_budget(&o.budget), rawcoq::limits(&o.limits), rs.term(), live::pump_result_term(&r, &rep));
    ctx.case(term, nontrivial, json!({"kind": "pump", "text": text, "options": o.json()}));
}

pub fn run(ctx: &mut Ctx) {
    if let Ok(spec) = std::env::var("VERIF_C01_WORKER") {
        crate::util::quiet_panics();
        worker(&spec, ctx.tier, ctx.seed);
    }
    crate::util::quiet_panics();
    ctx.set_case_format("From SS Require Import Corr.Totality.\nLocal Open Scope N_scope.", "tcase", "check_tcase");
    ctx.rule = "cases: the live event pump on every string of <= 2 tokens of the indicator alphabet, on generated documents with anchors / aliases / merges and on their mutations, under (default budget, default alias limits) and (no budget, max_total_replayed_events = 5); \
                distinct = distinct Coq case term; non-trivial = the run ends in an error or the text has an alias. \
                direct search: jobs = (input, entry point, option vector, target type), see the distribution; each job runs in a child process on an 8 MiB stack under catch_unwind, every returned error is rendered every way"
        .into();
    let tier = ctx.tier;
    let seed = ctx.seed;
    if let Some(r) = ctx.replay.clone() {
        // replay of one job: rebuild it from its ids and input
        if r["kind"] == "job" {
            let input: Vec<u8> = match r["input_hex"].as_str() {
                Some(h) => (0..h.len() / 2).map(|i| u8::from_str_radix(&h[2 * i..2 * i + 2], 16).unwrap_or(0)).collect(),
                None => r["input_text"].as_str().unwrap_or("").as_bytes().to_vec(),
            };
            let j = Job { input, entry: r["entry_id"].as_u64().unwrap_or(0) as u8, opts: r["opts_id"].as_u64().unwrap_or(0) as u8, ty: r["type_id"].as_u64().unwrap_or(0) as u8, fam: "replay", heavy: true };
            let h = std::thread::Builder::new().stack_size(STACK).spawn(move || exec(&j)).unwrap();
            match h.join() {
                Ok((fails, label)) => println!("replay: outcome {label}; failures {fails:?}"),
                Err(_) => println!("replay: the job thread died"),
            }
        } else {
            println!("replay: {r}");
        }
        return;
    }

    // ---- K: the event pump
    let mut texts: Vec<String> = vec![String::new()];
    for a in TOKENS {
        texts.push(a.to_string());
        for b in TOKENS {
            texts.push(format!("{a}{b}"));
        }
    }
    for a in ["&a [x, *a]", "a: &a [1, 2]\nb: *a\nc: *a\n", "&a {k: &b [x], l: *b}\n---\n*a\n", "- &x [a, b]\n- [*x, *x]\n- *x\n", "k: &a\n<<: *a\n", "&a a: *a", "- &a\n- *a", "[&a , *a]"] {
        texts.push(a.to_string());
    }
    let mut rng = ctx.rng.fork();
    let ndocs = if ctx.quick() { 250 } else { 4000 };
    for n in 0..ndocs {
        let cfg = docgen::GenCfg { bad_aliases: n % 5 == 0, ..docgen::GenCfg::default_for(4 + n % 20) };
        let doc = docgen::gen_doc(&mut rng, &cfg);
        let t = docgen::render_doc(&doc);
        texts.push(if n % 2 == 0 { t } else { docgen::mutate(&mut rng, &t) });
    }
    let tiny = AliasLimits { max_total_replayed_events: 5, max_replay_stack_depth: 2, max_alias_expansions_per_anchor: 3 };
    for t in &texts {
        k_case(ctx, t, Some(Budget::default()), AliasLimits::default());
        if t.contains('*') || t.len() <= 2 {
            k_case(ctx, t, None, tiny);
        }
    }

    // ---- S: the jobs, in 16 child processes
    let n = 16usize;
    let t0 = Instant::now();
    let handles: Vec<_> = (0..n).map(|k| std::thread::spawn(move || run_shard(k, n, tier, seed))).collect();
    for h in handles {
        let res = h.join().expect("shard thread");
        ctx.direct_evaluations += res.done;
        for (k, v) in res.dist {
            *ctx.distribution.entry(k).or_insert(0) += v;
        }
        for f in res.failures {
            let class = f["class"].as_str().unwrap_or("failure").to_string();
            let job = &f["job"];
            let what = format!("[{} | {} | {}] input {:?}: {}", job["entry"].as_str().unwrap_or("?"), job["options"].as_str().unwrap_or("?"), job["type"].as_str().unwrap_or("?"), job["input_text"].as_str().unwrap_or("?").chars().take(120).collect::<String>(), f["what"].as_str().unwrap_or(""));
            ctx.fail(&class, what, job.clone());
        }
        for nline in res.notes {
            ctx.fail("incomplete", nline.clone(), json!({"kind": "note", "text": nline}));
        }
    }
    ctx.count(&format!("jobs wall {:.0}s", t0.elapsed().as_secs_f64()));

    // ---- debug-profile stack probes: the largest nesting depth <= max_depth of the default budget that an
    // unoptimised build survives on an 8 MiB stack (the probe binary is built by ./check in the dev profile)
    let probe = std::env::current_exe().ok().and_then(|p| p.parent().and_then(|q| q.parent()).map(|q| q.join("debug").join("stack_probe")));
    if let Some(probe) = probe.filter(|p| p.exists()) {
        let mut any = false;
        for (shape, target) in [("seq", "value"), ("map", "value"), ("seq", "ignored"), ("rec", "rec"), ("key", "value")] {
            let survives = |d: usize| -> bool { Command::new(&probe).args([d.to_string(), shape.to_string(), target.to_string()]).stdout(Stdio::null()).stderr(Stdio::null()).status().map(|s| s.success()).unwrap_or(false) };
            ctx.direct_evaluations += 1;
            if survives(2000) {
                ctx.count(&format!("debug-profile probe {shape}/{target}: depth 2000 survives"));
                continue;
            }
            let (mut lo, mut hi) = (1usize, 2000usize); // lo survives (assumed), hi does not
            while hi - lo > 1 {
                let mid = (lo + hi) / 2;
                ctx.direct_evaluations += 1;
                if survives(mid) { lo = mid } else { hi = mid }
            }
            any = true;
            ctx.count(&format!("debug-profile probe {shape}/{target}: largest surviving depth {lo}"));
            ctx.fail("F51:debug-build-stack-within-default-depth", format!("unoptimised build, default options, 8 MiB stack: a document nested {hi} levels deep (shape {shape}, target {target}) aborts the process with a stack overflow although max_depth = 2000 admits it; the largest surviving depth is {lo}"), json!({"kind": "debug_stack_probe", "shape": shape, "target": target, "depth": hi}));
        }
        ctx.witness("F51", any, "debug-profile build: nesting well inside the default max_depth exhausts an 8 MiB stack");
    } else {
        ctx.notes.push("debug-profile stack probe binary not found: probes skipped".into());
    }
    ctx.notes.push(format!("target types: {}", TYPE_NAMES.join(" | ")));
    ctx.notes.push(format!("option vectors: {}", OPT_NAMES.join(" | ")));
    ctx.notes.push(format!("entry points: {}", ENTRY_NAMES.join(" | ")));
    let _ = N_OWNED;
}
