//! C15 -- a call's result depends only on its arguments, not on earlier or nested calls.
//!
//! K: scripted calls (store / lookup in the anchor table, anchor contexts, fallback-location guards,
//!    nested entry-point scopes, errors and real panics unwinding through the guards) run against the
//!    crate's real thread-local state, vs `SS.Model.ThreadState`.
//! S: sequences of real API calls (succeeding, failing inside an anchored node, failing inside an
//!    anchor wrapper, hitting a budget, nesting another parse inside a Deserialize impl, abandoning
//!    the iterator, panicking visitors, serialization): each call's result compared with the same
//!    call on a fresh thread.
//!    Call kinds include serializer calls of four option flavours over the same words.
use crate::coq;
use crate::ctx::{Ctx, Rng};
use crate::util;
use serde::Deserialize;
use serde_json::json;
use serde_saphyr::__verif::{self as hooks, TlAct};
use serde_saphyr::RcAnchor;
use std::collections::BTreeMap;
use std::rc::Rc;

fn gen_acts(rng: &mut Rng, depth: usize, n: usize) -> Vec<TlAct> {
    let mut v = Vec::new();
    for _ in 0..n {
        let k = rng.below(if depth == 0 { 4 } else { 12 });
        let m = 1 + rng.below(3);
        let id = rng.below(3);
        let line = 1 + rng.below(40) as u32;
        v.push(match k {
            0 | 1 => TlAct::Store(rng.below(4), rng.below(50) as u32),
            2 => TlAct::Lookup(rng.below(4)),
            3 => TlAct::ReadFallback,
            4 | 5 => TlAct::Anchor(id, gen_acts(rng, depth - 1, m)),
            6 | 7 => TlAct::Fallback(line, gen_acts(rng, depth - 1, m)),
            8 | 9 => TlAct::Scope(gen_acts(rng, depth - 1, m + 1)),
            10 => TlAct::Abort,
            _ => TlAct::Panic,
        });
    }
    v
}
fn acts_coq(a: &[TlAct]) -> String {
    let items: Vec<String> = a
        .iter()
        .map(|x| match x {
            TlAct::Store(i, v) => format!("AStore {i} {v}"),
            TlAct::Lookup(i) => format!("ALookup {i}"),
            TlAct::Anchor(i, b) => format!("AAnchor {i} {}", acts_coq(b)),
            TlAct::Fallback(l, b) => format!("AFallback {l} {}", acts_coq(b)),
            TlAct::ReadFallback => "AReadFallback".into(),
            TlAct::Scope(b) => format!("AScope {}", acts_coq(b)),
            TlAct::Abort | TlAct::Panic => "AAbort".into(),
        })
        .collect();
    coq::list(&items, "act")
}
fn nlist(v: &[u64]) -> String {
    coq::list(&v.iter().map(|x| x.to_string()).collect::<Vec<_>>(), "N")
}

// ---------- real API calls ----------
#[derive(Deserialize, Debug)]
struct Shared {
    a: RcAnchor<String>,
    b: RcAnchor<String>,
}
#[derive(Deserialize, Debug)]
#[allow(dead_code)]
struct Inner {
    k: i32,
}
#[derive(Deserialize, Debug)]
#[allow(dead_code)]
struct SharedInner {
    a: RcAnchor<Inner>,
    b: RcAnchor<Inner>,
}
#[derive(Deserialize, Debug)]
#[allow(dead_code)]
struct TwoFields {
    a: i32,
    z: i32,
}
#[derive(Deserialize, Debug)]
#[serde(tag = "type")]
#[allow(dead_code)]
enum Tagged {
    A { x: i32 },
}

/// a field whose Deserialize implementation runs another parse (and reports what it saw)
#[derive(Debug)]
struct Nests(String);
impl<'de> Deserialize<'de> for Nests {
    fn deserialize<D: serde::Deserializer<'de>>(d: D) -> Result<Self, D::Error> {
        let which = String::deserialize(d)?;
        let seen = match which.as_str() {
            "ok" => format!("{:?}", serde_saphyr::from_str::<BTreeMap<String, i32>>("p: 1\nq: 2\n")),
            "anchors" => format!("{:?}", serde_saphyr::from_str::<Shared>("a: &x inner\nb: *x\n").map(|s| (Rc::ptr_eq(&s.a.0, &s.b.0), s.a.0.to_string()))),
            "fails" => format!("{:?}", serde_saphyr::from_str::<Tagged>("5\n").map_err(|e| fmt_err(&e))),
            "same-id" => format!("{:?}", serde_saphyr::from_str::<RcAnchor<i32>>("&y 7\n").map(|r| *r.0).map_err(|e| fmt_err(&e))),
            "stream" => {
                let mut rd = std::io::Cursor::new(b"&x 7\n---\n8\n".to_vec());
                let items: Vec<String> = serde_saphyr::read::<_, RcAnchor<i32>>(&mut rd).map(|r| format!("{:?}", r.map(|v| *v.0).map_err(|e| fmt_err(&e)))).collect();
                format!("{items:?}")
            }
            "thread-ok" => std::thread::spawn(|| format!("{:?}", serde_saphyr::from_str::<BTreeMap<String, i32>>("p: 1\nq: 2\n"))).join().unwrap(),
            _ => format!("{:?}", serde_saphyr::from_str::<TwoFields>("a: 1\n").map_err(|e| fmt_err(&e))),
        };
        Ok(Nests(seen))
    }
}
#[derive(Deserialize, Debug)]
struct Outer {
    a: RcAnchor<String>,
    n: Nests,
    b: RcAnchor<String>,
    #[serde(default)]
    tail: Option<i32>,
}
/// the nested parse runs while an anchored wrapper of the outer document is open
#[derive(Deserialize, Debug)]
struct InsideAnchor {
    w: RcAnchor<Nests>,
    again: RcAnchor<Nests>,
}
#[derive(Deserialize, Debug)]
#[allow(dead_code)]
struct NeedsField {
    n: Nests,
    needed: i32,
}
#[derive(Debug)]
struct Panics;
impl<'de> Deserialize<'de> for Panics {
    fn deserialize<D: serde::Deserializer<'de>>(d: D) -> Result<Self, D::Error> {
        let _ = String::deserialize(d)?;
        panic!("visitor panics")
    }
}
#[derive(Deserialize, Debug)]
#[allow(dead_code)]
struct PanicsInside {
    a: RcAnchor<String>,
    p: Panics,
}

fn fmt_err(e: &serde_saphyr::Error) -> String {
    let e = e.without_snippet();
    format!("{e} @ {:?}", e.location().map(|l| (l.line(), l.column())))
}
fn opts_budget() -> serde_saphyr::Options {
    #[allow(deprecated)]
    let mut o = serde_saphyr::Options::default();
    #[allow(deprecated)]
    {
        let mut b = serde_saphyr::budget::Budget::default();
        b.max_nodes = 3;
        o.budget = Some(b);
    }
    o
}

const CALLS: &[&str] = &[
    "nested_same_id_inside_anchor", "nested_stream", "nested_then_missing", "thread_nested_then_missing",
    "ok_plain", "ok_anchors", "fail_syntax_in_anchor", "fail_type_in_anchor_wrapper", "budget", "nested_ok", "nested_anchors", "nested_fails", "nested_missing",
    "iterator_abandoned", "panicking_visitor", "serialize_shared", "missing_field", "unknown_alias_wrapper",
    // serializer calls of different option flavours over the same words (no cache may be keyed by the text alone)
    "ser_words_default", "ser_words_yaml12", "ser_words_quote_all", "ser_words_step4_noblock", "ser_fails_midway",
];

fn call(name: &str) -> String {
    let r = util::no_panic(|| match name {
        "ok_plain" => format!("{:?}", serde_saphyr::from_str::<BTreeMap<String, i32>>("a: 1\nb: 2\n").map_err(|e| fmt_err(&e))),
        "ok_anchors" => format!("{:?}", serde_saphyr::from_str::<Shared>("a: &x v\nb: *x\n").map(|s| (Rc::ptr_eq(&s.a.0, &s.b.0), s.a.0.to_string())).map_err(|e| fmt_err(&e))),
        "fail_syntax_in_anchor" => format!("{:?}", serde_saphyr::from_str::<SharedInner>("a: &x {k: 1\nb: *x\n").map_err(|e| fmt_err(&e))),
        "fail_type_in_anchor_wrapper" => format!("{:?}", serde_saphyr::from_str::<SharedInner>("a: &x {k: notint}\nb: *x\n").map_err(|e| fmt_err(&e))),
        "budget" => format!("{:?}", serde_saphyr::from_str_with_options::<Shared>("a: &x v\nb: *x\n", opts_budget()).map(|s| s.a.0.to_string()).map_err(|e| fmt_err(&e))),
        "nested_ok" => format!("{:?}", serde_saphyr::from_str::<Outer>("a: &x v\nn: ok\nb: *x\n").map(|o| (Rc::ptr_eq(&o.a.0, &o.b.0), o.n.0, o.tail)).map_err(|e| fmt_err(&e))),
        "nested_anchors" => format!("{:?}", serde_saphyr::from_str::<Outer>("a: &x v\nn: anchors\nb: *x\n").map(|o| (Rc::ptr_eq(&o.a.0, &o.b.0), o.n.0, o.tail)).map_err(|e| fmt_err(&e))),
        "nested_fails" => format!("{:?}", serde_saphyr::from_str::<Outer>("a: &x v\nn: fails\nb: *x\n").map(|o| (Rc::ptr_eq(&o.a.0, &o.b.0), o.n.0, o.tail)).map_err(|e| fmt_err(&e))),
        "nested_missing" => format!("{:?}", serde_saphyr::from_str::<Outer>("a: &x v\nn: missing\nb: *x\n").map(|o| (Rc::ptr_eq(&o.a.0, &o.b.0), o.n.0, o.tail)).map_err(|e| fmt_err(&e))),
        "nested_same_id_inside_anchor" => format!("{:?}", serde_saphyr::from_str::<InsideAnchor>("w: &x same-id\nagain: *x\n").map(|o| (Rc::ptr_eq(&o.w.0, &o.again.0), o.w.0.0.clone())).map_err(|e| fmt_err(&e))),
        "nested_stream" => format!("{:?}", serde_saphyr::from_str::<Outer>("a: &x v\nn: stream\nb: *x\n").map(|o| (Rc::ptr_eq(&o.a.0, &o.b.0), o.n.0, o.tail)).map_err(|e| fmt_err(&e))),
        "nested_then_missing" => format!("{:?}", serde_saphyr::from_str::<NeedsField>("n: ok\n").map_err(|e| fmt_err(&e))),
        "thread_nested_then_missing" => format!("{:?}", serde_saphyr::from_str::<NeedsField>("n: thread-ok\n").map_err(|e| fmt_err(&e))),
        "iterator_abandoned" => {
            let mut rd = std::io::Cursor::new(b"a: &x v\nb: *x\n---\na: &x w\nb: *x\n---\na: 1\n".to_vec());
            let mut it = serde_saphyr::read::<_, Shared>(&mut rd);
            let first = it.next().map(|r| r.map(|s| (Rc::ptr_eq(&s.a.0, &s.b.0), s.a.0.to_string())).map_err(|e| fmt_err(&e)));
            format!("{first:?}")
        }
        "panicking_visitor" => format!("{:?}", util::no_panic(|| serde_saphyr::from_str::<PanicsInside>("a: &x v\np: boom\n").map(|_| ()).map_err(|e| fmt_err(&e)))),
        "serialize_shared" => {
            let x = Rc::new("v".to_string());
            #[derive(serde::Serialize)]
            struct S {
                a: RcAnchor<String>,
                b: RcAnchor<String>,
            }
            format!("{:?}", serde_saphyr::to_string(&S { a: RcAnchor(x.clone()), b: RcAnchor(x) }).map_err(|e| e.to_string()))
        }
        "ser_words_default" | "ser_words_yaml12" | "ser_words_quote_all" | "ser_words_step4_noblock" => {
            #[allow(deprecated)]
            let mut so = serde_saphyr::SerializerOptions::default();
            #[allow(deprecated)]
            match name {
                "ser_words_yaml12" => so.yaml_12 = true,
                "ser_words_quote_all" => so.quote_all = true,
                "ser_words_step4_noblock" => {
                    so.indent_step = 4;
                    so.prefer_block_scalars = false;
                }
                _ => {}
            }
            // YAML 1.1 boolean spellings, null-likes, numbers, multi-line text: as keys, values and sequence items
            let words = ["y", "on", "No", "~", "null", "12", "1e3", "a\nb", "plain", "y"];
            let m: BTreeMap<String, Vec<String>> = words.iter().map(|w| (w.to_string(), vec![w.to_string(), "z".to_string()])).collect();
            let a = serde_saphyr::to_string_with_options(&m, so).map_err(|e| e.to_string());
            let b = serde_saphyr::to_string_with_options(&BTreeMap::from([("y", 2), ("z", 3)]), so).map_err(|e| e.to_string());
            let c = serde_saphyr::to_string_with_options(&"on", so).map_err(|e| e.to_string());
            format!("{a:?} {b:?} {c:?}")
        }
        "ser_fails_midway" => {
            // a serialization that fails after it has written anchors and staged layout state
            #[derive(serde::Serialize)]
            struct S {
                a: RcAnchor<String>,
                bad: BTreeMap<Vec<BTreeMap<String, f64>>, i32>,
            }
            let x = Rc::new("v".to_string());
            let r = serde_saphyr::to_string(&S { a: RcAnchor(x), bad: BTreeMap::new() }).map(|t| t.len()).map_err(|e| e.to_string());
            format!("{r:?}")
        }
        "missing_field" => format!("{:?}", serde_saphyr::from_str::<TwoFields>("a: 1\n").map_err(|e| fmt_err(&e))),
        _ => format!("{:?}", serde_saphyr::from_str::<Shared>("a: v\nb: *nope\n").map(|s| s.a.0.to_string()).map_err(|e| fmt_err(&e))),
    });
    match r {
        Ok(s) => s,
        Err(p) => format!("PANIC({p})"),
    }
}

fn on_fresh_thread<T: Send + 'static>(f: impl FnOnce() -> T + Send + 'static) -> T {
    std::thread::spawn(f).join().expect("thread")
}

pub fn run(ctx: &mut Ctx) {
    util::quiet_panics();
    ctx.set_case_format("From SS Require Import Corr.ThreadState.\nLocal Open Scope N_scope.", "case", "check_case");
    ctx.rule = "cases: sequences of 1-4 scripted calls on one fresh thread, each a random tree of store / lookup / anchor-context / \
                fallback-guard / nested-scope / abort / panic actions (depth <= 3), observations of every call and a probe of the \
                thread-local state after every call; distinct = distinct Coq case term; non-trivial = contains a nested scope, an abort \
                or a panic"
        .into();
    if let Some(r) = ctx.replay.clone() {
        println!("replay: {r}");
        if let Some(seq) = r["sequence"].as_array() {
            let names: Vec<String> = seq.iter().map(|x| x.as_str().unwrap_or("").to_string()).collect();
            let out = on_fresh_thread(move || names.iter().map(|n| call(n)).collect::<Vec<_>>());
            println!("{out:#?}");
        }
        return;
    }
    let quick = ctx.quick();
    let mut rng = ctx.rng.fork();

    // ---- K
    for _ in 0..(if quick { 600 } else { 8000 }) {
        let ncalls = 1 + rng.below(4);
        let calls: Vec<Vec<TlAct>> = (0..ncalls).map(|_| { let n = 1 + rng.below(5); gen_acts(&mut rng, 3, n) }).collect();
        let c2 = calls.clone();
        let observed: Vec<(Vec<u64>, Vec<u64>)> = on_fresh_thread(move || {
            c2.iter()
                .map(|c| {
                    let mut obs = Vec::new();
                    let _ = hooks::tl_run(&[TlAct::Scope(c.clone())], &mut obs);
                    (obs, hooks::tl_probe())
                })
                .collect()
        });
        let nontrivial = format!("{calls:?}").contains("Scope") || format!("{calls:?}").contains("Abort") || format!("{calls:?}").contains("Panic");
        let term = format!(
            "CCalls {} {}",
            coq::list(&calls.iter().map(|c| acts_coq(c)).collect::<Vec<_>>(), "(list act)"),
            coq::list(&observed.iter().map(|(o, p)| format!("({}, {})", nlist(o), nlist(p))).collect::<Vec<_>>(), "(list N * list N)")
        );
        ctx.case(term, nontrivial, json!({"kind": "script", "calls": format!("{calls:?}")}));
        // S on the scripts themselves: nothing survives a call
        ctx.direct_evaluations += 1;
        if let Some((_, p)) = observed.iter().find(|(_, p)| p.iter().any(|x| *x != 0)) {
            ctx.fail("state-survives-a-call", format!("after a scripted call the thread-local state is not empty: probe {p:?}; calls {calls:?}"), json!({"kind": "script", "calls": format!("{calls:?}")}));
        }
    }

    // ---- S: real calls, each compared with the same call on a fresh thread
    let fresh: BTreeMap<String, String> = CALLS.iter().map(|n| { let n2 = n.to_string(); (n.to_string(), on_fresh_thread(move || call(&n2))) }).collect();
    for (n, r) in &fresh {
        ctx.count(&format!("fresh:{n}:{}", if r.starts_with("Ok") { "ok" } else if r.starts_with("PANIC") { "panic" } else { "err" }));
        // the fresh result must not depend on which fresh thread it is
        let n2 = n.clone();
        let again = on_fresh_thread(move || call(&n2));
        ctx.direct_evaluations += 1;
        if &again != r {
            ctx.fail("not-deterministic", format!("{n}: two fresh threads give {r:?} and {again:?}"), json!({"kind": "sequence", "sequence": [n]}));
        }
    }
    let mut seqs: Vec<Vec<&str>> = Vec::new();
    for a in CALLS {
        for b in CALLS {
            seqs.push(vec![a, b]);
        }
    }
    for _ in 0..(if quick { 200 } else { 4000 }) {
        let n = 3 + rng.below(4);
        seqs.push((0..n).map(|_| *rng.pick(CALLS)).collect());
    }
    for seq in seqs {
        let names: Vec<String> = seq.iter().map(|s| s.to_string()).collect();
        let n2 = names.clone();
        let results = on_fresh_thread(move || n2.iter().map(|n| call(n)).collect::<Vec<_>>());
        for (i, (n, r)) in names.iter().zip(results.iter()).enumerate() {
            ctx.direct_evaluations += 1;
            if r != &fresh[n] {
                ctx.fail("result-depends-on-earlier-calls", format!("call #{i} `{n}` after {:?} gives {r:?}; on a fresh thread {:?}", &names[..i], fresh[n]), json!({"kind": "sequence", "sequence": names}));
                break;
            }
        }
    }
    // nested calls must see and leave nothing: the outer document's sharing survives a nested parse,
    // and the nested parse reports what it reports on its own thread
    let solo_ok = on_fresh_thread(|| format!("{:?}", serde_saphyr::from_str::<BTreeMap<String, i32>>("p: 1\nq: 2\n")));
    let solo_anchors = on_fresh_thread(|| format!("{:?}", serde_saphyr::from_str::<Shared>("a: &x inner\nb: *x\n").map(|s| (Rc::ptr_eq(&s.a.0, &s.b.0), s.a.0.to_string()))));
    let solo_fails = on_fresh_thread(|| format!("{:?}", serde_saphyr::from_str::<Tagged>("5\n").map_err(|e| fmt_err(&e))));
    let solo_missing = on_fresh_thread(|| format!("{:?}", serde_saphyr::from_str::<TwoFields>("a: 1\n").map_err(|e| fmt_err(&e))));
    {
        ctx.direct_evaluations += 3;
        let r = &fresh["nested_same_id_inside_anchor"];
        if r != "Ok((true, \"Ok(7)\"))" {
            ctx.fail("nested-call-disturbed", format!("a parse nested inside an open anchored wrapper of the outer document (same wrapper kind, same anchor id): {r:?}; expected the nested Ok(7) and the outer alias shared"), json!({"kind": "sequence", "sequence": ["nested_same_id_inside_anchor"]}));
        }
        let r = &fresh["nested_stream"];
        if !(r.starts_with("Ok((true") && r.contains("Ok(7)") && r.contains("Ok(8)")) {
            ctx.fail("nested-call-disturbed", format!("the iterator entry point nested inside a Deserialize impl: {r:?}; expected [Ok(7), Ok(8)] and the outer alias still shared"), json!({"kind": "sequence", "sequence": ["nested_stream"]}));
        }
        // the outer document's own error must not depend on whether the nested parse ran on this thread
        if fresh["nested_then_missing"] != fresh["thread_nested_then_missing"] {
            ctx.fail("nested-call-changes-outer-error", format!("outer error after a nested parse on this thread: {:?}; with the nested parse on another thread: {:?}", fresh["nested_then_missing"], fresh["thread_nested_then_missing"]), json!({"kind": "sequence", "sequence": ["nested_then_missing"]}));
        }
    }
    for (name, solo) in [("nested_ok", &solo_ok), ("nested_anchors", &solo_anchors), ("nested_fails", &solo_fails), ("nested_missing", &solo_missing)] {
        ctx.direct_evaluations += 1;
        let r = &fresh[name];
        let class = match name {
            "nested_fails" | "nested_missing" => "F14:nested-call-sees-outer-fallback-location",
            _ => "nested-call-disturbed",
        };
        if !r.contains(solo.as_str()) && !r.contains(&solo.replace('"', "\\\"")) {
            ctx.fail(class, format!("{name}: the parse nested inside a Deserialize impl reports {r:?}; on its own thread it reports {solo:?}"), json!({"kind": "sequence", "sequence": [name]}));
        }
        if !r.starts_with("Ok((true") {
            ctx.fail("F34:nested-call-resets-outer-anchor-table", format!("{name}: after the nested parse the outer document's alias no longer shares its anchor: {r:?}"), json!({"kind": "sequence", "sequence": [name]}));
        }
    }
}
