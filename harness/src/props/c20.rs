//! C20 -- presentation wrappers and serializer options change layout only, never data.
//!
//! K: the soft wrapping of folded blocks (src/wrapping.rs) on generated lines x wrap columns, the
//!    one-line sanitising of inline comments, first_line_leading_spaces, vs `SS.Model.Layout`.
//! S: values of a shape grammar decorated at random positions with FlowSeq / FlowMap / LitString /
//!    FoldString / Commented / SpaceAfter (nested, around containers, comments with `#`, line breaks
//!    and YAML syntax) x option vectors: the decorated document reads as the same untyped tree as the
//!    undecorated one (strings under the explicit folded wrapper modulo the documented folding), and
//!    the typed wrappers read back the bare value.
//!    Also: literal strings as a field of a mapping that is a sequence element x indent steps; carriage returns under the
//!    block wrappers (recorded finding).
use crate::coq;
use crate::ctx::{Ctx, Rng};
use crate::tree::Tree;
use crate::util;
use serde::ser::{Serialize, SerializeMap, SerializeSeq, Serializer};
use serde_json::json;
use serde_saphyr::__verif as hooks;
use serde_saphyr::{Commented, FlowMap, FlowSeq, FoldString, LitString, SpaceAfter};

#[derive(Clone, Debug)]
enum V {
    Null,
    Bool(bool),
    Int(i64),
    Str(String),
    Seq(Vec<V>),
    Map(Vec<(String, V)>),
    // decorations
    Flow(Box<V>),
    Lit(String),
    Fold(String),
    Commented(Box<V>, String),
    SpaceAfter(Box<V>),
}

struct MapOf<'a>(&'a [(String, V)], bool);
impl Serialize for MapOf<'_> {
    fn serialize<S: Serializer>(&self, s: S) -> Result<S::Ok, S::Error> {
        let mut m = s.serialize_map(Some(self.0.len()))?;
        for (k, v) in self.0 {
            m.serialize_entry(k, &Dec(v, self.1))?;
        }
        m.end()
    }
}
struct SeqOf<'a>(&'a [V], bool);
impl Serialize for SeqOf<'_> {
    fn serialize<S: Serializer>(&self, s: S) -> Result<S::Ok, S::Error> {
        let mut q = s.serialize_seq(Some(self.0.len()))?;
        for v in self.0 {
            q.serialize_element(&Dec(v, self.1))?;
        }
        q.end()
    }
}
/// `Dec(v, true)` serializes with the decorations, `Dec(v, false)` the bare value
struct Dec<'a>(&'a V, bool);
impl Serialize for Dec<'_> {
    fn serialize<S: Serializer>(&self, s: S) -> Result<S::Ok, S::Error> {
        let d = self.1;
        match self.0 {
            V::Null => s.serialize_unit(),
            V::Bool(b) => s.serialize_bool(*b),
            V::Int(i) => s.serialize_i64(*i),
            V::Str(x) => s.serialize_str(x),
            V::Seq(items) => SeqOf(items, d).serialize(s),
            V::Map(es) => MapOf(es, d).serialize(s),
            V::Flow(inner) if d => match inner.as_ref() {
                V::Seq(items) => FlowSeq(SeqOf(items, d)).serialize(s),
                V::Map(es) => FlowMap(MapOf(es, d)).serialize(s),
                other => Dec(other, d).serialize(s),
            },
            V::Flow(inner) => Dec(inner, d).serialize(s),
            V::Lit(x) if d => LitString(x.clone()).serialize(s),
            V::Fold(x) if d => FoldString(x.clone()).serialize(s),
            V::Lit(x) | V::Fold(x) => s.serialize_str(x),
            V::Commented(inner, c) if d => Commented(Dec(inner, d), c.clone()).serialize(s),
            V::SpaceAfter(inner) if d => SpaceAfter(Dec(inner, d)).serialize(s),
            V::Commented(inner, _) | V::SpaceAfter(inner) => Dec(inner, d).serialize(s),
        }
    }
}

const COMMENTS: &[&str] = &[
    "plain note", "with # hash", "key: value", "- item", "line\nbreak", "cr\rbreak", "crlf\r\nbreak", "[flow, {a: b}]", "\"quoted\"", "  spaced  ", "é 日本", "nel\u{85}x", "ls\u{2028}x", "tab\there", "---", "x\nb: 7",
    "", "#", "&a *a !t", "trailing\n",
];
const STRINGS: &[&str] = &[
    "a", "two words", "x: y", "# not a comment", "line one\nline two", "para one\n\npara two", " leading blank", "trailing blank ", "ends with newline\n", "two newlines\n\n", "  \n", "tab\tinside",
    "a very long sentence of many short words that will certainly need to be wrapped at some column far away from the start of the line", "unbreakablewordwithoutanyspacesinside_unbreakablewordwithoutanyspacesinside_unbreakable",
    "double  spaces  inside  the  text  that  is  long  enough  to  wrap  somewhere  near  here  or  there", "é日本 😀 text with multi byte characters that goes on for a while so that it folds",
    "- looks like a list", "key: looks like a map\nsecond: line", "", "null", "123", "a\rb", "cr at the end\r",
];

/// text over an alphabet of blanks, line breaks, indicators and letters; sometimes long enough to fold,
/// with blanks and tabs next to the places where a line may be broken
fn rand_text(rng: &mut Rng) -> String {
    if rng.chance(1, 2) {
        return rng.pick(STRINGS).to_string();
    }
    let mut s = String::new();
    if rng.chance(1, 2) {
        let n = rng.below(9);
        for _ in 0..n {
            s.push(*rng.pick(&[' ', ' ', '\t', '\n', '\n', 'a', 'b', ':', '#', '-', 'é']));
        }
    } else {
        let nwords = 2 + rng.below(12);
        for wi in 0..nwords {
            if wi > 0 {
                s.push_str(*rng.pick(&[" ", " ", " ", "  ", " \t", "\t", "\t ", "\n", "   "]));
            }
            let longw = rng.chance(1, 6);
            let wl = 1 + rng.below(if longw { 40 } else { 9 });
            for _ in 0..wl {
                s.push(*rng.pick(&['a', 'b', 'c', 'é', '-']));
            }
        }
        if rng.chance(1, 6) {
            s.push_str(*rng.pick(&["\n", "\n\n", " ", "\t"]));
        }
    }
    s
}
fn rand_comment(rng: &mut Rng) -> String {
    if rng.chance(1, 2) {
        return rng.pick(COMMENTS).to_string();
    }
    let n = rng.below(10);
    (0..n).map(|_| *rng.pick(&['a', ' ', '#', ':', '-', '\n', '\r', '\0', '\t', '\u{7}', '\u{1b}', '\u{85}', '\u{2028}', '\u{2029}', '\u{feff}', '\u{c}', '[', '"', '\''])).collect()
}

fn gen_v(rng: &mut Rng, depth: usize, in_flow: bool) -> V {
    let leaf = depth == 0 || rng.chance(2, 5);
    let base = if leaf {
        match rng.below(7) {
            0 => V::Null,
            1 => V::Bool(rng.chance(1, 2)),
            2 => V::Int(rng.below(2000) as i64 - 1000),
            3 => V::Lit(rand_text(rng)),
            4 => V::Fold(rand_text(rng).replace('\n', " ")),
            _ => V::Str(rand_text(rng)),
        }
    } else {
        let n = rng.below(4);
        let flow = rng.chance(1, 4);
        let inner = if rng.chance(1, 2) {
            V::Seq((0..n).map(|_| gen_v(rng, depth - 1, in_flow || flow)).collect())
        } else {
            V::Map((0..n).map(|i| (format!("{}{}", *rng.pick(&["k", "key ", "x", "é"]), i), gen_v(rng, depth - 1, in_flow || flow))).collect())
        };
        if flow { V::Flow(Box::new(inner)) } else { inner }
    };
    match rng.below(8) {
        0 => V::Commented(Box::new(base), rand_comment(rng)),
        1 => V::SpaceAfter(Box::new(base)),
        2 => V::Commented(Box::new(V::SpaceAfter(Box::new(base))), rand_comment(rng)),
        3 if rng.chance(1, 3) => V::SpaceAfter(Box::new(V::SpaceAfter(Box::new(base)))),
        _ => base,
    }
}

/// what a reader makes of the text of an explicit folded block: single line breaks between two
/// non-empty lines that do not start with a blank are spaces; everything modulo trailing line breaks
fn folded_reading(s: &str) -> String {
    let lines: Vec<&str> = s.split('\n').collect();
    let mut out = String::new();
    for (i, l) in lines.iter().enumerate() {
        out.push_str(l);
        if i + 1 < lines.len() {
            let next = lines[i + 1];
            let foldable = !l.is_empty() && !next.is_empty() && !l.starts_with([' ', '\t']) && !next.starts_with([' ', '\t']);
            out.push(if foldable { ' ' } else { '\n' });
        }
    }
    out
}
/// recorded finding F49: an explicit literal block around exactly one line break, followed by more content
fn has_single_break_literal(v: &V) -> bool {
    match v {
        V::Lit(s) => s == "\n",
        V::Seq(i) => i.iter().any(has_single_break_literal),
        V::Map(e) => e.iter().any(|(_, x)| has_single_break_literal(x)),
        V::Flow(x) | V::Commented(x, _) | V::SpaceAfter(x) => has_single_break_literal(x),
        _ => false,
    }
}
fn has_cr_literal(v: &V) -> bool {
    match v {
        V::Lit(s) | V::Fold(s) => s.contains('\r'),
        V::Seq(i) => i.iter().any(has_cr_literal),
        V::Map(e) => e.iter().any(|(_, x)| has_cr_literal(x)),
        V::Flow(x) | V::Commented(x, _) | V::SpaceAfter(x) => has_cr_literal(x),
        _ => false,
    }
}
fn has_explicit_fold(v: &V) -> bool {
    match v {
        V::Fold(_) => true,
        V::Seq(i) => i.iter().any(has_explicit_fold),
        V::Map(e) => e.iter().any(|(_, x)| has_explicit_fold(x)),
        V::Flow(x) | V::Commented(x, _) | V::SpaceAfter(x) => has_explicit_fold(x),
        _ => false,
    }
}
/// the untyped tree the decorated document must read as
fn expected(v: &V) -> Tree {
    match v {
        V::Null => Tree::Null,
        V::Bool(b) => Tree::Bool(*b),
        V::Int(i) => {
            if *i >= 0 { Tree::U64(*i as u64) } else { Tree::I64(*i) }
        }
        V::Str(s) | V::Lit(s) => Tree::Str(s.clone()),
        V::Fold(s) => Tree::Str(s.clone()),
        V::Seq(items) => Tree::Seq(items.iter().map(expected).collect()),
        V::Map(es) => Tree::Map(es.iter().map(|(k, x)| (Tree::Str(k.clone()), expected(x))).collect()),
        V::Flow(x) | V::Commented(x, _) | V::SpaceAfter(x) => expected(x),
    }
}
fn eq_mod_fold(a: &Tree, b: &Tree, v: &V) -> bool {
    // compare a (decorated reading) with b (bare reading), strings under V::Fold modulo folding
    match (a, b, v) {
        (_, _, V::Flow(x) | V::Commented(x, _) | V::SpaceAfter(x)) => eq_mod_fold(a, b, x),
        (Tree::Str(x), Tree::Str(y), V::Fold(_)) => x.trim_end_matches('\n') == folded_reading(y).trim_end_matches('\n') || x == y,
        (Tree::Seq(x), Tree::Seq(y), V::Seq(vs)) => x.len() == y.len() && x.len() == vs.len() && x.iter().zip(y).zip(vs).all(|((p, q), w)| eq_mod_fold(p, q, w)),
        (Tree::Map(x), Tree::Map(y), V::Map(vs)) => x.len() == y.len() && x.len() == vs.len() && x.iter().zip(y).zip(vs).all(|(((k1, p), (k2, q)), (_, w))| k1 == k2 && eq_mod_fold(p, q, w)),
        _ => a == b,
    }
}

fn sopts(rng: &mut Rng) -> (serde_saphyr::SerializerOptions, String) {
    #[allow(deprecated)]
    let mut o = serde_saphyr::SerializerOptions::default();
    let step = *rng.pick(&[2usize, 2, 4, 3]);
    let compact = rng.chance(1, 3);
    // (empty_as_braces = false writes empty collections as nothing, which an untyped reader sees as
    // null: that legacy layout is judged by the typed round trips of C13, not here)
    let braces = true;
    let block = rng.chance(3, 4);
    let wrap = *rng.pick(&[80usize, 20, 40, 10]);
    let minf = *rng.pick(&[32usize, 0, 8]);
    #[allow(deprecated)]
    {
        o.indent_step = step;
        o.compact_list_indent = compact;
        o.empty_as_braces = braces;
        o.prefer_block_scalars = block;
        o.folded_wrap_chars = wrap;
        o.min_fold_chars = minf;
    }
    (o, format!("indent={step} compact={compact} empty_as_braces={braces} prefer_block={block} wrap={wrap} min_fold={minf}"))
}

pub fn run(ctx: &mut Ctx) {
    util::quiet_panics();
    ctx.set_case_format("From SS Require Import Corr.Layout.\nLocal Open Scope N_scope.", "case", "check_case");
    ctx.rule = "cases: write_folded_block on generated texts (words of 1-30 characters, runs of 1-3 spaces, multi-byte characters, lines \
                starting with a blank, empty lines) x wrap columns 1..100; the comment text written after a value for adversarial comments; \
                first_line_leading_spaces; distinct = distinct Coq case term; non-trivial = at least one wrap / a replaced line break"
        .into();
    if let Some(r) = ctx.replay.clone() {
        println!("replay: {r}");
        return;
    }
    let quick = ctx.quick();
    let mut rng = ctx.rng.fork();

    // ---- K: folding
    for round in 0..(if quick { 700 } else { 10000 }) {
        let mut s = String::new();
        let nlines = 1 + rng.below(if round % 5 == 0 { 3 } else { 1 });
        for li in 0..nlines {
            if li > 0 {
                s.push('\n');
            }
            if rng.chance(1, 8) {
                continue; // empty line
            }
            if rng.chance(1, 8) {
                s.push(if rng.chance(1, 4) { '\t' } else { ' ' });
            }
            let nwords = 1 + rng.below(14);
            for wi in 0..nwords {
                if wi > 0 {
                    let wide = rng.chance(1, 4);
                    s.push_str(&" ".repeat(1 + rng.below(if wide { 3 } else { 1 })));
                }
                let longw = rng.chance(1, 10);
                let wl = 1 + rng.below(if longw { 30 } else { 8 });
                for _ in 0..wl {
                    s.push(*rng.pick(&['a', 'b', 'z', 'é', '日', '-', ':', '#', 'a', 'b', '\t']));
                }
            }
            if rng.chance(1, 10) {
                s.push(' ');
            }
        }
        let widew = rng.chance(1, 3);
        let w = 1 + rng.below(if widew { 100 } else { 25 });
        let out = hooks::wrapping_fold(&s, 0, 2, w);
        let body = out.strip_suffix('\n').unwrap_or(&out);
        let lines: Vec<String> = body.split('\n').map(|x| x.to_string()).collect();
        let lines_term = coq::list(&lines.iter().map(|l| coq::s(l)).collect::<Vec<_>>(), "(list N)");
        ctx.case(format!("CFold {w} {} {lines_term}", coq::s(&s)), lines.len() > s.split('\n').count(), json!({"kind": "fold", "s": s, "w": w}));
        // S: what a reader joins is the original text
        ctx.direct_evaluations += 1;
        let doc = format!(">-\n{}", out.lines().map(|l| format!("  {l}\n")).collect::<String>());
        if !s.split('\n').any(|l| l.is_empty() || l.starts_with([' ', '\t'])) && s.split('\n').count() == 1 {
            match serde_saphyr::from_str::<String>(&doc) {
                Ok(b) if b == s => {}
                other => ctx.fail("folding-changes-text", format!("{s:?} wrapped at {w} as {out:?} reads back {other:?}"), json!({"kind": "fold", "s": s, "w": w})),
            }
        }
        ctx.case(format!("CLead {} {}", coq::s(&s), hooks::wrapping_first_line_leading_spaces(&s)), s.starts_with(' '), json!({"kind": "lead", "s": s}));
    }
    // ---- K + S: comments
    let mut comments: Vec<String> = COMMENTS.iter().map(|c| c.to_string()).collect();
    for _ in 0..(if quick { 300 } else { 5000 }) {
        comments.push(rand_comment(&mut rng));
    }
    for c in &comments {
        // a comment must not cut off what follows the commented value either
        #[derive(serde::Serialize)]
        struct Two {
            a: Commented<i32>,
            b: i32,
        }
        ctx.direct_evaluations += 1;
        let text = serde_saphyr::to_string(&Two { a: Commented(5, c.clone()), b: 7 }).unwrap_or_default();
        let want = Tree::Map(vec![(Tree::Str("a".into()), Tree::U64(5)), (Tree::Str("b".into()), Tree::U64(7))]);
        match serde_saphyr::from_str::<Tree>(&text) {
            Ok(t) if t == want => {}
            other => ctx.fail("comment-alters-document", format!("{{a: Commented(5, {c:?}), b: 7}} emitted {text:?}, read back {other:?}"), json!({"kind": "comment2", "comment": c})),
        }
        for extra in ["", "\n", "\r", " x\r\n y", "\u{85}"] {
            let comment = format!("{c}{extra}");
            let text = serde_saphyr::to_string(&Commented(5, comment.clone())).unwrap_or_default();
            let written = text.strip_prefix("5 # ").map(|t| t.strip_suffix('\n').unwrap_or(t).to_string());
            if let Some(w) = &written {
                ctx.case(format!("CComment {} {}", coq::s(&comment), coq::s(w)), w != &comment, json!({"kind": "comment", "comment": comment}));
            } else if !comment.is_empty() {
                ctx.count("comment_layout_unparsed");
            }
            ctx.direct_evaluations += 1;
            match serde_saphyr::from_str::<Tree>(&text) {
                Ok(Tree::U64(5)) => {}
                other => ctx.fail(if comment.contains('\r') { "F7:comment-break-injects-text" } else { "comment-alters-document" }, format!("Commented(5, {comment:?}) emitted {text:?}, read back {other:?}"), json!({"kind": "comment", "comment": comment})),
            }
        }
    }

    // ---- S: decorated values
    for round in 0..(if quick { 500 } else { 8000 }) {
        let v = gen_v(&mut rng, 1 + round % 4, false);
        let (o, oname) = sopts(&mut rng);
        let replay = json!({"kind": "decorated", "value": format!("{v:?}").chars().take(500).collect::<String>(), "options": oname});
        ctx.direct_evaluations += 1;
        let bare = match util::no_panic(|| serde_saphyr::to_string_with_options(&Dec(&v, false), o)) {
            Ok(Ok(t)) => t,
            other => {
                ctx.fail("serialize-failed", format!("[{oname}] bare value: {other:?}"), replay);
                continue;
            }
        };
        let deco = match util::no_panic(|| serde_saphyr::to_string_with_options(&Dec(&v, true), o)) {
            Ok(Ok(t)) => t,
            other => {
                ctx.fail("serialize-failed", format!("[{oname}] decorated value: {other:?}"), replay);
                continue;
            }
        };
        let tb = serde_saphyr::from_str::<Tree>(&bare);
        let td = serde_saphyr::from_str::<Tree>(&deco);
        match (&tb, &td) {
            (Ok(b), Ok(d)) => {
                let want = expected(&v);
                if b != &want && !(matches!(o.empty_as_braces, false)) {
                    ctx.fail("bare-document-differs-from-value", format!("[{oname}] {bare:?} reads as {b:?}, value is {want:?}"), replay.clone());
                } else if !eq_mod_fold(d, b, &v) {
                    let class = if has_single_break_literal(&v) { "F49:literal-single-line-break" } else if has_cr_literal(&v) { "F78:literal-wrapper-carriage-return" } else { "wrapper-changes-data" };
                    ctx.fail(class, format!("[{oname}] decorated {deco:?} reads as {d:?}; bare {bare:?} reads as {b:?}"), replay.clone());
                }
            }
            (Ok(_), Err(e)) => ctx.fail(if has_cr_literal(&v) { "F78:literal-wrapper-carriage-return" } else { "wrapper-breaks-document" }, format!("[{oname}] decorated {deco:?} does not parse: {}", e.to_string().lines().next().unwrap_or("")), replay.clone()),
            (Err(e), _) => ctx.fail("bare-document-does-not-parse", format!("[{oname}] {bare:?}: {}", e.to_string().lines().next().unwrap_or("")), replay.clone()),
        }
    }
    // typed wrappers read back the bare value
    let mut strings: Vec<String> = STRINGS.iter().map(|s| s.to_string()).collect();
    for _ in 0..(if quick { 500 } else { 10000 }) {
        strings.push(rand_text(&mut rng));
    }
    for s in &strings {
        let s = &s.as_str();
        ctx.direct_evaluations += 2;
        let t = serde_saphyr::to_string(&LitString(s.to_string())).unwrap_or_default();
        match serde_saphyr::from_str::<LitString>(&t) {
            Ok(b) if b.0 == *s => {}
            // F78 (open): the explicit literal wrapper writes a carriage return raw (the automatic choice refuses such text)
            other if s.contains('\r') => ctx.fail("F78:literal-wrapper-carriage-return", format!("LitString({s:?}) emitted {t:?}, read back {other:?}"), json!({"kind": "lit", "s": s})),
            other => ctx.fail("literal-wrapper-round-trip", format!("LitString({s:?}) emitted {t:?}, read back {other:?}"), json!({"kind": "lit", "s": s})),
        }
        let t = serde_saphyr::to_string(&FoldString(s.to_string())).unwrap_or_default();
        match serde_saphyr::from_str::<FoldString>(&t) {
            // the same data modulo one trailing line break; an explicit fold of text that has line breaks
            // inside folds them on reading (the documented purpose of the wrapper): recorded finding F9
            Ok(b) if b.0.trim_end_matches('\n') == s.trim_end_matches('\n') => {}
            other => {
                let class = if s.contains('\r') { "F78:literal-wrapper-carriage-return" } else if s.trim_end_matches('\n').contains('\n') { "F9:explicit-fold-multi-line" } else { "folded-wrapper-round-trip" };
                ctx.fail(class, format!("FoldString({s:?}) emitted {t:?}, read back {other:?}"), json!({"kind": "fold_wrapper", "s": s}))
            }
        }
    }
    let mut lits: Vec<String> = ["x\n\n", "x\n", "x", "a b\n\n\n", "\n", "\n\n", "\n\n\n", " ", "   \nfoo", "\t", " \n"].iter().map(|s| s.to_string()).collect();
    for _ in 0..(if quick { 300 } else { 5000 }) {
        lits.push(rand_text(&mut rng));
    }
    for s in &lits {
        ctx.direct_evaluations += 3;
        let t = serde_saphyr::to_string(&SpaceAfter(LitString(s.to_string()))).unwrap_or_default();
        match serde_saphyr::from_str::<String>(&t) {
            Ok(b) if b == *s => {}
            other => ctx.fail(if s.contains('\r') { "F78:literal-wrapper-carriage-return" } else { "F8:space-after-block-scalar" }, format!("SpaceAfter(LitString({s:?})) emitted {t:?}, read back {other:?}"), json!({"kind": "space_after", "s": s})),
        }
        // ... as the last element of a wrapped sequence, and as a field followed by another one
        let t = serde_saphyr::to_string(&SpaceAfter(vec![LitString("x".into()), LitString(s.to_string())])).unwrap_or_default();
        match serde_saphyr::from_str::<Vec<String>>(&t) {
            Ok(b) if b.len() == 2 && b[1] == *s && b[0] == "x" => {}
            other => ctx.fail(if s.contains('\r') { "F78:literal-wrapper-carriage-return" } else { "F8:space-after-block-scalar" }, format!("SpaceAfter([LitString(x), LitString({s:?})]) emitted {t:?}, read back {other:?}"), json!({"kind": "space_after_seq", "s": s})),
        }
        // a literal string as a field of a mapping that is a sequence element (its key sits at the dash + 2, not on the
        // indentation grid), under every indentation step
        for step in [2usize, 3, 4] {
            #[derive(serde::Serialize)]
            struct Item {
                note: LitString,
                other: usize,
            }
            #[allow(deprecated)]
            let mut so = serde_saphyr::SerializerOptions::default();
            #[allow(deprecated)]
            {
                so.indent_step = step;
            }
            ctx.direct_evaluations += 1;
            let t = serde_saphyr::to_string_with_options(&vec![Item { note: LitString(s.to_string()), other: 0 }], so).unwrap_or_default();
            let want = Tree::Seq(vec![Tree::Map(vec![(Tree::Str("note".into()), Tree::Str(s.to_string())), (Tree::Str("other".into()), Tree::U64(0))])]);
            match serde_saphyr::from_str::<Tree>(&t) {
                Ok(b) if b == want => {}
                other => ctx.fail(if s == "\n" { "F49:literal-single-line-break" } else if s.contains('\r') { "F78:literal-wrapper-carriage-return" } else { "literal-wrapper-round-trip" },
                    format!("[indent_step {step}] [{{note: LitString({s:?}), other: 0}}] emitted {t:?}, read back {other:?}"), json!({"kind": "lit_in_seq_of_maps", "s": s, "indent_step": step})),
            }
        }
        #[derive(serde::Serialize)]
        struct Note {
            note: SpaceAfter<LitString>,
            other: usize,
        }
        let t = serde_saphyr::to_string(&Note { note: SpaceAfter(LitString(s.to_string())), other: 0 }).unwrap_or_default();
        let want = Tree::Map(vec![(Tree::Str("note".into()), Tree::Str(s.to_string())), (Tree::Str("other".into()), Tree::U64(0))]);
        match serde_saphyr::from_str::<Tree>(&t) {
            Ok(b) if b == want => {}
            other => ctx.fail(if s == "\n" { "F49:literal-single-line-break" } else if s.contains('\r') { "F78:literal-wrapper-carriage-return" } else { "literal-wrapper-round-trip" }, format!("{{note: SpaceAfter(LitString({s:?})), other: 0}} emitted {t:?}, read back {other:?}"), json!({"kind": "space_after_field", "s": s})),
        }
    }
}
