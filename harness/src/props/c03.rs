//! C03 -- merge keys (<<) equal the explicitly merged mapping with fixed precedence.
//!
//! K: typed deserialization vs `SS.Model.Deser` on mappings with 0..n merge entries (inline, alias,
//!    sequences, nested, null, invalid) x three policies x target kinds.
//! S: the merge document vs the generator's own fully merged rendering; invalid merge values are
//!    rejected; quoted/tagged `<<` is an ordinary key.
use crate::ctx::Ctx;
use crate::deserk::{self, DOpts};
use crate::docgen::{self, GenCfg, Node, Sty};
use crate::rt::Ty;
use crate::util;
use serde_json::json;
use serde_saphyr::DuplicateKeyPolicy as P;

const HAND: &[&str] = &[
    "base: &b {x: 1, y: 2}\nd: {<<: *b, z: 3}\n",
    "a: &a {x: 1}\nb: &b {x: 2, y: 2}\nd: {<<: *a, <<: *b}\n",
    "a: &a {x: 1}\nb: &b {x: 2, y: 2}\nd: {<<: [*a, *b], x: 0}\n",
    "a: &a {x: 1, <<: {y: 5, x: 9}}\nd: {<<: *a}\n",
    "d: {<<: {x: 1}, x: 2}\n",
    "d: {x: 2, <<: {x: 1, w: 3}}\n",
    "d: {<<: ~, x: 2}\n",
    "d: {<<: null}\n",
    "d: {<<: }\n",
    "d: {<<: 5}\n",
    "d: {<<: [1]}\n",
    "d: {<<: [[{a: 1}], {b: 2}]}\n",
    "d: {\"<<\": {x: 1}, !!str <<: 2, '<<': 3}\n",
    "d: {<<: {a: 1, a: 2}}\n",
    "d: {<<: {<<: {<<: {deep: 1}, mid: 2}, top: 3}, own: 4}\n",
    "- &m {k: v}\n- {<<: *m}\n- {<<: [*m, {k: w, j: u}]}\n",
    "d: {<<: {? [1, 2] : s}, ? [1, 2] : t}\n",
    "<<: {a: 1}\nb: 2\n",
    "base: &B {\"<<\": {x: 1}, y: 2}\nt: {<<: *B, z: 3}\n",
    "t: {<<: {'<<': 5, y: 2}, z: 3}\n",
    "t: {<<: [{a: 1}, {!!str <<: {x: 1}}], z: 3}\n",
];

fn same_key(a: &Node, b: &Node) -> bool {
    match (a, b) {
        (Node::Scalar { text: t1, tag: g1, sty: s1, anchor: a1 }, Node::Scalar { text: t2, tag: g2, sty: s2, anchor: a2 }) => {
            docgen::event_text(t1, *s1, g1, a1) == docgen::event_text(t2, *s2, g2, a2) && g1 == g2
        }
        (Node::Seq { items: i1, .. }, Node::Seq { items: i2, .. }) => i1.len() == i2.len() && i1.iter().zip(i2).all(|(x, y)| same_key(x, y)),
        (Node::Map { entries: e1, .. }, Node::Map { entries: e2, .. }) => {
            e1.len() == e2.len() && e1.iter().zip(e2).all(|((k1, v1), (k2, v2))| same_key(k1, k2) && same_key(v1, v2))
        }
        _ => false,
    }
}

/// some mapping key is itself a mapping (or holds one) with a merge key inside
fn merge_inside_key(n: &Node) -> bool {
    match n {
        Node::Map { entries, .. } => entries.iter().any(|(k, v)| docgen::has_merge_key(k) || merge_inside_key(k) || merge_inside_key(v)),
        Node::Seq { items, .. } => items.iter().any(merge_inside_key),
        _ => false,
    }
}

fn is_merge(k: &Node) -> bool {
    matches!(k, Node::Scalar { text, sty: Sty::Plain, tag: None, .. } if text == "<<")
}
fn nullish(n: &Node) -> bool {
    matches!(n, Node::Scalar { text, sty: Sty::Plain, .. } if text.is_empty() || text == "~" || text.eq_ignore_ascii_case("null"))
}

/// entries a merge value contributes, in the order they are offered (first offer of a key wins)
fn source_entries(v: &Node) -> Result<Vec<(Node, Node)>, ()> {
    match v {
        Node::Map { entries, .. } => {
            let mut out: Vec<(Node, Node)> = entries.iter().filter(|(k, _)| !is_merge(k)).cloned().collect();
            for (_, mv) in entries.iter().filter(|(k, _)| is_merge(k)).rev() {
                out.extend(source_entries(mv)?);
            }
            Ok(out)
        }
        Node::Seq { items, .. } => {
            let mut out = Vec::new();
            for it in items.iter().rev() {
                out.extend(source_entries(it)?);
            }
            Ok(out)
        }
        n if nullish(n) => Ok(Vec::new()),
        _ => Err(()),
    }
}

/// the mapping written out in full, recursively; Err(()) = some merge value is invalid
fn merged(n: &Node) -> Result<Node, ()> {
    match n {
        Node::Map { entries, flow, anchor } => {
            let mut out: Vec<(Node, Node)> = Vec::new();
            for (k, v) in entries.iter().filter(|(k, _)| !is_merge(k)) {
                out.push((merged(k)?, merged(v)?));
            }
            let mut seen: Vec<Node> = entries.iter().filter(|(k, _)| !is_merge(k)).map(|(k, _)| k.clone()).collect();
            for (_, mv) in entries.iter().filter(|(k, _)| is_merge(k)).rev() {
                for (k, v) in source_entries(mv)? {
                    if seen.iter().any(|s| same_key(s, &k)) {
                        continue;
                    }
                    seen.push(k.clone());
                    out.push((merged(&k)?, merged(&v)?));
                }
            }
            Ok(Node::Map { entries: out, flow: *flow, anchor: anchor.clone() })
        }
        Node::Seq { items, flow, tag, anchor } => {
            Ok(Node::Seq { items: items.iter().map(merged).collect::<Result<Vec<_>, _>>()?, flow: *flow, tag: tag.clone(), anchor: anchor.clone() })
        }
        other => Ok(other.clone()),
    }
}

/// Structured family: three sources with a colliding key and one private key each, combined through
/// every nesting of merge sequences (inline and aliased, one or several `<<` entries), so that the
/// precedence is observable at every level.
fn precedence_family() -> Vec<Node> {
    let p = |t: &str| Node::plain(t);
    let src = |i: usize, anchor: bool| Node::Map {
        entries: vec![(p("k"), p(&i.to_string())), (p(["pa", "pb", "pc"][i]), p(&(10 + i).to_string())), (p("shared2"), p(&(20 + i).to_string()))],
        flow: true,
        anchor: if anchor { Some(format!("s{i}")) } else { None },
    };
    let seq = |items: Vec<Node>| Node::Seq { items, flow: true, tag: None, anchor: None };
    let mut out = Vec::new();
    for via_alias in [false, true] {
        let s = |i: usize| if via_alias { Node::Alias(format!("s{i}")) } else { src(i, false) };
        let shapes: Vec<Vec<Node>> = vec![
            vec![seq(vec![s(0), s(1), s(2)])],
            vec![seq(vec![seq(vec![s(0), s(1)]), s(2)])],
            vec![seq(vec![s(0), seq(vec![s(1), s(2)])])],
            vec![seq(vec![seq(vec![s(0)]), seq(vec![s(1)]), seq(vec![s(2)])])],
            vec![seq(vec![seq(vec![seq(vec![s(0), s(1)])]), s(2)])],
            vec![seq(vec![seq(vec![s(1), s(0)]), seq(vec![s(2), s(1)])])],
            vec![s(0), s(1), s(2)],
            vec![seq(vec![s(0), s(1)]), s(2)],
            vec![s(0), seq(vec![s(1), s(2)])],
            vec![seq(vec![s(2), s(2), s(0)]), seq(vec![])],
        ];
        for merge_values in shapes {
            for own_first in [true, false] {
                let mut entries: Vec<(Node, Node)> = Vec::new();
                if own_first {
                    entries.push((p("own"), p("o")));
                }
                for v in &merge_values {
                    entries.push((p("<<"), v.clone()));
                }
                if !own_first {
                    entries.push((p("pb"), p("own-overrides")));
                }
                let d = Node::Map { entries, flow: false, anchor: None };
                let mut top = Vec::new();
                if via_alias {
                    for i in 0..3 {
                        top.push((p(&format!("def{i}")), src(i, true)));
                    }
                }
                top.push((p("d"), d));
                out.push(Node::Map { entries: top, flow: false, anchor: None });
            }
        }
    }
    // merge SOURCES that contain a quoted or tagged `<<` key (an ordinary key there too), supplied inline, through an
    // alias and as a sequence element, with a mapping and with a scalar under it
    for sty in [Sty::Double, Sty::Single] {
        for (tag, under_map) in [(None, true), (None, false), (Some("!!str".to_string()), true)] {
            let qk = Node::Scalar { text: "<<".into(), sty: if tag.is_some() { Sty::Plain } else { sty }, tag: tag.clone(), anchor: None };
            let under = if under_map { Node::Map { entries: vec![(p("x"), p("1"))], flow: true, anchor: None } } else { p("scalar") };
            let source = |anchor: Option<String>| Node::Map { entries: vec![(qk.clone(), under.clone()), (p("y"), p("2"))], flow: true, anchor };
            for how in 0..3 {
                let mut top = Vec::new();
                let v = match how {
                    0 => source(None),
                    1 => {
                        top.push((p("base"), source(Some("B".into()))));
                        Node::Alias("B".into())
                    }
                    _ => seq(vec![src(0, false), source(None)]),
                };
                top.push((p("t"), Node::Map { entries: vec![(p("<<"), v), (p("z"), p("3"))], flow: false, anchor: None }));
                out.push(Node::Map { entries: top, flow: false, anchor: None });
            }
        }
    }
    // a merge source that itself merges a nested sequence
    let inner = Node::Map { entries: vec![(p("<<"), seq(vec![seq(vec![src(0, false), src(1, false)]), src(2, false)])), (p("mid"), p("m"))], flow: true, anchor: None };
    out.push(Node::Map { entries: vec![(p("d"), Node::Map { entries: vec![(p("<<"), inner), (p("top"), p("t"))], flow: false, anchor: None })], flow: false, anchor: None });
    out
}

fn targets() -> Vec<Ty> {
    let any = || Box::new(Ty::Any);
    vec![
        Ty::Any,
        Ty::Pairs(any(), any()),
        Ty::Map(any(), any()),
        Ty::Struct(vec![("a".into(), Ty::Option(any())), ("x".into(), Ty::Option(any())), ("k".into(), Ty::Option(any())), ("d".into(), Ty::Option(any()))], false),
        Ty::Seq(Box::new(Ty::Map(Box::new(Ty::String), any()))),
    ]
}

pub fn run(ctx: &mut Ctx) {
    util::quiet_panics();
    ctx.set_case_format("From SS Require Import Corr.Deser.\nLocal Open Scope N_scope.", "case", "check_case");
    ctx.rule = "cases: (document with merge entries: inline / alias / sequence / nested / null / invalid values, colliding and \
                non-colliding own keys) x duplicate-key policy x target kind; distinct = distinct Coq case term; non-trivial = \
                the expanded document has at least one plain untagged `<<` key".into();
    if let Some(r) = ctx.replay.clone() {
        replay(ctx, &r);
        return;
    }
    let quick = ctx.quick();
    let mut rng = ctx.rng.fork();
    let tys = targets();
    let mut docs: Vec<(String, Option<Node>)> = HAND.iter().map(|s| (s.to_string(), None)).collect();
    docs.extend(precedence_family().into_iter().map(|n| (docgen::render_doc(&n), Some(n))));
    let mut tries = 0;
    let want = if quick { 350 } else { 4000 };
    while docs.len() < want + HAND.len() + 63 && tries < want * 20 {
        tries += 1;
        let mut cfg = GenCfg::default_for(if quick { 14 } else { 28 });
        cfg.merges = true;
        cfg.dup_keys = tries % 3 == 0;
        cfg.tags = tries % 5 == 0;
        let d = docgen::gen_doc(&mut rng, &cfg);
        let has = docgen::expand(&d).map(|e| docgen::has_merge_key(&e)).unwrap_or(false);
        if !has && tries % 10 != 0 {
            continue;
        }
        docs.push((docgen::render_doc(&d), Some(d)));
    }
    for (text, node) in &docs {
        let expanded = node.as_ref().and_then(docgen::expand);
        let has_merge = expanded.as_ref().map(docgen::has_merge_key).unwrap_or(true);
        for pol in [P::Error, P::FirstWins, P::LastWins] {
            let picks: Vec<&Ty> = if quick { vec![&tys[0], rng.pick(&tys[1..])] } else { tys.iter().collect() };
            for ty in picks {
                let o = DOpts::new(pol);
                let (term, _r, _rs) = deserk::deser_case(text, ty, &o);
                ctx.case(term, has_merge, json!({"kind": "deser", "text": text, "ty": format!("{ty:?}"), "opts": o.json()}));
            }
        }
        let Some(e) = expanded else { continue };
        if !has_merge {
            continue;
        }
        if node.as_ref().map(docgen::has_anchored_empty_plain).unwrap_or(false) {
            ctx.count("anchored_empty_plain_skipped_by_oracle");
            continue;
        }
        if docgen::has_explicit_empty_key(&e) {
            // `? {~: v} : w` is the crate's explicit-empty-key notation (key None, value v): the
            // written value w is not read at all; outside this property's merged rendering
            ctx.count("explicit_empty_key_form_skipped_by_oracle");
            continue;
        }
        match merged(&e) {
            Ok(m) if docgen::has_explicit_empty_key(&m) => {
                ctx.count("explicit_empty_key_form_skipped_by_oracle");
            }
            Ok(m) => {
                ctx.count("merge_doc_valid");
                let full = docgen::render_doc(&m);
                // recorded finding F56: a mapping KEY that itself contains a merge key is fingerprinted as written, before
                // its own merge is applied
                let class = if merge_inside_key(&e) { "F56:merge-inside-complex-key" } else { "merge-not-equal-explicit" };
                for pol in [P::Error, P::FirstWins, P::LastWins] {
                    crate::props::c02::compare(ctx, "merge document vs fully merged rendering", class, text, &full, pol);
                }
            }
            Err(()) => {
                ctx.count("merge_doc_invalid_value");
                ctx.direct_evaluations += 1;
                // under LastWins nothing else can fail first (no duplicate errors): must be the merge error
                match util::no_panic(|| deserk::run(text, &Ty::Any, &DOpts::new(P::LastWins))) {
                    Ok(Err(_)) => {}
                    Ok(Ok(v)) => ctx.fail("bad-merge-value-accepted", format!("{text:?} has a merge value that is not a mapping / sequence of mappings / null but reads as {v:?}"),
                        json!({"kind": "must_fail", "text": text})),
                    Err(p) => ctx.fail("panic", format!("panic {p} on {text:?}"), json!({"kind": "must_fail", "text": text})),
                }
            }
        }
    }
}

fn replay(ctx: &mut Ctx, r: &serde_json::Value) {
    let text = r["text"].as_str().or(r["a"].as_str()).unwrap_or("");
    for p in [P::Error, P::FirstWins, P::LastWins] {
        println!("replay {text:?} under {p:?}: {:?}", deserk::run(text, &Ty::Any, &DOpts::new(p)).map_err(|e| e.to_string()));
    }
    if let Some(b) = r["b"].as_str() {
        println!("  fully merged rendering {b:?}: {:?}", deserk::run(b, &Ty::Any, &DOpts::new(P::LastWins)).map_err(|e| e.to_string()));
        crate::props::c02::compare(ctx, "replayed", "merge-not-equal-explicit", text, b, P::LastWins);
    }
}
