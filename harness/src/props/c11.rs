//! C11 -- a multi-document stream is the list of its documents, each on its own.
//!
//! K: from_multiple, the streaming iterator (`read`) and the single-document entry point on all
//!    short sequences over twelve document kinds vs `SS.Model.Deser` (from_multiple_model,
//!    read_model, from_str_model).
//! S: batch == per-document results; iterator == batch when nothing fails, continues after a
//!    type-level error, ends after a syntax error; single-document entry points reject a second
//!    document; anchors do not leak across documents.
//!    Families: twelve record kinds, tuple kinds, text documents (empty block scalars, quoted / block null, !!str), the
//!    same under a tight max_depth budget, and single-document entry points x budgets x null-like second documents.
use crate::coq;
use crate::ctx::Ctx;
use crate::deserk::{self, DOpts};
use crate::live;
use crate::rawcoq;
use crate::rt::{self, Dyn, Ty, Val};
use crate::util;
use serde_json::json;
use serde_saphyr::DuplicateKeyPolicy as P;

#[derive(Clone, Copy, Debug, PartialEq)]
enum Kind {
    Valid,
    Skipped,     // empty or null document
    TypeError,
    SyntaxError, // scanner/parser level: the stream cannot be continued
}

const DOCS: &[(&str, Kind, &str)] = &[
    ("validA", Kind::Valid, "a: 1\nb: [1, 2]\n"),
    ("validB_flow", Kind::Valid, "{a: 2, b: []}\n"),
    ("validC_endmarker", Kind::Valid, "a: 3\nb: [3]\n...\n"),
    ("empty", Kind::Skipped, ""),
    ("null", Kind::Skipped, "~\n"),
    ("anchors", Kind::Valid, "a: &x 4\nb: [*x, 5]\n"),
    ("alias_to_earlier_doc", Kind::TypeError, "a: *x\nb: []\n"), // an unknown alias is a recoverable (non-sticky) parser error
    ("type_error_early", Kind::TypeError, "a: [oops]\nb: [1]\n"),
    ("type_error_late", Kind::TypeError, "a: 5\nb: [1, x, 3]\nc: {deep: [1, 2]}\n"),
    ("syntax_error", Kind::SyntaxError, "a: \"unterminated\nb: [1]\n"),
    ("unterminated_flow", Kind::SyntaxError, "{a: 1, b: [1, 2\n"),
    ("comments", Kind::Valid, "a: 6 # c\nb: [6] # d\n# trailing\n"),
    ("container_anchor", Kind::Valid, "a: 7\nb: &y [7, 8]\n"),
    ("alias_to_earlier_container", Kind::TypeError, "a: 9\nb: *y\n"), // recoverable parser error, like an unknown scalar alias
];

/// second family (former finding F20): a fixed-arity root type and documents with surplus elements
const DOCS_TUPLE: &[(&str, Kind, &str)] = &[
    ("pair", Kind::Valid, "[1, 2]\n"),
    ("pair_block", Kind::Valid, "- 5\n- 6\n"),
    ("surplus_nested", Kind::TypeError, "[1, 2, [3, 4]]\n"),
    ("surplus_scalar", Kind::TypeError, "[1, 2, 3]\n"),
    ("missing", Kind::TypeError, "[7]\n"),
    ("null", Kind::Skipped, "~\n"),
    ("surplus_deep", Kind::TypeError, "- 1\n- 2\n- [[3, 4], {a: [5, 6]}]\n- [7, 8]\n"),
];
fn pair_ty() -> Ty {
    Ty::Tuple(vec![Ty::Int(true, 32), Ty::Int(true, 32)])
}

fn rec_ty() -> Ty {
    Ty::Struct(vec![("a".into(), Ty::Int(true, 32)), ("b".into(), Ty::Seq(Box::new(Ty::Int(true, 32))))], false)
}

fn stream_of(docs: &[(&str, Kind, &str)], seq: &[usize]) -> String {
    let mut s = String::new();
    for &i in seq {
        s.push_str("---\n");
        s.push_str(docs[i].2);
    }
    s
}

fn batch(text: &str, ty: &Ty, o: &DOpts) -> Result<Vec<Val>, serde_saphyr::Error> {
    rt::with_ty(ty, || serde_saphyr::from_multiple_with_options::<Dyn>(text, o.options())).map(|v| v.into_iter().map(|d| d.0).collect())
}

fn iterate(text: &str, ty: &Ty, o: &DOpts) -> Vec<Result<Val, serde_saphyr::Error>> {
    rt::with_ty(ty, || {
        let mut cur = std::io::Cursor::new(text.as_bytes().to_vec());
        let it = serde_saphyr::read_with_options::<_, Dyn>(&mut cur, o.options());
        let mut out = Vec::new();
        for (i, r) in it.enumerate() {
            if i > 40 {
                break;
            }
            out.push(r.map(|d| d.0));
        }
        out
    })
}

fn single(text: &str, ty: &Ty, o: &DOpts) -> Result<Val, serde_saphyr::Error> {
    deserk::run(text, ty, o)
}

fn xterm(r: &Result<Val, serde_saphyr::Error>) -> String {
    deserk::expect_term(r)
}

pub fn run(ctx: &mut Ctx) {
    util::quiet_panics();
    ctx.set_case_format("From SS Require Import Corr.Deser.\nLocal Open Scope N_scope.", "case", "check_case");
    ctx.rule = "cases: every sequence of length <= L over 12 document kinds (valid x4, empty, null, anchor-defining, aliasing an \
                earlier document's anchor, type error early/late, syntax error, unterminated flow) x {from_multiple, read iterator, \
                from_str}; distinct = distinct Coq case term; non-trivial = the stream has at least two documents".into();
    if let Some(r) = ctx.replay.clone() {
        replay(ctx, &r);
        return;
    }
    let plain = DOpts::new(P::Error);
    family(ctx, DOCS, &rec_ty(), &plain, 4);
    family(ctx, DOCS_TUPLE, &pair_ty(), &plain, 4);
    // text documents: only the plain null forms are "null documents"; empty block scalars, quoted and block-scalar
    // `null` are values (the batch function and the iterator must agree on that)
    family(ctx, DOCS_TEXT, &Ty::String, &plain, 3);
    family(ctx, DOCS_TEXT, &Ty::Option(Box::new(Ty::String)), &plain, 2);
    // a depth limit that every document meets on its own: what a failed document left open must not count against
    // the documents that follow it (the iterator enforces the budget per document)
    let mut tight = DOpts::new(P::Error);
    let mut b = serde_saphyr::budget::Budget::default();
    b.max_depth = 3;
    tight.budget = Some(b);
    family(ctx, DOCS, &rec_ty(), &tight, 3);
    family(ctx, DOCS_TUPLE, &pair_ty(), &tight, 3);
    single_with_budgets(ctx);
}

/// third family: text documents
const DOCS_TEXT: &[(&str, Kind, &str)] = &[
    ("word", Kind::Valid, "hello\n"),
    ("quoted_empty", Kind::Valid, "''\n"),
    ("folded_empty_endmarker", Kind::Valid, ">-\n...\n"),
    // F61 (saphyr-parser): an empty block scalar at the root swallows the document marker that follows it
    ("folded_empty", Kind::Valid, ">-\n"),
    ("literal_empty", Kind::Valid, "|\n"),
    ("literal_empty_endmarker", Kind::Valid, "|\n...\n"),
    ("literal_null", Kind::Valid, "|-\n  null\n"),
    ("quoted_null", Kind::Valid, "\"null\"\n"),
    ("str_tagged_tilde", Kind::Valid, "!!str ~\n"), // F60 (fixed): `!!str` makes it a string, not a null document
    ("str_tagged_empty", Kind::Valid, "!!str\n"),
    ("tilde", Kind::Skipped, "~\n"),
    ("null_word", Kind::Skipped, "NULL\n"),
    ("empty", Kind::Skipped, ""),
    ("sequence", Kind::TypeError, "[1, 2]\n"),
    ("syntax_error", Kind::SyntaxError, "\"unterminated\n"),
];

fn family(ctx: &mut Ctx, docs: &[(&str, Kind, &str)], ty: &Ty, o: &DOpts, max_len: usize) {
    let quick = ctx.quick();
    let mut rng = ctx.rng.fork();
    let n = docs.len();
    let mut seqs: Vec<Vec<usize>> = vec![vec![]];
    for a in 0..n {
        seqs.push(vec![a]);
        for b in 0..n {
            seqs.push(vec![a, b]);
            for c in 0..n {
                if max_len >= 3 && (!quick || rng.chance(1, 6)) {
                    seqs.push(vec![a, b, c]);
                }
                if !quick && max_len >= 4 {
                    for d in 0..n {
                        if rng.chance(1, 6) {
                            seqs.push(vec![a, b, c, d]);
                        }
                    }
                }
            }
        }
    }
    let ty = ty.clone();
    // per-document reference results
    let alone: Vec<Result<Val, serde_saphyr::Error>> = docs.iter().map(|d| single(&format!("---\n{}", d.2), &ty, o)).collect();
    for (i, d) in docs.iter().enumerate() {
        // sanity of the kind table itself
        let ok = match d.1 {
            Kind::Valid => alone[i].is_ok(),
            Kind::Skipped => true,
            Kind::TypeError | Kind::SyntaxError => alone[i].is_err(),
        };
        if !ok {
            ctx.notes.push(format!("document kind {} does not behave as labelled: {:?}", d.0, alone[i].as_ref().map_err(|e| e.to_string())));
        }
    }
    for seq in &seqs {
        let text = stream_of(docs, seq);
        let names: Vec<&str> = seq.iter().map(|&i| docs[i].0).collect();
        let nontrivial = seq.len() >= 2;
        ctx.count(&format!("stream_len_{}", seq.len()));
        let rs = rawcoq::raw_stream(live::strip_bom(&text));
        let fuel = 4000 + 12 * rs.items.len();
        // ---- batch
        let rb = batch(&text, &ty, o);
        let mexp = match &rb {
            Ok(vs) => format!("(MXOk {})", coq::list(&vs.iter().map(|v| v.coq()).collect::<Vec<_>>(), "val")),
            Err(e) => format!("(MXErr {})", coq::eclass(e)),
        };
        ctx.case(format!("CMulti {fuel} {} {} {} {mexp}", o.coq(), ty.coq(), rs.term()), nontrivial, json!({"kind": "batch", "docs": names, "text": text, "ty": format!("{ty:?}"), "opts": o.json()}));
        // ---- iterator (reader based: raw items come from the buffered input)
        let rsb = rawcoq::raw_stream_buffered(&text);
        let ri = iterate(&text, &ty, o);
        let iexp = coq::list(&ri.iter().map(xterm).collect::<Vec<_>>(), "dexpect");
        ctx.case(format!("CIter {fuel} {} {} {} {iexp}", o.coq(), ty.coq(), rsb.term()), nontrivial, json!({"kind": "iter", "docs": names, "text": text, "ty": format!("{ty:?}"), "opts": o.json()}));
        // ---- single
        let r1 = single(&text, &ty, o);
        ctx.case(format!("CDeserDoc {fuel} {} {} {} {}", o.coq(), ty.coq(), rs.term(), xterm(&r1)), nontrivial, json!({"kind": "single", "docs": names, "text": text, "ty": format!("{ty:?}"), "opts": o.json()}));

        // ---- S
        ctx.direct_evaluations += 3;
        let replay = json!({"kind": "stream", "docs": names, "text": text, "ty": format!("{ty:?}"), "opts": o.json()});
        // an empty root block scalar directly followed by a `---` line (known finding F61)
        let absorbs = seq.windows(2).any(|w| matches!(docs[w[0]].0, "folded_empty" | "literal_empty"));
        let cls = |c: &str| if absorbs { "F61:root-block-scalar-absorbs-document-marker".to_string() } else { c.to_string() };
        let kinds: Vec<Kind> = seq.iter().map(|&i| docs[i].1).collect();
        // batch: the list of per-document results, first error wins, null/empty skipped.
        // (a syntax error makes everything after it unreadable, which is an error for the batch anyway)
        let first_bad = kinds.iter().position(|k| matches!(k, Kind::TypeError | Kind::SyntaxError));
        match (first_bad, &rb) {
            (None, Ok(vs)) => {
                let want: Vec<&Val> = seq.iter().filter(|&&i| docs[i].1 == Kind::Valid).map(|&i| alone[i].as_ref().unwrap()).collect();
                if vs.iter().collect::<Vec<_>>() != want {
                    ctx.fail(&cls("batch-differs-from-per-document"), format!("from_multiple over {names:?} gives {vs:?}, per-document results {want:?}"), replay.clone());
                }
            }
            (None, Err(e)) => ctx.fail(&cls("batch-rejects-valid-stream"), format!("from_multiple over {names:?} fails with {}", coq::variant_name(e)), replay.clone()),
            (Some(_), Err(_)) => {}
            (Some(k), Ok(vs)) => ctx.fail(&cls("batch-accepts-failing-document"), format!("from_multiple over {names:?} returns {vs:?} although document {k} fails on its own"), replay.clone()),
        }
        // iterator: Ok for valid, Err and continue for type errors, Err and stop for syntax errors
        let mut want: Vec<Option<&Val>> = Vec::new(); // None = some error
        for (&i, k) in seq.iter().zip(&kinds) {
            match k {
                Kind::Valid => want.push(Some(alone[i].as_ref().unwrap())),
                Kind::Skipped => {}
                Kind::TypeError => want.push(None),
                Kind::SyntaxError => {
                    want.push(None);
                    break;
                }
            }
        }
        let got: Vec<Option<&Val>> = ri.iter().map(|r| r.as_ref().ok()).collect();
        if got != want {
            let show = |v: &Vec<Option<&Val>>| v.iter().map(|x| if x.is_some() { "Ok" } else { "Err" }).collect::<Vec<_>>().join(",");
            ctx.fail(&cls("iterator-items"), format!("read over {names:?} yields [{}], expected [{}] (values: {got:?})", show(&got), show(&want)), replay.clone());
        }
        // single-document entry point: a stream whose first two documents both have content is rejected
        let with_content: Vec<usize> = seq.iter().copied().filter(|&i| docs[i].0 != "empty").collect();
        if seq.len() >= 2 && docs[seq[0]].1 == Kind::Valid {
            if let Ok(v) = &r1 {
                ctx.fail(&cls("single-accepts-second-document"), format!("from_str over {names:?} returns {v:?}"), replay.clone());
            }
        } else if seq.len() == 1 {
            let same = match (&r1, &alone[seq[0]]) {
                (Ok(a), Ok(b)) => a == b,
                (Err(_), Err(_)) => true,
                _ => false,
            };
            if !same {
                ctx.fail(&cls("single-differs"), format!("from_str over {names:?} differs from the per-document result"), replay.clone());
            }
        }
        let _ = with_content;
    }
}

/// Single-document entry points reject a second document under every budget: a breach raised by the second
/// document's start (max_documents = 1, a node / event limit that the second document crosses) is an error too,
/// never "trailing garbage" (F58).
fn single_with_budgets(ctx: &mut Ctx) {
    use serde_saphyr::budget::Budget;
    let firsts = ["a: 1\n", "- x\n- y\n", "scalar\n", "a: 1\n...\n", "--- a: 1\n"];
    let seconds = ["b: 2\n", "- z\n", "other\n", "{k: [1, 2, 3]}\n", "", "~\n", "null\n", "# only a comment\n", "...\n", "''\n", "|\n"];
    let any = Ty::Any;
    for f in firsts {
        for s2 in seconds {
            let text = format!("{f}---\n{s2}");
            let mut budgets: Vec<(String, Option<Budget>)> = vec![("none".into(), None), ("default".into(), Some(Budget::default()))];
            for md in [1usize, 2, 3] {
                let mut b = Budget::default();
                b.max_documents = md;
                budgets.push((format!("max_documents={md}"), Some(b)));
            }
            for (field, lim) in [("max_events", 6usize), ("max_nodes", 4), ("max_total_scalar_bytes", 3), ("max_depth", 1)] {
                let mut b = Budget::default();
                match field {
                    "max_events" => b.max_events = lim,
                    "max_nodes" => b.max_nodes = lim,
                    "max_total_scalar_bytes" => b.max_total_scalar_bytes = lim,
                    _ => b.max_depth = lim,
                }
                budgets.push((format!("{field}={lim}"), Some(b)));
            }
            for (bname, b) in budgets {
                let mut o = DOpts::new(P::Error);
                o.budget = b;
                let replay = json!({"kind": "single_budget", "text": text, "budget": bname});
                // K
                let (term, r, _) = deserk::deser_case(&text, &any, &o);
                ctx.case(term, true, json!({"kind": "deser", "text": text, "ty": "Any", "opts": o.json()}));
                // S: through every single-document entry point
                ctx.direct_evaluations += 4;
                let results: Vec<(&str, bool)> = vec![
                    ("from_str", r.is_ok()),
                    ("from_slice", rt::with_ty(&any, || serde_saphyr::from_slice_with_options::<Dyn>(text.as_bytes(), o.options())).is_ok()),
                    ("from_reader", rt::with_ty(&any, || serde_saphyr::from_reader_with_options::<_, Dyn>(std::io::Cursor::new(text.as_bytes().to_vec()), o.options())).is_ok()),
                    ("with_deserializer_from_str", rt::with_ty(&any, || serde_saphyr::with_deserializer_from_str_with_options(&text, o.options(), |d| <Dyn as serde::Deserialize>::deserialize(d))).is_ok()),
                ];
                for (name, ok) in results {
                    if ok {
                        ctx.fail("single-accepts-second-document", format!("{name} over {text:?} with budget {bname} returns a value although a second document follows"), replay.clone());
                    }
                }
            }
        }
    }
}

fn replay(ctx: &mut Ctx, r: &serde_json::Value) {
    let text = r["text"].as_str().unwrap_or("");
    let ty = match r["ty"].as_str().unwrap_or("") {
        "String" => Ty::String,
        "Option(String)" => Ty::Option(Box::new(Ty::String)),
        "Any" => Ty::Any,
        _ => if r["docs"].to_string().contains("pair") || r["docs"].to_string().contains("surplus") { pair_ty() } else { rec_ty() },
    };
    let o = if r["opts"].is_object() { DOpts::from_json(&r["opts"]) } else { DOpts::new(P::Error) };
    println!("replay stream {:?} as {ty:?} with {}", r["docs"], o.json());
    println!("  from_multiple: {:?}", batch(text, &ty, &o).map_err(|e| e.to_string()));
    println!("  read: {:?}", iterate(text, &ty, &o).into_iter().map(|x| x.map_err(|e| e.to_string())).collect::<Vec<_>>());
    println!("  from_str: {:?}", single(text, &ty, &o).map_err(|e| e.to_string()));
    let _ = ctx;
}
