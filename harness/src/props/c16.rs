//! C16 -- reported locations are consistent with the input and name the right node.
//!
//! K: (1) every mark saphyr attaches to an event against `SS.Model.Position.mark_at` (index, line,
//!        column, byte offset of the same position of the BOM-stripped text);
//!    (2) typed deserialization with every node wrapped in `Spanned` (type `TSpanned TTree`) and with
//!        one leaf given a mismatching type, compared with `SS.Model.Deser` INCLUDING both locations
//!        of values and errors.
//! S: every location lies inside the input and its four coordinates agree (recomputed from the text);
//!    the byte range of a span-carrying scalar is exactly the node's source text; a type error at a
//!    leaf carries the two locations a span-carrying value gives for that leaf; without aliases the
//!    two locations coincide, with aliases the use site is an alias token.
//!    The provoked type error has three origins (deserializer, Error::custom, Serde static constructors); fixed witnesses
//!    for use sites that are not values (aliased key, merge of an aliased scalar).
use crate::coq;
use crate::ctx::{Ctx, Rng};
use crate::deserk::{self, DOpts};
use crate::docgen::{self, GenCfg, Node, Sty};
use crate::rt::{Ty, Val};
use crate::util;
use serde_json::{Value, json};
use serde_saphyr::{DuplicateKeyPolicy, Location};

fn strip_bom(t: &str) -> &str {
    t.strip_prefix('\u{feff}').unwrap_or(t)
}

/// (line, column) 1-based and byte offset of the position before character `idx`, from the text alone
fn position(text: &str, idx: usize) -> Option<(u64, u64, usize)> {
    let chars: Vec<char> = text.chars().collect();
    if idx > chars.len() {
        return None;
    }
    let (mut line, mut col, mut byte) = (1u64, 1u64, 0usize);
    for i in 0..idx {
        let c = chars[i];
        let brk = c == '\n' || (c == '\r' && chars.get(i + 1) != Some(&'\n'));
        if brk {
            line += 1;
            col = 1;
        } else {
            col += 1;
        }
        byte += c.len_utf8();
    }
    Some((line, col, byte))
}

/// S1: the four coordinates of a location denote one position of the text
fn check_location(ctx: &mut Ctx, text: &str, l: &Location, what: &str, replay: &Value) -> bool {
    ctx.direct_evaluations += 1;
    if *l == Location::UNKNOWN {
        return true;
    }
    let t = strip_bom(text);
    let sp = l.span();
    let off = sp.offset() as usize;
    let len = sp.len() as usize;
    let Some((line, col, byte)) = position(t, off) else {
        ctx.fail("location-outside-input", format!("{what}: character offset {off} beyond the {} characters of the input", t.chars().count()), replay.clone());
        return false;
    };
    // (scanner errors get a nominal length of 1, also at the very end of the input)
    let nominal_at_end = what.starts_with("error") && len == 1 && off == t.chars().count();
    if position(t, off + len).is_none() && !nominal_at_end {
        ctx.fail("location-outside-input", format!("{what}: span {off}+{len} ends beyond the input"), replay.clone());
        return false;
    }
    if l.line() != line || l.column() != col {
        // recorded finding F55: for a scan error raised at the very end of the input the parser's mark carries the
        // character index of the end but a line number one past the last line
        if what.starts_with("error") && off == t.chars().count() && l.line() > line {
            ctx.fail("F55:scan-error-mark-at-end-of-input", format!("{what}: line {} column {} reported for the end of the input (character offset {off} is line {line} column {col})", l.line(), l.column()), replay.clone());
            return false;
        }
        ctx.fail("line-column-mismatch", format!("{what}: line {} column {} reported, character offset {off} is line {line} column {col}", l.line(), l.column()), replay.clone());
        return false;
    }
    match (sp.byte_offset(), sp.byte_len()) {
        (Some(bo), Some(bl)) => {
            let end = position(t, off + len).map(|p| p.2).unwrap_or(t.len());
            if bo as usize != byte || bo as usize + bl as usize != end {
                ctx.fail("byte-offset-mismatch", format!("{what}: byte range {bo}+{bl} reported, characters {off}+{len} are bytes {byte}..{end}"), replay.clone());
                return false;
            }
        }
        // (0, 0) is the crate's "no byte info" sentinel; an empty span at the very start of the input
        // collides with it and is reported as None -- nothing contradictory is reported there
        _ if off == 0 && len == 0 => {}
        // errors built from a scanner mark carry no byte info at all (the API's documented `None`)
        _ if what.starts_with("error") => {}
        _ => {
            ctx.fail("byte-offset-missing", format!("{what}: no byte offset for in-memory input"), replay.clone());
            return false;
        }
    }
    true
}

/// byte length of the quoted scalar token at the start of `src` (None if not quoted / unterminated)
fn quoted_token_len(src: &str) -> Option<usize> {
    let b = src.as_bytes();
    let q = *b.first()?;
    if q != b'"' && q != b'\'' {
        return None;
    }
    let mut i = 1;
    while i < b.len() {
        if q == b'"' && b[i] == b'\\' {
            i += 2;
            continue;
        }
        if b[i] == q {
            if q == b'\'' && b.get(i + 1) == Some(&b'\'') {
                i += 2;
                continue;
            }
            return Some(i + 1);
        }
        i += 1;
    }
    None
}

fn source_of<'a>(text: &'a str, l: &Location) -> Option<&'a str> {
    let t = strip_bom(text);
    let bo = l.span().byte_offset()? as usize;
    let bl = l.span().byte_len()? as usize;
    t.get(bo..bo + bl)
}

struct Walk<'a> {
    text: &'a str,
    has_alias: bool,
    has_merge: bool,
    replay: &'a Value,
    leaves: Vec<(Location, Location)>,
}

/// walk a `TSpanned TTree` value: S1 on every location, exact source text of scalars, use/def shape
fn walk(ctx: &mut Ctx, w: &mut Walk, v: &Val, in_key: bool) {
    let Val::Spanned(r, d, inner) = v else { return };
    let ok = check_location(ctx, w.text, r, "Spanned.referenced", w.replay) & check_location(ctx, w.text, d, "Spanned.defined", w.replay);
    if !ok {
        return;
    }
    ctx.direct_evaluations += 1;
    // (through a merge the use site is the merge source, which need not be an alias)
    if !w.has_alias && !w.has_merge && r != d {
        ctx.fail("use-site-differs-without-alias", format!("referenced {r:?} != defined {d:?} in a document without aliases"), w.replay.clone());
    }
    if r != d && !in_key && !w.has_merge {
        // the use site of a value that came through an alias is the alias token
        let t = strip_bom(w.text);
        let at = r.span().byte_offset().unwrap_or(0) as usize;
        if !t[at.min(t.len())..].starts_with('*') {
            ctx.fail("use-site-not-an-alias", format!("referenced location {r:?} differs from defined {d:?} but does not point at an alias token: {:?}", &t[at.min(t.len())..].chars().take(12).collect::<String>()), w.replay.clone());
        }
    }
    match inner.as_ref() {
        Val::Seq(items) => {
            for i in items {
                walk(ctx, w, i, false);
            }
        }
        Val::Map(entries) => {
            for (k, x) in entries {
                walk(ctx, w, k, true);
                walk(ctx, w, x, false);
            }
        }
        leaf => {
            w.leaves.push((*r, *d));
            // the byte range of a scalar is exactly its source text: no surrounding blanks, and read
            // on its own it is the same scalar
            ctx.direct_evaluations += 1;
            if let Some(src) = source_of(w.text, d) {
                // multi-line sources (block scalars: the content lines; folded quoted scalars) are not judged here
                let block = src.contains(['\n', '\r']);
                if !block && !src.is_empty() {
                    if src != src.trim() || quoted_token_len(src).is_some_and(|n| n < src.len()) {
                        // saphyr ends the span of a quoted scalar after the blanks (and a comment) that follow it
                        let quoted_tail = quoted_token_len(src).is_some_and(|n| {
                            let tail = src[n..].trim_start_matches([' ', '\t']);
                            src[n..].starts_with([' ', '\t']) && (tail.is_empty() || tail.starts_with('#'))
                        });
                        // ... and the span of an empty (anchored / tagged) node in a flow collection covers the separator after it
                        let empty_sep = matches!(leaf, Val::Null) && src.chars().all(|c| matches!(c, ',' | ':' | ' ' | '\t' | '?'));
                        let class = if quoted_tail { "F26:quoted-scalar-span-includes-trailing-blanks" } else if empty_sep { "F27:empty-node-span-covers-separator" } else { "span-not-exact" };
                        ctx.fail(class, format!("scalar span {src:?} is more than the scalar's source text"), w.replay.clone());
                    } else if !src.contains(['\n', '\r']) {
                        let again = crate::rt::from_str_rt(src, &Ty::Any, DOpts::new(DuplicateKeyPolicy::Error).options());
                        match again {
                            Ok(v2) if v2 == *leaf => {}
                            // a tag or anchor written before the scalar is not part of its span
                            other => {
                                let plainish = matches!(leaf, Val::Str(s) if s == src);
                                if !plainish {
                                    ctx.count("span_reparse_differs");
                                    let _ = other;
                                }
                            }
                        }
                    }
                }
            }
        }
    }
}

fn opts() -> DOpts {
    DOpts::new(DuplicateKeyPolicy::LastWins)
}

fn err_locs(e: &serde_saphyr::Error) -> (Location, Location) {
    let e = e.without_snippet();
    match e.locations() {
        Some(l) => (l.reference_location, l.defined_location),
        None => {
            let l = e.location().unwrap_or(Location::UNKNOWN);
            (l, l)
        }
    }
}

fn expect_full(r: &Result<Val, serde_saphyr::Error>) -> String {
    match r {
        Ok(v) => format!("(XOk {})", v.coq()),
        Err(e) => {
            let (a, b) = err_locs(e);
            format!("(XErrLocs {} {} {})", coq::eclass(e), crate::rawcoq::loc(&a), crate::rawcoq::loc(&b))
        }
    }
}

fn typed_case(ctx: &mut Ctx, text: &str, ty: &Ty, kind: &str) -> Result<Val, serde_saphyr::Error> {
    let o = opts();
    let rs = crate::rawcoq::raw_stream(strip_bom(text));
    let r = deserk::run(text, ty, &o);
    let fuel = 3000 + 12 * rs.items.len() + 20 * ty.size();
    let term = format!("CD (CDeserDoc {} {} {} {} {})", fuel, o.coq(), ty.coq(), rs.term(), expect_full(&r));
    ctx.case(term, rs.aliases > 0 || r.is_err(), json!({"kind": kind, "text": text, "ty": format!("{ty:?}")}));
    r
}

/// type of an (alias-free) node with leaf number `target` given the mismatching type `bad`
fn derive_ty(n: &Node, counter: &mut usize, target: usize, bad: &Ty) -> Option<Ty> {
    match n {
        Node::Alias(_) => None,
        Node::Scalar { .. } => {
            let me = *counter;
            *counter += 1;
            Some(if me == target { bad.clone() } else { Ty::Spanned(Box::new(Ty::Any)) })
        }
        Node::Seq { items, .. } => {
            let mut ts = Vec::new();
            for i in items {
                ts.push(derive_ty(i, counter, target, bad)?);
            }
            Some(Ty::Tuple(ts))
        }
        Node::Map { entries, .. } => {
            let mut fs: Vec<(String, Ty)> = Vec::new();
            for (k, v) in entries {
                let Node::Scalar { text, sty: Sty::Plain | Sty::Single | Sty::Double, tag: None, .. } = k else { return None };
                if text == "<<" || text.is_empty() || fs.iter().any(|(n, _)| n == text) {
                    return None;
                }
                fs.push((text.clone(), derive_ty(v, counter, target, bad)?));
            }
            Some(Ty::Struct(fs, false))
        }
    }
}

fn collect_leaf_texts(n: &Node, out: &mut Vec<String>) {
    match n {
        // a scalar tagged !!null is null whatever its text
        Node::Scalar { tag: Some(t), .. } if t == "!!null" => out.push("~".into()),
        Node::Scalar { text, .. } => out.push(text.clone()),
        Node::Seq { items, .. } => items.iter().for_each(|i| collect_leaf_texts(i, out)),
        Node::Map { entries, .. } => entries.iter().for_each(|(_, v)| collect_leaf_texts(v, out)),
        Node::Alias(_) => {}
    }
}

fn leaf_locs(v: &Val, out: &mut Vec<(Location, Location)>) {
    match v {
        Val::Spanned(r, d, inner) => match inner.as_ref() {
            Val::Seq(_) | Val::Map(_) | Val::Struct(_) => leaf_locs(inner, out),
            _ => out.push((*r, *d)),
        },
        Val::Seq(items) => items.iter().for_each(|i| leaf_locs(i, out)),
        Val::Struct(fs) => fs.iter().for_each(|(_, x)| leaf_locs(x, out)),
        _ => {}
    }
}

fn restyle(rng: &mut Rng, text: &str, comments: bool) -> String {
    let br = *rng.pick(&["\n", "\n", "\r\n", "\r"]);
    let mut out = String::new();
    if rng.chance(1, 10) {
        out.push('\u{feff}');
    }
    if comments && rng.chance(1, 2) {
        out.push_str("# é leading comment 日本");
        out.push_str(br);
    }
    for line in text.split_inclusive('\n') {
        let (body, nl) = match line.strip_suffix('\n') {
            Some(b) => (b, true),
            None => (line, false),
        };
        out.push_str(body);
        if comments && rng.chance(1, 3) && !body.is_empty() {
            out.push_str(if rng.chance(1, 2) { " # c é" } else { "\t# 日本" });
        }
        if nl {
            out.push_str(br);
        }
    }
    out
}

const FIXED: &[&str] = &[
    "a: &x v\nb: *x\n",
    "é: &x 日本\nb: [*x, *x]\n",
    "base: &b {k: v, l: [p, q]}\nuse: *b\n",
    "base: &b {k: v}\nd:\n  <<: *b\n  m: 1\n",
    "base: &b {k: v}\nd: {<<: [*b, {z: 1}], m: 1}\n",
    "- &a [1, 2]\n- *a\n- x: *a\n",
    "\u{feff}k: \"dq é\"\r\nj: 'sq'\r\n",
    "a:\r  - 1\r  - &s two\rb: *s\r",
    "k: |\n  block é\n  text\nj: >-\n  folded\n",
];

pub fn run(ctx: &mut Ctx) {
    util::quiet_panics();
    ctx.set_case_format("From SS Require Import Corr.Position.\nLocal Open Scope N_scope.", "pcase", "check_pcase");
    ctx.rule = "cases: all parser marks of generated documents (multi-byte text, LF/CRLF/CR, tabs, comments, flow and block, aliases, merges) \
                against the position function; every such document read as Spanned<tree of Spanned> with both locations of every node, and \
                with one leaf typed to mismatch, with both error locations; distinct = distinct Coq case term; non-trivial = aliases present or error"
        .into();
    if let Some(r) = ctx.replay.clone() {
        println!("replay: {r}");
        let text = r["text"].as_str().unwrap_or("").to_string();
        one_doc(ctx, &text, None, &mut Rng(1));
        return;
    }
    let mut rng = ctx.rng.fork();
    alias_sites_outside_values(ctx);
    for t in FIXED {
        one_doc(ctx, t, None, &mut rng);
    }
    let n = if ctx.quick() { 120 } else { 1500 };
    for round in 0..n {
        let mut cfg = GenCfg::default_for(4 + rng.below(12));
        cfg.dup_keys = false;
        cfg.tags = round % 4 == 0;
        cfg.merges = round % 3 != 0;
        cfg.block_scalars = round % 2 == 0;
        let d = docgen::gen_doc(&mut rng, &cfg);
        let text = restyle(&mut rng, &docgen::render_doc(&d), !cfg.block_scalars);
        one_doc(ctx, &text, Some(&d), &mut rng);
        if round % 6 == 0 {
            let m = docgen::mutate(&mut rng, &text);
            one_doc(ctx, &m, None, &mut rng);
        }
    }
}

/// use sites that are not values: an aliased mapping KEY and the value of a merge key
fn alias_sites_outside_values(ctx: &mut Ctx) {
    let int = Ty::Int(true, 32);
    // F81 (open): the key `*k` is replayed without its use site
    let text = "names: &k foo\nm:\n  *k : 1\n  bar: 2\n";
    let ty = Ty::Struct(vec![("names".into(), Ty::String), ("m".into(), Ty::Map(Box::new(int.clone()), Box::new(int.clone())))], false);
    ctx.direct_evaluations += 1;
    match deserk::run(text, &ty, &opts()) {
        Ok(v) => ctx.fail("mismatch-accepted", format!("{text:?}: the key foo was read as an integer: {v:?}"), json!({"kind": "alias_key", "text": text})),
        Err(e) => {
            let (er, ed) = err_locs(&e);
            if !(er.line() == 3 && er.column() == 3 && ed.line() == 1 && ed.column() == 11) {
                ctx.fail("F81:aliased-key-without-use-site", format!("{text:?}: the error for the aliased key reports use site {}:{} and definition {}:{}; the alias is at 3:3, the anchored node at 1:11", er.line(), er.column(), ed.line(), ed.column()),
                    json!({"kind": "alias_key", "text": text}));
            }
        }
    }
    // F82 (open): `<<: *s` with a scalar behind the alias reports the definition site only
    let text = "s: &s foo\nm:\n  <<: *s\n  a: 1\n";
    let ty = Ty::Struct(vec![("s".into(), Ty::String), ("m".into(), Ty::Map(Box::new(Ty::String), Box::new(int)))], false);
    ctx.direct_evaluations += 1;
    match deserk::run(text, &ty, &opts()) {
        Ok(v) => ctx.fail("mismatch-accepted", format!("{text:?}: a scalar was merged: {v:?}"), json!({"kind": "merge_scalar", "text": text})),
        Err(e) => {
            let (er, ed) = err_locs(&e);
            if !(er.line() == 3 && ed.line() == 1 && ed.column() == 7) {
                ctx.fail("F82:merge-of-aliased-scalar-without-use-site", format!("{text:?}: the error reports use site {}:{} and definition {}:{}; the merge entry is on line 3, the anchored scalar at 1:7", er.line(), er.column(), ed.line(), ed.column()),
                    json!({"kind": "merge_scalar", "text": text}));
            }
        }
    }
}

fn one_doc(ctx: &mut Ctx, text: &str, node: Option<&Node>, rng: &mut Rng) {
    let replay = json!({"kind": "doc", "text": text});
    let t = strip_bom(text);
    // ---- K1 + S: parser marks
    let chars_term = coq::s(t);
    let mut marks: Vec<String> = Vec::new();
    let mut seen = std::collections::BTreeSet::new();
    let mut parser = saphyr_parser::Parser::new_from_str(t);
    let mut has_alias = false;
    loop {
        match parser.next() {
            Some(Ok((ev, span))) => {
                if matches!(ev, saphyr_parser::Event::Alias(_)) {
                    has_alias = true;
                }
                for m in [span.start, span.end] {
                    if seen.insert(m.index()) {
                        marks.push(format!("(mkMark {} {} {} {})", m.index(), m.line(), m.col(), coq::opt(&m.byte_offset(), |b| b.to_string())));
                        ctx.direct_evaluations += 1;
                        match position(t, m.index()) {
                            Some((l, c, b)) if l == m.line() as u64 && c == m.col() as u64 + 1 && Some(b) == m.byte_offset() => {}
                            other => ctx.fail("parser-mark-inconsistent", format!("mark index {} line {} col {} byte {:?}; the text gives {other:?}", m.index(), m.line(), m.col(), m.byte_offset()), replay.clone()),
                        }
                    }
                }
            }
            Some(Err(_)) | None => break,
        }
    }
    ctx.case(format!("CMarks {} {}", chars_term, coq::list(&marks, "mark")), !t.is_ascii() || t.contains('\r'), json!({"kind": "marks", "text": text}));

    // ---- K2 + S: everything span-carrying
    let tree_ty = Ty::Spanned(Box::new(Ty::Tree));
    let r = typed_case(ctx, text, &tree_ty, "spanned-tree");
    let mut all_leaves = Vec::new();
    match &r {
        Ok(v) => {
            // `? {~ : v} : w` is the crate's explicit-empty-key notation: the value delivered for the entry is the
            // one written inside the key, so use site and definition site differ without any alias (treated like a merge)
            let empty_key_form = node.as_ref().and_then(|n| docgen::expand(n)).map(|e| docgen::has_explicit_empty_key(&e)).unwrap_or_else(|| text.contains("? {"));
            let mut w = Walk { text, has_alias, has_merge: text.contains("<<") || empty_key_form, replay: &replay, leaves: Vec::new() };
            walk(ctx, &mut w, v, false);
            all_leaves = w.leaves;
            ctx.count("doc_ok");
        }
        Err(e) => {
            let (a, b) = err_locs(e);
            check_location(ctx, text, &a, "error location", &replay);
            check_location(ctx, text, &b, "error defined-location", &replay);
            ctx.count("doc_err");
        }
    }
    let _ = all_leaves;

    // ---- K2 + S2: a type error at each leaf in turn carries that leaf's two locations
    let Some(node) = node else { return };
    let Some(expanded) = docgen::expand(node) else { return };
    let mut c = 0usize;
    let Some(all_spanned) = derive_ty(&expanded, &mut c, usize::MAX, &Ty::Any) else { return };
    let nleaves = c;
    if nleaves == 0 {
        return;
    }
    let Ok(base) = deserk::run(text, &all_spanned, &opts()) else { return };
    let mut locs = Vec::new();
    leaf_locs(&base, &mut locs);
    if locs.len() != nleaves {
        return;
    }
    let picks: Vec<usize> = if nleaves <= 4 { (0..nleaves).collect() } else { (0..4).map(|_| rng.below(nleaves)).collect() };
    let mut leaf_texts = Vec::new();
    collect_leaf_texts(&expanded, &mut leaf_texts);
    for target in picks {
        // a null-like scalar is accepted as an empty sequence (documented leniency): no mismatch there
        if leaf_texts.get(target).is_none_or(|t| matches!(t.as_str(), "" | "~" | "null" | "Null" | "NULL")) {
            ctx.count("leaf_mismatch_skipped_nullish");
            continue;
        }
        // three origins of a type error: raised by the deserializer itself (a sequence is wanted; also a model case),
        // by the target type through `Error::custom`, and by one of Serde's static constructors (no span of its own)
        let origin = rng.below(3);
        let bad = match origin { 0 => Ty::Seq(Box::new(Ty::Any)), 1 => Ty::FailCustom, _ => Ty::FailInvalid };
        let mut c = 0usize;
        let Some(ty) = derive_ty(&expanded, &mut c, target, &bad) else { continue };
        ctx.count(&format!("leaf_mismatch_origin_{}", ["deserializer", "custom", "serde_static"][origin]));
        let r = if origin == 0 { typed_case(ctx, text, &ty, "leaf-mismatch") } else { deserk::run(text, &ty, &opts()) };
        ctx.direct_evaluations += 1;
        ctx.count("leaf_mismatch_runs");
        match r {
            Ok(_) => ctx.fail("mismatch-accepted", format!("leaf {target} typed as a sequence was accepted"), replay.clone()),
            Err(e) => {
                let (er, ed) = err_locs(&e);
                let (wr, wd) = locs[target];
                check_location(ctx, text, &er, "error location", &replay);
                if wr != wd {
                    // reached through an alias / merge: the error is reported at the use site and carries a
                    // second, different, consistent definition-site location (the anchored node; for a leaf
                    // nested in an anchored container the wrapper gives the leaf itself, the error the container)
                    ctx.count("leaf_mismatch_through_alias");
                    check_location(ctx, text, &ed, "error defined-location", &replay);
                    if er != wr || ed == er {
                        ctx.fail("error-locations-differ-from-spanned", format!("type error at leaf {target}: error reports ({er:?}, {ed:?}), a span-carrying value there has referenced {wr:?} defined {wd:?}"), replay.clone());
                    }
                } else if er != wr {
                    // F72 (open): an error raised by the target type for the ROOT node carries no location at all
                    let class = if origin != 0 && matches!(expanded, Node::Scalar { .. }) && er.line() == 0 { "F72:root-error-without-location" } else { "error-location-differs-from-spanned" };
                    ctx.fail(class, format!("type error at leaf {target}: error at {er:?}, a span-carrying value there is at {wr:?}"), replay.clone());
                }
            }
        }
    }
}
