//! Untyped canonical tree built through `deserialize_any` (records which visit_* arrived), used as
//! the observer for value-equality oracles.
use serde::de::{self, Deserialize, Deserializer, MapAccess, SeqAccess, Visitor};
use std::fmt;

#[derive(Clone, Debug, PartialEq)]
pub enum Tree {
    Null,
    Bool(bool),
    I64(i64),
    U64(u64),
    F64(u64),
    Str(String),
    Seq(Vec<Tree>),
    Map(Vec<(Tree, Tree)>),
}

impl<'de> Deserialize<'de> for Tree {
    fn deserialize<D: Deserializer<'de>>(d: D) -> Result<Self, D::Error> {
        struct V;
        impl<'de> Visitor<'de> for V {
            type Value = Tree;
            fn expecting(&self, f: &mut fmt::Formatter) -> fmt::Result {
                f.write_str("any YAML value")
            }
            fn visit_unit<E: de::Error>(self) -> Result<Tree, E> {
                Ok(Tree::Null)
            }
            fn visit_none<E: de::Error>(self) -> Result<Tree, E> {
                Ok(Tree::Null)
            }
            fn visit_bool<E: de::Error>(self, v: bool) -> Result<Tree, E> {
                Ok(Tree::Bool(v))
            }
            fn visit_i64<E: de::Error>(self, v: i64) -> Result<Tree, E> {
                Ok(Tree::I64(v))
            }
            fn visit_u64<E: de::Error>(self, v: u64) -> Result<Tree, E> {
                Ok(Tree::U64(v))
            }
            fn visit_f64<E: de::Error>(self, v: f64) -> Result<Tree, E> {
                Ok(Tree::F64(v.to_bits()))
            }
            fn visit_str<E: de::Error>(self, v: &str) -> Result<Tree, E> {
                Ok(Tree::Str(v.to_string()))
            }
            fn visit_seq<A: SeqAccess<'de>>(self, mut a: A) -> Result<Tree, A::Error> {
                let mut out = Vec::new();
                while let Some(x) = a.next_element::<Tree>()? {
                    out.push(x);
                }
                Ok(Tree::Seq(out))
            }
            fn visit_map<A: MapAccess<'de>>(self, mut a: A) -> Result<Tree, A::Error> {
                let mut out = Vec::new();
                while let Some(k) = a.next_key::<Tree>()? {
                    let v = a.next_value::<Tree>()?;
                    out.push((k, v));
                }
                Ok(Tree::Map(out))
            }
        }
        d.deserialize_any(V)
    }
}

impl Tree {
    pub fn size(&self) -> usize {
        match self {
            Tree::Seq(v) => 1 + v.iter().map(|t| t.size()).sum::<usize>(),
            Tree::Map(v) => 1 + v.iter().map(|(k, x)| k.size() + x.size()).sum::<usize>(),
            _ => 1,
        }
    }
}

pub fn opts(policy: serde_saphyr::DuplicateKeyPolicy) -> serde_saphyr::Options {
    #[allow(deprecated)]
    let mut o = serde_saphyr::Options::default();
    #[allow(deprecated)]
    {
        o.duplicate_keys = policy;
        o.with_snippet = false;
    }
    o
}

pub fn read(text: &str, policy: serde_saphyr::DuplicateKeyPolicy) -> Result<Tree, serde_saphyr::Error> {
    serde_saphyr::from_str_with_options::<Tree>(text, opts(policy))
}
