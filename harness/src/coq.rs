//! Printing of Coq terms for the case files.
pub fn n(v: u128) -> String {
    format!("{v}%N")
}
pub fn z(v: i128) -> String {
    if v < 0 { format!("({v})%Z") } else { format!("{v}%Z") }
}
pub fn zu(v: u128) -> String {
    format!("{v}%Z")
}
pub fn b(v: bool) -> String {
    if v { "true".into() } else { "false".into() }
}
pub fn opt<T>(v: &Option<T>, f: impl Fn(&T) -> String) -> String {
    match v {
        None => "None".into(),
        Some(x) => format!("(Some {})", f(x)),
    }
}
/// A Rust string as `list N` of Unicode scalar values.
pub fn s(v: &str) -> String {
    if v.is_empty() {
        return "([] : list N)".into();
    }
    let items: Vec<String> = v.chars().map(|c| (c as u32).to_string()).collect();
    format!("[{}]%N", items.join("; "))
}
pub fn bytes(v: &[u8]) -> String {
    if v.is_empty() {
        return "([] : list N)".into();
    }
    let items: Vec<String> = v.iter().map(|c| c.to_string()).collect();
    format!("[{}]%N", items.join("; "))
}
pub fn list(items: &[String], ty: &str) -> String {
    if items.is_empty() {
        return format!("([] : list {ty})");
    }
    format!("[{}]", items.join("; "))
}
pub fn pair(a: &str, b: &str) -> String {
    format!("({a}, {b})")
}
/// Debug-format discriminant of an error (after stripping the snippet wrapper): `E_<Variant>`.
pub fn eclass(e: &serde_saphyr::Error) -> String {
    format!("E_{}", variant_name(e))
}
pub fn variant_name(e: &serde_saphyr::Error) -> String {
    let d = format!("{:?}", e.without_snippet());
    d.chars().take_while(|c| c.is_ascii_alphanumeric() || *c == '_').collect()
}
