//! Scripted readers and writers: the results of successive read / write calls are given in advance,
//! so faults, EOF inside a character and every chunking can be produced deterministically.
use crate::coq;
use std::collections::VecDeque;
use std::io;

#[derive(Clone, Debug, PartialEq)]
pub enum Step {
    Chunk(Vec<u8>),
    Fail(io::ErrorKind),
    Eof,
}

pub fn kind_coq(k: io::ErrorKind) -> String {
    match k {
        io::ErrorKind::UnexpectedEof => "KUnexpectedEof".into(),
        io::ErrorKind::Interrupted => "KInterrupted".into(),
        io::ErrorKind::InvalidData => "KInvalidData".into(),
        io::ErrorKind::FileTooLarge => "KFileTooLarge".into(),
        io::ErrorKind::BrokenPipe => "(KOther 1)".into(),
        io::ErrorKind::Other => "(KOther 2)".into(),
        io::ErrorKind::PermissionDenied => "(KOther 3)".into(),
        io::ErrorKind::TimedOut => "(KOther 4)".into(),
        _ => "(KOther 99)".into(),
    }
}

pub fn script_coq(steps: &[Step]) -> String {
    let items: Vec<String> = steps
        .iter()
        .map(|s| match s {
            Step::Chunk(b) => format!("RChunk {}", coq::bytes(b)),
            Step::Fail(k) => format!("RFail {}", kind_coq(*k)),
            Step::Eof => "REof".into(),
        })
        .collect();
    coq::list(&items, "rstep")
}

pub struct Scripted {
    steps: VecDeque<Step>,
    /// bytes handed out so far
    pub delivered: usize,
    /// a failure step is reported on every call from then on
    pub sticky: bool,
    pub faults_reported: usize,
}

impl Scripted {
    pub fn new(steps: Vec<Step>) -> Self {
        Scripted { steps: steps.into(), delivered: 0, sticky: false, faults_reported: 0 }
    }
    pub fn sticky(steps: Vec<Step>) -> Self {
        Scripted { steps: steps.into(), delivered: 0, sticky: true, faults_reported: 0 }
    }
}

impl io::Read for Scripted {
    fn read(&mut self, buf: &mut [u8]) -> io::Result<usize> {
        if buf.is_empty() {
            return Ok(0);
        }
        match self.steps.front_mut() {
            None | Some(Step::Eof) => Ok(0),
            Some(Step::Fail(k)) => {
                let k = *k;
                self.faults_reported += 1;
                if !self.sticky {
                    self.steps.pop_front();
                }
                Err(io::Error::new(k, "scripted fault"))
            }
            Some(Step::Chunk(bs)) => {
                let n = buf.len().min(bs.len());
                buf[..n].copy_from_slice(&bs[..n]);
                bs.drain(..n);
                if bs.is_empty() {
                    self.steps.pop_front();
                }
                self.delivered += n;
                Ok(n)
            }
        }
    }
}

/// split `bytes` into chunks at the given cut positions
pub fn chunks_at(bytes: &[u8], cuts: &[usize]) -> Vec<Step> {
    let mut out = Vec::new();
    let mut prev = 0;
    for &c in cuts {
        if c > prev && c < bytes.len() {
            out.push(Step::Chunk(bytes[prev..c].to_vec()));
            prev = c;
        }
    }
    if prev < bytes.len() {
        out.push(Step::Chunk(bytes[prev..].to_vec()));
    }
    out
}

/// A writer that fails at the k-th `write` call (0-based); sticky or fail-once.
pub struct FailingWriter {
    pub written: Vec<u8>,
    pub calls: usize,
    pub fail_at: usize,
    pub sticky: bool,
    pub failed: bool,
}
impl FailingWriter {
    pub fn new(fail_at: usize, sticky: bool) -> Self {
        FailingWriter { written: Vec::new(), calls: 0, fail_at, sticky, failed: false }
    }
}
impl io::Write for FailingWriter {
    fn write(&mut self, buf: &[u8]) -> io::Result<usize> {
        let k = self.calls;
        self.calls += 1;
        if k == self.fail_at || (self.sticky && self.failed) {
            self.failed = true;
            return Err(io::Error::new(io::ErrorKind::Other, "scripted write fault"));
        }
        self.written.extend_from_slice(buf);
        Ok(buf.len())
    }
    fn flush(&mut self) -> io::Result<()> {
        Ok(())
    }
}
