//! Driving the live event pump hook and turning a run into a `CPump` correspondence case.
use crate::coq;
use crate::rawcoq;
use serde_saphyr::__verif as hk;
use serde_saphyr::budget::{Budget, BudgetReport};
use serde_saphyr::options::AliasLimits;
use std::cell::RefCell;
use std::rc::Rc;

#[derive(Clone, Debug)]
pub struct PumpOpts {
    pub budget: Option<Budget>,
    pub limits: AliasLimits,
    pub stop: bool,
    pub use_peek: bool,
    pub max_events: usize,
}

impl PumpOpts {
    pub fn new(budget: Option<Budget>) -> Self {
        PumpOpts { budget, limits: AliasLimits::default(), stop: false, use_peek: true, max_events: 100_000 }
    }
    pub fn json(&self) -> serde_json::Value {
        serde_json::json!({
            "budget": self.budget.as_ref().map(|b| serde_json::to_value(b).unwrap()),
            "alias_limits": {"max_total_replayed_events": self.limits.max_total_replayed_events,
                             "max_replay_stack_depth": self.limits.max_replay_stack_depth,
                             "max_alias_expansions_per_anchor": self.limits.max_alias_expansions_per_anchor},
            "stop_at_doc_end": self.stop, "use_peek": self.use_peek, "max_events": self.max_events})
    }
    pub fn from_json(v: &serde_json::Value) -> Self {
        let budget = if v["budget"].is_null() { None } else { serde_json::from_value(v["budget"].clone()).ok() };
        let a = &v["alias_limits"];
        PumpOpts {
            budget,
            limits: AliasLimits {
                max_total_replayed_events: a["max_total_replayed_events"].as_u64().unwrap_or(1_000_000) as usize,
                max_replay_stack_depth: a["max_replay_stack_depth"].as_u64().unwrap_or(64) as usize,
                max_alias_expansions_per_anchor: a["max_alias_expansions_per_anchor"].as_u64().unwrap_or(u64::MAX) as usize,
            },
            stop: v["stop_at_doc_end"].as_bool().unwrap_or(false),
            use_peek: v["use_peek"].as_bool().unwrap_or(true),
            max_events: v["max_events"].as_u64().unwrap_or(100_000) as usize,
        }
    }
}

pub fn big_budget() -> Budget {
    Budget {
        max_reader_input_bytes: None,
        max_events: 1 << 40,
        max_aliases: 1 << 40,
        max_anchors: 1 << 40,
        max_depth: 1 << 40,
        max_documents: 1 << 40,
        max_nodes: 1 << 40,
        max_total_scalar_bytes: 1 << 40,
        max_merge_keys: 1 << 40,
        enforce_alias_anchor_ratio: false,
        alias_anchor_min_aliases: 100,
        alias_anchor_ratio_multiplier: 10,
    }
}

pub fn options_for(o: &PumpOpts, sink: &Rc<RefCell<Option<BudgetReport>>>) -> serde_saphyr::Options {
    #[allow(deprecated)]
    let mut opts = serde_saphyr::Options::default();
    #[allow(deprecated)]
    {
        opts.budget = o.budget.clone();
        opts.alias_limits = o.limits;
        opts.with_snippet = false;
    }
    let s2 = sink.clone();
    opts.with_budget_report(move |r| {
        *s2.borrow_mut() = Some(r);
    })
}

pub fn run_pump(text: &str, o: &PumpOpts) -> (hk::PumpResult, Option<BudgetReport>) {
    let sink = Rc::new(RefCell::new(None));
    let opts = options_for(o, &sink);
    let r = hk::pump_all_str(text, opts, o.stop, o.use_peek, o.max_events);
    let rep = sink.borrow_mut().take();
    (r, rep)
}

pub fn pump_result_term(r: &hk::PumpResult, rep: &Option<BudgetReport>) -> String {
    let evs: Vec<String> = r.events.iter().map(rawcoq::ev_dump).collect();
    format!(
        "(mkPump {} {} {} {} {} {})",
        coq::list(&evs, "ev_dump"),
        rawcoq::opt_err(&r.error),
        rawcoq::opt_err(&r.finish_error),
        coq::opt(rep, rawcoq::report),
        coq::b(r.seen_doc_end),
        coq::b(r.synthesized_null)
    )
}

/// The text as the string entry points see it (one leading BOM stripped).
pub fn strip_bom(text: &str) -> &str {
    text.strip_prefix('\u{FEFF}').unwrap_or(text)
}

pub fn pump_case(text: &str, o: &PumpOpts) -> (String, hk::PumpResult, Option<BudgetReport>, rawcoq::RawStream) {
    let rs = rawcoq::raw_stream(strip_bom(text));
    let (r, rep) = run_pump(text, o);
    let term = format!(
        "CPump {} {} {} false {} {} {} {}",
        o.max_events,
        coq::b(o.use_peek),
        rawcoq::opt_budget(&o.budget),
        rawcoq::limits(&o.limits),
        coq::b(o.stop),
        rs.term(),
        pump_result_term(&r, &rep)
    );
    (term, r, rep, rs)
}
