//! Shared helper: one typed deserialization through the public closure entry point, as a
//! `CDeserDoc` correspondence case for `SS.Corr.Deser`.
use crate::coq;
use crate::live;
use crate::rawcoq;
use crate::rt::{self, Ty, Val};
use serde_saphyr::DuplicateKeyPolicy;
use serde_saphyr::budget::Budget;
use serde_saphyr::options::AliasLimits;

#[derive(Clone, Debug)]
pub struct DOpts {
    pub policy: DuplicateKeyPolicy,
    pub legacy: bool,
    pub strict: bool,
    pub ignore_bin: bool,
    pub no_schema: bool,
    pub budget: Option<Budget>,
    pub limits: AliasLimits,
}

impl DOpts {
    pub fn new(policy: DuplicateKeyPolicy) -> Self {
        DOpts { policy, legacy: false, strict: false, ignore_bin: false, no_schema: false, budget: None, limits: AliasLimits::default() }
    }
    pub fn options(&self) -> serde_saphyr::Options {
        #[allow(deprecated)]
        let mut o = serde_saphyr::Options::default();
        #[allow(deprecated)]
        {
            o.duplicate_keys = self.policy;
            o.legacy_octal_numbers = self.legacy;
            o.strict_booleans = self.strict;
            o.ignore_binary_tag_for_string = self.ignore_bin;
            o.no_schema = self.no_schema;
            o.budget = self.budget.clone();
            o.alias_limits = self.limits;
            o.with_snippet = false;
        }
        o
    }
    pub fn policy_name(&self) -> &'static str {
        match self.policy {
            DuplicateKeyPolicy::Error => "DupError",
            DuplicateKeyPolicy::FirstWins => "DupFirstWins",
            _ => "DupLastWins",
        }
    }
    pub fn coq(&self) -> String {
        format!(
            "(mkEntry (mkDcfg (mkCfg {} {} {} {}) {}) {} {})",
            coq::b(self.legacy), coq::b(self.strict), coq::b(self.ignore_bin), coq::b(self.no_schema), self.policy_name(),
            rawcoq::opt_budget(&self.budget), rawcoq::limits(&self.limits)
        )
    }
    pub fn json(&self) -> serde_json::Value {
        serde_json::json!({"policy": self.policy_name(), "legacy": self.legacy, "strict": self.strict, "ignore_bin": self.ignore_bin,
            "no_schema": self.no_schema, "budget": self.budget.as_ref().map(|b| serde_json::to_value(b).unwrap())})
    }
    pub fn from_json(v: &serde_json::Value) -> Self {
        let mut o = DOpts::new(match v["policy"].as_str().unwrap_or("") {
            "DupFirstWins" => DuplicateKeyPolicy::FirstWins,
            "DupLastWins" => DuplicateKeyPolicy::LastWins,
            _ => DuplicateKeyPolicy::Error,
        });
        o.legacy = v["legacy"].as_bool().unwrap_or(false);
        o.strict = v["strict"].as_bool().unwrap_or(false);
        o.ignore_bin = v["ignore_bin"].as_bool().unwrap_or(false);
        o.no_schema = v["no_schema"].as_bool().unwrap_or(false);
        if !v["budget"].is_null() {
            o.budget = serde_json::from_value(v["budget"].clone()).ok();
        }
        o
    }
}

pub fn run(text: &str, ty: &Ty, o: &DOpts) -> Result<Val, serde_saphyr::Error> {
    rt::from_str_rt(text, ty, o.options())
}

pub fn expect_term(r: &Result<Val, serde_saphyr::Error>) -> String {
    match r {
        Ok(v) => format!("(XOk {})", v.coq()),
        // for errors whose location the model computes exactly, the location is compared too
        Err(e) if coq::variant_name(e) == "DuplicateMappingKey" => format!("(XErrAt {} {})", coq::eclass(e), rawcoq::opt_loc(e.without_snippet().location())),
        Err(e) => format!("(XErr {})", coq::eclass(e)),
    }
}

/// (Coq case term, implementation result, number of raw items)
pub fn deser_case(text: &str, ty: &Ty, o: &DOpts) -> (String, Result<Val, serde_saphyr::Error>, rawcoq::RawStream) {
    let rs = rawcoq::raw_stream(live::strip_bom(text));
    let r = run(text, ty, o);
    let fuel = 3000 + 12 * rs.items.len() + 20 * ty.size();
    let term = format!("CDeserDoc {} {} {} {} {}", fuel, o.coq(), ty.coq(), rs.term(), expect_term(&r));
    (term, r, rs)
}
