// Generates the property-module registry from src/props/*.rs so that adding a property module
// needs no edit of a shared file.
use std::{env, fs, path::Path};
fn main() {
    let dir = Path::new("src/props");
    let mut names: Vec<String> = fs::read_dir(dir)
        .unwrap()
        .filter_map(|e| {
            let p = e.unwrap().path();
            if p.extension().map(|x| x == "rs").unwrap_or(false) {
                Some(p.file_stem().unwrap().to_string_lossy().to_string())
            } else {
                None
            }
        })
        .collect();
    names.sort();
    let mut out = String::new();
    let root = env::var("CARGO_MANIFEST_DIR").unwrap();
    for n in &names {
        out += &format!("#[path = \"{root}/src/props/{n}.rs\"] pub mod {n};\n");
    }
    out += "pub fn dispatch(name: &str, ctx: &mut crate::ctx::Ctx) -> bool {\n    match name {\n";
    for n in &names {
        out += &format!("        \"{n}\" => {{ {n}::run(ctx); true }}\n");
    }
    out += "        _ => false,\n    }\n}\n";
    let dest = Path::new(&env::var("OUT_DIR").unwrap()).join("props_gen.rs");
    fs::write(dest, out).unwrap();
    println!("cargo:rerun-if-changed=src/props");
}
