(* Props/C01.v -- property C01: deserialization and error rendering are total.
   What the model can carry of "always terminates / never indexes out of bounds"; panics, aborts and
   stack use of the compiled code are decided by the harness oracles (see DESIGN.md, C01). *)
From SS Require Import Model.Live Model.Snippet Model.Budget Proofs.LiveBasic Proofs.LiveBounds Proofs.Totality
  Proofs.MultiDoc Proofs.BudgetCounts Proofs.SnippetCrop.
Local Open Scope N_scope.

(* The event pump stops: from any state, on any sequence of parser items, repeatedly asking for the next
   event reaches end-of-stream or an error value after at most (items + 1) * (2 * limit + 3) deliveries,
   where limit = max_total_replayed_events.  (drain returns None only when out of fuel.) *)
Theorem C01_event_pump_terminates : forall s rest,
  exists n e, drain (S ((length rest + 1) * (2 * lim_nat s + 3))) s rest = Some (n, e)
              /\ (n <= (length rest + 1) * (2 * lim_nat s + 3))%nat.
Proof. exact pump_terminates. Qed.
Check C01_event_pump_terminates : forall s rest,
  exists n e, drain (S ((length rest + 1) * (2 * lim_nat s + 3))) s rest = Some (n, e)
              /\ (n <= (length rest + 1) * (2 * lim_nat s + 3))%nat.
Print Assumptions C01_event_pump_terminates.

(* ... because every delivered event strictly decreases the measure (raw items left, pending synthesized
   null, replay allowance left): the inject stack and the replay loop make progress on every iteration. *)
Theorem C01_every_delivery_makes_progress : forall s rest e s' rest',
  next_impl s rest = Yield e s' rest' -> (measure s' rest' < measure s rest)%nat.
Proof. exact next_impl_decreases. Qed.
Check C01_every_delivery_makes_progress : forall s rest e s' rest',
  next_impl s rest = Yield e s' rest' -> (measure s' rest' < measure s rest)%nat.
Print Assumptions C01_every_delivery_makes_progress.

(* ... and no step changes the alias limits the measure is built from *)
Theorem C01_limits_are_constant : forall s rest, res_limits (next_impl s rest) = lv_limits s.
Proof. exact next_impl_limits. Qed.
Check C01_limits_are_constant : forall s rest, res_limits (next_impl s rest) = lv_limits s.
Print Assumptions C01_limits_are_constant.

(* A scan error is converted into an error value (and consumed), never unwrapped. *)
Theorem C01_scan_error_is_a_value : forall s m ua r,
  pull (RScanErr m ua :: r) s =
  Fail (Err (if ua then E_UnknownAnchor else E_ExternalMessage) (location_from_scan_mark m)) s r.
Proof. exact scan_error_is_a_value. Qed.
Check C01_scan_error_is_a_value : forall s m ua r,
  pull (RScanErr m ua :: r) s =
  Fail (Err (if ua then E_UnknownAnchor else E_ExternalMessage) (location_from_scan_mark m)) s r.
Print Assumptions C01_scan_error_is_a_value.

(* The iterator's recovery consumes input: each resumed document starts strictly later. *)
Theorem C01_skip_to_next_document_makes_progress : forall s rest s2 r2,
  skip_to_next_document s rest = (true, s2, r2) ->
  (length r2 < length rest)%nat /\ lv_anchors s2 = [] /\ lv_rec s2 = [] /\ lv_inject s2 = []
  /\ lv_produced_any s2 = false.
Proof. exact iterator_resumes_at_next_document. Qed.
Check C01_skip_to_next_document_makes_progress : forall s rest s2 r2,
  skip_to_next_document s rest = (true, s2, r2) ->
  (length r2 < length rest)%nat /\ lv_anchors s2 = [] /\ lv_rec s2 = [] /\ lv_inject s2 = []
  /\ lv_produced_any s2 = false.
Print Assumptions C01_skip_to_next_document_makes_progress.

(* An event sequence the budget accepts never nests deeper than max_depth (the bound on the recursion
   of node capture, sequence and mapping deserialization). *)
Theorem C01_accepted_depth_is_bounded : forall b evs e',
  run (enforcer_new b false) evs = (e', None) -> r_max_depth (e_report e') <= max_depth b.
Proof. intros b evs e' H. apply accepted_is_within_limits in H. apply H. Qed.
Check C01_accepted_depth_is_bounded : forall b evs e',
  run (enforcer_new b false) evs = (e', None) -> r_max_depth (e_report e') <= max_depth b.
Print Assumptions C01_accepted_depth_is_bounded.

(* Snippet arithmetic: a column maps to a byte offset inside the line and on a character boundary; the
   cropped window's rebased span lies inside the cropped text. *)
Theorem C01_column_offsets_are_in_bounds : forall line col j,
  col_to_byte line col = Some j ->
  1 <= col /\ j <= blen line
  /\ char_count (firstn (N.to_nat j) line) = col - 1
  /\ (j = blen line \/ exists b, nth_error line (N.to_nat j) = Some b /\ is_cont b = false).
Proof. exact col_to_byte_spec. Qed.
Check C01_column_offsets_are_in_bounds : forall line col j,
  col_to_byte line col = Some j ->
  1 <= col /\ j <= blen line
  /\ char_count (firstn (N.to_nat j) line) = col - 1
  /\ (j = blen line \/ exists b, nth_error line (N.to_nat j) = Some b /\ is_cont b = false).
Print Assumptions C01_column_offsets_are_in_bounds.

Theorem C01_cropped_span_is_in_bounds : forall w wsr erow ecol radius ls le,
  ls <= le -> le <= blen w ->
  let '(out, ns, ne) := crop_window w wsr erow ecol radius ls le in
  ns <= ne /\ ne <= blen out.
Proof. exact crop_window_span. Qed.
Check C01_cropped_span_is_in_bounds : forall w wsr erow ecol radius ls le,
  ls <= le -> le <= blen w ->
  let '(out, ns, ne) := crop_window w wsr erow ecol radius ls le in
  ns <= ne /\ ne <= blen out.
Print Assumptions C01_cropped_span_is_in_bounds.

(* radix_and_digits slices `&rest[2..]` only behind two ASCII zeros. *)
Theorem C01_radix_slice_is_in_bounds : forall rest : str,
  starts_with [48; 48] rest = true -> exists r, rest = 48 :: 48 :: r /\ skipn 2 rest = r.
Proof. exact radix_slice_in_bounds. Qed.
Check C01_radix_slice_is_in_bounds : forall rest : str,
  starts_with [48; 48] rest = true -> exists r, rest = 48 :: 48 :: r /\ skipn 2 rest = r.
Print Assumptions C01_radix_slice_is_in_bounds.
