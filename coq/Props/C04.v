(* Props/C04.v -- property C04: the duplicate-key policy is applied exactly, for keys of every kind. *)
From SS Require Import Model.Deser Proofs.DeserNodes.
Local Open Scope N_scope.

(* A key node is captured exactly: its events, fingerprint and start location, for any size. *)
Theorem C04_capture_exact : forall n fuel prev rest ref, (2 * nsize n <= fuel)%nat ->
  capture_node fuel (SReplay prev (events_of n ++ rest) ref) = captured n prev rest ref.
Proof. exact capture_exact. Qed.
Check C04_capture_exact : forall n fuel prev rest ref, (2 * nsize n <= fuel)%nat ->
  capture_node fuel (SReplay prev (events_of n ++ rest) ref) = captured n prev rest ref.
Print Assumptions C04_capture_exact.

(* A skipped value is exactly one node (scalar, sequence or mapping of any size). *)
Theorem C04_skip_exact : forall n g prev rest ref, (length (events_of n) + 1 <= g)%nat ->
  skip_one_node g (SReplay prev (events_of n ++ rest) ref) =
  SkOk (SReplay (last_ev (events_of n) prev) rest ref).
Proof. exact skip_exact. Qed.
Check C04_skip_exact : forall n g prev rest ref, (length (events_of n) + 1 <= g)%nat ->
  skip_one_node g (SReplay prev (events_of n ++ rest) ref) =
  SkOk (SReplay (last_ev (events_of n) prev) rest ref).
Print Assumptions C04_skip_exact.

(* Two key nodes have the same fingerprint iff they are the same key: same structure, scalar text
   and tag; style, anchors and positions do not matter.  The `seen` test decides exactly that. *)
Theorem C04_fingerprint_iff : forall n1 n2, fp_of n1 = fp_of n2 <-> same_key n1 n2.
Proof. exact fingerprint_iff. Qed.
Check C04_fingerprint_iff : forall n1 n2, fp_of n1 = fp_of n2 <-> same_key n1 n2.
Print Assumptions C04_fingerprint_iff.

Theorem C04_seen_test_exact : forall f l, fp_mem f l = true <-> In f l.
Proof. exact fp_mem_In. Qed.
Check C04_seen_test_exact : forall f l, fp_mem f l = true <-> In f l.
Print Assumptions C04_seen_test_exact.

Theorem C04_error_policy : forall f c m key more prev ref,
  plain_entry_state m -> (2 * nsize key <= f)%nat -> ordinary_key key ->
  dc_dup c = DupError -> In (fp_of key) (ma_seen m) ->
  ma_next_key (S f) c m (SReplay prev (events_of key ++ more) ref) =
  KErr (Err E_DuplicateMappingKey (loc_of key)).
Proof. exact policy_error_rejects. Qed.
Check C04_error_policy : forall f c m key more prev ref,
  plain_entry_state m -> (2 * nsize key <= f)%nat -> ordinary_key key ->
  dc_dup c = DupError -> In (fp_of key) (ma_seen m) ->
  ma_next_key (S f) c m (SReplay prev (events_of key ++ more) ref) =
  KErr (Err E_DuplicateMappingKey (loc_of key)).
Print Assumptions C04_error_policy.

Theorem C04_first_wins : forall f c m key value rest prev ref,
  plain_entry_state m -> (2 * nsize key <= f)%nat -> (length (events_of value) + 1 <= f)%nat ->
  ordinary_key key -> dc_dup c = DupFirstWins -> In (fp_of key) (ma_seen m) ->
  ma_next_key (S f) c m (SReplay prev (events_of key ++ events_of value ++ rest) ref) =
  ma_next_key f c m (SReplay (last_ev (events_of value) (last_ev (events_of key) prev)) rest ref).
Proof. exact policy_first_wins_skips. Qed.
Check C04_first_wins : forall f c m key value rest prev ref,
  plain_entry_state m -> (2 * nsize key <= f)%nat -> (length (events_of value) + 1 <= f)%nat ->
  ordinary_key key -> dc_dup c = DupFirstWins -> In (fp_of key) (ma_seen m) ->
  ma_next_key (S f) c m (SReplay prev (events_of key ++ events_of value ++ rest) ref) =
  ma_next_key f c m (SReplay (last_ev (events_of value) (last_ev (events_of key) prev)) rest ref).
Print Assumptions C04_first_wins.

(* LastWins delivers every entry; a key not seen before is delivered under every policy
   (so mappings without repeated keys read identically under all three). *)
Theorem C04_delivers : forall f c m key more prev ref,
  plain_entry_state m -> (2 * nsize key <= f)%nat -> ordinary_key key ->
  (dc_dup c = DupLastWins \/ ~ In (fp_of key) (ma_seen m)) ->
  ma_next_key (S f) c m (SReplay prev (events_of key ++ more) ref) =
  KKey (events_of key) (kemn_direct (fp_of key)) (loc_of key)
       (mkMA (fp_of key :: ma_seen m) [] (ma_merge_stack m) false None)
       (SReplay (last_ev (events_of key) prev) more ref).
Proof. exact policy_delivers. Qed.
Check C04_delivers : forall f c m key more prev ref,
  plain_entry_state m -> (2 * nsize key <= f)%nat -> ordinary_key key ->
  (dc_dup c = DupLastWins \/ ~ In (fp_of key) (ma_seen m)) ->
  ma_next_key (S f) c m (SReplay prev (events_of key ++ more) ref) =
  KKey (events_of key) (kemn_direct (fp_of key)) (loc_of key)
       (mkMA (fp_of key :: ma_seen m) [] (ma_merge_stack m) false None)
       (SReplay (last_ev (events_of key) prev) more ref).
Print Assumptions C04_delivers.

(* Non-vacuity: {a: 1, "a": [2, 3], b: 4} under the three policies *)
Definition ex_l : loc := mkLoc 1 1 0 1 0 1.
Definition ex_map : list ev :=
  events_of (NdMap 0 ex_l
    [(NdScalar [97] TAG_None None Plain 0 ex_l, NdScalar [49] TAG_None None Plain 0 ex_l);
     (NdScalar [97] TAG_None None DoubleQuoted 0 ex_l,
      NdSeq 0 TAG_None None ex_l [NdScalar [50] TAG_None None Plain 0 ex_l; NdScalar [51] TAG_None None Plain 0 ex_l] ex_l);
     (NdScalar [98] TAG_None None Plain 0 ex_l, NdScalar [52] TAG_None None Plain 0 ex_l)] ex_l).
Definition ex_run (p : dup_policy) : dres :=
  deser 100 (mkDcfg (mkCfg false false false false) p) false (TPairs TAny TAny) (replay_new ex_map).
Example C04_policies_example :
  (match ex_run DupError with DErr (Err E_DuplicateMappingKey _) => true | _ => false end) = true /\
  (match ex_run DupFirstWins with
   | DOk (VMap [(VStr [97], VInt 1); (VStr [98], VInt 4)]) _ => true | _ => false end) = true /\
  (match ex_run DupLastWins with
   | DOk (VMap [(VStr [97], VInt 1); (VStr [97], VSeq [VInt 2; VInt 3]); (VStr [98], VInt 4)]) _ => true
   | _ => false end) = true.
Proof. vm_compute. repeat split. Qed.
Check C04_policies_example :
  (match ex_run DupError with DErr (Err E_DuplicateMappingKey _) => true | _ => false end) = true /\
  (match ex_run DupFirstWins with
   | DOk (VMap [(VStr [97], VInt 1); (VStr [98], VInt 4)]) _ => true | _ => false end) = true /\
  (match ex_run DupLastWins with
   | DOk (VMap [(VStr [97], VInt 1); (VStr [97], VSeq [VInt 2; VInt 3]); (VStr [98], VInt 4)]) _ => true
   | _ => false end) = true.
Print Assumptions C04_policies_example.
