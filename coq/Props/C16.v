(* Props/C16.v -- property C16: reported locations are consistent with the input and name the right node. *)
From SS Require Import Model.Position Model.Deser Proofs.Position.
Local Open Scope N_scope.

(* The byte offset of a mark cuts the UTF-8 text exactly where its character offset cuts the text:
   the two coordinates denote the same position, whatever multi-byte characters precede it. *)
Theorem C16_byte_and_char_offset_agree : forall text idx b,
  mk_byte (mark_at text idx) = Some b ->
  firstn (N.to_nat b) (utf8_enc text) = utf8_enc (firstn (N.to_nat idx) text)
  /\ skipn (N.to_nat b) (utf8_enc text) = utf8_enc (skipn (N.to_nat idx) text).
Proof. exact mark_byte_offset_denotes_same_position. Qed.
Check C16_byte_and_char_offset_agree : forall text idx b,
  mk_byte (mark_at text idx) = Some b ->
  firstn (N.to_nat b) (utf8_enc text) = utf8_enc (firstn (N.to_nat idx) text)
  /\ skipn (N.to_nat b) (utf8_enc text) = utf8_enc (skipn (N.to_nat idx) text).
Print Assumptions C16_byte_and_char_offset_agree.

(* Line = 1 + number of line breaks (LF, lone CR, CR LF once) before the position; column = number of
   characters since the last of them; both for the same character offset. *)
Theorem C16_line_and_column : forall text idx,
  mk_line (mark_at text idx) = 1 + breaks_upto text (N.to_nat idx)
  /\ mk_col (mark_at text idx) = col_upto text (N.to_nat idx) 0
  /\ mk_index (mark_at text idx) = idx.
Proof. exact mark_line_col. Qed.
Check C16_line_and_column : forall text idx,
  mk_line (mark_at text idx) = 1 + breaks_upto text (N.to_nat idx)
  /\ mk_col (mark_at text idx) = col_upto text (N.to_nat idx) 0
  /\ mk_index (mark_at text idx) = idx.
Print Assumptions C16_line_and_column.

(* The Location made from the marks of a node spanning characters i..j: all four coordinates are those
   of position i, and the reported byte range is exactly the UTF-8 of the node's source characters. *)
Theorem C16_location_of_node : forall text i j,
  i <= j -> j <= N.of_nat (length text) -> utf8_str_len text <= U32_MAX -> N.of_nat (length text) < U32_MAX ->
  let l := location_from_span (mkSpan (mark_at text i) (mark_at text j)) in
  l_off l = i /\ l_len l = j - i
  /\ l_line l = 1 + breaks_upto text (N.to_nat i)
  /\ l_col l = col_upto text (N.to_nat i) 0 + 1
  /\ bytes_slice (utf8_enc text) (l_boff l) (l_blen l) = utf8_enc (chars_slice text i j).
Proof. exact location_of_marks. Qed.
Check C16_location_of_node : forall text i j,
  i <= j -> j <= N.of_nat (length text) -> utf8_str_len text <= U32_MAX -> N.of_nat (length text) < U32_MAX ->
  let l := location_from_span (mkSpan (mark_at text i) (mark_at text j)) in
  l_off l = i /\ l_len l = j - i
  /\ l_line l = 1 + breaks_upto text (N.to_nat i)
  /\ l_col l = col_upto text (N.to_nat i) 0 + 1
  /\ bytes_slice (utf8_enc text) (l_boff l) (l_blen l) = utf8_enc (chars_slice text i j).
Print Assumptions C16_location_of_node.

(* The span-carrying wrapper: `defined` is the location of the node's first event, `referenced` the
   use site in force before the node is consumed, and the value is that of the inner type. *)
Theorem C16_spanned_locations : forall f c k t x e x' v x2,
  src_peek x = NSome e x' ->
  deser f c false t x' = DOk v x2 ->
  deser (S f) c k (TSpanned t) x = DOk (VSpanned (src_reference_location x') (ev_loc e) v) x2.
Proof. exact spanned_reports_node_and_use_site. Qed.
Check C16_spanned_locations : forall f c k t x e x' v x2,
  src_peek x = NSome e x' ->
  deser f c false t x' = DOk v x2 ->
  deser (S f) c k (TSpanned t) x = DOk (VSpanned (src_reference_location x') (ev_loc e) v) x2.
Print Assumptions C16_spanned_locations.

(* Use site through an alias / merge entry: the replay buffer of a merged or pending entry carries it
   explicitly; while the live pump replays an anchor it is the location stored in the injection frame. *)
Theorem C16_use_site_replay : forall buf r prev, src_reference_location (SReplay prev buf (Some r)) = r.
Proof. exact replay_reference_is_use_site. Qed.
Check C16_use_site_replay : forall buf r prev, src_reference_location (SReplay prev buf (Some r)) = r.
Print Assumptions C16_use_site_replay.

Theorem C16_use_site_live : forall s rest op fr below,
  lv_inject s = fr :: below -> src_reference_location (SLive s rest op) = if_ref fr.
Proof. exact live_reference_is_injected_use_site. Qed.
Check C16_use_site_live : forall s rest op fr below,
  lv_inject s = fr :: below -> src_reference_location (SLive s rest op) = if_ref fr.
Print Assumptions C16_use_site_live.

(* A scalar type error is reported at the position the span-carrying wrapper calls `defined`. *)
Theorem C16_type_error_at_node : forall f c k t x e x' cl l,
  src_peek x = NSome e x' ->
  (exists v tag raw st a le, e = EScalar v tag raw st a le) ->
  t = TBool \/ (exists s b, t = TInt s b) \/ t = TF64 \/ t = TChar ->
  deser (S f) c k t x' = DErr (Err cl l) -> l = ev_loc e.
Proof. exact scalar_type_error_at_spanned_position. Qed.
Check C16_type_error_at_node : forall f c k t x e x' cl l,
  src_peek x = NSome e x' ->
  (exists v tag raw st a le, e = EScalar v tag raw st a le) ->
  t = TBool \/ (exists s b, t = TInt s b) \/ t = TF64 \/ t = TChar ->
  deser (S f) c k t x' = DErr (Err cl l) -> l = ev_loc e.
Print Assumptions C16_type_error_at_node.

(* An error raised under an alias reports both sites whenever both are known and differ. *)
Theorem C16_alias_error_has_both_sites : forall e reference defined,
  loc_known reference = true -> loc_known defined = true -> loc_eqb reference defined = false ->
  attach_alias_locations e reference defined = ErrAlias reference defined.
Proof. exact alias_error_reports_both_sites. Qed.
Check C16_alias_error_has_both_sites : forall e reference defined,
  loc_known reference = true -> loc_known defined = true -> loc_eqb reference defined = false ->
  attach_alias_locations e reference defined = ErrAlias reference defined.
Print Assumptions C16_alias_error_has_both_sites.

(* Non-vacuity: "é: x<CR><LF>b: 日" -- the mark before "日" (character 8) is line 2, column 3 (0-based), byte 9 *)
Example C16_example :
  mark_at [233; 58; 32; 120; 13; 10; 98; 58; 32; 26085] 9 = mkMark 9 2 3 (Some 10).
Proof. vm_compute. reflexivity. Qed.
Check C16_example :
  mark_at [233; 58; 32; 120; 13; 10; 98; 58; 32; 26085] 9 = mkMark 9 2 3 (Some 10).
Print Assumptions C16_example.
