(* Props/C06.v -- property C06: scalars are interpreted exactly per requested type and options;
   never wrapped.  Only statements, `exact`, `Check` pins and Print Assumptions live here. *)
From SS Require Import Model.Scalars Proofs.ScalarsInt Proofs.ScalarsMisc Proofs.ScalarsB64.
Local Open Scope N_scope.

(* Integers: for every width, text and legacy-octal setting the parser returns exactly the
   mathematical value of the documented notation (sign, 0x/0o/0b/legacy 00 prefix, digits with `_`)
   when it fits the width, and an error otherwise -- never a wrapped, saturated or truncated one. *)
Theorem C06_int_signed_exact : forall bits s legacy, width_ok bits ->
  parse_int_signed bits s legacy = spec_int_signed bits s legacy.
Proof. exact parse_int_signed_exact. Qed.
Check C06_int_signed_exact : forall bits s legacy, width_ok bits ->
  parse_int_signed bits s legacy = spec_int_signed bits s legacy.
Print Assumptions C06_int_signed_exact.

Theorem C06_int_unsigned_exact : forall bits s legacy, width_ok bits ->
  parse_int_unsigned bits s legacy = spec_int_unsigned bits s legacy.
Proof. exact parse_int_unsigned_exact. Qed.
Check C06_int_unsigned_exact : forall bits s legacy, width_ok bits ->
  parse_int_unsigned bits s legacy = spec_int_unsigned bits s legacy.
Print Assumptions C06_int_unsigned_exact.

(* the checked u128 accumulation overflows iff the exact value exceeds u128::MAX *)
Theorem C06_acc_overflow_iff : forall radix ds, 1 <= radix ->
  parse_digits_u128 ds radix =
  match digits_value radix ds with
  | Some m => if m <=? U128_MAX then Some m else None
  | None => None
  end.
Proof. exact parse_digits_u128_spec. Qed.
Check C06_acc_overflow_iff : forall radix ds, 1 <= radix ->
  parse_digits_u128 ds radix =
  match digits_value radix ds with
  | Some m => if m <=? U128_MAX then Some m else None
  | None => None
  end.
Print Assumptions C06_acc_overflow_iff.

(* Non-vacuity / former finding F10 (fixed in /repo): i128::MIN in hex is accepted *)
Example C06_i128_min_hex_accepted :
  parse_int_signed 128 ([45; 48; 120; 56] ++ repeat 48 31) false = Some (- 2 ^ 127)%Z.
Proof. vm_compute. reflexivity. Qed.
Check C06_i128_min_hex_accepted :
  parse_int_signed 128 ([45; 48; 120; 56] ++ repeat 48 31) false = Some (- 2 ^ 127)%Z.
Print Assumptions C06_i128_min_hex_accepted.

Theorem C06_bool_table : forall s b,
  parse_yaml11_bool s = Some b <->
  (b = true /\ str_in_nocase (trim s) BOOL_TRUE_LITERALS = true) \/
  (b = false /\ str_in_nocase (trim s) BOOL_TRUE_LITERALS = false
             /\ str_in_nocase (trim s) BOOL_FALSE_LITERALS = true).
Proof. exact bool_table. Qed.
Check C06_bool_table : forall s b,
  parse_yaml11_bool s = Some b <->
  (b = true /\ str_in_nocase (trim s) BOOL_TRUE_LITERALS = true) \/
  (b = false /\ str_in_nocase (trim s) BOOL_TRUE_LITERALS = false
             /\ str_in_nocase (trim s) BOOL_FALSE_LITERALS = true).
Print Assumptions C06_bool_table.

(* the tables regenerated from the source are the documented ones: true/yes/y/on, false/no/n/off *)
Theorem C06_bool_literals_documented :
  BOOL_TRUE_LITERALS = [[116; 114; 117; 101]; [121; 101; 115]; [121]; [111; 110]] /\
  BOOL_FALSE_LITERALS = [[102; 97; 108; 115; 101]; [110; 111]; [110]; [111; 102; 102]].
Proof. exact (conj bool_true_literals_pinned bool_false_literals_pinned). Qed.
Check C06_bool_literals_documented :
  BOOL_TRUE_LITERALS = [[116; 114; 117; 101]; [121; 101; 115]; [121]; [111; 110]] /\
  BOOL_FALSE_LITERALS = [[102; 97; 108; 115; 101]; [110; 111]; [110]; [111; 102; 102]].
Print Assumptions C06_bool_literals_documented.

Theorem C06_float_words_documented :
  FLOAT_NAN_WORDS = [[46; 110; 97; 110]; [43; 46; 110; 97; 110]; [45; 46; 110; 97; 110]] /\
  FLOAT_INF_WORDS = [[46; 105; 110; 102]; [43; 46; 105; 110; 102]] /\
  FLOAT_NEG_INF_WORDS = [[45; 46; 105; 110; 102]].
Proof. exact float_words_pinned. Qed.
Check C06_float_words_documented :
  FLOAT_NAN_WORDS = [[46; 110; 97; 110]; [43; 46; 110; 97; 110]; [45; 46; 110; 97; 110]] /\
  FLOAT_INF_WORDS = [[46; 105; 110; 102]; [43; 46; 105; 110; 102]] /\
  FLOAT_NEG_INF_WORDS = [[45; 46; 105; 110; 102]].
Print Assumptions C06_float_words_documented.

Theorem C06_strict_bool : forall c ev b, strict_booleans c = true ->
  deser_scalar c TgBool ev = RBool b ->
  (b = true /\ eq_ignore_ascii_case (trim (sv_value ev)) s_true = true) \/
  (b = false /\ eq_ignore_ascii_case (trim (sv_value ev)) s_false = true).
Proof. exact strict_bool. Qed.
Check C06_strict_bool : forall c ev b, strict_booleans c = true ->
  deser_scalar c TgBool ev = RBool b ->
  (b = true /\ eq_ignore_ascii_case (trim (sv_value ev)) s_true = true) \/
  (b = false /\ eq_ignore_ascii_case (trim (sv_value ev)) s_false = true).
Print Assumptions C06_strict_bool.

(* Quoted scalars are never taken for null, numbers or booleans by string / untyped targets,
   whatever the options. *)
Theorem C06_quoted_is_string : forall c ev,
  sv_style ev <> Plain -> stringish_tag (sv_tag ev) ->
  deser_scalar c TgString ev = RStr (sv_value ev) /\
  deser_scalar c TgAny ev = RStr (sv_value ev) /\
  deser_scalar c TgStr ev = RStr (sv_value ev) /\
  deser_scalar c (TgOption TgString) ev =
    (if negb (sv_tag ev =? TAG_String) && match sv_value ev with [] => negb (is_quoted (sv_style ev)) | _ => false end
     then RNone else RSome (RStr (sv_value ev))).
Proof. exact quoted_is_string. Qed.
Check C06_quoted_is_string : forall c ev,
  sv_style ev <> Plain -> stringish_tag (sv_tag ev) ->
  deser_scalar c TgString ev = RStr (sv_value ev) /\
  deser_scalar c TgAny ev = RStr (sv_value ev) /\
  deser_scalar c TgStr ev = RStr (sv_value ev) /\
  deser_scalar c (TgOption TgString) ev =
    (if negb (sv_tag ev =? TAG_String) && match sv_value ev with [] => negb (is_quoted (sv_style ev)) | _ => false end
     then RNone else RSome (RStr (sv_value ev))).
Print Assumptions C06_quoted_is_string.

(* A scalar tagged `!!str` is the string itself for string, optional and untyped targets: never null (nor a
   number or a boolean), whatever its text, style and the options (F60, fixed). *)
Theorem C06_str_tagged_is_never_null : forall c ev,
  sv_tag ev = TAG_String ->
  deser_scalar c TgString ev = RStr (sv_value ev) /\
  deser_scalar c TgStr ev = RStr (sv_value ev) /\
  deser_scalar c TgAny ev = RStr (sv_value ev) /\
  deser_scalar c (TgOption TgString) ev = RSome (RStr (sv_value ev)) /\
  deser_scalar c (TgOption TgAny) ev = RSome (RStr (sv_value ev)).
Proof. exact str_tagged_is_never_null. Qed.
Check C06_str_tagged_is_never_null : forall c ev,
  sv_tag ev = TAG_String ->
  deser_scalar c TgString ev = RStr (sv_value ev) /\
  deser_scalar c TgStr ev = RStr (sv_value ev) /\
  deser_scalar c TgAny ev = RStr (sv_value ev) /\
  deser_scalar c (TgOption TgString) ev = RSome (RStr (sv_value ev)) /\
  deser_scalar c (TgOption TgAny) ev = RSome (RStr (sv_value ev)).
Print Assumptions C06_str_tagged_is_never_null.

Theorem C06_tag_table : forall t, sftag_from_optional t <= TAG_Other.
Proof. exact sftag_from_optional_total. Qed.
Check C06_tag_table : forall t, sftag_from_optional t <= TAG_Other.
Print Assumptions C06_tag_table.

(* `!!binary` payloads are STRICT CANONICAL base64: for every byte string the decoder reads back the reference
   (RFC 4648, padded) encoding, and whatever text it accepts is -- ASCII white space aside -- exactly the
   reference encoding of the bytes it returns: no payload has a second accepted spelling (non-zero padding
   bits, missing, surplus or inner padding, other alphabets). *)
Theorem C06_binary_decodes_every_payload : forall bs,
  bytes_ok bs -> decode_base64_yaml (b64_encode bs) = Some bs.
Proof. exact every_payload_is_read_back. Qed.
Check C06_binary_decodes_every_payload : forall bs,
  bytes_ok bs -> decode_base64_yaml (b64_encode bs) = Some bs.
Print Assumptions C06_binary_decodes_every_payload.

Theorem C06_binary_is_strict_canonical : forall s d,
  decode_base64_yaml s = Some d ->
  bytes_ok d /\ b64_encode d = filter (fun b => negb (is_ascii_ws b)) s.
Proof. exact binary_payload_is_strict_canonical. Qed.
Check C06_binary_is_strict_canonical : forall s d,
  decode_base64_yaml s = Some d ->
  bytes_ok d /\ b64_encode d = filter (fun b => negb (is_ascii_ws b)) s.
Print Assumptions C06_binary_is_strict_canonical.
