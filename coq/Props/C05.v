(* Props/C05.v -- property C05: typed deserialization is position-faithful. *)
From SS Require Import Model.Deser Proofs.DeserNodes Proofs.DeserShape.
Local Open Scope N_scope.

(* The full statement (every Rust position filled from the node at the corresponding position,
   everything else an error) for whole documents is the entry-point soundness theorem of
   DESIGN.md C05; it is not proved yet.  What is proved are the local no-re-synchronisation facts
   below; the whole-document statement is covered by the exact model/implementation correspondence
   and by the reference interpreter of the direct search. *)

Theorem C05_bare_variant_never_consumes_sibling : forall f c name variants v tag raw st a l prev rest ref,
  simple_tagged_enum_name raw tag = None ->
  match deser_enum (S f) c name variants (SReplay prev (EScalar v tag raw st a l :: rest) ref) with
  | DOk _ x' => x' = SReplay (Some (EScalar v tag raw st a l)) rest ref
  | _ => True
  end.
Proof. exact bare_scalar_variant_consumes_only_itself. Qed.
Check C05_bare_variant_never_consumes_sibling : forall f c name variants v tag raw st a l prev rest ref,
  simple_tagged_enum_name raw tag = None ->
  match deser_enum (S f) c name variants (SReplay prev (EScalar v tag raw st a l :: rest) ref) with
  | DOk _ x' => x' = SReplay (Some (EScalar v tag raw st a l)) rest ref
  | _ => True
  end.
Print Assumptions C05_bare_variant_never_consumes_sibling.

Theorem C05_option_null : forall f c t v tag raw st a l prev rest ref,
  (tag =? TAG_Null) || (negb (tag =? TAG_String) && negb (tag =? TAG_Binary) && scalar_is_nullish_for_option v st) = true ->
  deser (S f) c false (TOption t) (SReplay prev (EScalar v tag raw st a l :: rest) ref) =
  DOk VNone (SReplay (Some (EScalar v tag raw st a l)) rest ref).
Proof. exact option_null_table. Qed.
Check C05_option_null : forall f c t v tag raw st a l prev rest ref,
  (tag =? TAG_Null) || (negb (tag =? TAG_String) && negb (tag =? TAG_Binary) && scalar_is_nullish_for_option v st) = true ->
  deser (S f) c false (TOption t) (SReplay prev (EScalar v tag raw st a l :: rest) ref) =
  DOk VNone (SReplay (Some (EScalar v tag raw st a l)) rest ref).
Print Assumptions C05_option_null.

Theorem C05_option_some : forall f c t v tag raw st a l prev rest ref,
  (tag =? TAG_Null) || (negb (tag =? TAG_String) && negb (tag =? TAG_Binary) && scalar_is_nullish_for_option v st) = false ->
  deser (S f) c false (TOption t) (SReplay prev (EScalar v tag raw st a l :: rest) ref) =
  match deser f c false t (SReplay prev (EScalar v tag raw st a l :: rest) ref) with
  | DOk x s => DOk (VSome x) s
  | other => other
  end.
Proof. exact option_some_table. Qed.
Check C05_option_some : forall f c t v tag raw st a l prev rest ref,
  (tag =? TAG_Null) || (negb (tag =? TAG_String) && negb (tag =? TAG_Binary) && scalar_is_nullish_for_option v st) = false ->
  deser (S f) c false (TOption t) (SReplay prev (EScalar v tag raw st a l :: rest) ref) =
  match deser f c false t (SReplay prev (EScalar v tag raw st a l :: rest) ref) with
  | DOk x s => DOk (VSome x) s
  | other => other
  end.
Print Assumptions C05_option_some.

Theorem C05_missing_element_is_error : forall f c t ts prev l rest ref acc,
  seq_elems (S f) c (SchedList (t :: ts)) (SReplay prev (ESeqEnd l :: rest) ref) acc =
  DErr (Err E_Message loc_unknown).
Proof. exact tuple_missing_element_is_error. Qed.
Check C05_missing_element_is_error : forall f c t ts prev l rest ref acc,
  seq_elems (S f) c (SchedList (t :: ts)) (SReplay prev (ESeqEnd l :: rest) ref) acc =
  DErr (Err E_Message loc_unknown).
Print Assumptions C05_missing_element_is_error.

Theorem C05_surplus_element_not_consumed : forall f c prev e rest ref acc,
  (forall l, e <> ESeqEnd l) ->
  seq_elems (S f) c (SchedList []) (SReplay prev (e :: rest) ref) acc =
  DOk (VSeq (rev acc)) (SReplay prev (e :: rest) ref).
Proof. exact tuple_surplus_left_in_stream. Qed.
Check C05_surplus_element_not_consumed : forall f c prev e rest ref acc,
  (forall l, e <> ESeqEnd l) ->
  seq_elems (S f) c (SchedList []) (SReplay prev (e :: rest) ref) acc =
  DOk (VSeq (rev acc)) (SReplay prev (e :: rest) ref).
Print Assumptions C05_surplus_element_not_consumed.

(* Non-vacuity and former findings as evaluated examples on the model:
   [A, 5] as Vec<E> with A(i32) is an error (was [A(5)]); !A [1, 9] as A(i32,)-tuple is an error;
   [1, 2] as (i32, i32) reads (1, 2); [1, 2, 3] as (i32, i32) is rejected by the entry point. *)
Definition lx : loc := mkLoc 1 1 0 1 0 1.
Definition pl (s : str) : enode := NdScalar s TAG_None None Plain 0 lx.
Definition sq (items : list enode) : enode := NdSeq 0 TAG_None None lx items lx.
Definition c0 : dcfg := mkDcfg (mkCfg false false false false) DupError.
Definition tyE : ty := TEnum [69] [([65], VsNewtype (TInt true 32)); ([66], VsUnit)].
Definition is_err (r : dres) : bool := match r with DErr _ => true | _ => false end.
Example C05_examples :
  is_err (deser 50 c0 false (TSeq tyE) (replay_new (events_of (sq [pl [65]; pl [53]])))) = true /\
  is_err (deser 50 c0 false (TEnum [69] [([65], VsTuple [TInt true 32])])
            (replay_new (events_of (NdSeq 0 TAG_Other (Some [33; 65]) lx [pl [49]; pl [57]] lx)))) = true /\
  (match deser 50 c0 false (TTuple [TInt true 32; TInt true 32]) (replay_new (events_of (sq [pl [49]; pl [50]]))) with
   | DOk (VSeq [VInt 1; VInt 2]) (SReplay _ [] _) => true | _ => false end) = true /\
  (match deser 50 c0 false (TTuple [TInt true 32; TInt true 32]) (replay_new (events_of (sq [pl [49]; pl [50]; pl [51]]))) with
   | DOk _ (SReplay _ (_ :: _) _) => true | _ => false end) = true.
Proof. vm_compute. repeat split. Qed.
Check C05_examples :
  is_err (deser 50 c0 false (TSeq tyE) (replay_new (events_of (sq [pl [65]; pl [53]])))) = true /\
  is_err (deser 50 c0 false (TEnum [69] [([65], VsTuple [TInt true 32])])
            (replay_new (events_of (NdSeq 0 TAG_Other (Some [33; 65]) lx [pl [49]; pl [57]] lx)))) = true /\
  (match deser 50 c0 false (TTuple [TInt true 32; TInt true 32]) (replay_new (events_of (sq [pl [49]; pl [50]]))) with
   | DOk (VSeq [VInt 1; VInt 2]) (SReplay _ [] _) => true | _ => false end) = true /\
  (match deser 50 c0 false (TTuple [TInt true 32; TInt true 32]) (replay_new (events_of (sq [pl [49]; pl [50]; pl [51]]))) with
   | DOk _ (SReplay _ (_ :: _) _) => true | _ => false end) = true.
Print Assumptions C05_examples.

(* A complex mapping key (recorded, then replayed through the key type) must be consumed entirely by the key
   type: whatever is left of the recorded node is an error of the mapping (F59, fixed). *)
Theorem C05_map_key_surplus_is_error : forall f c kt vt ow m x pairs fg kevents kemn kloc m' x' kv xr e xr',
  ma_next_key f c m x = KKey kevents kemn kloc m' x' ->
  deser f c kemn kt (replay_new kevents) = DOk kv xr ->
  src_peek xr = NSome e xr' ->
  map_loop (S f) c (MMap kt vt ow) m x pairs fg = DErr (Err E_Unexpected (ev_loc e)).
Proof. exact map_key_surplus_is_error. Qed.
Check C05_map_key_surplus_is_error : forall f c kt vt ow m x pairs fg kevents kemn kloc m' x' kv xr e xr',
  ma_next_key f c m x = KKey kevents kemn kloc m' x' ->
  deser f c kemn kt (replay_new kevents) = DOk kv xr ->
  src_peek xr = NSome e xr' ->
  map_loop (S f) c (MMap kt vt ow) m x pairs fg = DErr (Err E_Unexpected (ev_loc e)).
Print Assumptions C05_map_key_surplus_is_error.

Theorem C05_struct_key_surplus_is_error : forall f c fields deny m x pairs fg kevents kemn kloc m' x' name xr e xr',
  ma_next_key f c m x = KKey kevents kemn kloc m' x' ->
  deser f c kemn TStr (replay_new kevents) = DOk (VStr name) xr ->
  src_peek xr = NSome e xr' ->
  map_loop (S f) c (MStruct fields deny) m x pairs fg = DErr (Err E_Unexpected (ev_loc e)).
Proof. exact struct_key_surplus_is_error. Qed.
Check C05_struct_key_surplus_is_error : forall f c fields deny m x pairs fg kevents kemn kloc m' x' name xr e xr',
  ma_next_key f c m x = KKey kevents kemn kloc m' x' ->
  deser f c kemn TStr (replay_new kevents) = DOk (VStr name) xr ->
  src_peek xr = NSome e xr' ->
  map_loop (S f) c (MStruct fields deny) m x pairs fg = DErr (Err E_Unexpected (ev_loc e)).
Print Assumptions C05_struct_key_surplus_is_error.

(* {[1, 2, 3]: 5} as Map<(i32, i32), i32> is an error; {[1, 2]: 5} reads {(1, 2): 5} *)
Example C05_key_examples :
  (match deser 80 c0 false (TMap (TTuple [TInt true 32; TInt true 32]) (TInt true 32))
           (replay_new (events_of (NdMap 0 lx [(sq [pl [49]; pl [50]; pl [51]], pl [53])] lx))) with
   | DErr (Err E_Unexpected _) => true | _ => false end) = true /\
  (match deser 80 c0 false (TMap (TTuple [TInt true 32; TInt true 32]) (TInt true 32))
           (replay_new (events_of (NdMap 0 lx [(sq [pl [49]; pl [50]], pl [53])] lx))) with
   | DOk (VMap [(VSeq [VInt 1; VInt 2], VInt 5)]) _ => true | _ => false end) = true.
Proof. vm_compute. split; reflexivity. Qed.
Check C05_key_examples :
  (match deser 80 c0 false (TMap (TTuple [TInt true 32; TInt true 32]) (TInt true 32))
           (replay_new (events_of (NdMap 0 lx [(sq [pl [49]; pl [50]; pl [51]], pl [53])] lx))) with
   | DErr (Err E_Unexpected _) => true | _ => false end) = true /\
  (match deser 80 c0 false (TMap (TTuple [TInt true 32; TInt true 32]) (TInt true 32))
           (replay_new (events_of (NdMap 0 lx [(sq [pl [49]; pl [50]], pl [53])] lx))) with
   | DOk (VMap [(VSeq [VInt 1; VInt 2], VInt 5)]) _ => true | _ => false end) = true.
Print Assumptions C05_key_examples.
