(* Props/C17.v -- property C17: rendered error reports are terminal-safe, cropped and show the right line. *)
From SS Require Import Model.Snippet Proofs.SnippetSan Proofs.SnippetCrop Proofs.SnippetRows.
Local Open Scope N_scope.

(* The sanitiser applied to every rendered snippet (and, after the fix of F17, to the whole rendered
   report) never changes the byte length, and its output is ALWAYS clean -- for every byte string,
   well-formed or not: no C0 byte other than LF/TAB, no DEL, no C2 80..9F pair. *)
Theorem C17_sanitize_preserves_length : forall s, length (sanitize s) = length s.
Proof. exact sanitize_length. Qed.
Check C17_sanitize_preserves_length : forall s, length (sanitize s) = length s.
Print Assumptions C17_sanitize_preserves_length.

Theorem C17_sanitize_output_clean : forall s, is_clean (sanitize s) = true.
Proof. exact sanitize_clean. Qed.
Check C17_sanitize_output_clean : forall s, is_clean (sanitize s) = true.
Print Assumptions C17_sanitize_output_clean.

(* Character-level meaning: on the UTF-8 encoding of any string of scalar values the sanitiser is the
   character-wise map clean_cp, whose image contains no control character and which fixes every
   non-control character (so nothing else of the text is altered). *)
Theorem C17_sanitize_is_charwise : forall cs, Forall (fun c => cp_valid c = true) cs ->
  sanitize (utf8_enc cs) = utf8_enc (map clean_cp cs).
Proof. exact sanitize_chars. Qed.
Check C17_sanitize_is_charwise : forall cs, Forall (fun c => cp_valid c = true) cs ->
  sanitize (utf8_enc cs) = utf8_enc (map clean_cp cs).
Print Assumptions C17_sanitize_is_charwise.

Theorem C17_no_control_survives : forall c,
  is_control_cp (clean_cp c) = false /\ (is_control_cp c = false -> clean_cp c = c).
Proof. intros c. split; [apply clean_cp_not_control|apply clean_cp_fixes_others]. Qed.
Check C17_no_control_survives : forall c,
  is_control_cp (clean_cp c) = false /\ (is_control_cp c = false -> clean_cp c = c).
Print Assumptions C17_no_control_survives.

(* Sanitising keeps every character boundary, so byte spans computed before it stay valid. *)
Theorem C17_sanitize_keeps_boundaries : forall s, map is_cont (sanitize s) = map is_cont s.
Proof. exact sanitize_preserves_boundaries. Qed.
Check C17_sanitize_keeps_boundaries : forall s, map is_cont (sanitize s) = map is_cont s.
Print Assumptions C17_sanitize_keeps_boundaries.

(* The vertical window: at most two rows either side of the error row, inside the text, error row included. *)
Theorem C17_window_rows : forall row total,
  1 <= row -> row <= total -> total <= SN_USIZE_MAX ->
  let '(ws, we) := window_rows row total in
  1 <= ws /\ ws <= row /\ row <= we /\ we <= total /\ we - ws <= 4 /\ row - ws <= 2 /\ we - row <= 2.
Proof. exact window_rows_spec. Qed.
Check C17_window_rows : forall row total,
  1 <= row -> row <= total -> total <= SN_USIZE_MAX ->
  let '(ws, we) := window_rows row total in
  1 <= ws /\ ws <= row /\ row <= we /\ we <= total /\ we - ws <= 4 /\ row - ws <= 2 /\ we - row <= 2.
Print Assumptions C17_window_rows.

(* Column -> byte offset: the offset reported for a 1-based column lies inside the line, is a character
   boundary, and has exactly column-1 characters before it; every column up to one past the end has one. *)
Theorem C17_column_offset : forall line col j,
  col_to_byte line col = Some j ->
  1 <= col /\ j <= blen line
  /\ char_count (firstn (N.to_nat j) line) = col - 1
  /\ (j = blen line \/ exists b, nth_error line (N.to_nat j) = Some b /\ is_cont b = false).
Proof. exact col_to_byte_spec. Qed.
Check C17_column_offset : forall line col j,
  col_to_byte line col = Some j ->
  1 <= col /\ j <= blen line
  /\ char_count (firstn (N.to_nat j) line) = col - 1
  /\ (j = blen line \/ exists b, nth_error line (N.to_nat j) = Some b /\ is_cont b = false).
Print Assumptions C17_column_offset.

Theorem C17_column_offset_total : forall line col,
  1 <= col -> col <= char_count line + 1 -> exists j, col_to_byte line col = Some j.
Proof. exact col_to_byte_total. Qed.
Check C17_column_offset_total : forall line col,
  1 <= col -> col <= char_count line + 1 -> exists j, col_to_byte line col = Some j.
Print Assumptions C17_column_offset_total.

(* Horizontal cropping: the output is an optional ellipsis, a slice of the line starting at the reported
   start byte, an optional ellipsis; prefix_bytes is the length of what was put in front (so a byte
   offset p of the line maps to prefix_bytes + p - start_byte); and a cropped line has at most
   right-left+1 columns plus the two ellipses -- 2*radius+3 for the window col-radius..col+radius. *)
Theorem C17_crop_line_shape : forall line left right,
  let '(out, sb, pb) := crop_line line left right in
  exists pre mid post,
    out = pre ++ mid ++ post /\ blen pre = pb
    /\ (pre = [] \/ pre = ELLIPSIS) /\ (post = [] \/ post = ELLIPSIS)
    /\ (mid = line \/ exists eb, mid = slice line sb eb).
Proof. exact crop_line_shape. Qed.
Check C17_crop_line_shape : forall line left right,
  let '(out, sb, pb) := crop_line line left right in
  exists pre mid post,
    out = pre ++ mid ++ post /\ blen pre = pb
    /\ (pre = [] \/ pre = ELLIPSIS) /\ (post = [] \/ post = ELLIPSIS)
    /\ (mid = line \/ exists eb, mid = slice line sb eb).
Print Assumptions C17_crop_line_shape.

Theorem C17_crop_line_width : forall line left right,
  1 <= left -> left <= right + 1 -> right < SN_USIZE_MAX -> char_count line < SN_USIZE_MAX ->
  let out := fst (fst (crop_line line left right)) in
  out = line \/ out = [] \/ char_count out <= right - left + 3.
Proof. exact crop_line_width. Qed.
Check C17_crop_line_width : forall line left right,
  1 <= left -> left <= right + 1 -> right < SN_USIZE_MAX -> char_count line < SN_USIZE_MAX ->
  let out := fst (fst (crop_line line left right)) in
  out = line \/ out = [] \/ char_count out <= right - left + 3.
Print Assumptions C17_crop_line_width.

(* crop_window_text: whatever the window, row, column and radius, the text handed to the renderer is
   clean and the rebased span lies inside it (no out-of-range slice in the renderer). *)
Theorem C17_crop_window_span : forall w wsr erow ecol radius ls le,
  ls <= le -> le <= blen w ->
  let '(out, ns, ne) := crop_window w wsr erow ecol radius ls le in
  ns <= ne /\ ne <= blen out.
Proof. exact crop_window_span. Qed.
Check C17_crop_window_span : forall w wsr erow ecol radius ls le,
  ls <= le -> le <= blen w ->
  let '(out, ns, ne) := crop_window w wsr erow ecol radius ls le in
  ns <= ne /\ ne <= blen out.
Print Assumptions C17_crop_window_span.

Theorem C17_crop_window_clean : forall w wsr erow ecol radius ls le,
  is_clean (fst (fst (crop_window w wsr erow ecol radius ls le))) = true.
Proof. exact crop_window_clean. Qed.
Check C17_crop_window_clean : forall w wsr erow ecol radius ls le,
  is_clean (fst (fst (crop_window w wsr erow ecol radius ls le))) = true.
Print Assumptions C17_crop_window_clean.

(* Non-vacuity: ESC [ 3 1 m, U+009B and DEL in "a<ESC>[31m<U+009B>b<DEL>", cropped at column 3 radius 1 *)
Example C17_example :
  sanitize [97; 27; 91; 51; 49; 109; 194; 155; 98; 127] = [97; 32; 91; 51; 49; 109; 194; 160; 98; 32]
  /\ crop_line [97; 195; 169; 98; 99; 100; 101] 2 4 = ([226; 128; 166; 195; 169; 98; 99; 226; 128; 166], 1, 3)
  /\ window_rows 7 9 = (5, 9).
Proof. vm_compute. repeat split; reflexivity. Qed.
Check C17_example :
  sanitize [97; 27; 91; 51; 49; 109; 194; 155; 98; 127] = [97; 32; 91; 51; 49; 109; 194; 160; 98; 32]
  /\ crop_line [97; 195; 169; 98; 99; 100; 101] 2 4 = ([226; 128; 166; 195; 169; 98; 99; 226; 128; 166], 1, 3)
  /\ window_rows 7 9 = (5, 9).
Print Assumptions C17_example.

(* The table of line starts is exactly: 0, and the position after every line break (LF, CRLF at its LF, lone CR),
   in increasing order and inside the text; so the byte window cut out for rows ws..we starts at the start of row
   ws, ends at the start of row we + 1 (or the end of the text) and is a well-formed range of the text. *)
Theorem C17_line_starts_are_break_successors : forall s, s <> [] -> line_starts s = 0 :: map (fun k => N.of_nat k + 1) (breaks s).
Proof. exact line_starts_are_break_successors. Qed.
Check C17_line_starts_are_break_successors : forall s, s <> [] -> line_starts s = 0 :: map (fun k => N.of_nat k + 1) (breaks s).
Print Assumptions C17_line_starts_are_break_successors.

Theorem C17_breaks_are_the_line_ends : forall s k, In k (breaks s) <-> exists b, nth_error s k = Some b /\ is_break_at b (skipn (S k) s) = true.
Proof. exact breaks_spec. Qed.
Check C17_breaks_are_the_line_ends : forall s k, In k (breaks s) <-> exists b, nth_error s k = Some b /\ is_break_at b (skipn (S k) s) = true.
Print Assumptions C17_breaks_are_the_line_ends.

Theorem C17_line_starts_sorted : forall s, Sorted.StronglySorted N.lt (line_starts s).
Proof. exact line_starts_sorted. Qed.
Check C17_line_starts_sorted : forall s, Sorted.StronglySorted N.lt (line_starts s).
Print Assumptions C17_line_starts_sorted.

Theorem C17_window_bounds_well_formed : forall text ws we,
  text <> [] -> 1 <= ws -> ws <= we -> we <= N.of_nat (length (line_starts text)) ->
  let '(a, b) := window_bounds text (line_starts text) ws we in
  a <= b /\ b <= blen text /\
  a = nth (N.to_nat (ws - 1)) (line_starts text) 0 /\
  (we < N.of_nat (length (line_starts text)) -> b = nth (N.to_nat we) (line_starts text) 0) /\
  (we = N.of_nat (length (line_starts text)) -> b = blen text).
Proof. exact window_bounds_well_formed. Qed.
Check C17_window_bounds_well_formed : forall text ws we,
  text <> [] -> 1 <= ws -> ws <= we -> we <= N.of_nat (length (line_starts text)) ->
  let '(a, b) := window_bounds text (line_starts text) ws we in
  a <= b /\ b <= blen text /\
  a = nth (N.to_nat (ws - 1)) (line_starts text) 0 /\
  (we < N.of_nat (length (line_starts text)) -> b = nth (N.to_nat we) (line_starts text) 0) /\
  (we = N.of_nat (length (line_starts text)) -> b = blen text).
Print Assumptions C17_window_bounds_well_formed.
