(* Props/C15.v -- property C15: a call's result depends only on its arguments, not on earlier or nested calls. *)
From SS Require Import Model.ThreadState Proofs.ThreadState.
Local Open Scope N_scope.

(* Every call in any sequence of calls on one thread -- succeeding, failing or unwinding half-way,
   with nested calls inside -- observes exactly what it observes as the first call on a fresh thread. *)
Theorem C15_sequence_independence : forall calls s,
  run_seq calls s = map (fun c => fst (run_call c tl_empty)) calls.
Proof. exact every_call_in_a_sequence_is_as_on_a_fresh_thread. Qed.
Check C15_sequence_independence : forall calls s,
  run_seq calls s = map (fun c => fst (run_call c tl_empty)) calls.
Print Assumptions C15_sequence_independence.

(* A call nested at any point inside another one sees nothing of the outer call's state and leaves
   it exactly as it was (the anchor table of the outer document included). *)
Theorem C15_nested_call_isolated : forall fuel body s obs,
  run (S (S fuel)) [AScope body] s obs = (true, s, snd (run (S fuel) body tl_empty obs)).
Proof. exact scope_isolated. Qed.
Check C15_nested_call_isolated : forall fuel body s obs,
  run (S (S fuel)) [AScope body] s obs = (true, s, snd (run (S fuel) body tl_empty obs)).
Print Assumptions C15_nested_call_isolated.

(* The RAII guards are balanced on every path, aborts included. *)
Theorem C15_guards_balanced : forall fuel acts s obs,
  let '(ok, s', o) := run fuel acts s obs in
  tl_stack s' = tl_stack s /\ tl_fb s' = tl_fb s.
Proof. exact guards_balanced. Qed.
Check C15_guards_balanced : forall fuel acts s obs,
  let '(ok, s', o) := run fuel acts s obs in
  tl_stack s' = tl_stack s /\ tl_fb s' = tl_fb s.
Print Assumptions C15_guards_balanced.

(* Non-vacuity: the outer call stores anchor 1, a nested call stores its own anchor 1 and aborts inside
   an anchor context and a fallback guard; afterwards the outer call still finds ITS anchor 1 (value 7),
   and the nested lookup of anchor 1 before its own store found nothing. *)
Example C15_example :
  run 50 [AScope [AStore 1 7; AFallback 3 [AScope [ALookup 1; AReadFallback; AStore 1 9; AAnchor 2 [AFallback 5 [AAbort]]]]; ALookup 1; AReadFallback]] tl_empty []
  = (true, tl_empty, [0; 0; 1003; 2000; 8; 0]).
Proof. vm_compute. reflexivity. Qed.
Check C15_example :
  run 50 [AScope [AStore 1 7; AFallback 3 [AScope [ALookup 1; AReadFallback; AStore 1 9; AAnchor 2 [AFallback 5 [AAbort]]]]; ALookup 1; AReadFallback]] tl_empty []
  = (true, tl_empty, [0; 0; 1003; 2000; 8; 0]).
Print Assumptions C15_example.
