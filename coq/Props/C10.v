(* Props/C10.v -- property C10: I/O faults and the input-size cap are never swallowed. *)
From SS Require Import Model.Reader Proofs.ReaderCell Proofs.ReaderSound.
Local Open Scope N_scope.

(* Every error the underlying reader reports (whatever its kind; Interrupted is retried) is left in
   the shared error cell -- it is never taken for the end of input (finding F1, fixed). *)
Theorem C10_reported_error_sets_cell : forall mb k r total cell,
  k <> KInterrupted ->
  chunked_next mb (mkChunked (RFail k :: r) total cell) = (None, mkChunked r total (Some k)).
Proof. exact reported_error_sets_cell. Qed.
Check C10_reported_error_sets_cell : forall mb k r total cell,
  k <> KInterrupted ->
  chunked_next mb (mkChunked (RFail k :: r) total cell) = (None, mkChunked r total (Some k)).
Print Assumptions C10_reported_error_sets_cell.

Theorem C10_end_of_input_is_clean : forall mb total cell,
  chunked_next mb (mkChunked [] total cell) = (None, mkChunked [] total cell) /\
  forall r, chunked_next mb (mkChunked (REof :: r) total cell) = (None, mkChunked (REof :: r) total cell).
Proof. exact end_of_input_is_clean. Qed.
Check C10_end_of_input_is_clean : forall mb total cell,
  chunked_next mb (mkChunked [] total cell) = (None, mkChunked [] total cell) /\
  forall r, chunked_next mb (mkChunked (REof :: r) total cell) = (None, mkChunked (REof :: r) total cell).
Print Assumptions C10_end_of_input_is_clean.

Theorem C10_eof_inside_character_is_error : forall mb b total cell,
  lead_len b = Some 2%nat \/ lead_len b = Some 3%nat \/ lead_len b = Some 4%nat ->
  snd (chunked_next mb (mkChunked [RChunk [b]] total cell)) = mkChunked [] total (Some KUnexpectedEof).
Proof. exact eof_inside_character_is_error. Qed.
Check C10_eof_inside_character_is_error : forall mb b total cell,
  lead_len b = Some 2%nat \/ lead_len b = Some 3%nat \/ lead_len b = Some 4%nat ->
  snd (chunked_next mb (mkChunked [RChunk [b]] total cell)) = mkChunked [] total (Some KUnexpectedEof).
Print Assumptions C10_eof_inside_character_is_error.

(* The cap: a character is yielded only while the count of decoded bytes stays within the cap. *)
Theorem C10_cap_respected : forall lim c ch c',
  lim <= USIZE_MAX_R -> ck_total c <= lim ->
  chunked_next (Some lim) c = (Some ch, c') -> ck_total c' <= lim /\ ck_total c <= ck_total c'.
Proof. exact cap_respected. Qed.
Check C10_cap_respected : forall lim c ch c',
  lim <= USIZE_MAX_R -> ck_total c <= lim ->
  chunked_next (Some lim) c = (Some ch, c') -> ck_total c' <= lim /\ ck_total c <= ck_total c'.
Print Assumptions C10_cap_respected.

(* Non-vacuity: "a" + reported UnexpectedEof; "é" split inside the character with a fault between *)
Example C10_examples :
  chunked_run None [RChunk [97]; RFail KUnexpectedEof] 10 = ([97], Some KUnexpectedEof) /\
  chunked_run None [RChunk [195]; RFail (KOther 1); RChunk [169]] 10 = ([], Some (KOther 1)) /\
  chunked_run None [RChunk [195]; RChunk [169]] 10 = ([233], None) /\
  chunked_run (Some 1) [RChunk [195; 169]] 10 = ([], Some KFileTooLarge) /\
  chunked_run (Some 2) [RChunk [195; 169]] 10 = ([233], None).
Proof. vm_compute. repeat split. Qed.
Check C10_examples :
  chunked_run None [RChunk [97]; RFail KUnexpectedEof] 10 = ([97], Some KUnexpectedEof) /\
  chunked_run None [RChunk [195]; RFail (KOther 1); RChunk [169]] 10 = ([], Some (KOther 1)) /\
  chunked_run None [RChunk [195]; RChunk [169]] 10 = ([233], None) /\
  chunked_run (Some 1) [RChunk [195; 169]] 10 = ([], Some KFileTooLarge) /\
  chunked_run (Some 2) [RChunk [195; 169]] 10 = ([233], None).
Print Assumptions C10_examples.

(* For EVERY schedule and cap, one step of the re-assembler: delivering a character never touches the
   error cell, and ending the stream either leaves the cell as it was or stores an error in it -- an
   error already recorded is never cleared, so it cannot be lost between the read and the report. *)
Theorem C10_step_never_clears_cell : forall mb c r c', ck_total c <= USIZE_MAX_R ->
  chunked_next mb c = (r, c') ->
  ck_total c <= ck_total c' /\ ck_total c' <= USIZE_MAX_R /\
  match r with
  | Some ch => ck_cell c' = ck_cell c /\ exists bytes, utf8_dec bytes = Some [ch]
  | None => ck_cell c' = ck_cell c \/ exists k, ck_cell c' = Some k
  end.
Proof. exact next_sound. Qed.
Check C10_step_never_clears_cell : forall mb c r c', ck_total c <= USIZE_MAX_R ->
  chunked_next mb c = (r, c') ->
  ck_total c <= ck_total c' /\ ck_total c' <= USIZE_MAX_R /\
  match r with
  | Some ch => ck_cell c' = ck_cell c /\ exists bytes, utf8_dec bytes = Some [ch]
  | None => ck_cell c' = ck_cell c \/ exists k, ck_cell c' = Some k
  end.
Print Assumptions C10_step_never_clears_cell.

(* The input-size cap is an invariant of the whole run on EVERY schedule (faulty or not, any
   partition): the byte count the iterator keeps never exceeds the cap, however long it runs. *)
Theorem C10_cap_is_run_invariant : forall fuel lim c acc out c', lim <= USIZE_MAX_R -> ck_total c <= lim ->
  chunked_all fuel (Some lim) c acc = (out, c') -> ck_total c' <= lim.
Proof. exact run_cap_inv. Qed.
Check C10_cap_is_run_invariant : forall fuel lim c acc out c', lim <= USIZE_MAX_R -> ck_total c <= lim ->
  chunked_all fuel (Some lim) c acc = (out, c') -> ck_total c' <= lim.
Print Assumptions C10_cap_is_run_invariant.
