(* Props/C18.v -- property C18: validating entry points agree with plain ones and locate every failed field. *)
From SS Require Import Model.PathMap Proofs.PathMap.
From Coq Require Import Permutation.
Local Open Scope N_scope.

(* A validator path that was recorded while deserializing is found, with its own locations. *)
Theorem C18_exact_path_found : forall target id cands,
  target <> [] -> distinct_paths cands -> In (target, id) cands ->
  search target cands = Some (id, leaf_name target).
Proof. exact search_exact_hit. Qed.
Check C18_exact_path_found : forall target id cands,
  target <> [] -> distinct_paths cands -> In (target, id) cands ->
  search target cands = Some (id, leaf_name target).
Print Assumptions C18_exact_path_found.

(* A looser comparison (letter case, naming convention, ...) only ever answers when it singles out ONE
   recorded path: the path it returns matches, and no other recorded path does. *)
Theorem C18_fallback_is_unambiguous : forall r target cands id leaf,
  find_unique r target cands = Some (id, leaf) ->
  exists p, In (p, id) cands /\ path_rel r target p = true /\ leaf = leaf_name p
            /\ forall q id', In (q, id') cands -> path_rel r target q = true -> (q, id') = (p, id).
Proof. exact find_unique_sound. Qed.
Check C18_fallback_is_unambiguous : forall r target cands id leaf,
  find_unique r target cands = Some (id, leaf) ->
  exists p, In (p, id) cands /\ path_rel r target p = true /\ leaf = leaf_name p
            /\ forall q id', In (q, id') cands -> path_rel r target q = true -> (q, id') = (p, id).
Print Assumptions C18_fallback_is_unambiguous.

Theorem C18_ambiguity_is_refused : forall r target cands c1 c2,
  In c1 cands -> In c2 cands -> c1 <> c2 ->
  path_rel r target (fst c1) = true -> path_rel r target (fst c2) = true ->
  find_unique r target cands = None.
Proof. exact find_unique_refuses_ambiguity. Qed.
Check C18_ambiguity_is_refused : forall r target cands c1 c2,
  In c1 cands -> In c2 cands -> c1 <> c2 ->
  path_rel r target (fst c1) = true -> path_rel r target (fst c2) = true ->
  find_unique r target cands = None.
Print Assumptions C18_ambiguity_is_refused.

(* The answer does not depend on the order in which the recorded paths are stored (the code keeps
   them in a hash map with a per-process seed). *)
Theorem C18_lookup_order_independent : forall target l l',
  distinct_paths l -> Permutation l l' -> search target l = search target l'.
Proof. exact search_is_order_independent. Qed.
Check C18_lookup_order_independent : forall target l l',
  distinct_paths l -> Permutation l l' -> search target l = search target l'.
Print Assumptions C18_lookup_order_independent.

(* Non-vacuity: recorded firstItem.name / items[0].name; the validator asks for first_item.name (found by
   tokenisation), FIRSTITEM.name (found ignoring non-alphanumerics and case), and name alone (refused) *)
Example C18_example :
  let m := [([(false, [102;105;114;115;116;73;116;101;109]); (false, [110;97;109;101])], 1);
            ([(false, [105;116;101;109;115]); (true, [48]); (false, [110;97;109;101])], 2)] in
  search [(false, [102;105;114;115;116;95;105;116;101;109]); (false, [110;97;109;101])] m = Some (1, [110;97;109;101])
  /\ search [(false, [70;73;82;83;84;73;84;69;77]); (false, [110;97;109;101])] m = Some (1, [110;97;109;101])
  /\ search [(false, [110;97;109;101])] m = None.
Proof. vm_compute. repeat split; reflexivity. Qed.
Check C18_example :
  let m := [([(false, [102;105;114;115;116;73;116;101;109]); (false, [110;97;109;101])], 1);
            ([(false, [105;116;101;109;115]); (true, [48]); (false, [110;97;109;101])], 2)] in
  search [(false, [102;105;114;115;116;95;105;116;101;109]); (false, [110;97;109;101])] m = Some (1, [110;97;109;101])
  /\ search [(false, [70;73;82;83;84;73;84;69;77]); (false, [110;97;109;101])] m = Some (1, [110;97;109;101])
  /\ search [(false, [110;97;109;101])] m = None.
Print Assumptions C18_example.
