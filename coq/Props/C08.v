(* Props/C08.v -- property C08: expansion work and memory are bounded by the budget and alias limits. *)
From SS Require Import Model.Live Proofs.LiveBasic Proofs.LiveBounds.
Local Open Scope N_scope.

(* Work: every event the pump delivers either consumed at least one raw parser item, or is one
   replayed event counted against (and within) max_total_replayed_events, or is the one synthesized
   null of an empty stream.  So deliveries <= raw items + permitted replay + 1, for every input,
   accepted or not. *)
Theorem C08_delivery_is_paid_for : forall s rest e s' rest',
  next_impl s rest = Yield e s' rest' -> step_kind s rest s' rest'.
Proof. exact next_impl_step. Qed.
Check C08_delivery_is_paid_for : forall s rest e s' rest',
  next_impl s rest = Yield e s' rest' -> step_kind s rest s' rest'.
Print Assumptions C08_delivery_is_paid_for.

Theorem C08_pump_never_grows_input : forall s rest,
  match next_impl s rest with
  | Yield _ _ r' | Eos _ r' | Fail _ _ r' => (length r' <= length rest)%nat
  end.
Proof. exact next_impl_never_grows. Qed.
Check C08_pump_never_grows_input : forall s rest,
  match next_impl s rest with
  | Yield _ _ r' | Eos _ r' | Fail _ _ r' => (length r' <= length rest)%nat
  end.
Print Assumptions C08_pump_never_grows_input.

(* The total-replay limit is exact: the n-th replayed event is delivered iff n <= limit. *)
Theorem C08_replay_limit_exact : forall f below s rest buf e,
  assoc (if_anchor f) (lv_anchors s) = Some buf ->
  nth_error buf (N.to_nat (if_idx f)) = Some e ->
  lv_total_replayed s + 1 <= USIZE_MAX ->
  lv_budget s = None ->
  (max_total_replayed_events (lv_limits s) < lv_total_replayed s + 1 ->
   exists s', serve_inject (f :: below) s rest = Some (Fail (Err E_AliasReplayLimitExceeded (ev_loc e)) s' rest))
  /\ (lv_total_replayed s + 1 <= max_total_replayed_events (lv_limits s) ->
      exists s', serve_inject (f :: below) s rest = Some (Yield e s' rest)).
Proof. exact replay_limit_exact. Qed.
Check C08_replay_limit_exact : forall f below s rest buf e,
  assoc (if_anchor f) (lv_anchors s) = Some buf ->
  nth_error buf (N.to_nat (if_idx f)) = Some e ->
  lv_total_replayed s + 1 <= USIZE_MAX ->
  lv_budget s = None ->
  (max_total_replayed_events (lv_limits s) < lv_total_replayed s + 1 ->
   exists s', serve_inject (f :: below) s rest = Some (Fail (Err E_AliasReplayLimitExceeded (ev_loc e)) s' rest))
  /\ (lv_total_replayed s + 1 <= max_total_replayed_events (lv_limits s) ->
      exists s', serve_inject (f :: below) s rest = Some (Yield e s' rest)).
Print Assumptions C08_replay_limit_exact.

(* Replay nesting: the parser is only consulted with an empty replay stack, so the nesting limit is
   all-or-nothing -- aliases inside anchored containers inside aliases are accepted whenever the
   limit is at least one. *)
Theorem C08_stack_depth_zero_rejects : forall s id sp r,
  no_budget s -> lv_inject s = [] ->
  sat_add (expansions_of s id) 1 <= max_alias_expansions_per_anchor (lv_limits s) ->
  max_replay_stack_depth (lv_limits s) = 0 ->
  exists s', pull (RItem (RAlias id) sp :: r) s =
             Fail (Err E_AliasReplayStackDepthExceeded (location_from_span sp)) s' r.
Proof. exact stack_depth_zero_rejects_every_alias. Qed.
Check C08_stack_depth_zero_rejects : forall s id sp r,
  no_budget s -> lv_inject s = [] ->
  sat_add (expansions_of s id) 1 <= max_alias_expansions_per_anchor (lv_limits s) ->
  max_replay_stack_depth (lv_limits s) = 0 ->
  exists s', pull (RItem (RAlias id) sp :: r) s =
             Fail (Err E_AliasReplayStackDepthExceeded (location_from_span sp)) s' r.
Print Assumptions C08_stack_depth_zero_rejects.

Theorem C08_parser_consulted_with_empty_stack : forall s rest,
  serve_inject (lv_inject s) s rest = None -> next_impl s rest = pull rest (with_inject s []).
Proof. exact next_impl_pulls_with_empty_stack. Qed.
Check C08_parser_consulted_with_empty_stack : forall s rest,
  serve_inject (lv_inject s) s rest = None -> next_impl s rest = pull rest (with_inject s []).
Print Assumptions C08_parser_consulted_with_empty_stack.
