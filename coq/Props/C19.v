(* Props/C19.v -- property C19: robotics expressions evaluate totally and exactly; plain numbers are unchanged. *)
From SS Require Import Model.Robotics Proofs.Robotics Proofs.RoboticsTotal.
Local Open Scope N_scope.

Theorem C19_depth_guard : forall f r depth tag t,
  (MAX_EXPR_DEPTH <= depth)%Z -> p_primary (S f) (40 :: r) depth tag t = PErr.
Proof. exact paren_refused_at_depth_limit. Qed.
Check C19_depth_guard : forall f r depth tag t,
  (MAX_EXPR_DEPTH <= depth)%Z -> p_primary (S f) (40 :: r) depth tag t = PErr.
Print Assumptions C19_depth_guard.

Theorem C19_degrees_converted_once : forall fuel s tag v used plain r,
  p_expr fuel (skip_ws s) 0%Z tag true = POk (v, used, plain) r -> skip_ws r = [] ->
  eval_scalar fuel s tag =
    if negb used then POk (match tag with RtDegrees => (v * DEG2RAD)%float | _ => v end) []
    else if (match tag with RtDegrees => true | _ => false end) && plain then PErr
    else POk v [].
Proof. exact top_level_units. Qed.
Check C19_degrees_converted_once : forall fuel s tag v used plain r,
  p_expr fuel (skip_ws s) 0%Z tag true = POk (v, used, plain) r -> skip_ws r = [] ->
  eval_scalar fuel s tag =
    if negb used then POk (match tag with RtDegrees => (v * DEG2RAD)%float | _ => v end) []
    else if (match tag with RtDegrees => true | _ => false end) && plain then PErr
    else POk v [].
Print Assumptions C19_degrees_converted_once.

Theorem C19_trailing_text_rejected : forall fuel s tag ev r c r',
  p_expr fuel (skip_ws s) 0%Z tag true = POk ev r -> skip_ws r = c :: r' ->
  eval_scalar fuel s tag = PErr.
Proof. exact trailing_text_rejected. Qed.
Check C19_trailing_text_rejected : forall fuel s tag ev r c r',
  p_expr fuel (skip_ws s) 0%Z tag true = POk ev r -> skip_ws r = c :: r' ->
  eval_scalar fuel s tag = PErr.
Print Assumptions C19_trailing_text_rejected.

(* Totality: the recursive-descent evaluator never runs out of the fuel the checker gives it -- for EVERY text, tag
   and nesting: 4 * length + 4 steps suffice (every loop iteration consumes its operator, every parenthesis its
   '(' before recursing, every number parser returns a remainder no longer than its input). *)
Theorem C19_evaluator_total : forall s tag fuel,
  (4 * length s + 4 <= fuel)%nat -> eval_scalar fuel s tag <> PFuel.
Proof. exact eval_scalar_total. Qed.
Check C19_evaluator_total : forall s tag fuel,
  (4 * length s + 4 <= fuel)%nat -> eval_scalar fuel s tag <> PFuel.
Print Assumptions C19_evaluator_total.

Theorem C19_checker_fuel_suffices : forall s tag, eval_scalar (4 * length s + 40) s tag <> PFuel.
Proof. intros s tag. apply eval_scalar_total. apply Nat.add_le_mono_l. repeat constructor. Qed.
Check C19_checker_fuel_suffices : forall s tag, eval_scalar (4 * length s + 40) s tag <> PFuel.
Print Assumptions C19_checker_fuel_suffices.

(* an accepted text has been read to its end *)
Theorem C19_reads_everything : forall fuel s tag v r, eval_scalar fuel s tag = POk v r -> r = [].
Proof. exact eval_scalar_reads_everything. Qed.
Check C19_reads_everything : forall fuel s tag v r, eval_scalar fuel s tag = POk v r -> r = [].
Print Assumptions C19_reads_everything.

(* Non-vacuity, evaluated in the kernel on IEEE binary64: deg(180) is pi; 1 + 2 * 3 is 7; (1+2)*3 is 9;
   257 nested parentheses are refused, 256 accepted; "0.1+0.2" is 0x3FD3333333333334 *)
Example C19_example :
  (match eval_scalar 100 [100; 101; 103; 40; 49; 56; 48; 41] RtNone with POk v _ => same_float v PI | _ => false end) = true
  /\ (match eval_scalar 100 [49; 43; 50; 42; 51] RtNone with POk v _ => same_float v 7%float | _ => false end) = true
  /\ (match eval_scalar 100 [40; 49; 43; 50; 41; 42; 51] RtNone with POk v _ => same_float v 9%float | _ => false end) = true
  /\ (match eval_scalar 100 [48; 46; 49; 43; 48; 46; 50] RtNone with POk v _ => same_float v (f64_of_bits 4599075939470750516) | _ => false end) = true
  /\ (match eval_scalar 2000 (repeat 40 257 ++ [49] ++ repeat 41 257) RtNone with PErr => true | _ => false end) = true
  /\ (match eval_scalar 2000 (repeat 40 256 ++ [49] ++ repeat 41 256) RtNone with POk v _ => same_float v 1%float | _ => false end) = true.
Proof. vm_compute. repeat split; reflexivity. Qed.
Check C19_example :
  (match eval_scalar 100 [100; 101; 103; 40; 49; 56; 48; 41] RtNone with POk v _ => same_float v PI | _ => false end) = true
  /\ (match eval_scalar 100 [49; 43; 50; 42; 51] RtNone with POk v _ => same_float v 7%float | _ => false end) = true
  /\ (match eval_scalar 100 [40; 49; 43; 50; 41; 42; 51] RtNone with POk v _ => same_float v 9%float | _ => false end) = true
  /\ (match eval_scalar 100 [48; 46; 49; 43; 48; 46; 50] RtNone with POk v _ => same_float v (f64_of_bits 4599075939470750516) | _ => false end) = true
  /\ (match eval_scalar 2000 (repeat 40 257 ++ [49] ++ repeat 41 257) RtNone with PErr => true | _ => false end) = true
  /\ (match eval_scalar 2000 (repeat 40 256 ++ [49] ++ repeat 41 256) RtNone with POk v _ => same_float v 1%float | _ => false end) = true.
Print Assumptions C19_example.
