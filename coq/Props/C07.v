(* Props/C07.v -- property C07: budget limits are enforced exactly and the report is accurate. *)
From SS Require Import Model.Budget Proofs.BudgetCounts Model.Expand Proofs.BudgetTree Proofs.BudgetPerDoc.
Local Open Scope N_scope.

(* The report of an accepted stream equals independent counts (plain folds) of the event list. *)
Theorem C07_report_exact : forall b evs e',
  run (enforcer_new b false) evs = (e', None) ->
  let r := into_report e' in
  r_events r = len_N evs /\ r_nodes r = count is_node evs /\ r_aliases r = count is_alias evs
  /\ r_documents r = count is_docstart evs /\ r_anchors r = distinct_anchors [] evs
  /\ (sum_bytes evs <= USIZE_MAX -> r_total_scalar_bytes r = sum_bytes evs).
Proof. exact accepted_report_is_exact. Qed.
Check C07_report_exact : forall b evs e',
  run (enforcer_new b false) evs = (e', None) ->
  let r := into_report e' in
  r_events r = len_N evs /\ r_nodes r = count is_node evs /\ r_aliases r = count is_alias evs
  /\ r_documents r = count is_docstart evs /\ r_anchors r = distinct_anchors [] evs
  /\ (sum_bytes evs <= USIZE_MAX -> r_total_scalar_bytes r = sum_bytes evs).
Print Assumptions C07_report_exact.

(* Accepted => every counted quantity is within its limit. *)
Theorem C07_accepted_within_limits : forall b evs e',
  run (enforcer_new b false) evs = (e', None) ->
  len_N evs <= max_events b /\ count is_node evs <= max_nodes b /\ count is_alias evs <= max_aliases b
  /\ count is_docstart evs <= max_documents b /\ distinct_anchors [] evs <= max_anchors b
  /\ r_max_depth (e_report e') <= max_depth b /\ r_merge_keys (e_report e') <= max_merge_keys b
  /\ r_total_scalar_bytes (e_report e') <= max_total_scalar_bytes b.
Proof. exact accepted_is_within_limits. Qed.
Check C07_accepted_within_limits : forall b evs e',
  run (enforcer_new b false) evs = (e', None) ->
  len_N evs <= max_events b /\ count is_node evs <= max_nodes b /\ count is_alias evs <= max_aliases b
  /\ count is_docstart evs <= max_documents b /\ distinct_anchors [] evs <= max_anchors b
  /\ r_max_depth (e_report e') <= max_depth b /\ r_merge_keys (e_report e') <= max_merge_keys b
  /\ r_total_scalar_bytes (e_report e') <= max_total_scalar_bytes b.
Print Assumptions C07_accepted_within_limits.

(* Rejected => the events before the offending one were accepted with exact counts, and the breach
   names a counter that this very event pushed past its limit (threshold exactness: the value
   reported is the previous count plus one). *)
Theorem C07_rejection_exact : forall b evs e' br,
  run (enforcer_new b false) evs = (e', Some br) ->
  exists pre ev post e1, evs = pre ++ ev :: post /\ run (enforcer_new b false) pre = (e1, None)
    /\ e_budget e1 = b /\ breach_exact e1 br
    /\ r_events (e_report e1) = len_N pre /\ r_nodes (e_report e1) = count is_node pre
    /\ r_aliases (e_report e1) = count is_alias pre /\ r_documents (e_report e1) = count is_docstart pre
    /\ len_N (e_defined e1) = distinct_anchors [] pre.
Proof. exact rejection_is_exact. Qed.
Check C07_rejection_exact : forall b evs e' br,
  run (enforcer_new b false) evs = (e', Some br) ->
  exists pre ev post e1, evs = pre ++ ev :: post /\ run (enforcer_new b false) pre = (e1, None)
    /\ e_budget e1 = b /\ breach_exact e1 br
    /\ r_events (e_report e1) = len_N pre /\ r_nodes (e_report e1) = count is_node pre
    /\ r_aliases (e_report e1) = count is_alias pre /\ r_documents (e_report e1) = count is_docstart pre
    /\ len_N (e_defined e1) = distinct_anchors [] pre.
Print Assumptions C07_rejection_exact.

Theorem C07_threshold_example :
  snd (run (enforcer_new (ex_budget 4) false) ex_stream) = None /\
  snd (run (enforcer_new (ex_budget 3) false) ex_stream) = Some (BrNodes 4).
Proof. exact threshold_example. Qed.
Check C07_threshold_example :
  snd (run (enforcer_new (ex_budget 4) false) ex_stream) = None /\
  snd (run (enforcer_new (ex_budget 3) false) ex_stream) = Some (BrNodes 4).
Print Assumptions C07_threshold_example.

(* The post-scan alias/anchor heuristic fires exactly on its documented condition, and the
   report handed out is the counted report with the anchor count filled in. *)
Theorem C07_ratio : forall e,
  let a := r_aliases (e_report e) in let n := len_N (e_defined e) in
  let counted := upd_anchors (e_report e) n in
  finalize e = if ratio_cond (e_budget e) a n then upd_breached counted (Some (BrRatio a n)) else counted.
Proof. exact finalize_ratio. Qed.
Check C07_ratio : forall e,
  let a := r_aliases (e_report e) in let n := len_N (e_defined e) in
  let counted := upd_anchors (e_report e) n in
  finalize e = if ratio_cond (e_budget e) a n then upd_breached counted (Some (BrRatio a n)) else counted.
Print Assumptions C07_ratio.

Theorem C07_ratio_condition : forall b a n,
  ratio_cond b a n = true <->
  (enforce_alias_anchor_ratio b = true /\ alias_anchor_min_aliases b <= a
   /\ (n = 0 \/ alias_anchor_ratio_multiplier b * n < a)).
Proof. exact ratio_cond_iff. Qed.
Check C07_ratio_condition : forall b a n,
  ratio_cond b a n = true <->
  (enforce_alias_anchor_ratio b = true /\ alias_anchor_min_aliases b <= a
   /\ (n = 0 \/ alias_anchor_ratio_multiplier b * n < a)).
Print Assumptions C07_ratio_condition.

(* Per-document enforcement: at every document start -- observed, or reached by the streaming
   reader's skip after a failed document -- the enforcer is in the fresh state, so what was read
   before never affects whether the next document is accepted (findings F2, F3, fixed). *)
Theorem C07_per_document_start_fresh : forall e x,
  e_per_document e = true -> e_depth e = 0 -> e_containers e = [] ->
  r_events (e_report e) + 1 <= max_events (e_budget e) ->
  observe e (RDocStart x) = (fresh_document_state e, None).
Proof. exact perdoc_document_start_is_fresh. Qed.
Check C07_per_document_start_fresh : forall e x,
  e_per_document e = true -> e_depth e = 0 -> e_containers e = [] ->
  r_events (e_report e) + 1 <= max_events (e_budget e) ->
  observe e (RDocStart x) = (fresh_document_state e, None).
Print Assumptions C07_per_document_start_fresh.

Theorem C07_per_document_skip_fresh : forall e,
  e_per_document e = true -> document_started_after_skip e = fresh_document_state e.
Proof. exact perdoc_after_skip_is_fresh. Qed.
Check C07_per_document_skip_fresh : forall e,
  e_per_document e = true -> document_started_after_skip e = fresh_document_state e.
Print Assumptions C07_per_document_skip_fresh.

(* Per-document enforcement, the whole statement: whatever was read before (any counters, any number of documents,
   an earlier recorded breach), two enforcers at a document boundary give the SAME verdict on the document that
   starts here and on everything after it -- in particular the verdict a brand-new enforcer gives on that document
   alone.  The number of documents already read never affects whether a document is accepted. *)
Theorem C07_document_verdict_is_independent : forall e1 e2 x evs,
  e_per_document e1 = true -> e_per_document e2 = true -> e_budget e1 = e_budget e2 ->
  e_depth e1 = 0 -> e_containers e1 = [] -> r_events (e_report e1) + 1 <= max_events (e_budget e1) ->
  e_depth e2 = 0 -> e_containers e2 = [] -> r_events (e_report e2) + 1 <= max_events (e_budget e2) ->
  snd (run e1 (RDocStart x :: evs)) = snd (run e2 (RDocStart x :: evs)).
Proof. exact document_verdict_is_independent. Qed.
Check C07_document_verdict_is_independent : forall e1 e2 x evs,
  e_per_document e1 = true -> e_per_document e2 = true -> e_budget e1 = e_budget e2 ->
  e_depth e1 = 0 -> e_containers e1 = [] -> r_events (e_report e1) + 1 <= max_events (e_budget e1) ->
  e_depth e2 = 0 -> e_containers e2 = [] -> r_events (e_report e2) + 1 <= max_events (e_budget e2) ->
  snd (run e1 (RDocStart x :: evs)) = snd (run e2 (RDocStart x :: evs)).
Print Assumptions C07_document_verdict_is_independent.

Theorem C07_document_verdict_as_if_first : forall e x evs,
  e_per_document e = true -> e_depth e = 0 -> e_containers e = [] ->
  r_events (e_report e) + 1 <= max_events (e_budget e) -> 1 <= max_events (e_budget e) ->
  snd (run e (RDocStart x :: evs)) = snd (run (enforcer_new (e_budget e) true) (RDocStart x :: evs)).
Proof. exact document_verdict_as_if_first. Qed.
Check C07_document_verdict_as_if_first : forall e x evs,
  e_per_document e = true -> e_depth e = 0 -> e_containers e = [] ->
  r_events (e_report e) + 1 <= max_events (e_budget e) -> 1 <= max_events (e_budget e) ->
  snd (run e (RDocStart x :: evs)) = snd (run (enforcer_new (e_budget e) true) (RDocStart x :: evs)).
Print Assumptions C07_document_verdict_as_if_first.

(* The reported maximum depth IS the depth of the document tree: for every document body (forest of
   nodes) that the enforcer accepts, max_depth of the report equals the nesting depth of the forest
   (scalars and aliases 0, a container one more than its deepest child), hence accepted => tree depth
   within Budget::max_depth. *)
Theorem C07_reported_depth_is_tree_depth : forall b f e',
  run (enforcer_new b false) (raws (lin_forest f)) = (e', None) -> fdepth f <= USIZE_MAX ->
  r_max_depth (e_report e') = fdepth f /\ fdepth f <= max_depth b.
Proof. exact accepted_depth_is_tree_depth. Qed.
Check C07_reported_depth_is_tree_depth : forall b f e',
  run (enforcer_new b false) (raws (lin_forest f)) = (e', None) -> fdepth f <= USIZE_MAX ->
  r_max_depth (e_report e') = fdepth f /\ fdepth f <= max_depth b.
Print Assumptions C07_reported_depth_is_tree_depth.
