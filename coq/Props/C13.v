(* Props/C13.v -- property C13: every data-model shape round-trips as one well-formed YAML document. *)
From SS Require Import Model.Emit Proofs.Emit.

(* The block layout written under the default options (sequences, mappings with plain keys, plain
   scalars, empty collections as [] and {}), as a stream of column-carrying tokens: reading ANY
   tree's stream back by the column discipline alone returns exactly that tree, and whatever
   follows at a smaller column is left untouched -- no item is attached to the wrong parent. *)
Theorem C13_layout_determines_tree : forall n t, tsize t <= n -> forall f c rest,
  tsize t <= f -> follows c rest ->
  parse f c (toks c t ++ rest) = Some (t, rest).
Proof. exact parse_toks. Qed.
Check C13_layout_determines_tree : forall n t, tsize t <= n -> forall f c rest,
  tsize t <= f -> follows c rest ->
  parse f c (toks c t ++ rest) = Some (t, rest).
Print Assumptions C13_layout_determines_tree.

Theorem C13_document_reads_back : forall t, parse (tsize t) 0 (toks 0 t) = Some (t, []).
Proof. exact layout_determines_tree. Qed.
Check C13_document_reads_back : forall t, parse (tsize t) 0 (toks 0 t) = Some (t, []).
Print Assumptions C13_document_reads_back.

(* Non-vacuity: {a: [{b: 1, c: []}, [x, y]], d: {}} (the empty mapping after a block sibling goes to its own line) *)
Example C13_example :
  emit (TMap [([97%N], TSeq [TMap [([98%N], TSc [49%N]); ([99%N], TSeq [])]; TSeq [TSc [120%N]; TSc [121%N]]]); ([100%N], TMap [])])
  = [97; 58; 10; 32; 32; 45; 32; 98; 58; 32; 49; 10; 32; 32; 32; 32; 99; 58; 32; 91; 93; 10; 32; 32; 45; 32; 45; 32; 120; 10; 32; 32; 32; 32; 45; 32; 121; 10; 100; 58; 10; 32; 32; 123; 125; 10]%N.
Proof. vm_compute. reflexivity. Qed.
Check C13_example :
  emit (TMap [([97%N], TSeq [TMap [([98%N], TSc [49%N]); ([99%N], TSeq [])]; TSeq [TSc [120%N]; TSc [121%N]]]); ([100%N], TMap [])])
  = [97; 58; 10; 32; 32; 45; 32; 98; 58; 32; 49; 10; 32; 32; 32; 32; 99; 58; 32; 91; 93; 10; 32; 32; 45; 32; 45; 32; 120; 10; 32; 32; 32; 32; 45; 32; 121; 10; 100; 58; 10; 32; 32; 123; 125; 10]%N.
Print Assumptions C13_example.
