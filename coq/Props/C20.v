(* Props/C20.v -- property C20: presentation wrappers and serializer options change layout only, never data. *)
From SS Require Import Model.Layout Proofs.Layout.
Local Open Scope N_scope.

(* Soft wrapping of a folded block: for EVERY line and EVERY wrap column, the lines written, joined
   with single spaces as a reader of a folded scalar joins them, are the original line -- no
   character added, lost or moved, runs of several spaces included. *)
Theorem C20_folding_preserves_text : forall w line, join_sp (fold_line w line) = line.
Proof. exact folding_preserves_the_text. Qed.
Check C20_folding_preserves_text : forall w line, join_sp (fold_line w line) = line.
Print Assumptions C20_folding_preserves_text.

(* ... and every written line of a logical line that starts with text starts with text itself (neither a
   space nor a tab), so the reader folds each break into exactly one space and never keeps it as a
   "more-indented" line. *)
Theorem C20_folded_lines_start_with_text : forall w c r,
  is_blank c = false -> Forall starts_ok (fold_line w (c :: r)).
Proof. exact folded_lines_start_with_text. Qed.
Check C20_folded_lines_start_with_text : forall w c r,
  is_blank c = false -> Forall starts_ok (fold_line w (c :: r)).
Print Assumptions C20_folded_lines_start_with_text.

(* An inline comment is written on one line whatever its text: no LF, no CR and no NUL (which ends the
   stream for the reader) survives, every other character is kept in place. *)
Theorem C20_comment_is_one_line : forall s, existsb is_break (sanitize_comment s) = false.
Proof. exact sanitized_comment_is_one_line. Qed.
Check C20_comment_is_one_line : forall s, existsb is_break (sanitize_comment s) = false.
Print Assumptions C20_comment_is_one_line.

Theorem C20_comment_keeps_other_characters : forall s,
  length (sanitize_comment s) = length s /\
  forall i c, nth_error s i = Some c -> is_break c = false -> nth_error (sanitize_comment s) i = Some c.
Proof. exact sanitized_comment_keeps_other_characters. Qed.
Check C20_comment_keeps_other_characters : forall s,
  length (sanitize_comment s) = length s /\
  forall i c, nth_error s i = Some c -> is_break c = false -> nth_error (sanitize_comment s) i = Some c.
Print Assumptions C20_comment_keeps_other_characters.

(* Non-vacuity: "aa bb  cc dd" wrapped at 4 (a double space at a cut keeps one space on the line; the column count restarts at the cut) *)
Example C20_example :
  fold_line 4 [97; 97; 32; 98; 98; 32; 32; 99; 99; 32; 100; 100] = [[97; 97]; [98; 98; 32]; [99; 99; 32; 100; 100]]
  /\ fold_line 3 [97; 32; 98; 32; 9; 99; 32; 100; 32; 101] = [[97]; [98; 32; 9; 99]; [100; 32; 101]]
  /\ sanitize_comment [120; 13; 98; 58; 32; 55; 10] = [120; 32; 98; 58; 32; 55; 32].
Proof. vm_compute. repeat split; reflexivity. Qed.
Check C20_example :
  fold_line 4 [97; 97; 32; 98; 98; 32; 32; 99; 99; 32; 100; 100] = [[97; 97]; [98; 98; 32]; [99; 99; 32; 100; 100]]
  /\ fold_line 3 [97; 32; 98; 32; 9; 99; 32; 100; 32; 101] = [[97]; [98; 32; 9; 99]; [100; 32; 101]]
  /\ sanitize_comment [120; 13; 98; 58; 32; 55; 10] = [120; 32; 98; 58; 32; 55; 32].
Print Assumptions C20_example.
