(* Props/C12.v -- property C12: every scalar value survives serialization and deserialization unchanged. *)
From SS Require Import Model.SerScalar Proofs.SerScalar Proofs.SerScalarRead Model.BlockScalar Proofs.BlockScalar Model.FoldedPar Proofs.FoldedPar.
Local Open Scope N_scope.

(* Double-quoted style: for EVERY string (any scalar values, any length) the escaper's output, read
   by the double-quoted decoder, is the original string -- character for character. *)
Theorem C12_double_quoted_roundtrip : forall s, dq_unescape (dq_escape s) = Some s.
Proof. exact dq_roundtrip. Qed.
Check C12_double_quoted_roundtrip : forall s, dq_unescape (dq_escape s) = Some s.
Print Assumptions C12_double_quoted_roundtrip.

Theorem C12_single_quoted_roundtrip : forall s, sq_unescape (sq_escape s) = Some s.
Proof. exact sq_roundtrip. Qed.
Check C12_single_quoted_roundtrip : forall s, sq_unescape (sq_escape s) = Some s.
Print Assumptions C12_single_quoted_roundtrip.

(* Whatever the options, the text emitted for a string in value position is either the string itself,
   and then the plain-safety predicate holds and it has no trailing blank, or a quoted form that
   decodes to it. *)
Theorem C12_emitted_value_decodes : forall s qa y12 flow,
  emit_str_value s qa y12 flow = s /\ is_plain_value_safe s y12 flow = true /\ has_trailing_ws s = false /\ qa = false
  \/ dq_unescape (emit_str_value s qa y12 flow) = Some s
  \/ sq_unescape (emit_str_value s qa y12 flow) = Some s.
Proof. exact emitted_quoted_value_decodes. Qed.
Check C12_emitted_value_decodes : forall s qa y12 flow,
  emit_str_value s qa y12 flow = s /\ is_plain_value_safe s y12 flow = true /\ has_trailing_ws s = false /\ qa = false
  \/ dq_unescape (emit_str_value s qa y12 flow) = Some s
  \/ sq_unescape (emit_str_value s qa y12 flow) = Some s.
Print Assumptions C12_emitted_value_decodes.

(* A string the serializer leaves plain is read back by the deserializer's scalar model into a String
   target as the identical string (in particular it is not null-like). *)
Theorem C12_plain_reads_back_as_string : forall c s y12 flow,
  no_schema c = false ->
  is_plain_value_safe s y12 flow = true ->
  deser_scalar c TgString (mkScalar s Plain TAG_None) = RStr s.
Proof. exact plain_value_reads_back_as_string. Qed.
Check C12_plain_reads_back_as_string : forall c s y12 flow,
  no_schema c = false ->
  is_plain_value_safe s y12 flow = true ->
  deser_scalar c TgString (mkScalar s Plain TAG_None) = RStr s.
Print Assumptions C12_plain_reads_back_as_string.

(* ... never the merge key in key position, never a document marker, never carrying a byte order mark *)
Theorem C12_plain_key_not_merge : forall s, is_plain_safe s = true -> str_eqb s [60; 60] = false.
Proof. exact plain_key_is_not_merge_key. Qed.
Check C12_plain_key_not_merge : forall s, is_plain_safe s = true -> str_eqb s [60; 60] = false.
Print Assumptions C12_plain_key_not_merge.

Theorem C12_plain_not_marker : forall s y12 flow,
  is_plain_value_safe s y12 flow = true -> marker_or_edge_unsafe s = false.
Proof. exact plain_value_is_no_marker. Qed.
Check C12_plain_not_marker : forall s y12 flow,
  is_plain_value_safe s y12 flow = true -> marker_or_edge_unsafe s = false.
Print Assumptions C12_plain_not_marker.

(* Float text: whatever digits the shortest-digits formatter prints ([-]ip[.fr][e[-]ex]), the emitted
   text has a decimal point and, when there is an exponent, a sign on it; no digit is changed. *)
Theorem C12_float_text : forall neg ip fr ex eneg,
  forallb is_digit ip = true -> forallb is_digit fr = true -> forallb is_digit ex = true ->
  ex <> [] \/ eneg = false ->
  float_normalize (sign_txt neg ++ ip ++ (match fr with [] => [] | _ => 46 :: fr end)
                   ++ (match ex with [] => [] | _ => 101 :: sign_txt eneg ++ ex end))
  = sign_txt neg ++ ip ++ 46 :: (match fr with [] => [48] | _ => fr end)
    ++ (match ex with [] => [] | _ => 101 :: (if eneg then 45 else 43) :: ex end).
Proof. exact float_normalize_spec. Qed.
Check C12_float_text : forall neg ip fr ex eneg,
  forallb is_digit ip = true -> forallb is_digit fr = true -> forallb is_digit ex = true ->
  ex <> [] \/ eneg = false ->
  float_normalize (sign_txt neg ++ ip ++ (match fr with [] => [] | _ => 46 :: fr end)
                   ++ (match ex with [] => [] | _ => 101 :: sign_txt eneg ++ ex end))
  = sign_txt neg ++ ip ++ 46 :: (match fr with [] => [48] | _ => fr end)
    ++ (match ex with [] => [] | _ => 101 :: (if eneg then 45 else 43) :: ex end).
Print Assumptions C12_float_text.

(* Non-vacuity: ESC, quote, backslash, U+2028, BOM; "it's"; 4e-6 *)
Example C12_example :
  dq_escape [27; 34; 92; 8232; 65279] = [34; 92; 101; 92; 34; 92; 92; 92; 76; 92; 117; 70; 69; 70; 70; 34]
  /\ sq_escape [105; 116; 39; 115] = [39; 105; 116; 39; 39; 115; 39]
  /\ float_normalize [52; 101; 45; 54] = [52; 46; 48; 101; 45; 54]
  /\ is_plain_value_safe [45; 45; 45] false false = false
  /\ is_plain_value_safe [97; 32; 98] false false = true.
Proof. vm_compute. repeat split; reflexivity. Qed.
Check C12_example :
  dq_escape [27; 34; 92; 8232; 65279] = [34; 92; 101; 92; 34; 92; 92; 92; 76; 92; 117; 70; 69; 70; 70; 34]
  /\ sq_escape [105; 116; 39; 115] = [39; 105; 116; 39; 39; 115; 39]
  /\ float_normalize [52; 101; 45; 54] = [52; 46; 48; 101; 45; 54]
  /\ is_plain_value_safe [45; 45; 45] false false = false
  /\ is_plain_value_safe [97; 32; 98] false false = true.
Print Assumptions C12_example.

(* ... and also when NO type is asked for: a text that the value-position test lets through as a plain scalar is,
   for the reader's scalar interpretation (deserialize_any), not null, not a boolean, not an integer in any radix
   (digit separators, signs and both letter cases of the radix prefix included) and not a float (Rust's float
   grammar and the YAML special words): it comes back as the very same string.  The reader's acceptance sets are
   contained in the serializer's ambiguity test -- for ALL strings.  (yaml_12 output is meant for readers with
   strict booleans; the hypothesis says so.) *)
Theorem C12_plain_reads_back_untyped : forall c s y12 flow,
  (y12 = true -> strict_booleans c = true) ->
  is_plain_value_safe s y12 flow = true ->
  deserialize_any_scalar c (mkScalar s Plain TAG_None) = RStr s.
Proof. exact plain_value_reads_back_untyped. Qed.
Check C12_plain_reads_back_untyped : forall c s y12 flow,
  (y12 = true -> strict_booleans c = true) ->
  is_plain_value_safe s y12 flow = true ->
  deserialize_any_scalar c (mkScalar s Plain TAG_None) = RStr s.
Print Assumptions C12_plain_reads_back_untyped.

Theorem C12_plain_key_reads_back_untyped : forall c s y12,
  (y12 = true -> strict_booleans c = true) ->
  is_plain_safe s && is_plain_value_safe s y12 true && negb (has_trailing_ws s) = true ->
  deserialize_any_scalar c (mkScalar s Plain TAG_None) = RStr s.
Proof. exact plain_key_reads_back_untyped. Qed.
Check C12_plain_key_reads_back_untyped : forall c s y12,
  (y12 = true -> strict_booleans c = true) ->
  is_plain_safe s && is_plain_value_safe s y12 true && negb (has_trailing_ws s) = true ->
  deserialize_any_scalar c (mkScalar s Plain TAG_None) = RStr s.
Print Assumptions C12_plain_key_reads_back_untyped.

(* Literal block scalars: every string (any characters, any number of leading spaces, blank lines and trailing line
   feeds -- the empty string and longer runs of line feeds included) BUT the lone line feed, written as a literal
   block at ANY body indentation, reads back as itself: the indentation indicator is written exactly when detection
   from the first non-empty line would go wrong, the chomping indicator restores the trailing line feeds.  The
   reader is the model of YAML 1.2 section 8.1 in Model/BlockScalar.v, tied to the parser by the CLitRead cases.
   The full statement (no exception) is FALSE of the code: LitStr("\n") is written `|` + one blank line, which
   reads back as the empty string (known finding F49; a test of the suite pins that output) -- the witness is
   C12_literal_block_lone_break_refuted. *)
Theorem C12_literal_block_roundtrip_partial : forall ind v, v <> [10%N] -> read_back ind (emit_literal ind v) = Some v.
Proof. exact literal_block_roundtrip. Qed.
Check C12_literal_block_roundtrip_partial : forall ind v, v <> [10%N] -> read_back ind (emit_literal ind v) = Some v.
Print Assumptions C12_literal_block_roundtrip_partial.

Theorem C12_literal_block_lone_break_refuted : forall ind, read_back ind (emit_literal ind [10%N]) = Some [].
Proof. exact literal_block_lone_break_refuted. Qed.
Check C12_literal_block_lone_break_refuted : forall ind, read_back ind (emit_literal ind [10%N]) = Some [].
Print Assumptions C12_literal_block_lone_break_refuted.

Theorem C12_literal_block_shape : forall ind v,
  let b := emit_literal ind v in
  let '(content, k) := trim_end_nl v in
  b_explicit b = Nat.ltb 0 (first_line_leading_spaces (lines_of content)) /\
  b_chomp b = (match k with 0%nat => Strip | 1%nat => Clip | _ => Keep end) /\
  Forall (fun l => (ind <= lead_sp l)%nat) (b_lines b).
Proof. exact literal_block_shape. Qed.
Check C12_literal_block_shape : forall ind v,
  let b := emit_literal ind v in
  let '(content, k) := trim_end_nl v in
  b_explicit b = Nat.ltb 0 (first_line_leading_spaces (lines_of content)) /\
  b_chomp b = (match k with 0%nat => Strip | 1%nat => Clip | _ => Keep end) /\
  Forall (fun l => (ind <= lead_sp l)%nat) (b_lines b).
Print Assumptions C12_literal_block_shape.

(* " a\n\n  b\n\n" needs the indicator and keep chomping, "x\ny" neither; without the indicator the first would be
   read with the wrong indentation *)
Example C12_literal_examples :
  emit_literal 2 [32; 97; 10; 10; 32; 32; 98; 10; 10]%N =
    mkBlock true Keep [[32; 32; 32; 97]; [32; 32]; [32; 32; 32; 32; 98]; [32; 32]]%N /\
  read_back 2 (emit_literal 2 [32; 97; 10; 10; 32; 32; 98; 10; 10]%N) = Some [32; 97; 10; 10; 32; 32; 98; 10; 10]%N /\
  emit_literal 4 [120; 10; 121]%N = mkBlock false Strip [[32; 32; 32; 32; 120]; [32; 32; 32; 32; 121]]%N /\
  read_literal None Keep [[32; 32; 32; 97]; [32; 32]; [32; 32; 32; 32; 98]; [32; 32]]%N = Some [97; 10; 10; 32; 98; 10; 10]%N.
Proof. exact literal_examples. Qed.
Check C12_literal_examples :
  emit_literal 2 [32; 97; 10; 10; 32; 32; 98; 10; 10]%N =
    mkBlock true Keep [[32; 32; 32; 97]; [32; 32]; [32; 32; 32; 32; 98]; [32; 32]]%N /\
  read_back 2 (emit_literal 2 [32; 97; 10; 10; 32; 32; 98; 10; 10]%N) = Some [32; 97; 10; 10; 32; 32; 98; 10; 10]%N /\
  emit_literal 4 [120; 10; 121]%N = mkBlock false Strip [[32; 32; 32; 32; 120]; [32; 32; 32; 32; 121]]%N /\
  read_literal None Keep [[32; 32; 32; 97]; [32; 32]; [32; 32; 32; 32; 98]; [32; 32]]%N = Some [97; 10; 10; 32; 98; 10; 10]%N.
Print Assumptions C12_literal_examples.

(* Folded block scalars, one paragraph: EVERY one-line string that starts with text (the only kind the serializer
   folds automatically), wrapped at ANY column and written at ANY body indentation, reads back as itself: every
   written line starts with text, so the reader folds each line break into the single space the wrap removed. *)
Theorem C12_folded_single_line_roundtrip : forall ind w c r,
  Layout.is_blank c = false ->
  read_folded_paragraph None (emit_folded_line ind w (c :: r)) = Some (c :: r).
Proof. exact folded_single_line_roundtrip. Qed.
Check C12_folded_single_line_roundtrip : forall ind w c r,
  Layout.is_blank c = false ->
  read_folded_paragraph None (emit_folded_line ind w (c :: r)) = Some (c :: r).
Print Assumptions C12_folded_single_line_roundtrip.
