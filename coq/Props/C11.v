(* Props/C11.v -- property C11: a multi-document stream is the list of its documents. *)
From SS Require Import Model.Deser Proofs.LiveBasic Proofs.MultiDoc.
Local Open Scope N_scope.

Theorem C11_single_rejects_second : forall fuel o t items v s r op e s' r',
  deser fuel (eo_cfg o) false t (SLive (live_new (eo_budget o) false (eo_limits o) false) items 0) = DOk v (SLive s r op) ->
  live_peek s r = Yield e s' r' ->
  from_str_model fuel o t items = OErr (Err E_MultipleDocuments (lv_last s')).
Proof. exact single_rejects_second. Qed.
Check C11_single_rejects_second : forall fuel o t items v s r op e s' r',
  deser fuel (eo_cfg o) false t (SLive (live_new (eo_budget o) false (eo_limits o) false) items 0) = DOk v (SLive s r op) ->
  live_peek s r = Yield e s' r' ->
  from_str_model fuel o t items = OErr (Err E_MultipleDocuments (lv_last s')).
Print Assumptions C11_single_rejects_second.

Theorem C11_single_accepts_only_at_end : forall fuel o t items v,
  from_str_model fuel o t items = OOk v ->
  exists s r op, deser fuel (eo_cfg o) false t (SLive (live_new (eo_budget o) false (eo_limits o) false) items 0) = DOk v (SLive s r op)
    /\ (forall e s' r', live_peek s r <> Yield e s' r').
Proof. exact single_accepts_only_at_end. Qed.
Check C11_single_accepts_only_at_end : forall fuel o t items v,
  from_str_model fuel o t items = OOk v ->
  exists s r op, deser fuel (eo_cfg o) false t (SLive (live_new (eo_budget o) false (eo_limits o) false) items 0) = DOk v (SLive s r op)
    /\ (forall e s' r', live_peek s r <> Yield e s' r').
Print Assumptions C11_single_accepts_only_at_end.

Theorem C11_batch_skips_null_document : forall f o t s rest e s' rest' acc,
  live_peek s rest = Yield e s' rest' -> ev_scalar_nullish e = true ->
  from_multiple_loop (S f) o t s rest acc =
  match live_next s' rest' with
  | Fail e' _ _ => MErr e'
  | Yield _ s2 r2 | Eos s2 r2 => from_multiple_loop f o t s2 r2 acc
  end.
Proof. exact batch_skips_null_document. Qed.
Check C11_batch_skips_null_document : forall f o t s rest e s' rest' acc,
  live_peek s rest = Yield e s' rest' -> ev_scalar_nullish e = true ->
  from_multiple_loop (S f) o t s rest acc =
  match live_next s' rest' with
  | Fail e' _ _ => MErr e'
  | Yield _ s2 r2 | Eos s2 r2 => from_multiple_loop f o t s2 r2 acc
  end.
Print Assumptions C11_batch_skips_null_document.

Theorem C11_batch_collects_in_order : forall f o t s rest e s' rest' acc v s2 r2,
  live_peek s rest = Yield e s' rest' -> ev_scalar_nullish e = false ->
  deser f (eo_cfg o) false t (SLive s' rest' 0) = DOk v (SLive s2 r2 0) ->
  from_multiple_loop (S f) o t s rest acc = from_multiple_loop f o t s2 r2 (v :: acc).
Proof. exact batch_collects. Qed.
Check C11_batch_collects_in_order : forall f o t s rest e s' rest' acc v s2 r2,
  live_peek s rest = Yield e s' rest' -> ev_scalar_nullish e = false ->
  deser f (eo_cfg o) false t (SLive s' rest' 0) = DOk v (SLive s2 r2 0) ->
  from_multiple_loop (S f) o t s rest acc = from_multiple_loop f o t s2 r2 (v :: acc).
Print Assumptions C11_batch_collects_in_order.

Theorem C11_batch_first_error_wins : forall f o t s rest e s' rest' acc er,
  live_peek s rest = Yield e s' rest' -> ev_scalar_nullish e = false ->
  deser f (eo_cfg o) false t (SLive s' rest' 0) = DErr er ->
  from_multiple_loop (S f) o t s rest acc = MErr er.
Proof. exact batch_first_error_wins. Qed.
Check C11_batch_first_error_wins : forall f o t s rest e s' rest' acc er,
  live_peek s rest = Yield e s' rest' -> ev_scalar_nullish e = false ->
  deser f (eo_cfg o) false t (SLive s' rest' 0) = DErr er ->
  from_multiple_loop (S f) o t s rest acc = MErr er.
Print Assumptions C11_batch_first_error_wins.

(* Iterator: after a failed document the skip consumes input up to and including the next document
   start and leaves no anchor, recording frame or replay frame behind (termination measure and
   isolation); if no further document start is found the iterator ends with that error. *)
Theorem C11_iterator_resumes_clean : forall s rest s2 r2,
  skip_to_next_document s rest = (true, s2, r2) ->
  (length r2 < length rest)%nat /\ lv_anchors s2 = [] /\ lv_rec s2 = [] /\ lv_inject s2 = []
  /\ lv_produced_any s2 = false.
Proof. exact iterator_resumes_at_next_document. Qed.
Check C11_iterator_resumes_clean : forall s rest s2 r2,
  skip_to_next_document s rest = (true, s2, r2) ->
  (length r2 < length rest)%nat /\ lv_anchors s2 = [] /\ lv_rec s2 = [] /\ lv_inject s2 = []
  /\ lv_produced_any s2 = false.
Print Assumptions C11_iterator_resumes_clean.

Theorem C11_iterator_ends_after_unrecoverable_error : forall f o t s rest e s' rest' er,
  live_peek s rest = Yield e s' rest' -> ev_scalar_nullish e = false ->
  deser f (eo_cfg o) false t (SLive s' rest' 0) = DErr er ->
  fst (fst (skip_to_next_document s' (resume_point er rest'))) = false ->
  read_iter (S f) o t s rest = inl [IErr er].
Proof. exact iterator_ends_when_skip_fails. Qed.
Check C11_iterator_ends_after_unrecoverable_error : forall f o t s rest e s' rest' er,
  live_peek s rest = Yield e s' rest' -> ev_scalar_nullish e = false ->
  deser f (eo_cfg o) false t (SLive s' rest' 0) = DErr er ->
  fst (fst (skip_to_next_document s' (resume_point er rest'))) = false ->
  read_iter (S f) o t s rest = inl [IErr er].
Print Assumptions C11_iterator_ends_after_unrecoverable_error.

(* anchors of one document are not visible in another *)
Theorem C11_anchor_isolation : forall s,
  let s' := reset_document_state s in
  lv_anchors s' = [] /\ lv_rec s' = [] /\ lv_inject s' = [] /\ lv_expansions s' = []
  /\ lv_total_replayed s' = 0 /\ lv_seen_doc_end s' = false
  /\ lv_budget s' = lv_budget s /\ lv_limits s' = lv_limits s /\ lv_look s' = lv_look s
  /\ lv_produced_any s' = lv_produced_any s.
Proof. exact reset_clears. Qed.
Check C11_anchor_isolation : forall s,
  let s' := reset_document_state s in
  lv_anchors s' = [] /\ lv_rec s' = [] /\ lv_inject s' = [] /\ lv_expansions s' = []
  /\ lv_total_replayed s' = 0 /\ lv_seen_doc_end s' = false
  /\ lv_budget s' = lv_budget s /\ lv_limits s' = lv_limits s /\ lv_look s' = lv_look s
  /\ lv_produced_any s' = lv_produced_any s.
Print Assumptions C11_anchor_isolation.

(* ... and an error that is not the scanner's own -- a budget breach raised by the start of a second document,
   an I/O failure -- met while probing for further content is returned: only syntax errors count as "trailing
   garbage" after a document end (F58). *)
Theorem C11_single_never_drops_a_non_syntax_error : forall fuel o t items v s r op e s' r',
  deser fuel (eo_cfg o) false t (SLive (live_new (eo_budget o) false (eo_limits o) false) items 0) = DOk v (SLive s r op) ->
  live_peek s r = Fail e s' r' -> is_syntax_err e = false ->
  from_str_model fuel o t items = OErr e.
Proof. exact single_never_drops_a_non_syntax_error. Qed.
Check C11_single_never_drops_a_non_syntax_error : forall fuel o t items v s r op e s' r',
  deser fuel (eo_cfg o) false t (SLive (live_new (eo_budget o) false (eo_limits o) false) items 0) = DOk v (SLive s r op) ->
  live_peek s r = Fail e s' r' -> is_syntax_err e = false ->
  from_str_model fuel o t items = OErr e.
Print Assumptions C11_single_never_drops_a_non_syntax_error.
