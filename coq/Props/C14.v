(* Props/C14.v -- property C14: shared-pointer topology survives the round trip through anchors and aliases. *)
From SS Require Import Model.Anchors Proofs.Anchors.
Local Open Scope N_scope.

(* The serializer's marks: two anchored nodes get the same anchor id exactly if they are the same
   allocation -- for every sequence of addresses, of any length, with any sharing. *)
Theorem C14_serializer_ids_are_sharing : forall ptrs i j p q m n,
  nth_error ptrs i = Some p -> nth_error ptrs j = Some q ->
  nth_error (serialize ptrs) i = Some m -> nth_error (serialize ptrs) j = Some n ->
  (mark_id m = mark_id n <-> p = q).
Proof. exact serialize_preserves_sharing. Qed.
Check C14_serializer_ids_are_sharing : forall ptrs i j p q m n,
  nth_error ptrs i = Some p -> nth_error ptrs j = Some q ->
  nth_error (serialize ptrs) i = Some m -> nth_error (serialize ptrs) j = Some n ->
  (mark_id m = mark_id n <-> p = q).
Print Assumptions C14_serializer_ids_are_sharing.

(* The whole round trip: reading the serializer's marks always succeeds, yields one allocation per
   anchored node, and two nodes are one allocation afterwards exactly if they were before. *)
Theorem C14_sharing_survives_round_trip : forall ptrs,
  exists allocs,
    deserialize (serialize ptrs) = Some allocs /\ length allocs = length ptrs /\
    forall i j p q a b,
      nth_error ptrs i = Some p -> nth_error ptrs j = Some q ->
      nth_error allocs i = Some a -> nth_error allocs j = Some b ->
      (a = b <-> p = q).
Proof. exact sharing_survives_the_round_trip. Qed.
Check C14_sharing_survives_round_trip : forall ptrs,
  exists allocs,
    deserialize (serialize ptrs) = Some allocs /\ length allocs = length ptrs /\
    forall i j p q a b,
      nth_error ptrs i = Some p -> nth_error ptrs j = Some q ->
      nth_error allocs i = Some a -> nth_error allocs j = Some b ->
      (a = b <-> p = q).
Print Assumptions C14_sharing_survives_round_trip.

(* Non-vacuity: addresses 70 80 70 90 80 70 *)
Example C14_example :
  serialize [70; 80; 70; 90; 80; 70] = [Define 1; Define 2; Alias 1; Define 3; Alias 2; Alias 1]
  /\ deserialize [Define 1; Define 2; Alias 1; Define 3; Alias 2; Alias 1] = Some [0; 1; 0; 2; 1; 0].
Proof. vm_compute. split; reflexivity. Qed.
Check C14_example :
  serialize [70; 80; 70; 90; 80; 70] = [Define 1; Define 2; Alias 1; Define 3; Alias 2; Alias 1]
  /\ deserialize [Define 1; Define 2; Alias 1; Define 3; Alias 2; Alias 1] = Some [0; 1; 0; 2; 1; 0].
Print Assumptions C14_example.
