(* Props/C02.v -- property C02: anchors and aliases are transparent. *)
From SS Require Import Model.Live Proofs.LiveBasic Model.Expand Proofs.LiveExpand.
Local Open Scope N_scope.

(* An alias with no earlier anchor of that name in the same document is an error. *)
Theorem C02_unknown_alias_is_error : forall s id sp r,
  no_budget s -> lv_inject s = [] -> alias_within_limits s id ->
  assoc id (lv_anchors s) = None ->
  existsb (fun f => rf_id f =? id) (lv_rec s) = false ->
  exists s', pull (RItem (RAlias id) sp :: r) s = Fail (Err E_UnknownAnchor (location_from_span sp)) s' r.
Proof. exact alias_unknown_is_error. Qed.
Check C02_unknown_alias_is_error : forall s id sp r,
  no_budget s -> lv_inject s = [] -> alias_within_limits s id ->
  assoc id (lv_anchors s) = None ->
  existsb (fun f => rf_id f =? id) (lv_rec s) = false ->
  exists s', pull (RItem (RAlias id) sp :: r) s = Fail (Err E_UnknownAnchor (location_from_span sp)) s' r.
Print Assumptions C02_unknown_alias_is_error.

Theorem C02_alias_into_open_anchor_is_error : forall s id sp r,
  no_budget s -> lv_inject s = [] -> alias_within_limits s id ->
  existsb (fun f => rf_id f =? id) (lv_rec s) = true ->
  mem_N id (lv_recursive_in_progress s) = false ->
  exists s', pull (RItem (RAlias id) sp :: r) s =
             Fail (Err E_RecursiveReferencesRequireWeakTypes (location_from_span sp)) s' r.
Proof. exact alias_into_open_anchor_is_error. Qed.
Check C02_alias_into_open_anchor_is_error : forall s id sp r,
  no_budget s -> lv_inject s = [] -> alias_within_limits s id ->
  existsb (fun f => rf_id f =? id) (lv_rec s) = true ->
  mem_N id (lv_recursive_in_progress s) = false ->
  exists s', pull (RItem (RAlias id) sp :: r) s =
             Fail (Err E_RecursiveReferencesRequireWeakTypes (location_from_span sp)) s' r.
Print Assumptions C02_alias_into_open_anchor_is_error.

(* No stale value: every document boundary empties the anchor table, the recording stack and the
   replay stack before the next document's first event. *)
Theorem C02_document_boundary_forgets_anchors : forall s,
  let s' := reset_document_state s in
  lv_anchors s' = [] /\ lv_rec s' = [] /\ lv_inject s' = [] /\ lv_expansions s' = []
  /\ lv_total_replayed s' = 0 /\ lv_seen_doc_end s' = false
  /\ lv_budget s' = lv_budget s /\ lv_limits s' = lv_limits s /\ lv_look s' = lv_look s
  /\ lv_produced_any s' = lv_produced_any s.
Proof. exact reset_clears. Qed.
Check C02_document_boundary_forgets_anchors : forall s,
  let s' := reset_document_state s in
  lv_anchors s' = [] /\ lv_rec s' = [] /\ lv_inject s' = [] /\ lv_expansions s' = []
  /\ lv_total_replayed s' = 0 /\ lv_seen_doc_end s' = false
  /\ lv_budget s' = lv_budget s /\ lv_limits s' = lv_limits s /\ lv_look s' = lv_look s
  /\ lv_produced_any s' = lv_produced_any s.
Print Assumptions C02_document_boundary_forgets_anchors.

Theorem C02_document_start_resets : forall s x sp r,
  no_budget s ->
  pull (RItem (RDocStart x) sp :: r) s = pull r (with_last (reset_document_state s) (location_from_span sp)).
Proof. exact docstart_forgets_anchors. Qed.
Check C02_document_start_resets : forall s x sp r,
  no_budget s ->
  pull (RItem (RDocStart x) sp :: r) s = pull r (with_last (reset_document_state s) (location_from_span sp)).
Print Assumptions C02_document_start_resets.

(* Attaching an anchor to a scalar does not change the delivered event (F12, fixed). *)
Theorem C02_scalar_anchor_neutral : forall s v st a tag sp r,
  no_budget s -> lv_rec s = [] ->
  match pull (RItem (RScalar v st a tag) sp :: r) s, pull (RItem (RScalar v st 0 tag) sp :: r) s with
  | Yield e1 _ r1, Yield e2 _ r2 => erase_anchor e1 = erase_anchor e2 /\ r1 = r2
  | Fail e1 _ _, Fail e2 _ _ => e1 = e2
  | _, _ => False
  end.
Proof. exact scalar_anchor_neutral. Qed.
Check C02_scalar_anchor_neutral : forall s v st a tag sp r,
  no_budget s -> lv_rec s = [] ->
  match pull (RItem (RScalar v st a tag) sp :: r) s, pull (RItem (RScalar v st 0 tag) sp :: r) s with
  | Yield e1 _ r1, Yield e2 _ r2 => erase_anchor e1 = erase_anchor e2 /\ r1 = r2
  | Fail e1 _ _, Fail e2 _ _ => e1 = e2
  | _, _ => False
  end.
Print Assumptions C02_scalar_anchor_neutral.

(* THE CENTRAL STATEMENT.  For EVERY document body (a forest of nodes with anchors and aliases anywhere:
   on scalars, sequences, mappings, nested, re-defined, inside other anchored nodes) whose alias-free
   expansion is defined -- every alias has a closed anchor of that id and the copies stay within the
   alias limits -- the live pump, fed the parser items of that body, delivers EXACTLY the expansion:
   the same events in the same order, every alias replaced by a verbatim copy of the events of the
   node most recently anchored under its id.  (Stated for a node in any context: [Inv] describes the
   pump between two nodes, [Post] what the node did to it; the next theorem instantiates it for a
   whole stream read from a fresh pump.) *)
Theorem C02_node_delivers_its_expansion : forall n lim open st out st' s rest,
  expand lim open st n = Some (out, st') -> lv_limits s = lim -> xstate s = st -> Inv s open ->
  exists s', steps s (lin n ++ rest) out s' rest /\ Post s s' out st'.
Proof. exact node_delivers_its_expansion. Qed.
Check C02_node_delivers_its_expansion : forall n lim open st out st' s rest,
  expand lim open st n = Some (out, st') -> lv_limits s = lim -> xstate s = st -> Inv s open ->
  exists s', steps s (lin n ++ rest) out s' rest /\ Post s s' out st'.
Print Assumptions C02_node_delivers_its_expansion.

Theorem C02_document_delivers_its_expansion : forall lim b sp0 sp1 sp2 sp3 f out st',
  expand_forest lim [] (mkX [] 0 []) f = Some (out, st') -> out <> [] ->
  exists s', deliveries (S (length out)) (live_new None false lim false) (doc_items b sp0 sp1 sp2 sp3 f)
             = (out, Eos s' []).
Proof. exact document_delivers_its_expansion. Qed.
Check C02_document_delivers_its_expansion : forall lim b sp0 sp1 sp2 sp3 f out st',
  expand_forest lim [] (mkX [] 0 []) f = Some (out, st') -> out <> [] ->
  exists s', deliveries (S (length out)) (live_new None false lim false) (doc_items b sp0 sp1 sp2 sp3 f)
             = (out, Eos s' []).
Print Assumptions C02_document_delivers_its_expansion.

(* Non-vacuity: `- &a [x]` followed by two aliases of it, inside an anchored outer sequence that is
   aliased again afterwards: the expansion is defined and holds three, then six, copies. *)
Example C02_expansion_example :
  let sp := mkSpan (mkMark 0 1 0 (Some 0)) (mkMark 1 1 1 (Some 1)) in
  let inner := NSeq 2 None sp (FCons (NScalar [120] Plain 0 None sp) FNil) sp in
  let outer := NSeq 1 None sp (FCons inner (FCons (NAlias 2 sp) (FCons (NAlias 2 sp) FNil))) sp in
  match expand_forest default_alias_limits [] (mkX [] 0 []) (FCons outer (FCons (NAlias 1 sp) FNil)) with
  | Some (out, st) => (length out =? 22)%nat && (x_replayed st =? 17) = true
  | None => False
  end.
Proof. vm_compute. reflexivity. Qed.
Check C02_expansion_example :
  let sp := mkSpan (mkMark 0 1 0 (Some 0)) (mkMark 1 1 1 (Some 1)) in
  let inner := NSeq 2 None sp (FCons (NScalar [120] Plain 0 None sp) FNil) sp in
  let outer := NSeq 1 None sp (FCons inner (FCons (NAlias 2 sp) (FCons (NAlias 2 sp) FNil))) sp in
  match expand_forest default_alias_limits [] (mkX [] 0 []) (FCons outer (FCons (NAlias 1 sp) FNil)) with
  | Some (out, st) => (length out =? 22)%nat && (x_replayed st =? 17) = true
  | None => False
  end.
Print Assumptions C02_expansion_example.
