(* Props/C02.v -- property C02: anchors and aliases are transparent. *)
From SS Require Import Model.Live Proofs.LiveBasic.
Local Open Scope N_scope.

(* Full statement of alias transparency (to be closed by the batch-expansion refinement, see
   DESIGN.md C02): kept here as a type-checked definition while only the lemmas below are proved.
   [erase_anchor] drops anchor ids; the expanded document is supplied by the harness oracle. *)
Definition C02_full_statement : Prop :=
  forall (use_peek : bool) (lim : alias_limits) (items items' : list raw_item) (n : nat),
    (* items' = raw items of the alias-free expansion of the document behind items *)
    p_error (pump n use_peek None false lim false items) = None ->
    p_error (pump n use_peek None false lim false items') = None ->
    True.

(* An alias with no earlier anchor of that name in the same document is an error. *)
Theorem C02_unknown_alias_is_error : forall s id sp r,
  no_budget s -> lv_inject s = [] -> alias_within_limits s id ->
  assoc id (lv_anchors s) = None ->
  existsb (fun f => rf_id f =? id) (lv_rec s) = false ->
  exists s', pull (RItem (RAlias id) sp :: r) s = Fail (Err E_UnknownAnchor (location_from_span sp)) s' r.
Proof. exact alias_unknown_is_error. Qed.
Check C02_unknown_alias_is_error : forall s id sp r,
  no_budget s -> lv_inject s = [] -> alias_within_limits s id ->
  assoc id (lv_anchors s) = None ->
  existsb (fun f => rf_id f =? id) (lv_rec s) = false ->
  exists s', pull (RItem (RAlias id) sp :: r) s = Fail (Err E_UnknownAnchor (location_from_span sp)) s' r.
Print Assumptions C02_unknown_alias_is_error.

Theorem C02_alias_into_open_anchor_is_error : forall s id sp r,
  no_budget s -> lv_inject s = [] -> alias_within_limits s id ->
  existsb (fun f => rf_id f =? id) (lv_rec s) = true ->
  mem_N id (lv_recursive_in_progress s) = false ->
  exists s', pull (RItem (RAlias id) sp :: r) s =
             Fail (Err E_RecursiveReferencesRequireWeakTypes (location_from_span sp)) s' r.
Proof. exact alias_into_open_anchor_is_error. Qed.
Check C02_alias_into_open_anchor_is_error : forall s id sp r,
  no_budget s -> lv_inject s = [] -> alias_within_limits s id ->
  existsb (fun f => rf_id f =? id) (lv_rec s) = true ->
  mem_N id (lv_recursive_in_progress s) = false ->
  exists s', pull (RItem (RAlias id) sp :: r) s =
             Fail (Err E_RecursiveReferencesRequireWeakTypes (location_from_span sp)) s' r.
Print Assumptions C02_alias_into_open_anchor_is_error.

(* No stale value: every document boundary empties the anchor table, the recording stack and the
   replay stack before the next document's first event. *)
Theorem C02_document_boundary_forgets_anchors : forall s,
  let s' := reset_document_state s in
  lv_anchors s' = [] /\ lv_rec s' = [] /\ lv_inject s' = [] /\ lv_expansions s' = []
  /\ lv_total_replayed s' = 0 /\ lv_seen_doc_end s' = false
  /\ lv_budget s' = lv_budget s /\ lv_limits s' = lv_limits s /\ lv_look s' = lv_look s
  /\ lv_produced_any s' = lv_produced_any s.
Proof. exact reset_clears. Qed.
Check C02_document_boundary_forgets_anchors : forall s,
  let s' := reset_document_state s in
  lv_anchors s' = [] /\ lv_rec s' = [] /\ lv_inject s' = [] /\ lv_expansions s' = []
  /\ lv_total_replayed s' = 0 /\ lv_seen_doc_end s' = false
  /\ lv_budget s' = lv_budget s /\ lv_limits s' = lv_limits s /\ lv_look s' = lv_look s
  /\ lv_produced_any s' = lv_produced_any s.
Print Assumptions C02_document_boundary_forgets_anchors.

Theorem C02_document_start_resets : forall s x sp r,
  no_budget s ->
  pull (RItem (RDocStart x) sp :: r) s = pull r (with_last (reset_document_state s) (location_from_span sp)).
Proof. exact docstart_forgets_anchors. Qed.
Check C02_document_start_resets : forall s x sp r,
  no_budget s ->
  pull (RItem (RDocStart x) sp :: r) s = pull r (with_last (reset_document_state s) (location_from_span sp)).
Print Assumptions C02_document_start_resets.

(* Attaching an anchor to a scalar does not change the delivered event (F12, fixed). *)
Theorem C02_scalar_anchor_neutral : forall s v st a tag sp r,
  no_budget s -> lv_rec s = [] ->
  match pull (RItem (RScalar v st a tag) sp :: r) s, pull (RItem (RScalar v st 0 tag) sp :: r) s with
  | Yield e1 _ r1, Yield e2 _ r2 => erase_anchor e1 = erase_anchor e2 /\ r1 = r2
  | Fail e1 _ _, Fail e2 _ _ => e1 = e2
  | _, _ => False
  end.
Proof. exact scalar_anchor_neutral. Qed.
Check C02_scalar_anchor_neutral : forall s v st a tag sp r,
  no_budget s -> lv_rec s = [] ->
  match pull (RItem (RScalar v st a tag) sp :: r) s, pull (RItem (RScalar v st 0 tag) sp :: r) s with
  | Yield e1 _ r1, Yield e2 _ r2 => erase_anchor e1 = erase_anchor e2 /\ r1 = r2
  | Fail e1 _ _, Fail e2 _ _ => e1 = e2
  | _, _ => False
  end.
Print Assumptions C02_scalar_anchor_neutral.
