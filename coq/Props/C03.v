(* Props/C03.v -- property C03: merge keys equal the explicitly merged mapping, fixed precedence. *)
From SS Require Import Model.Deser Proofs.DeserNodes Proofs.DeserMerge.
Local Open Scope N_scope.

Theorem C03_merge_key_is_plain_untagged : forall k,
  is_merge_key k = true <->
  exists raw a l, kn_events k = [EScalar [60; 60] TAG_None raw Plain a l].
Proof. exact is_merge_key_iff. Qed.
Check C03_merge_key_is_plain_untagged : forall k,
  is_merge_key k = true <->
  exists raw a l, kn_events k = [EScalar [60; 60] TAG_None raw Plain a l].
Print Assumptions C03_merge_key_is_plain_untagged.

Theorem C03_quoted_or_tagged_is_ordinary : forall v tag raw st a l,
  st <> Plain \/ tag <> TAG_None ->
  is_merge_key (mkKN (FScalar v tag) [EScalar v tag raw st a l] l) = false.
Proof. exact quoted_or_tagged_is_ordinary. Qed.
Check C03_quoted_or_tagged_is_ordinary : forall v tag raw st a l,
  st <> Plain \/ tag <> TAG_None ->
  is_merge_key (mkKN (FScalar v tag) [EScalar v tag raw st a l] l) = false.
Print Assumptions C03_quoted_or_tagged_is_ordinary.

Theorem C03_scalar_merge_value : forall fuel v tag raw st a l location reference,
  pending_from_events (S fuel) [EScalar v tag raw st a l] location reference =
  if scalar_is_nullish v st
  then POk [] (replay_with_reference [EScalar v tag raw st a l] reference)
  else PErr (attach_alias_locations (Err E_MergeValueNotMapOrSeqOfMaps l) reference l).
Proof. exact merge_value_scalar. Qed.
Check C03_scalar_merge_value : forall fuel v tag raw st a l location reference,
  pending_from_events (S fuel) [EScalar v tag raw st a l] location reference =
  if scalar_is_nullish v st
  then POk [] (replay_with_reference [EScalar v tag raw st a l] reference)
  else PErr (attach_alias_locations (Err E_MergeValueNotMapOrSeqOfMaps l) reference l).
Print Assumptions C03_scalar_merge_value.

Theorem C03_later_merge_first : forall b stack,
  b <> [] -> next_merge_batch (b :: stack) = Some (b, stack).
Proof. exact next_merge_batch_newest_first. Qed.
Check C03_later_merge_first : forall b stack,
  b <> [] -> next_merge_batch (b :: stack) = Some (b, stack).
Print Assumptions C03_later_merge_first.

(* own keys (and keys of later sources) silently override merged ones under every policy *)
Theorem C03_merged_duplicate_dropped_silently : forall f c seen e pend stack pv x,
  fp_mem (kn_fp (pe_key e)) seen = true ->
  ma_next_key (S f) c (mkMA seen (e :: pend) stack true pv) x =
  ma_next_key f c (mkMA seen pend stack true pv) x.
Proof. exact flush_drops_present. Qed.
Check C03_merged_duplicate_dropped_silently : forall f c seen e pend stack pv x,
  fp_mem (kn_fp (pe_key e)) seen = true ->
  ma_next_key (S f) c (mkMA seen (e :: pend) stack true pv) x =
  ma_next_key f c (mkMA seen pend stack true pv) x.
Print Assumptions C03_merged_duplicate_dropped_silently.

Theorem C03_merged_entry_delivered : forall f c seen e pend stack pv x,
  fp_mem (kn_fp (pe_key e)) seen = false ->
  kemn_direct (kn_fp (pe_key e)) = false -> kemn_one_entry_nullish (kn_fp (pe_key e)) = false ->
  ma_next_key (S f) c (mkMA seen (e :: pend) stack true pv) x =
  KKey (kn_events (pe_key e)) false (kn_loc (pe_key e))
       (mkMA (kn_fp (pe_key e) :: seen) pend stack true (Some (kn_events (pe_val e), pe_ref e))) x.
Proof. exact flush_delivers_absent. Qed.
Check C03_merged_entry_delivered : forall f c seen e pend stack pv x,
  fp_mem (kn_fp (pe_key e)) seen = false ->
  kemn_direct (kn_fp (pe_key e)) = false -> kemn_one_entry_nullish (kn_fp (pe_key e)) = false ->
  ma_next_key (S f) c (mkMA seen (e :: pend) stack true pv) x =
  KKey (kn_events (pe_key e)) false (kn_loc (pe_key e))
       (mkMA (kn_fp (pe_key e) :: seen) pend stack true (Some (kn_events (pe_val e), pe_ref e))) x.
Print Assumptions C03_merged_entry_delivered.

(* Non-vacuity: {p: 0, <<: {p: 1, q: 1}, <<: [{q: 2, r: 2}, {r: 3}]} reads as p: 0, r: 3, q: 2
   under every policy (own key first, later merge entry before earlier, later element before earlier) *)
Definition l3 : loc := mkLoc 1 1 0 1 0 1.
Definition sc (c : N) : enode := NdScalar [c] TAG_None None Plain 0 l3.
Definition mp (es : list (enode * enode)) : enode := NdMap 0 l3 es l3.
Definition ex_merge : list ev :=
  events_of (mp [(sc 112, sc 48);
                 (NdScalar [60; 60] TAG_None None Plain 0 l3, mp [(sc 112, sc 49); (sc 113, sc 49)]);
                 (NdScalar [60; 60] TAG_None None Plain 0 l3,
                  NdSeq 0 TAG_None None l3 [mp [(sc 113, sc 50); (sc 114, sc 50)]; mp [(sc 114, sc 51)]] l3)]).
Definition ex_merge_run (p : dup_policy) : dres :=
  deser 200 (mkDcfg (mkCfg false false false false) p) false (TPairs TAny TAny) (replay_new ex_merge).
Definition ex_merge_expected (r : dres) : bool :=
  match r with
  | DOk (VMap [(VStr [112], VInt 0); (VStr [114], VInt 3); (VStr [113], VInt 2)]) _ => true
  | _ => false
  end.
Example C03_precedence_example :
  ex_merge_expected (ex_merge_run DupError) = true /\
  ex_merge_expected (ex_merge_run DupFirstWins) = true /\
  ex_merge_expected (ex_merge_run DupLastWins) = true.
Proof. vm_compute. repeat split. Qed.
Check C03_precedence_example :
  ex_merge_expected (ex_merge_run DupError) = true /\
  ex_merge_expected (ex_merge_run DupFirstWins) = true /\
  ex_merge_expected (ex_merge_run DupLastWins) = true.
Print Assumptions C03_precedence_example.

(* THE WHOLE FLUSH.  After its own entries a mapping delivers exactly the survivors of the offered merge
   entries: the sources in the order newest first (a later `<<` entry before an earlier one), an entry
   whose key is already present -- an own key, or a key delivered from a newer source -- dropped
   silently, whatever the duplicate-key policy, and every delivered key with its recorded value.
   For ALL states of the map accessor in its flush phase, all queues and stacks of batches. *)
Theorem C03_flush_delivers_survivors : forall c x n m fuel,
  ma_flushing m = true -> (flush_measure m < n)%nat -> (flush_measure m < fuel)%nat ->
  flush_all n fuel c m x = Some (map handed_out_row (survivors (ma_seen m) (offered m))).
Proof. exact flush_delivers_survivors. Qed.
Check C03_flush_delivers_survivors : forall c x n m fuel,
  ma_flushing m = true -> (flush_measure m < n)%nat -> (flush_measure m < fuel)%nat ->
  flush_all n fuel c m x = Some (map handed_out_row (survivors (ma_seen m) (offered m))).
Print Assumptions C03_flush_delivers_survivors.
