(* Props/C09.v -- property C09: all entry points agree (str, slice, reader under any chunking). *)
From SS Require Import Model.Reader Proofs.ReaderChunks Proofs.ReaderRing Proofs.ReaderSound.
Local Open Scope N_scope.

(* For every text of valid scalar values and EVERY partition of its UTF-8 bytes into non-empty read
   results -- including splits inside a multi-byte character -- the reader path feeds the parser
   exactly the characters of the text, and the error cell stays empty. *)
Theorem C09_chars_independent_of_chunking : forall t s total cell fuel acc,
  Forall (fun c => cp_valid c = true) t -> clean s -> bytes_of s = utf8_enc t ->
  (length t < fuel)%nat ->
  exists c', chunked_all fuel None (mkChunked s total cell) acc = (rev acc ++ t, c')
             /\ ck_cell c' = cell /\ ck_script c' = [].
Proof. exact chars_independent_of_chunking. Qed.
Check C09_chars_independent_of_chunking : forall t s total cell fuel acc,
  Forall (fun c => cp_valid c = true) t -> clean s -> bytes_of s = utf8_enc t ->
  (length t < fuel)%nat ->
  exists c', chunked_all fuel None (mkChunked s total cell) acc = (rev acc ++ t, c')
             /\ ck_cell c' = cell /\ ck_script c' = [].
Print Assumptions C09_chars_independent_of_chunking.

Theorem C09_utf8_roundtrip : forall c, cp_valid c = true ->
  exists first rest, utf8_enc1 c = first :: rest /\ lead_len first = Some (length (utf8_enc1 c))
                     /\ utf8_dec (utf8_enc1 c) = Some [c].
Proof. exact enc1_shape. Qed.
Check C09_utf8_roundtrip : forall c, cp_valid c = true ->
  exists first rest, utf8_enc1 c = first :: rest /\ lead_len first = Some (length (utf8_enc1 c))
                     /\ utf8_dec (utf8_enc1 c) = Some [c].
Print Assumptions C09_utf8_roundtrip.

(* The recent-bytes ring used for snippets never disturbs the stream: under every interleaving of
   read(n) and get_recent() the consumer receives a prefix of the inner stream, in order. *)
Theorem C09_ring_transparent : forall ops s,
  let '(out, _, _) := ring_run ops (ring_new s) [] [] in
  exists tail, all_bytes s = out ++ tail.
Proof. exact ring_output_is_prefix. Qed.
Check C09_ring_transparent : forall ops s,
  let '(out, _, _) := ring_run ops (ring_new s) [] [] in
  exists tail, all_bytes s = out ++ tail.
Print Assumptions C09_ring_transparent.

(* Soundness for EVERY schedule, faulty ones included, and every size cap: whatever the reads return
   (chunks, errors, early end), each character handed to the parser is the decoding of a UTF-8
   sequence, the characters already delivered are never retracted, the byte count never decreases,
   and the only change a run can make to the error cell is to put an error into it (it never
   clears one). *)
Theorem C09_reader_run_sound : forall fuel mb c acc out c', ck_total c <= USIZE_MAX_R ->
  chunked_all fuel mb c acc = (out, c') ->
  ck_total c <= ck_total c' /\
  (ck_cell c' = ck_cell c \/ exists k, ck_cell c' = Some k) /\
  exists ys, out = rev acc ++ ys /\ Forall (fun ch => exists bytes, utf8_dec bytes = Some [ch]) ys.
Proof. exact run_sound. Qed.
Check C09_reader_run_sound : forall fuel mb c acc out c', ck_total c <= USIZE_MAX_R ->
  chunked_all fuel mb c acc = (out, c') ->
  ck_total c <= ck_total c' /\
  (ck_cell c' = ck_cell c \/ exists k, ck_cell c' = Some k) /\
  exists ys, out = rev acc ++ ys /\ Forall (fun ch => exists bytes, utf8_dec bytes = Some [ch]) ys.
Print Assumptions C09_reader_run_sound.

(* Non-vacuity: a schedule that fails inside the second character delivers the first one and
   leaves the error in the cell. *)
Example C09_faulty_schedule_example :
  chunked_run None [RChunk [195]; RChunk [169; 230]; RFail (KOther 5)] 10 = ([233], Some (KOther 5)).
Proof. vm_compute. reflexivity. Qed.
Check C09_faulty_schedule_example :
  chunked_run None [RChunk [195]; RChunk [169; 230]; RFail (KOther 5)] 10 = ([233], Some (KOther 5)).
Print Assumptions C09_faulty_schedule_example.

(* Non-vacuity: "é" + "日" split at every byte boundary *)
Example C09_partitions_example :
  chunked_run None [RChunk [195]; RChunk [169; 230]; RChunk [151]; RChunk [165]] 10 = ([233; 26085], None) /\
  chunked_run None [RChunk [195; 169; 230; 151; 165]] 10 = ([233; 26085], None).
Proof. vm_compute. split; reflexivity. Qed.
Check C09_partitions_example :
  chunked_run None [RChunk [195]; RChunk [169; 230]; RChunk [151]; RChunk [165]] 10 = ([233; 26085], None) /\
  chunked_run None [RChunk [195; 169; 230; 151; 165]] 10 = ([233; 26085], None).
Print Assumptions C09_partitions_example.
