(* Corr/ThreadState.v -- scripted calls against the real thread-local state (C15). *)
From SS Require Export Model.ThreadState Corr.Common.
From SS Require Import Model.Text.
Local Open Scope N_scope.

(* a sequence of entry-point calls on one thread: observations of each, and the probe after each *)
Inductive case := CCalls (calls : list (list act)) (observed : list (list N * list N)).

Fixpoint run_calls (calls : list (list act)) (s : tls) : list (list N * list N) :=
  match calls with
  | [] => []
  | c :: r =>
    let '(_, s', o) := run 200 [AScope c] s [] in
    (o, probe s') :: run_calls r s'
  end.

Definition check_case (c : case) : bool :=
  match c with
  | CCalls calls observed =>
    list_eqb (fun a b => str_eqb (fst a) (fst b) && str_eqb (snd a) (snd b)) (run_calls calls tl_empty) observed
  end.
