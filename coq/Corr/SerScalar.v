(* Corr/SerScalar.v -- case type and checker for the scalar side of the serializer (C12). *)
From SS Require Export Model.SerScalar Model.BlockScalar Model.FoldedPar Corr.Common.
Local Open Scope N_scope.

Inductive case :=
| CPred (s : str) (y12 flow : bool) (numeric ambiguous ambiguous_value plain_safe plain_value_safe : bool)
| CEmitValue (s : str) (quote_all y12 : bool) (out : str)
| CEmitKey (s : str) (y12 : bool) (out : str)
| CDq (quoted : str) (decoded : option str)
| CSq (quoted : str) (decoded : option str)
| CFloatNorm (digits out : str)
(* literal block scalars: what the serializer wrote for `v` at body indentation `ind` (header + body lines) ... *)
| CLitEmit (ind : N) (v : str) (explicit : bool) (ch : chomp) (lines : list str)
(* ... and what the parser reads from a literal block (explicit content indentation or none, chomping, body lines):
   the text, or None when it does not accept the document *)
| CLitRead (explicit : option N) (ch : chomp) (lines : list str) (value : option str)
(* folded block scalars of one paragraph: the body lines the serializer wrote for the one-line text `v` at body
   indentation `ind` and wrap column `w`, and the parser's reading of such a block (strip chomping) *)
| CFoldEmit (ind w : N) (v : str) (lines : list str)
| CFoldRead (explicit : option N) (lines : list str) (value : option str).

Definition chomp_eqb (a b : chomp) : bool :=
  match a, b with Strip, Strip | Clip, Clip | Keep, Keep => true | _, _ => false end.

Definition check_case (c : case) : bool :=
  match c with
  | CPred s y12 flow n a av ps pvs =>
    Bool.eqb (is_numeric_looking s) n && Bool.eqb (is_ambiguous s) a && Bool.eqb (is_ambiguous_value s y12) av
    && (match s with [] => true | _ => Bool.eqb (is_plain_safe s) ps && Bool.eqb (is_plain_value_safe s y12 flow) pvs end)
  | CEmitValue s qa y12 out => str_eqb (emit_str_value s qa y12 false) out
  | CEmitKey s y12 out => str_eqb (emit_str_key s y12) out
  | CDq q d => opt_eqb str_eqb (dq_unescape q) d
  | CSq q d => opt_eqb str_eqb (sq_unescape q) d
  | CFloatNorm d out => str_eqb (float_normalize d) out
  | CLitEmit ind v ex ch lines =>
    let b := emit_literal (N.to_nat ind) v in
    Bool.eqb (b_explicit b) ex && chomp_eqb (b_chomp b) ch && list_eqb str_eqb (b_lines b) lines
  | CLitRead ex ch lines value =>
    opt_eqb str_eqb (read_literal (option_map N.to_nat ex) ch lines) value
  | CFoldEmit ind w v lines => list_eqb str_eqb (emit_folded_line (N.to_nat ind) (N.to_nat w) v) lines
  | CFoldRead ex lines value => opt_eqb str_eqb (read_folded_paragraph (option_map N.to_nat ex) lines) value
  end.
