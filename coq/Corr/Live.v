(* Corr/Live.v -- case type and checker for the live-event pump and budget correspondence
   (serves C02, C07, C08, C11, C16). *)
From SS Require Export Model.Live Model.Expand Corr.Common.
Local Open Scope N_scope.

Definition optstr_eqb := opt_eqb str_eqb.
Definition style_eqb (a b : style) : bool :=
  match a, b with
  | Plain, Plain | SingleQuoted, SingleQuoted | DoubleQuoted, DoubleQuoted
  | Literal, Literal | Folded, Folded => true
  | _, _ => false
  end.

Definition ev_eqb (a b : ev) : bool :=
  match a, b with
  | EScalar v t rt st an l, EScalar v' t' rt' st' an' l' =>
    str_eqb v v' && (t =? t') && optstr_eqb rt rt' && style_eqb st st' && (an =? an') && loc_eqb l l'
  | ESeqStart an t rt l, ESeqStart an' t' rt' l' =>
    (an =? an') && (t =? t') && optstr_eqb rt rt' && loc_eqb l l'
  | ESeqEnd l, ESeqEnd l' => loc_eqb l l'
  | EMapStart an l, EMapStart an' l' => (an =? an') && loc_eqb l l'
  | EMapEnd l, EMapEnd l' => loc_eqb l l'
  | _, _ => false
  end.

Definition dump_eqb (with_ref : bool) (a b : ev_dump) : bool :=
  ev_eqb (d_ev a) (d_ev b) && (negb with_ref || loc_eqb (d_ref a) (d_ref b)) && loc_eqb (d_last a) (d_last b).

Definition breach_eqb (a b : breach) : bool :=
  match a, b with
  | BrEvents x, BrEvents y | BrAliases x, BrAliases y | BrAnchors x, BrAnchors y
  | BrDepth x, BrDepth y | BrDocuments x, BrDocuments y | BrNodes x, BrNodes y
  | BrScalarBytes x, BrScalarBytes y | BrMergeKeys x, BrMergeKeys y => x =? y
  | BrRatio x1 x2, BrRatio y1 y2 => (x1 =? y1) && (x2 =? y2)
  | BrUnbalanced, BrUnbalanced => true
  | _, _ => false
  end.

Definition err_eqb (a b : err) : bool :=
  match a, b with
  | Err c l, Err c' l' => eclass_beq c c' && loc_eqb l l'
  | ErrBudget x l, ErrBudget y l' => breach_eqb x y && loc_eqb l l'
  | ErrAlias r d, ErrAlias r' d' => loc_eqb r r' && loc_eqb d d'
  | ErrIO, ErrIO => true
  | _, _ => false
  end.

Definition report_eqb (a b : report) : bool :=
  opt_eqb breach_eqb (r_breached a) (r_breached b) && (r_events a =? r_events b)
  && (r_aliases a =? r_aliases b) && (r_anchors a =? r_anchors b) && (r_documents a =? r_documents b)
  && (r_nodes a =? r_nodes b) && (r_max_depth a =? r_max_depth b)
  && (r_total_scalar_bytes a =? r_total_scalar_bytes b) && (r_merge_keys a =? r_merge_keys b).

Definition pump_eqb (with_ref : bool) (a b : pump_result) : bool :=
  list_eqb (dump_eqb with_ref) (p_events a) (p_events b)
  && opt_eqb err_eqb (p_error a) (p_error b)
  && opt_eqb err_eqb (p_finish_error a) (p_finish_error b)
  && opt_eqb report_eqb (p_report a) (p_report b)
  && Bool.eqb (p_seen_doc_end a) (p_seen_doc_end b)
  && Bool.eqb (p_synth_null a) (p_synth_null b).

(* ---- the specification side of C02 on real parser output: the body of a single-document stream is
   parsed back into a forest (checked to linearise to the very same items) and its alias-free expansion
   must be what the pump delivered; where the expansion is undefined the pump must have failed ---- *)
Fixpoint parse_node (fuel : nat) (items : list raw_item) : option (node * list raw_item) :=
  match fuel with
  | O => None
  | S f =>
    match items with
    | RItem (RScalar v st a t) sp :: r => Some (NScalar v st a t sp, r)
    | RItem (RAlias id) sp :: r => Some (NAlias id sp, r)
    | RItem (RSeqStart a t) sp :: r =>
      match parse_children f r with
      | Some (kids, RItem RSeqEnd spe :: r') => Some (NSeq a t sp kids spe, r')
      | _ => None
      end
    | RItem (RMapStart a t) sp :: r =>
      match parse_children f r with
      | Some (kids, RItem RMapEnd spe :: r') => Some (NMap a t sp kids spe, r')
      | _ => None
      end
    | _ => None
    end
  end
with parse_children (fuel : nat) (items : list raw_item) : option (forest * list raw_item) :=
  match fuel with
  | O => None
  | S f =>
    match items with
    | RItem RSeqEnd _ :: _ | RItem RMapEnd _ :: _ | RItem RDocEnd _ :: _ => Some (FNil, items)
    | _ =>
      match parse_node f items with
      | Some (n, r) => match parse_children f r with Some (k, r') => Some (FCons n k, r') | None => None end
      | None => None
      end
    end
  end.

Fixpoint raw_item_eqb (a b : raw_item) : bool :=
  match a, b with
  | RItem x sx, RItem y sy =>
    loc_eqb (location_from_span sx) (location_from_span sy)
    && match x, y with
       | RScalar v st an t, RScalar v' st' an' t' => str_eqb v v' && style_eqb st st' && (an =? an') && optstr_eqb t t'
       | RSeqStart an t, RSeqStart an' t' | RMapStart an t, RMapStart an' t' => (an =? an') && optstr_eqb t t'
       | RAlias i, RAlias j => i =? j
       | RSeqEnd, RSeqEnd | RMapEnd, RMapEnd | RDocEnd, RDocEnd | RStreamEnd, RStreamEnd | RStreamStart, RStreamStart
       | RNothing, RNothing => true
       | RDocStart x', RDocStart y' => Bool.eqb x' y'
       | _, _ => false
       end
  | _, _ => false
  end.

Definition expansion_agrees (lim : alias_limits) (items : list raw_item) (e : pump_result) : bool :=
  match items with
  | RItem RStreamStart _ :: RItem (RDocStart _) _ :: body =>
    match parse_children (S (S (length body))) body with
    | Some (f, [RItem RDocEnd _; RItem RStreamEnd _]) =>
      if negb (list_eqb raw_item_eqb (lin_forest f) (firstn (length body - 2) body)) then false else
      match expand_forest lim [] (mkX [] 0 []) f with
      | Some (out, _) =>
        match out with
        | [] => true                         (* an empty document: the synthesized null, not part of the statement *)
        | _ => list_eqb ev_eqb out (map d_ev (p_events e)) && match p_error e with None => true | Some _ => false end
        end
      | None => match p_error e with Some _ => true | None => false end
      end
    | _ => true                              (* several documents, or a scan error: outside this statement *)
    end
  | _ => true
  end.

Inductive case :=
| CPump (max_events : N) (use_peek : bool) (b : option budget) (per_document : bool)
        (lim : alias_limits) (stop : bool) (items : list raw_item) (expect : pump_result)
| CBudget (items : list raw_item) (b : budget) (per_document : bool) (expect : option report).

Definition check_case (c : case) : bool :=
  match c with
  | CPump n use_peek b pd lim stop items e =>
    pump_eqb use_peek (pump (N.to_nat n) use_peek b pd lim stop items) e
    && match b with None => expansion_agrees lim items e | Some _ => true end
  | CBudget items b pd e => opt_eqb report_eqb (check_yaml_budget items b pd) e
  end.
