(* Corr/Live.v -- case type and checker for the live-event pump and budget correspondence
   (serves C02, C07, C08, C11, C16). *)
From SS Require Export Model.Live Corr.Common.
Local Open Scope N_scope.

Definition optstr_eqb := opt_eqb str_eqb.
Definition style_eqb (a b : style) : bool :=
  match a, b with
  | Plain, Plain | SingleQuoted, SingleQuoted | DoubleQuoted, DoubleQuoted
  | Literal, Literal | Folded, Folded => true
  | _, _ => false
  end.

Definition ev_eqb (a b : ev) : bool :=
  match a, b with
  | EScalar v t rt st an l, EScalar v' t' rt' st' an' l' =>
    str_eqb v v' && (t =? t') && optstr_eqb rt rt' && style_eqb st st' && (an =? an') && loc_eqb l l'
  | ESeqStart an t rt l, ESeqStart an' t' rt' l' =>
    (an =? an') && (t =? t') && optstr_eqb rt rt' && loc_eqb l l'
  | ESeqEnd l, ESeqEnd l' => loc_eqb l l'
  | EMapStart an l, EMapStart an' l' => (an =? an') && loc_eqb l l'
  | EMapEnd l, EMapEnd l' => loc_eqb l l'
  | _, _ => false
  end.

Definition dump_eqb (with_ref : bool) (a b : ev_dump) : bool :=
  ev_eqb (d_ev a) (d_ev b) && (negb with_ref || loc_eqb (d_ref a) (d_ref b)) && loc_eqb (d_last a) (d_last b).

Definition breach_eqb (a b : breach) : bool :=
  match a, b with
  | BrEvents x, BrEvents y | BrAliases x, BrAliases y | BrAnchors x, BrAnchors y
  | BrDepth x, BrDepth y | BrDocuments x, BrDocuments y | BrNodes x, BrNodes y
  | BrScalarBytes x, BrScalarBytes y | BrMergeKeys x, BrMergeKeys y => x =? y
  | BrRatio x1 x2, BrRatio y1 y2 => (x1 =? y1) && (x2 =? y2)
  | BrUnbalanced, BrUnbalanced => true
  | _, _ => false
  end.

Definition err_eqb (a b : err) : bool :=
  match a, b with
  | Err c l, Err c' l' => eclass_beq c c' && loc_eqb l l'
  | ErrBudget x l, ErrBudget y l' => breach_eqb x y && loc_eqb l l'
  | ErrAlias r d, ErrAlias r' d' => loc_eqb r r' && loc_eqb d d'
  | ErrIO, ErrIO => true
  | _, _ => false
  end.

Definition report_eqb (a b : report) : bool :=
  opt_eqb breach_eqb (r_breached a) (r_breached b) && (r_events a =? r_events b)
  && (r_aliases a =? r_aliases b) && (r_anchors a =? r_anchors b) && (r_documents a =? r_documents b)
  && (r_nodes a =? r_nodes b) && (r_max_depth a =? r_max_depth b)
  && (r_total_scalar_bytes a =? r_total_scalar_bytes b) && (r_merge_keys a =? r_merge_keys b).

Definition pump_eqb (with_ref : bool) (a b : pump_result) : bool :=
  list_eqb (dump_eqb with_ref) (p_events a) (p_events b)
  && opt_eqb err_eqb (p_error a) (p_error b)
  && opt_eqb err_eqb (p_finish_error a) (p_finish_error b)
  && opt_eqb report_eqb (p_report a) (p_report b)
  && Bool.eqb (p_seen_doc_end a) (p_seen_doc_end b)
  && Bool.eqb (p_synth_null a) (p_synth_null b).

Inductive case :=
| CPump (max_events : N) (use_peek : bool) (b : option budget) (per_document : bool)
        (lim : alias_limits) (stop : bool) (items : list raw_item) (expect : pump_result)
| CBudget (items : list raw_item) (b : budget) (per_document : bool) (expect : option report).

Definition check_case (c : case) : bool :=
  match c with
  | CPump n use_peek b pd lim stop items e =>
    pump_eqb use_peek (pump (N.to_nat n) use_peek b pd lim stop items) e
  | CBudget items b pd e => opt_eqb report_eqb (check_yaml_budget items b pd) e
  end.
