(* Common.v -- helpers for the correspondence case files written by the harness. *)
From SS Require Export Model.Text.
Local Open Scope N_scope.

Fixpoint bad_indices_go {A} (chk : A -> bool) (l : list A) (i : N) : list N :=
  match l with
  | [] => []
  | x :: r => if chk x then bad_indices_go chk r (i + 1) else i :: bad_indices_go chk r (i + 1)
  end.
(* indices (0-based) of the cases on which model and implementation disagree *)
Definition bad_indices {A} (chk : A -> bool) (l : list A) : list N := bad_indices_go chk l 0.

Definition opt_eqb {A} (eqb : A -> A -> bool) (a b : option A) : bool :=
  match a, b with
  | None, None => true
  | Some x, Some y => eqb x y
  | _, _ => false
  end.
Fixpoint list_eqb {A} (eqb : A -> A -> bool) (a b : list A) : bool :=
  match a, b with
  | [], [] => true
  | x :: a', y :: b' => eqb x y && list_eqb eqb a' b'
  | _, _ => false
  end.
