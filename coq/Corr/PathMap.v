(* Corr/PathMap.v -- PathMap::search on generated maps and targets (C18). *)
From SS Require Export Model.PathMap Corr.Common.
Local Open Scope N_scope.

Inductive case := CSearch (entries : list (path * N)) (target : path) (result : option (N * list N)).

Definition check_case (c : case) : bool :=
  match c with
  | CSearch es t r =>
    opt_eqb (fun a b => (fst a =? fst b) && str_eqb (snd a) (snd b)) (search t es) r
  end.
