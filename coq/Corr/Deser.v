(* Corr/Deser.v -- case type and checker for the typed-deserialization correspondence
   (serves C03, C04, C05, C11). *)
From SS Require Export Model.Deser Corr.Common.
Local Open Scope N_scope.

Definition class_of (e : err) : eclass :=
  match e with
  | Err c _ => c
  | ErrBudget _ _ => E_Budget
  | ErrAlias _ _ => E_AliasError
  | ErrIO => E_IOError
  end.

Inductive dexpect := XOk (v : val) | XErr (c : eclass) | XErrAt (c : eclass) (l : loc)
| XErrLocs (c : eclass) (reference defined : loc).   (* Error::locations(), else Error::location() twice *)

Definition err_locs (e : err) : loc * loc :=
  match e with
  | Err _ l | ErrBudget _ l => (l, l)
  | ErrAlias r d => (r, d)
  | ErrIO => (loc_unknown, loc_unknown)
  end.

Definition outcome_matches (o : outcome) (x : dexpect) : bool :=
  match o, x with
  | OOk v, XOk v' => val_eqb v v'
  | OErr e, XErr c => eclass_beq (class_of e) c
  | OErr (Err c' l'), XErrAt c l => eclass_beq c' c && loc_eqb l' l
  | OErr e, XErrLocs c r d =>
    eclass_beq (class_of e) c && loc_eqb (fst (err_locs e)) r && loc_eqb (snd (err_locs e)) d
  | _, _ => false
  end.

Fixpoint items_match (l : list item) (x : list dexpect) : bool :=
  match l, x with
  | [], [] => true
  | IOk v :: l', XOk v' :: x' => val_eqb v v' && items_match l' x'
  | IErr e :: l', XErr c :: x' => eclass_beq (class_of e) c && items_match l' x'
  | IErr (Err c' lc) :: l', XErrAt c lx :: x' => eclass_beq c' c && loc_eqb lc lx && items_match l' x'
  | _, _ => false
  end.

Inductive mexpect := MXOk (vs : list val) | MXErr (c : eclass).

Inductive case :=
| CDeserDoc (fuel : N) (o : entry_opts) (t : ty) (items : list raw_item) (expect : dexpect)
| CMulti (fuel : N) (o : entry_opts) (t : ty) (items : list raw_item) (expect : mexpect)
| CIter (fuel : N) (o : entry_opts) (t : ty) (items : list raw_item) (expect : list dexpect).

Definition check_case (c : case) : bool :=
  match c with
  | CDeserDoc fuel o t items e => outcome_matches (from_str_model (N.to_nat fuel) o t items) e
  | CMulti fuel o t items e =>
    match from_multiple_model (N.to_nat fuel) o t items, e with
    | MOk vs, MXOk vs' => list_eqb val_eqb vs vs'
    | MErr er, MXErr c => eclass_beq (class_of er) c
    | _, _ => false
    end
  | CIter fuel o t items e =>
    match read_model (N.to_nat fuel) o t items with
    | inl l => items_match l e
    | inr _ => false
    end
  end.
