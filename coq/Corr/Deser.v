(* Corr/Deser.v -- case type and checker for the typed-deserialization correspondence
   (serves C03, C04, C05, C11). *)
From SS Require Export Model.Deser Corr.Common.
Local Open Scope N_scope.

Definition class_of (e : err) : eclass :=
  match e with
  | Err c _ => c
  | ErrBudget _ _ => E_Budget
  | ErrAlias _ _ => E_AliasError
  | ErrIO => E_IOError
  end.

Inductive dexpect := XOk (v : val) | XErr (c : eclass).

Definition outcome_matches (o : outcome) (x : dexpect) : bool :=
  match o, x with
  | OOk v, XOk v' => val_eqb v v'
  | OErr e, XErr c => eclass_beq (class_of e) c
  | _, _ => false
  end.

Inductive case :=
| CDeserDoc (fuel : N) (o : entry_opts) (t : ty) (items : list raw_item) (expect : dexpect).

Definition check_case (c : case) : bool :=
  match c with
  | CDeserDoc fuel o t items e => outcome_matches (from_str_model (N.to_nat fuel) o t items) e
  end.
