(* Corr/C06.v -- case type and checker for the C06 correspondence (model vs implementation). *)
From SS Require Export Model.Scalars Corr.Common.
Local Open Scope N_scope.

Definition fclass_eqb (a b : fclass) : bool :=
  match a, b with
  | FNan, FNan => true
  | FInf x, FInf y => Bool.eqb x y
  | FFinite, FFinite => true
  | _, _ => false
  end.

Fixpoint sres_eqb (a b : sres) : bool :=
  match a, b with
  | RBool x, RBool y => Bool.eqb x y
  | RInt x, RInt y => Z.eqb x y
  | RFloat x, RFloat y => fclass_eqb x y
  | RChar x, RChar y => N.eqb x y
  | RStr x, RStr y => str_eqb x y
  | RBytes x, RBytes y => str_eqb x y
  | RUnit, RUnit => true
  | RNone, RNone => true
  | RSome x, RSome y => sres_eqb x y
  | RErr x, RErr y => eclass_beq x y
  | _, _ => false
  end.

Inductive case :=
| CIntS (bits : N) (legacy : bool) (s : str) (expect : option Z)
| CIntU (bits : N) (legacy : bool) (s : str) (expect : option N)
| CBool (s : str) (expect : option bool)
| CNullish (s : str) (st : N) (expect : bool)
| CNullOpt (s : str) (st : N) (expect : bool)
| CMaybeNot (s : str) (st : N) (expect : bool)
| CLeadZero (s : str) (expect : bool)
| CF64 (s : str) (expect : option fclass)
| CF32 (s : str) (expect : option fclass)
| CB64 (bytes : list N) (expect : option (list N))
| CTag (t : option str) (expect : N)
| CDeser (c : cfg) (t : target) (doc : option (scalar_ev * bool)) (expect : sres).

Definition check_case (c : case) : bool :=
  match c with
  | CIntS bits legacy s e => opt_eqb Z.eqb (parse_int_signed bits s legacy) e
  | CIntU bits legacy s e => opt_eqb N.eqb (parse_int_unsigned bits s legacy) e
  | CBool s e => opt_eqb Bool.eqb (parse_yaml11_bool s) e
  | CNullish s st e => Bool.eqb (scalar_is_nullish s (style_of_code st)) e
  | CNullOpt s st e => Bool.eqb (scalar_is_nullish_for_option s (style_of_code st)) e
  | CMaybeNot s st e => Bool.eqb (maybe_not_string s (style_of_code st)) e
  | CLeadZero s e => Bool.eqb (leading_zero_decimal s) e
  | CF64 s e => opt_eqb fclass_eqb (parse_yaml12_float F64_OVERFLOW_THRESHOLD s) e
  | CF32 s e => opt_eqb fclass_eqb (parse_yaml12_float F32_OVERFLOW_THRESHOLD s) e
  | CB64 b e => opt_eqb str_eqb (decode_base64_yaml b) e
  | CTag t e => N.eqb (sftag_from_optional t) e
  | CDeser c t doc e => sres_eqb (from_str_scalar c t doc) e
  end.
