(* Corr/Emit.v -- the emitted text of small trees under default options (C13). *)
From SS Require Export Model.Emit Corr.Common.

Inductive case := CEmit (t : tree) (text : list N).
Definition check_case (c : case) : bool :=
  match c with CEmit t text => str_eqb (emit t) text end.
