(* Corr/Reader.v -- case type and checker for the reader-side correspondence (C09, C10). *)
From SS Require Export Model.Reader Corr.Common.
Local Open Scope N_scope.

Definition snap_eqb (a b : option iokind * (N * N * list N)) : bool :=
  match a, b with
  | (Some k, _), (Some k', _) => iokind_eqb k k'
  | (None, (o, l, bs)), (None, (o', l', bs')) => (o =? o') && (l =? l') && str_eqb bs bs'
  | _, _ => false
  end.

Inductive case :=
| CChars (max_bytes : option N) (s : script) (max_chars : N) (chars : list N) (cell : option iokind)
| CRing (s : script) (ops : list rop) (out : list N)
        (snaps : list (option iokind * (N * N * list N))) (err : option iokind).

Definition check_case (c : case) : bool :=
  match c with
  | CChars mb s mc chars cell =>
    let '(chars', cell') := chunked_run mb s (N.to_nat mc) in
    str_eqb chars' chars && opt_eqb iokind_eqb cell' cell
  | CRing s ops out snaps err =>
    let '(out', snaps', err') := ring_run ops (ring_new s) [] [] in
    str_eqb out' out && list_eqb snap_eqb snaps' snaps && opt_eqb iokind_eqb err' err
  end.
