(* Corr/Robotics.v -- case type and checker for the expression evaluator (C19). *)
From SS Require Export Model.Robotics Corr.Common.
Local Open Scope N_scope.

Inductive case :=
| CEval (text : bytes) (tag : rtag) (result : option N)      (* bits of the f64, None = error *)
| CLit (mant : Z) (e10 : Z) (ndigits : Z) (bits : N).         (* f64::from_str of mant x 10^e10 *)

Definition check_case (c : case) : bool :=
  match c with
  | CEval text tag res =>
    match eval_scalar (4 * length text + 40) text tag, res with
    | POk v _, Some b => same_float v (f64_of_bits b)
    | PErr, None => true
    | _, _ => false
    end
  | CLit m e nd b => same_float (dec_to_float m e nd) (f64_of_bits b)
  end.
