(* Corr/Anchors.v -- case type and checker for the anchor topology (C14). *)
From SS Require Export Model.Anchors Corr.Common.
Local Open Scope N_scope.

Inductive case :=
| CSer (ptr_classes : list N) (marks : list mark)
| CDe (marks : list mark) (alloc_classes : list N).

Definition mark_eqb (a b : mark) : bool :=
  match a, b with
  | Define x, Define y | Alias x, Alias y => x =? y
  | _, _ => false
  end.

Definition check_case (c : case) : bool :=
  match c with
  | CSer ps ms => list_eqb mark_eqb (serialize ps) ms
  | CDe ms cls => match deserialize ms with Some a => list_eqb N.eqb (classes a) cls | None => false end
  end.
