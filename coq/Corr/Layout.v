(* Corr/Layout.v -- case type and checker for the layout mechanisms (C20). *)
From SS Require Export Model.Layout Corr.Common.
Local Open Scope N_scope.

Inductive case :=
| CFold (w : N) (s : list N) (lines : list (list N))      (* body lines of the folded block, indentation removed *)
| CComment (comment : list N) (written : list N)           (* text after " # " on the value's line *)
| CLead (s : list N) (n : N).

Definition check_case (c : case) : bool :=
  match c with
  | CFold w s lines => list_eqb str_eqb (fold_block (N.to_nat w) s) lines
  | CComment c w => str_eqb (sanitize_comment c) w
  | CLead s n => first_line_leading_spaces s =? n
  end.
