(* Corr/Position.v -- correspondence for C16: parser marks against the text, plus the typed
   deserialization cases of Corr/Deser.v with full locations. *)
From SS Require Export Model.Position Corr.Deser.
Local Open Scope N_scope.

Inductive pcase :=
| CMarks (text : str) (marks : list mark)
| CD (c : case).

Definition check_pcase (c : pcase) : bool :=
  match c with
  | CMarks text marks => forallb (fun m => mark_eqb (mark_at text (mk_index m)) m) marks
  | CD c => check_case c
  end.
