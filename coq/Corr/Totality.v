(* Corr/Totality.v -- case type and checker for C01: the event pump of the implementation and of the model
   deliver the same events and stop after the same number of deliveries, within the proved bound. *)
From SS Require Export Corr.Live.
Local Open Scope N_scope.

Inductive tcase :=
| CTotal (max_events : N) (b : option budget) (lim : alias_limits) (items : list raw_item) (expect : pump_result).

Definition is_some {A} (o : option A) : bool := match o with Some _ => true | None => false end.

Definition check_tcase (c : tcase) : bool :=
  match c with
  | CTotal n b lim items e =>
    pump_eqb false (pump (N.to_nat n) false b false lim false items) e
    && match drain (S (S (length (p_events e)))) (live_new b false lim false) items with
       | Some (m, er) =>
         Nat.eqb m (length (p_events e)) && Bool.eqb (is_some er) (is_some (p_error e))
         && (N.of_nat m <=? (N.of_nat (length items) + 1) * (2 * max_total_replayed_events lim + 3))
       | None => false
       end
  end.
