(* Corr/Snippet.v -- case type and checker for the snippet correspondence (C17). *)
From SS Require Export Model.Snippet Corr.Common.
Local Open Scope N_scope.

Inductive case :=
| CSanitize (s out : bytes) (clean_in : bool)
| CColToByte (line : bytes) (col : N) (res : option N)
| CLineCol (text : bytes) (row col : N) (starts : list N) (res : option N)
| CNextB (text : bytes) (start : N) (res : option N)
| CCropLine (line : bytes) (left right : N) (out : bytes) (sb pb : N)
| CCropWindow (w : bytes) (wsr erow ecol radius ls le : N) (out : bytes) (ns ne : N)
| CCropSource (text : bytes) (line col : N) (mapping : option N) (radius : N) (out : bytes) (start : N)
| CFmtWindow (text : bytes) (line col : N) (mapping : option N) (msg : bytes) (radius : N) (out : bytes)
| CTrim (s : bytes) (off line : N) (off' line' : N) (s' : bytes).

Definition check_case (c : case) : bool :=
  match c with
  | CSanitize s out ci => str_eqb (sanitize s) out && Bool.eqb (is_clean s) ci
  | CColToByte l c r => opt_eqb N.eqb (col_to_byte l c) r
  | CLineCol t row col st r =>
    list_eqb N.eqb (line_starts t) st && opt_eqb N.eqb (line_col_to_byte t (line_starts t) row col) r
  | CNextB t s r => opt_eqb N.eqb (next_char_boundary t s) r
  | CCropLine l a b out sb pb =>
    let '(o, sb', pb') := crop_line l a b in str_eqb o out && (sb' =? sb) && (pb' =? pb)
  | CCropWindow w wsr er ec rad ls le out ns ne =>
    let '(o, ns', ne') := crop_window w wsr er ec rad ls le in str_eqb o out && (ns' =? ns) && (ne' =? ne)
  | CCropSource t l c m rad out st =>
    let '(o, st') := crop_source_window t l c m rad in str_eqb o out && (st' =? st)
  | CFmtWindow t l c m msg rad out => str_eqb (fmt_window t l c m msg rad) out
  | CTrim s off line off' line' s' =>
    let '(o, l, r) := trim_utf8 s off line in (o =? off') && (l =? line') && str_eqb r s'
  end.
