(* BudgetTree.v -- C07: the depth the enforcer reports is the depth of the document tree. *)
From SS Require Import Model.Budget Model.Live Model.Expand Proofs.BudgetCounts.
From Coq Require Import Lia ZifyBool ZifyN ZifyNat.
Local Open Scope N_scope.

Definition depth_delta (ev : raw_ev) : Z :=
  match ev with
  | RSeqStart _ _ | RMapStart _ _ => 1%Z
  | RSeqEnd | RMapEnd => (-1)%Z
  | _ => 0%Z
  end.

(* what one accepted event does to the depth counter and to the reported maximum *)
Lemma observe_depth e ev e' : e_per_document e = false -> observe e ev = (e', None) ->
  match ev with
  | RSeqStart _ _ | RMapStart _ _ =>
    e_depth e' = sat_add (e_depth e) 1
    /\ r_max_depth (e_report e') = N.max (r_max_depth (e_report e)) (sat_add (e_depth e) 1)
  | RSeqEnd | RMapEnd =>
    1 <= e_depth e /\ e_depth e' = e_depth e - 1 /\ r_max_depth (e_report e') = r_max_depth (e_report e)
  | _ => e_depth e' = e_depth e /\ r_max_depth (e_report e') = r_max_depth (e_report e)
  end.
Proof.
  intros Hpd. unfold observe.
  match goal with |- context [if ?c then _ else _] => destruct c eqn:Hev end; [discriminate|].
  destruct e as [b r d df cs pd]. destruct r as [br evn al an dn nn md tb mk]. cbn in Hpd. subst pd.
  destruct ev; cbn [bind].
  - intros H; inversion H; subst; cbn; auto.
  - intros H; inversion H; subst; cbn; auto.
  - cbn. match goal with |- context [if ?c then _ else _] => destruct c eqn:E end; intros H; inversion H; subst; cbn; auto.
  - intros H; inversion H; subst; cbn; auto.
  - cbn. match goal with |- context [if ?c then _ else _] => destruct c eqn:E end; intros H; inversion H; subst.
    unfold handle_alias; cbn. destr_step; cbn; auto.
  - unfold bind.
    destruct (bump_nodes _) as [e1 [b1|]] eqn:B1; [discriminate|].
    apply bump_nodes_ok in B1. destruct B1 as [-> Hn].
    cbn [e_report set_report upd_nodes r_total_scalar_bytes upd_events e_budget].
    match goal with |- context [if ?c then _ else _] => destruct c eqn:E end; [discriminate|].
    destruct (record_anchor _ anchor) as [e3 [b3|]] eqn:B3; [discriminate|].
    apply record_anchor_ok in B3. cbn in B3.
    destruct B3 as (Hb & Hp & Hd & Hc & Hdef & Hlim & Han & H1 & H2 & H3 & H4 & H5 & H6 & H7).
    intros H. apply handle_scalar_ok in H.
    destruct H as (Gb & Gp & Gd & Gdef & G1 & G2 & G3 & G4 & G5 & G6 & G7 & G8 & G9).
    cbn. split; congruence.
  - unfold bind.
    destruct (bump_nodes _) as [e1 [b1|]] eqn:B1; [discriminate|].
    apply bump_nodes_ok in B1. destruct B1 as [-> Hn].
    destruct (enter_depth _) as [e2 [b2|]] eqn:B2; [discriminate|].
    apply enter_depth_ok in B2. cbn in B2.
    destruct B2 as (Fb & Fp & Fdef & Fc & F1 & F2 & F3 & F4 & F5 & F6 & F7 & F8 & F9).
    destruct (entering_container (e_containers e2)) as [fmv cs'] eqn:EC.
    intros H. apply record_anchor_ok in H. cbn in H.
    destruct H as (Hb & Hp & Hd & Hc & Hdef & Hlim & Han & H1 & H2 & H3 & H4 & H5 & H6 & H7).
    cbn. split; congruence.
  - cbn. destr_step; intros H; inversion H; subst; cbn; repeat split; try reflexivity; lia.
  - unfold bind.
    destruct (bump_nodes _) as [e1 [b1|]] eqn:B1; [discriminate|].
    apply bump_nodes_ok in B1. destruct B1 as [-> Hn].
    destruct (enter_depth _) as [e2 [b2|]] eqn:B2; [discriminate|].
    apply enter_depth_ok in B2. cbn in B2.
    destruct B2 as (Fb & Fp & Fdef & Fc & F1 & F2 & F3 & F4 & F5 & F6 & F7 & F8 & F9).
    destruct (entering_container (e_containers e2)) as [fmv cs'] eqn:EC.
    intros H. apply record_anchor_ok in H. cbn in H.
    destruct H as (Hb & Hp & Hd & Hc & Hdef & Hlim & Han & H1 & H2 & H3 & H4 & H5 & H6 & H7).
    cbn. split; congruence.
  - cbn. destr_step; intros H; inversion H; subst; cbn; repeat split; try reflexivity; lia.
  - intros H; inversion H; subst; cbn; auto.
Qed.

Definition item_ev (it : raw_item) : raw_ev := match it with RItem e _ => e | RScanErr _ _ => RNothing end.
Definition raws (items : list raw_item) : list raw_ev := map item_ev items.

Fixpoint ndepth (n : node) : N :=
  match n with
  | NScalar _ _ _ _ _ | NAlias _ _ => 0
  | NSeq _ _ _ items _ | NMap _ _ _ items _ => 1 + fdepth items
  end
with fdepth (f : forest) : N :=
  match f with
  | FNil => 0
  | FCons n r => N.max (ndepth n) (fdepth r)
  end.

Lemma run_app a : forall e b, run e (a ++ b) = match run e a with (e1, None) => run e1 b | x => x end.
Proof.
  induction a as [|ev r IH]; intros e b; cbn [app run]; [reflexivity|].
  destruct (observe e ev) as [e1 [br|]]; [reflexivity|apply IH].
Qed.

Scheme node_forest_ind' := Induction for node Sort Prop
  with forest_node_ind' := Induction for forest Sort Prop.

Definition tree_depth_ok (d : N) (items : list raw_item) : Prop :=
  forall e e', e_per_document e = false -> run e (raws items) = (e', None) ->
    e_depth e + d <= USIZE_MAX -> e_depth e <= r_max_depth (e_report e) ->
    e_depth e' = e_depth e /\ e_per_document e' = false
    /\ r_max_depth (e_report e') = N.max (r_max_depth (e_report e)) (e_depth e + d).

Lemma leaf_depth ev sp : depth_delta ev = 0%Z -> tree_depth_ok 0 [RItem ev sp].
Proof.
  intros Hd e e' Hpd Hr _ Hinv. cbn [raws map item_ev run] in Hr.
  destruct (observe e ev) as [e1 [br|]] eqn:O; [discriminate|]. inversion Hr; subst e1.
  pose proof (observe_step e ev e' Hpd O) as SF. pose proof (observe_depth e ev e' Hpd O) as D.
  destruct ev; cbn in Hd; try discriminate; destruct D as [D1 D2]; (split; [exact D1|]); (split; [rewrite (sf_policy _ _ _ SF); exact Hpd|]); lia.
Qed.

Lemma container_depth (is_seq : bool) a t sp items spe :
  tree_depth_ok (fdepth items) (lin_forest items) ->
  tree_depth_ok (1 + fdepth items)
    (RItem (if is_seq then RSeqStart a t else RMapStart a t) sp :: lin_forest items ++ [RItem (if is_seq then RSeqEnd else RMapEnd) spe]).
Proof.
  intros IH e e' Hpd Hr Hb Hinv. unfold raws in Hr. rewrite map_cons, map_app in Hr. cbn [run item_ev map] in Hr.
  destruct (observe e (if is_seq then RSeqStart a t else RMapStart a t)) as [e1 [br|]] eqn:O1; [discriminate|].
  pose proof (observe_step e _ e1 Hpd O1) as SF1. pose proof (observe_depth e _ e1 Hpd O1) as D1.
  assert (D1' : e_depth e1 = e_depth e + 1 /\ r_max_depth (e_report e1) = N.max (r_max_depth (e_report e)) (e_depth e + 1)).
  { rewrite <- (sat_add_exact (e_depth e) 1) by lia. destruct is_seq; exact D1. }
  clear D1. destruct D1' as [Dd1 Dm1].
  assert (Hpd1 : e_per_document e1 = false) by (rewrite (sf_policy _ _ _ SF1); exact Hpd).
  rewrite run_app in Hr. fold (raws (lin_forest items)) in Hr.
  destruct (run e1 (raws (lin_forest items))) as [e2 [br|]] eqn:R2; [discriminate|].
  destruct (IH e1 e2 Hpd1 R2) as (Dd2 & Hpd2 & Dm2); [lia|lia|].
  cbn [run] in Hr.
  destruct (observe e2 (if is_seq then RSeqEnd else RMapEnd)) as [e3 [br|]] eqn:O3; [discriminate|]. inversion Hr; subst e3.
  pose proof (observe_step e2 _ e' Hpd2 O3) as SF3. pose proof (observe_depth e2 _ e' Hpd2 O3) as D3.
  assert (D3' : 1 <= e_depth e2 /\ e_depth e' = e_depth e2 - 1 /\ r_max_depth (e_report e') = r_max_depth (e_report e2)).
  { destruct is_seq; exact D3. }
  destruct D3' as (_ & Dd3 & Dm3).
  split; [lia|]. split; [rewrite (sf_policy _ _ _ SF3); exact Hpd2|]. lia.
Qed.

Theorem node_depth_is_reported : forall n, tree_depth_ok (ndepth n) (lin n).
Proof.
  apply (node_forest_ind' (fun n => tree_depth_ok (ndepth n) (lin n)) (fun f => tree_depth_ok (fdepth f) (lin_forest f))).
  - intros v st a t sp. apply leaf_depth. reflexivity.
  - intros a t sp items IH spe. cbn [ndepth lin]. apply (container_depth true). exact IH.
  - intros a t sp items IH spe. cbn [ndepth lin]. apply (container_depth false). exact IH.
  - intros id sp. apply leaf_depth. reflexivity.
  - intros e e' Hpd Hr _ Hinv. cbn in Hr. inversion Hr; subst. cbn [fdepth]. repeat split; [exact Hpd|lia].
  - intros n IHn f IHf e e' Hpd Hr Hb Hinv. cbn [lin_forest fdepth] in *. unfold raws in Hr. rewrite map_app in Hr.
    rewrite run_app in Hr. fold (raws (lin n)) in Hr. fold (raws (lin_forest f)) in Hr.
    destruct (run e (raws (lin n))) as [e1 [br|]] eqn:R1; [discriminate|].
    destruct (IHn e e1 Hpd R1) as (D1 & P1 & M1); [lia|lia|].
    destruct (IHf e1 e' P1 Hr) as (D2 & P2 & M2); [lia|lia|].
    split; [lia|]. split; [exact P2|]. lia.
Qed.

(* a whole document body from a fresh enforcer: the reported maximum depth is the depth of the tree *)
Theorem accepted_depth_is_tree_depth b f e' :
  run (enforcer_new b false) (raws (lin_forest f)) = (e', None) -> fdepth f <= USIZE_MAX ->
  r_max_depth (e_report e') = fdepth f /\ fdepth f <= max_depth b.
Proof.
  intros Hr Hb.
  assert (F : forall f, tree_depth_ok (fdepth f) (lin_forest f)).
  { apply (forest_node_ind' (fun n => tree_depth_ok (ndepth n) (lin n)) (fun f => tree_depth_ok (fdepth f) (lin_forest f))).
    - intros v st a t sp. apply leaf_depth. reflexivity.
    - intros a t sp items IH spe. cbn [ndepth lin]. apply (container_depth true). exact IH.
    - intros a t sp items IH spe. cbn [ndepth lin]. apply (container_depth false). exact IH.
    - intros id sp. apply leaf_depth. reflexivity.
    - intros e e0 Hpd Hr0 _ Hinv. cbn in Hr0. inversion Hr0; subst. cbn [fdepth]. repeat split; [exact Hpd|lia].
    - intros n IHn f0 IHf e e0 Hpd Hr0 Hb0 Hinv. cbn [lin_forest fdepth] in *. unfold raws in Hr0. rewrite map_app in Hr0.
      rewrite run_app in Hr0. fold (raws (lin n)) in Hr0. fold (raws (lin_forest f0)) in Hr0.
      destruct (run e (raws (lin n))) as [e1 [br|]] eqn:R1; [discriminate|].
      destruct (IHn e e1 Hpd R1) as (D1 & P1 & M1); [lia|lia|].
      destruct (IHf e1 e0 P1 Hr0) as (D2 & P2 & M2); [lia|lia|].
      split; [lia|]. split; [exact P2|]. lia. }
  destruct (F f (enforcer_new b false) e' eq_refl Hr) as (_ & _ & M); [cbn; lia|cbn; lia|].
  cbn in M. split; [lia|].
  pose proof (accepted_is_within_limits b (raws (lin_forest f)) e' Hr) as W. lia.
Qed.
