(* LiveBounds.v -- the work of the live pump is bounded (C08, and the termination measure of C01):
   every delivered event either consumes a raw parser item, or is one replayed event counted
   against max_total_replayed_events, or is the single synthesized null of an empty stream. *)
From SS Require Import Model.Live Proofs.LiveBasic.
From Coq Require Import Lia ZifyBool ZifyN ZifyNat.
Local Open Scope N_scope.

Definition replay_ok (s : live) : Prop :=
  lv_total_replayed s <= max_total_replayed_events (lv_limits s).

(* what one successful step did *)
Inductive step_kind (s : live) (rest : list raw_item) (s' : live) (rest' : list raw_item) : Prop :=
| ConsumedRaw : (length rest' < length rest)%nat -> step_kind s rest s' rest'
| Replayed : rest' = rest -> lv_total_replayed s' = lv_total_replayed s + 1 -> replay_ok s' ->
             step_kind s rest s' rest'
| Synthesized : rest = [] -> rest' = [] -> lv_produced_any s = false -> lv_produced_any s' = true ->
                step_kind s rest s' rest'.

Lemma observe_live_limits s r : lv_limits (fst (observe_live s r)) = lv_limits s
  /\ lv_total_replayed (fst (observe_live s r)) = lv_total_replayed s
  /\ lv_produced_any (fst (observe_live s r)) = lv_produced_any s
  /\ lv_inject (fst (observe_live s r)) = lv_inject s.
Proof.
  unfold observe_live. destruct (lv_budget s) as [enf|]; [|repeat split].
  destruct (observe enf r) as [enf' b]. cbn. repeat split.
Qed.

Lemma record_fields s e a b :
  lv_limits (record s e a b) = lv_limits s /\ lv_total_replayed (record s e a b) = lv_total_replayed s
  /\ lv_produced_any (record s e a b) = lv_produced_any s.
Proof. unfold record. destruct (lv_rec s); [repeat split|]. destruct (a && b); repeat split. Qed.

(* first loop of next_impl: a served event is one replayed event within the limit *)
Lemma serve_inject_spec : forall inj s rest res,
  serve_inject inj s rest = Some res ->
  match res with
  | Yield e s' r' => r' = rest /\ lv_total_replayed s' = lv_total_replayed s + 1 /\ replay_ok s'
                     /\ lv_limits s' = lv_limits s
  | Fail _ _ r' => r' = rest
  | Eos _ _ => False
  end.
Proof.
  induction inj as [|f below IH]; intros s rest res H; cbn [serve_inject] in H; [discriminate|].
  destruct (assoc (if_anchor f) (lv_anchors s)) as [buf|]; [|inversion H; reflexivity].
  destruct (nth_error buf (N.to_nat (if_idx f))) as [e|]; [|apply IH; exact H].
  cbn [lv_total_replayed with_inject lv_limits with_replayed] in H.
  destruct (N.ltb_spec USIZE_MAX (lv_total_replayed s + 1)); [inversion H; reflexivity|].
  destruct (N.ltb_spec (max_total_replayed_events (lv_limits s)) (lv_total_replayed s + 1)); [inversion H; reflexivity|].
  match type of H with context [observe_live ?st ?r] =>
    pose proof (observe_live_limits st r) as (O1 & O2 & O3 & O4); destruct (observe_live st r) as [s3 [b|]] end;
    [inversion H; reflexivity|].
  inversion H; subst. cbn [fst] in *.
  pose proof (record_fields s3 e false false) as (R1 & R2 & R3).
  unfold yielded, replay_ok. destruct (record s3 e false false); cbn in *. subst.
  destruct s3; cbn in *. subst. cbn. repeat split; try reflexivity; lia.
Qed.

Lemma reset_fields s : lv_limits (reset_document_state s) = lv_limits s
  /\ lv_total_replayed (reset_document_state s) = 0
  /\ lv_produced_any (reset_document_state s) = lv_produced_any s.
Proof. destruct s; repeat split. Qed.

(* second loop: every outcome consumed at least one raw item, except the synthesized null *)
Ltac use_IH IH st :=
  specialize (IH st); destruct (pull _ st) as [e1 s1 r1|s1 r1|e1 s1 r1]; cbn [length] in *;
  [destruct IH as [IH|(-> & -> & _)]; left; cbn [length]; lia | lia | lia].

Lemma pull_spec : forall rest s,
  match pull rest s with
  | Yield e s' r' => (length r' < length rest)%nat
                     \/ (rest = [] /\ r' = [] /\ lv_produced_any s = false /\ lv_produced_any s' = true)
  | Eos _ r' => (length r' <= length rest)%nat
  | Fail _ _ r' => (length r' < length rest)%nat
  end.
Proof.
  induction rest as [|item r IH]; intros s.
  - cbn [pull]. destruct (lv_produced_any s) eqn:E; cbn; [lia|]. right. destruct s; cbn in *; auto.
  - cbn [pull]. destruct item as [raw sp|m ua]; [|cbn; lia].
    destruct (observe_live s raw) as [s0 [b|]]; [cbn; lia|].
    destruct raw.
    + use_IH IH (with_last s0 (location_from_span sp)).
    + use_IH IH (with_last s0 (location_from_span sp)).
    + use_IH IH (with_last (reset_document_state s0) (location_from_span sp)).
    + match goal with |- context [if ?c then _ else _] => destruct c end.
      * destruct r as [|[[] sp2|] r2]; cbn; lia.
      * match goal with |- context [pull r ?st] => use_IH IH st end.
    + (* alias *)
      match goal with |- context [if ?c then _ else _] => destruct c end; [cbn; lia|].
      match goal with |- context [if ?c then _ else _] => destruct c end; [cbn; lia|].
      match goal with |- context [if existsb ?f ?l then _ else _] => destruct (existsb f l) end.
      { match goal with |- context [if ?c then _ else _] => destruct c end; cbn; [left; lia|lia]. }
      match goal with |- context [match assoc ?k ?l with _ => _ end] => destruct (assoc k l) end; [|cbn; lia].
      match goal with |- context [serve_inject ?i ?st r] =>
        destruct (serve_inject i st r) as [res|] eqn:E end.
      * apply serve_inject_spec in E. destruct res; cbn [length]; [destruct E as (-> & _); left; lia|contradiction|subst; lia].
      * match goal with |- context [pull r ?st] => use_IH IH st end.
    + match goal with |- context [if ?c then _ else _] => destruct c end; cbn; try (left; lia); lia.
    + cbn. left; lia.
    + destruct (bump_depth_on_end _); cbn; try (left; lia); lia.
    + cbn. left; lia.
    + destruct (bump_depth_on_end _); cbn; try (left; lia); lia.
    + use_IH IH s0.
Qed.

(* the work bound per delivered event *)
Theorem next_impl_step s rest e s' rest' :
  next_impl s rest = Yield e s' rest' -> step_kind s rest s' rest'.
Proof.
  unfold next_impl. destruct (serve_inject (lv_inject s) s rest) as [res|] eqn:E.
  - intros ->. apply serve_inject_spec in E. destruct E as (-> & H1 & H2 & _).
    apply Replayed; auto.
  - intros H. pose proof (pull_spec rest (with_inject s [])) as P. rewrite H in P.
    destruct P as [P|(-> & -> & P1 & P2)]; [apply ConsumedRaw; exact P|].
    apply Synthesized; auto.
Qed.

(* errors and end-of-stream never put items back either *)
Theorem next_impl_never_grows s rest :
  match next_impl s rest with
  | Yield _ _ r' | Eos _ r' | Fail _ _ r' => (length r' <= length rest)%nat
  end.
Proof.
  unfold next_impl. destruct (serve_inject (lv_inject s) s rest) as [res|] eqn:E.
  - apply serve_inject_spec in E. destruct res; [destruct E as (-> & _); lia|contradiction|subst; lia].
  - pose proof (pull_spec rest (with_inject s [])) as P. destruct (pull rest _); [|lia|lia].
    destruct P as [P|(-> & -> & _)]; cbn; lia.
Qed.

(* the replay limit is exact at each replayed event: it is delivered iff the running count stays
   within max_total_replayed_events *)
Lemma replay_limit_exact f below s rest buf e :
  assoc (if_anchor f) (lv_anchors s) = Some buf ->
  nth_error buf (N.to_nat (if_idx f)) = Some e ->
  lv_total_replayed s + 1 <= USIZE_MAX ->
  lv_budget s = None ->
  (max_total_replayed_events (lv_limits s) < lv_total_replayed s + 1 ->
   exists s', serve_inject (f :: below) s rest = Some (Fail (Err E_AliasReplayLimitExceeded (ev_loc e)) s' rest))
  /\ (lv_total_replayed s + 1 <= max_total_replayed_events (lv_limits s) ->
      exists s', serve_inject (f :: below) s rest = Some (Yield e s' rest)).
Proof.
  intros Ha Hn Hu Hb. cbn [serve_inject]. rewrite Ha, Hn.
  cbn [lv_total_replayed with_inject lv_limits with_replayed].
  destruct (N.ltb_spec USIZE_MAX (lv_total_replayed s + 1)); [lia|].
  split; intros Hl.
  - destruct (N.ltb_spec (max_total_replayed_events (lv_limits s)) (lv_total_replayed s + 1)); [eauto|lia].
  - destruct (N.ltb_spec (max_total_replayed_events (lv_limits s)) (lv_total_replayed s + 1)); [lia|].
    unfold observe_live. cbn [lv_budget with_replayed with_inject]. rewrite Hb. eauto.
Qed.
