(* ReaderRing.v -- RingReader is transparent: whatever interleaving of read(n) and get_recent()
   the consumer performs, the bytes it receives are a prefix of the inner stream, in order, with
   nothing lost to the read-ahead (C09). *)
From SS Require Import Model.Reader.
From Coq Require Import Lia.
Local Open Scope N_scope.

(* all the bytes a script will ever hand out, in order (reported errors carry no bytes) *)
Fixpoint all_bytes (s : script) : list N :=
  match s with
  | [] => []
  | RChunk b :: r => b ++ all_bytes r
  | RFail _ :: r => all_bytes r
  | REof :: r => all_bytes r
  end.

Lemma script_read_bytes n s : 
  match script_read n s with
  | (ROk got, s') => got ++ all_bytes s' = all_bytes s
  | (RErrK _, s') => all_bytes s' = all_bytes s
  end.
Proof.
  destruct s as [|st r]; [reflexivity|]. destruct st as [bs|k|]; cbn [script_read].
  - destruct (skipn n bs) as [|x xs] eqn:E; cbn [all_bytes].
    + rewrite <- (firstn_skipn n bs) at 2. rewrite E, app_nil_r. reflexivity.
    + rewrite app_assoc. f_equal. rewrite <- E. apply firstn_skipn.
  - reflexivity.
  - reflexivity.
Qed.

Definition remaining (r : ring) : list N := rg_stash r ++ all_bytes (rg_inner r).

Lemma ring_read_keeps n r :
  match ring_read n r with
  | (ROk got, r') => got ++ remaining r' = remaining r
  | (RErrK _, r') => remaining r' = remaining r
  end.
Proof.
  unfold ring_read, remaining. destruct n as [|n]; [reflexivity|].
  destruct (rg_stash r) as [|b st] eqn:Es.
  - pose proof (script_read_bytes (S n) (rg_inner r)) as H.
    destruct (script_read (S n) (rg_inner r)) as [[got|k] s'].
    + destruct got as [|g gs]; cbn [rg_stash rg_inner app] in *; [exact H|].
      destruct (push_ring _ _ _ _ _) as [[rg' st'] ln']. cbn [rg_stash rg_inner app]. exact H.
    + cbn [rg_stash rg_inner app]. exact H.
  - cbn [rg_stash rg_inner]. rewrite app_assoc. f_equal. apply firstn_skipn.
Qed.

Lemma read_ahead_keeps : forall fuel rem r,
  remaining (snd (read_ahead fuel rem r)) = remaining r.
Proof.
  induction fuel as [|f IH]; intros rem r; cbn [read_ahead].
  - destruct rem; reflexivity.
  - destruct rem as [|rem']; [reflexivity|].
    pose proof (script_read_bytes (Nat.min (S rem') 8192) (rg_inner r)) as H.
    destruct (script_read _ (rg_inner r)) as [[got|k] s'].
    + destruct got as [|g gs].
      * unfold remaining in *. cbn [snd rg_stash rg_inner]. cbn [app] in H. rewrite H. reflexivity.
      * destruct (push_ring _ _ _ _ _) as [[rg' st'] ln']. rewrite IH.
        unfold remaining. cbn [rg_stash rg_inner]. rewrite <- app_assoc. f_equal. exact H.
    + unfold remaining in *. cbn [snd rg_stash rg_inner]. rewrite H. reflexivity.
Qed.

Lemma ring_recent_keeps r : remaining (snd (ring_recent r)) = remaining r.
Proof.
  unfold ring_recent.
  pose proof (read_ahead_keeps (S (length (rg_inner r))) (N.to_nat MAX_READ_AHEAD - length (rg_stash r)) r) as H.
  destruct (read_ahead _ _ r) as [[k|] r']; cbn [snd] in *; exact H.
Qed.

(* The consumer's bytes, followed by what is still to come, are the inner stream. *)
Theorem ring_transparent : forall ops r out snaps,
  let '(out', _, _) := ring_run ops r out snaps in
  exists tail, out' ++ tail = out ++ remaining r.
Proof.
  induction ops as [|op ops IH]; intros r out snaps; cbn [ring_run].
  - exists (remaining r). reflexivity.
  - destruct op as [n|].
    + pose proof (ring_read_keeps n r) as H.
      destruct (ring_read n r) as [[got|k] r'].
      * specialize (IH r' (out ++ got) snaps).
        destruct (ring_run ops r' (out ++ got) snaps) as [[o s] e].
        destruct IH as [tail Ht]. exists tail. rewrite Ht, <- app_assoc, H. reflexivity.
      * exists (remaining r). reflexivity.
    + pose proof (ring_recent_keeps r) as H.
      destruct (ring_recent r) as [sn r']. cbn [snd] in H.
      specialize (IH r' out (sn :: snaps)).
      destruct (ring_run ops r' out (sn :: snaps)) as [[o s] e].
      destruct IH as [tail Ht]. exists tail. rewrite Ht, H. reflexivity.
Qed.

Corollary ring_output_is_prefix ops s :
  let '(out, _, _) := ring_run ops (ring_new s) [] [] in
  exists tail, all_bytes s = out ++ tail.
Proof.
  pose proof (ring_transparent ops (ring_new s) [] []) as H.
  destruct (ring_run ops (ring_new s) [] []) as [[o sn] e].
  destruct H as [tail Ht]. exists tail. cbn in Ht. symmetry. exact Ht.
Qed.
