(* Totality.v -- C01: the event pump always stops.  Every delivered event either consumes a raw parser
   item, or is a replayed event counted against the per-document limit, or is the single synthesized
   null; the alias limits are never changed by a step.  Hence from any state at most
   (items + 1) * (limit + 2) events are delivered before the end of the stream or an error. *)
From SS Require Import Model.Live Proofs.LiveBasic Proofs.LiveBounds.
From Coq Require Import Lia ZifyBool ZifyN ZifyNat.
Local Open Scope N_scope.

(* ---- the limits are constant ---- *)
Lemma record_limits s e a b : lv_limits (record s e a b) = lv_limits s.
Proof. apply record_fields. Qed.
Lemma bump_start_limits s : lv_limits (bump_depth_on_start s) = lv_limits s.
Proof. reflexivity. Qed.
Lemma bump_end_limits s s' : bump_depth_on_end s = Some s' -> lv_limits s' = lv_limits s.
Proof.
  unfold bump_depth_on_end. destruct (existsb _ _); [discriminate|].
  destruct (finalize_frames _ _) as [fs an]. intros H. inversion H. reflexivity.
Qed.
Lemma reset_limits s : lv_limits (reset_document_state s) = lv_limits s.
Proof. reflexivity. Qed.
Lemma yielded_limits s e : lv_limits (yielded s e) = lv_limits s.
Proof. reflexivity. Qed.
Lemma observe_limits s r : lv_limits (fst (observe_live s r)) = lv_limits s.
Proof. apply observe_live_limits. Qed.

Definition res_limits (r : step_result) : alias_limits :=
  match r with Yield _ s _ | Eos s _ | Fail _ s _ => lv_limits s end.

Lemma serve_inject_limits : forall inj s rest res,
  serve_inject inj s rest = Some res -> res_limits res = lv_limits s.
Proof.
  induction inj as [|f below IH]; intros s rest res H; cbn [serve_inject] in H; [discriminate|].
  destruct (assoc (if_anchor f) (lv_anchors s)) as [buf|]; [|inversion H; reflexivity].
  destruct (nth_error buf (N.to_nat (if_idx f))) as [e|]; [|apply IH in H; exact H].
  cbn [lv_total_replayed with_inject lv_limits with_replayed] in H.
  destruct (USIZE_MAX <? lv_total_replayed s + 1); [inversion H; reflexivity|].
  destruct (max_total_replayed_events (lv_limits s) <? lv_total_replayed s + 1); [inversion H; reflexivity|].
  match type of H with context [observe_live ?st ?r] =>
    pose proof (observe_limits st r) as O; destruct (observe_live st r) as [s3 [b|]] end;
    cbn [fst] in O; inversion H; subst; cbn [res_limits].
  - rewrite O. reflexivity.
  - rewrite yielded_limits, record_limits, O. reflexivity.
Qed.

Lemma pull_limits : forall rest s, res_limits (pull rest s) = lv_limits s.
Proof.
  induction rest as [|item r IH]; intros s.
  - cbn [pull]. destruct (negb (lv_produced_any s)); reflexivity.
  - cbn [pull]. destruct item as [raw sp|m ua]; [|reflexivity].
    pose proof (observe_limits s raw) as O. destruct (observe_live s raw) as [s0 [b|]]; cbn [fst] in O; [cbn; exact O|].
    destruct raw.
    + rewrite IH. cbn. exact O.
    + rewrite IH. cbn. exact O.
    + rewrite IH. cbn. exact O.
    + match goal with |- context [if ?c then _ else _] => destruct c end.
      * destruct r as [|[[] sp2|] r2]; cbn; exact O.
      * rewrite IH. cbn. exact O.
    + (* alias *)
      match goal with |- context [if ?c then _ else _] => destruct c end; [cbn; exact O|].
      match goal with |- context [if ?c then _ else _] => destruct c end; [cbn; exact O|].
      match goal with |- context [if existsb ?f ?l then _ else _] => destruct (existsb f l) end.
      { match goal with |- context [if ?c then _ else _] => destruct c end; cbn [res_limits].
        - rewrite yielded_limits, record_limits. cbn. exact O.
        - cbn. exact O. }
      match goal with |- context [match assoc ?k ?l with _ => _ end] => destruct (assoc k l) end; [|cbn; exact O].
      match goal with |- context [serve_inject ?i ?st r] => destruct (serve_inject i st r) as [res|] eqn:E end.
      * apply serve_inject_limits in E. rewrite E. cbn. exact O.
      * rewrite IH. cbn. exact O.
    + match goal with |- context [if ?c then _ else _] => destruct c end; cbn [res_limits]; [exact O|].
      destruct (negb (anchor =? 0)); rewrite yielded_limits; [|rewrite record_limits; exact O].
      cbn. rewrite record_limits. exact O.
    + cbn [res_limits]. rewrite yielded_limits, record_limits. destruct (negb (anchor =? 0)); cbn; exact O.
    + destruct (bump_depth_on_end _) as [s2|] eqn:B; cbn [res_limits].
      * rewrite yielded_limits, (bump_end_limits _ _ B), record_limits. exact O.
      * rewrite record_limits. exact O.
    + cbn [res_limits]. rewrite yielded_limits, record_limits. destruct (negb (anchor =? 0)); cbn; exact O.
    + destruct (bump_depth_on_end _) as [s2|] eqn:B; cbn [res_limits].
      * rewrite yielded_limits, (bump_end_limits _ _ B), record_limits. exact O.
      * rewrite record_limits. exact O.
    + rewrite IH. exact O.
Qed.

Theorem next_impl_limits s rest : res_limits (next_impl s rest) = lv_limits s.
Proof.
  unfold next_impl. destruct (serve_inject (lv_inject s) s rest) as [res|] eqn:E.
  - apply serve_inject_limits in E. exact E.
  - rewrite pull_limits. reflexivity.
Qed.

(* ---- the pump stops ---- *)
Lemma serve_inject_produced : forall inj s rest e s' r',
  serve_inject inj s rest = Some (Yield e s' r') -> lv_produced_any s' = true.
Proof.
  induction inj as [|f below IH]; intros s rest e0 s' r' H; cbn [serve_inject] in H; [discriminate|].
  destruct (assoc (if_anchor f) (lv_anchors s)) as [buf|]; [|discriminate].
  destruct (nth_error buf (N.to_nat (if_idx f))) as [e|]; [|apply IH in H; exact H].
  destruct (USIZE_MAX <? _); [discriminate|].
  destruct (max_total_replayed_events (lv_limits s) <? _); [discriminate|].
  match type of H with context [observe_live ?st ?r] => destruct (observe_live st r) as [s3 [b|]] end;
    [discriminate|]. inversion H. reflexivity.
Qed.

Definition lim_nat (s : live) : nat := N.to_nat (max_total_replayed_events (lv_limits s)).

(* termination measure: raw items first, then the pending synthesized null, then the replay allowance *)
Definition measure (s : live) (rest : list raw_item) : nat :=
  length rest * (2 * lim_nat s + 3)
  + (if lv_produced_any s then 0 else lim_nat s + 1)
  + (lim_nat s - N.to_nat (lv_total_replayed s)).

Theorem next_impl_decreases s rest e s' rest' :
  next_impl s rest = Yield e s' rest' -> (measure s' rest' < measure s rest)%nat.
Proof.
  intros H. pose proof (next_impl_limits s rest) as L. rewrite H in L. cbn [res_limits] in L.
  unfold measure, lim_nat. rewrite L. set (M := N.to_nat (max_total_replayed_events (lv_limits s))).
  revert H. unfold next_impl. destruct (serve_inject (lv_inject s) s rest) as [res|] eqn:E.
  - intros ->. pose proof (serve_inject_produced _ _ _ _ _ _ E) as P.
    apply serve_inject_spec in E. destruct E as (-> & H1 & H2 & _).
    rewrite P. unfold replay_ok in H2. rewrite L in H2. fold M.
    assert (N.to_nat (lv_total_replayed s') <= M)%nat by (unfold M; lia).
    destruct (lv_produced_any s); lia.
  - intros H. pose proof (pull_spec rest (with_inject s [])) as P. rewrite H in P.
    destruct P as [P|(-> & -> & P1 & P2)].
    + destruct (lv_produced_any s'), (lv_produced_any s); nia.
    + cbn [with_inject lv_produced_any] in P1. rewrite P2.
      replace (lv_produced_any s) with false by (destruct s; exact (eq_sym P1)).
      cbn [length]. lia.
Qed.

Theorem drain_stops : forall fuel s rest, (measure s rest < fuel)%nat ->
  exists n e, drain fuel s rest = Some (n, e) /\ (n <= measure s rest)%nat.
Proof.
  induction fuel as [|f IH]; intros s rest Hm; [lia|]. cbn [drain].
  destruct (next_impl s rest) as [e s' r'|s' r'|e s' r'] eqn:E.
  - apply next_impl_decreases in E. destruct (IH s' r') as (n & er & D & Hn); [lia|].
    rewrite D. exists (S n), er. split; [reflexivity|lia].
  - exists O, None. split; [reflexivity|lia].
  - exists O, (Some e). split; [reflexivity|lia].
Qed.

Lemma measure_bound s rest :
  (measure s rest <= (length rest + 1) * (2 * lim_nat s + 3))%nat.
Proof. unfold measure. destruct (lv_produced_any s); nia. Qed.

(* the closed form: at most (items + 1) * (2 * limit + 3) events are ever delivered *)
Theorem pump_terminates s rest :
  exists n e, drain (S ((length rest + 1) * (2 * lim_nat s + 3))) s rest = Some (n, e)
              /\ (n <= (length rest + 1) * (2 * lim_nat s + 3))%nat.
Proof.
  pose proof (measure_bound s rest) as B.
  destruct (drain_stops (S ((length rest + 1) * (2 * lim_nat s + 3))) s rest) as (n & e & D & Hn); [lia|].
  exists n, e. split; [exact D|lia].
Qed.

(* through the look-ahead slot: Events::next delivers the buffered event or calls next_impl *)
Definition measure_look (s : live) (rest : list raw_item) : nat :=
  measure s rest + (match lv_look s with Some _ => 1 | None => 0 end).

(* ---- non-vacuity: a stream that replays an anchored sequence twice; one that breaches the replay limit;
        an unterminated stream (scan error); the empty stream (synthesized null) ---- *)
Definition sp0 : pspan := mkSpan (mkMark 0 1 0 (Some 0)) (mkMark 1 1 1 (Some 1)).
Definition I (e : raw_ev) : raw_item := RItem e sp0.
Definition demo_stream : list raw_item :=
  [I RStreamStart; I (RDocStart false); I (RSeqStart 0 None);
   I (RSeqStart 1 None); I (RScalar [97] Plain 0 None); I RSeqEnd;
   I (RAlias 1); I (RAlias 1); I RSeqEnd; I RDocEnd; I RStreamEnd].
Definition lim_small (n : N) : alias_limits := mkLimits n 8 8.

Example demo_drains :
  drain 1000 (live_new None false (lim_small 100) false) demo_stream = Some (11%nat, None).
Proof. vm_compute. reflexivity. Qed.
Example demo_replay_limit :
  exists l, drain 1000 (live_new None false (lim_small 4) false) demo_stream
            = Some (8%nat, Some (Err E_AliasReplayLimitExceeded l)).
Proof. eexists. vm_compute. reflexivity. Qed.
Example demo_scan_error :
  exists e, drain 1000 (live_new None false (lim_small 4) false)
                  [I RStreamStart; I (RDocStart false); I (RSeqStart 0 None); RScanErr (mkMark 3 1 3 None) false]
            = Some (1%nat, Some e).
Proof. eexists. vm_compute. reflexivity. Qed.
Example demo_empty :
  drain 1000 (live_new None false (lim_small 4) false) [] = Some (1%nat, None).
Proof. vm_compute. reflexivity. Qed.

(* ---- the residual slicing site of radix_and_digits: `&rest[2..]` is taken only behind two ASCII zeros ---- *)
Lemma radix_slice_in_bounds (rest : str) :
  starts_with [48; 48] rest = true -> exists r, rest = 48 :: 48 :: r /\ skipn 2 rest = r.
Proof.
  unfold starts_with. destruct rest as [|a [|b r]]; cbn [strip_prefix].
  - discriminate.
  - destruct (48 =? a); discriminate.
  - destruct (48 =? a) eqn:Ea; [|discriminate]. destruct (48 =? b) eqn:Eb; [|discriminate].
    intros _. apply N.eqb_eq in Ea, Eb. subst. exists r. split; reflexivity.
Qed.

(* a scan error of the parser is turned into an error value and consumed *)
Lemma scan_error_is_a_value s m ua r :
  pull (RScanErr m ua :: r) s =
  Fail (Err (if ua then E_UnknownAnchor else E_ExternalMessage) (location_from_scan_mark m)) s r.
Proof. reflexivity. Qed.
