(* DeserMerge.v -- merge keys (C03): what counts as a merge key, which merge values are accepted,
   the order in which merge batches are flushed, and that merged duplicates are dropped silently
   under every duplicate-key policy. *)
From SS Require Import Model.Deser Proofs.DeserNodes.
From Coq Require Import Lia.
Local Open Scope N_scope.

(* `<<` is a merge key only as an untagged plain scalar: quoted or tagged it is an ordinary key *)
Lemma is_merge_key_iff k :
  is_merge_key k = true <->
  exists raw a l, kn_events k = [EScalar [60; 60] TAG_None raw Plain a l].
Proof.
  unfold is_merge_key. destruct (kn_events k) as [|e [|e2 r]].
  - split; [discriminate|intros (? & ? & ? & H); discriminate].
  - destruct e as [v tag raw st a l| | | |]; try (split; [discriminate|intros (? & ? & ? & H); discriminate]).
    destruct st; try (split; [discriminate|intros (? & ? & ? & H); inversion H]).
    rewrite Bool.andb_true_iff, N.eqb_eq, str_eqb_eq. split.
    + intros [-> ->]. eauto.
    + intros (? & ? & ? & H). inversion H. auto.
  - destruct e as [v tag raw st a l| | | |]; try (split; [discriminate|intros (? & ? & ? & H); discriminate]).
    destruct st; split; try discriminate; intros (? & ? & ? & H); discriminate.
Qed.

Lemma quoted_or_tagged_is_ordinary v tag raw st a l :
  st <> Plain \/ tag <> TAG_None ->
  is_merge_key (mkKN (FScalar v tag) [EScalar v tag raw st a l] l) = false.
Proof.
  intros H. destruct (is_merge_key _) eqn:E; [|reflexivity].
  apply is_merge_key_iff in E. destruct E as (r & a' & l' & E). cbn in E. inversion E; subst.
  destruct H; congruence.
Qed.

(* a scalar merge value: null-like contributes nothing, anything else is rejected *)
Lemma merge_value_scalar fuel v tag raw st a l location reference :
  pending_from_events (S fuel) [EScalar v tag raw st a l] location reference =
  if scalar_is_nullish v st
  then POk [] (replay_with_reference [EScalar v tag raw st a l] reference)
  else PErr (attach_alias_locations (Err E_MergeValueNotMapOrSeqOfMaps l) reference l).
Proof. reflexivity. Qed.

Lemma merge_value_live_scalar fuel v tag raw st a l prev rest ref merge_ref :
  scalar_is_nullish v st = false ->
  pending_from_live (S fuel) (SReplay prev (EScalar v tag raw st a l :: rest) ref) merge_ref =
  PErr (attach_alias_locations (Err E_MergeValueNotMapOrSeqOfMaps l) merge_ref l).
Proof. intros H. cbn. rewrite H. reflexivity. Qed.

(* merge batches are flushed newest first: a later `<<` entry is offered before an earlier one *)
Lemma next_merge_batch_newest_first b stack :
  b <> [] -> next_merge_batch (b :: stack) = Some (b, stack).
Proof. intros H. destruct b; [congruence|reflexivity]. Qed.
Lemma next_merge_batch_skips_empty stack : next_merge_batch ([] :: stack) = next_merge_batch stack.
Proof. reflexivity. Qed.

(* during the flush a key that is already present (own key, or offered by a later merge source)
   is dropped silently -- the duplicate-key policy is not consulted *)
Lemma flush_drops_present f c seen e pend stack pv x :
  fp_mem (kn_fp (pe_key e)) seen = true ->
  ma_next_key (S f) c (mkMA seen (e :: pend) stack true pv) x =
  ma_next_key f c (mkMA seen pend stack true pv) x.
Proof. intros H. cbn [ma_next_key ma_pending ma_flushing ma_seen]. rewrite H. reflexivity. Qed.

Lemma flush_delivers_absent f c seen e pend stack pv x :
  fp_mem (kn_fp (pe_key e)) seen = false ->
  kemn_direct (kn_fp (pe_key e)) = false -> kemn_one_entry_nullish (kn_fp (pe_key e)) = false ->
  ma_next_key (S f) c (mkMA seen (e :: pend) stack true pv) x =
  KKey (kn_events (pe_key e)) false (kn_loc (pe_key e))
       (mkMA (kn_fp (pe_key e) :: seen) pend stack true (Some (kn_events (pe_val e), pe_ref e))) x.
Proof.
  intros H H1 H2. cbn [ma_next_key ma_pending ma_flushing ma_seen]. rewrite H, H1, H2. reflexivity.
Qed.

(* own entries come first: merge entries met while reading the mapping are only stacked *)
Lemma policy_independent_of_flush_drop c1 c2 f seen e pend stack pv x :
  fp_mem (kn_fp (pe_key e)) seen = true ->
  ma_next_key (S f) c1 (mkMA seen (e :: pend) stack true pv) x =
  ma_next_key f c1 (mkMA seen pend stack true pv) x /\
  ma_next_key (S f) c2 (mkMA seen (e :: pend) stack true pv) x =
  ma_next_key f c2 (mkMA seen pend stack true pv) x.
Proof. intros H. split; apply flush_drops_present; exact H. Qed.

(* ---- the whole flush: what a mapping delivers after its own entries ---- *)
(* the entries offered during the flush, in order: the pending queue, then the batches newest first *)
Definition offered (m : ma) : list pending_entry := ma_pending m ++ concat (ma_merge_stack m).

(* "first one wins, silently": an offered entry is delivered iff no earlier delivered key (own keys
   included: they are in [seen]) has the same fingerprint *)
Fixpoint survivors (seen : list fp) (entries : list pending_entry) : list pending_entry :=
  match entries with
  | [] => []
  | e :: r => if fp_mem (kn_fp (pe_key e)) seen then survivors seen r
              else e :: survivors (kn_fp (pe_key e) :: seen) r
  end.

(* what next_key hands out for an entry: the key events, the key-empty-map-null flag, the value events *)
Definition handed_out (e : pending_entry) : list ev * bool * list ev :=
  let fpk := kn_fp (pe_key e) in
  let events := kn_events (pe_key e) in
  let value_events := kn_events (pe_val e) in
  if kemn_direct fpk then (events, true, value_events)
  else if kemn_one_entry_nullish fpk then
    match one_entry_map_split events with
    | Some (_, inner_value) => (first_last events, true, inner_value)
    | None => (events, false, value_events)
    end
  else (events, false, value_events).

Definition flush_measure (m : ma) : nat := length (offered m) + length (ma_merge_stack m).

Lemma concat_length_nil {A} (l : list (list A)) : length (concat ([] :: l)) = length (concat l).
Proof. reflexivity. Qed.

Lemma nmb_spec stack :
  match next_merge_batch stack with
  | None => concat stack = []
  | Some (b, st') => b <> [] /\ concat stack = b ++ concat st' /\ (length st' < length stack)%nat
  end.
Proof.
  induction stack as [|b r IH]; [reflexivity|]. destruct b as [|e b'].
  - cbn [next_merge_batch concat app]. destruct (next_merge_batch r) as [[b2 st2]|]; [|exact IH].
    destruct IH as (H1 & H2 & H3). split; [exact H1|]. split; [exact H2|]. cbn [length]. lia.
  - cbn [next_merge_batch concat]. split; [discriminate|]. split; [reflexivity|]. cbn [length]. lia.
Qed.

(* one call of next_key during the flush: the end of the mapping, or the first survivor *)
Lemma flush_next_key c x : forall fuel m,
  ma_flushing m = true -> (flush_measure m < fuel)%nat ->
  match survivors (ma_seen m) (offered m) with
  | [] => ma_next_key fuel c m x = KEnd (mkMA (ma_seen m) [] [] false (ma_pending_value m)) x
  | e :: _ =>
    exists pend' stack',
      let '(kev, kemn, vev) := handed_out e in
      ma_next_key fuel c m x =
        KKey kev kemn (kn_loc (pe_key e))
             (mkMA (kn_fp (pe_key e) :: ma_seen m) pend' stack' true (Some (vev, pe_ref e))) x
      /\ survivors (ma_seen m) (offered m)
         = e :: survivors (kn_fp (pe_key e) :: ma_seen m) (pend' ++ concat stack')
      /\ (length (pend' ++ concat stack') + length stack' < flush_measure m)%nat
  end.
Proof.
  induction fuel as [|f IH]; intros m Hfl Hm; [lia|].
  destruct m as [seen pend stack fl pv]. cbn [ma_flushing] in Hfl. subst fl.
  unfold flush_measure, offered in *. cbn [ma_pending ma_merge_stack ma_seen ma_pending_value] in *.
  destruct pend as [|e pend].
  - (* the queue is empty: take the next non-empty batch *)
    cbn [app] in *.
    assert (E : ma_next_key (S f) c (mkMA seen [] stack true pv) x =
                match next_merge_batch stack with
                | Some (b, stack') => ma_next_key f c (mkMA seen b stack' true pv) x
                | None => KEnd (mkMA seen [] [] false pv) x
                end) by reflexivity.
    rewrite E. pose proof (nmb_spec stack) as NB. destruct (next_merge_batch stack) as [[b st']|].
    + destruct NB as (Hb & Hc & Hl). rewrite Hc.
      specialize (IH (mkMA seen b st' true pv) eq_refl).
      unfold flush_measure, offered in IH. cbn [ma_pending ma_merge_stack ma_seen ma_pending_value] in IH.
      rewrite Hc in Hm. specialize (IH ltac:(lia)).
      destruct (survivors seen (b ++ concat st')) as [|e1 r1].
      { exact IH. }
      { destruct IH as (p' & s' & IH). exists p', s'. destruct (handed_out e1) as [[kev kemn] vev].
        destruct IH as (I1 & I2 & I3). split; [exact I1|]. split; [exact I2|]. lia. }
    + rewrite NB. cbn [survivors]. reflexivity.
  - (* an entry is waiting *)
    cbn [app survivors]. destruct (fp_mem (kn_fp (pe_key e)) seen) eqn:Hd.
    + (* already present: dropped silently *)
      rewrite (flush_drops_present f c seen e pend stack pv x Hd).
      specialize (IH (mkMA seen pend stack true pv) eq_refl).
      unfold flush_measure, offered in IH. cbn [ma_pending ma_merge_stack ma_seen ma_pending_value] in IH.
      cbn [length app] in Hm. specialize (IH ltac:(lia)).
      destruct (survivors seen (pend ++ concat stack)) as [|e1 r1].
      { exact IH. }
      { destruct IH as (p' & s' & IH). exists p', s'. destruct (handed_out e1) as [[kev kemn] vev].
        destruct IH as (I1 & I2 & I3). split; [exact I1|]. split; [exact I2|]. cbn [length app]. lia. }
    + (* delivered *)
      exists pend, stack. unfold handed_out.
      cbn [ma_next_key ma_pending ma_flushing ma_seen ma_merge_stack ma_pending_value]. rewrite Hd.
      destruct (kemn_direct (kn_fp (pe_key e))).
      { split; [reflexivity|]. split; [reflexivity|]. cbn [length app]. lia. }
      destruct (kemn_one_entry_nullish (kn_fp (pe_key e))).
      { destruct (one_entry_map_split (kn_events (pe_key e))) as [[a b]|];
          (split; [reflexivity|]); (split; [reflexivity|]); cbn [length app]; lia. }
      split; [reflexivity|]. split; [reflexivity|]. cbn [length app]. lia.
Qed.

(* all the keys of the flush, by repeated next_key calls (the value is taken in between and does not
   touch the flush state) *)
Fixpoint flush_all (n fuel : nat) (c : dcfg) (m : ma) (x : src)
  : option (list (list ev * bool * loc * list ev * loc)) :=
  match n with
  | O => None
  | S n' =>
    match ma_next_key fuel c m x with
    | KEnd _ _ => Some []
    | KKey kev kemn kloc m' x' =>
      match ma_pending_value m', flush_all n' fuel c m' x' with
      | Some (vev, vref), Some l => Some ((kev, kemn, kloc, vev, vref) :: l)
      | _, _ => None
      end
    | _ => None
    end
  end.

Definition handed_out_row (e : pending_entry) : list ev * bool * loc * list ev * loc :=
  let '(kev, kemn, vev) := handed_out e in (kev, kemn, kn_loc (pe_key e), vev, pe_ref e).

(* THE FLUSH THEOREM: after its own entries a mapping delivers exactly the survivors of the offered
   merge entries -- sources newest first, a key already present (own, or from a newer source)
   dropped silently, whatever the duplicate-key policy -- each with its recorded value *)
Theorem flush_delivers_survivors c x : forall n m fuel,
  ma_flushing m = true -> (flush_measure m < n)%nat -> (flush_measure m < fuel)%nat ->
  flush_all n fuel c m x = Some (map handed_out_row (survivors (ma_seen m) (offered m))).
Proof.
  induction n as [|n IH]; intros m fuel Hfl Hn Hf; [lia|]. cbn [flush_all].
  pose proof (flush_next_key c x fuel m Hfl Hf) as K.
  destruct (survivors (ma_seen m) (offered m)) as [|e r] eqn:S.
  - rewrite K. reflexivity.
  - destruct K as (p' & s' & K). cbn [map]. unfold handed_out_row at 1.
    destruct (handed_out e) as [[kev kemn] vev].
    destruct K as (K1 & K2 & K3). rewrite K1. cbn [ma_pending_value].
    specialize (IH (mkMA (kn_fp (pe_key e) :: ma_seen m) p' s' true (Some (vev, pe_ref e))) fuel eq_refl).
    unfold flush_measure, offered in IH. cbn [ma_pending ma_merge_stack ma_seen] in IH.
    rewrite IH by (unfold flush_measure, offered in *; lia).
    inversion K2; subst. reflexivity.
Qed.
