(* DeserMerge.v -- merge keys (C03): what counts as a merge key, which merge values are accepted,
   the order in which merge batches are flushed, and that merged duplicates are dropped silently
   under every duplicate-key policy. *)
From SS Require Import Model.Deser Proofs.DeserNodes.
From Coq Require Import Lia.
Local Open Scope N_scope.

(* `<<` is a merge key only as an untagged plain scalar: quoted or tagged it is an ordinary key *)
Lemma is_merge_key_iff k :
  is_merge_key k = true <->
  exists raw a l, kn_events k = [EScalar [60; 60] TAG_None raw Plain a l].
Proof.
  unfold is_merge_key. destruct (kn_events k) as [|e [|e2 r]].
  - split; [discriminate|intros (? & ? & ? & H); discriminate].
  - destruct e as [v tag raw st a l| | | |]; try (split; [discriminate|intros (? & ? & ? & H); discriminate]).
    destruct st; try (split; [discriminate|intros (? & ? & ? & H); inversion H]).
    rewrite Bool.andb_true_iff, N.eqb_eq, str_eqb_eq. split.
    + intros [-> ->]. eauto.
    + intros (? & ? & ? & H). inversion H. auto.
  - destruct e as [v tag raw st a l| | | |]; try (split; [discriminate|intros (? & ? & ? & H); discriminate]).
    destruct st; split; try discriminate; intros (? & ? & ? & H); discriminate.
Qed.

Lemma quoted_or_tagged_is_ordinary v tag raw st a l :
  st <> Plain \/ tag <> TAG_None ->
  is_merge_key (mkKN (FScalar v tag) [EScalar v tag raw st a l] l) = false.
Proof.
  intros H. destruct (is_merge_key _) eqn:E; [|reflexivity].
  apply is_merge_key_iff in E. destruct E as (r & a' & l' & E). cbn in E. inversion E; subst.
  destruct H; congruence.
Qed.

(* a scalar merge value: null-like contributes nothing, anything else is rejected *)
Lemma merge_value_scalar fuel v tag raw st a l location reference :
  pending_from_events (S fuel) [EScalar v tag raw st a l] location reference =
  if scalar_is_nullish v st
  then POk [] (replay_with_reference [EScalar v tag raw st a l] reference)
  else PErr (Err E_MergeValueNotMapOrSeqOfMaps l).
Proof. reflexivity. Qed.

Lemma merge_value_live_scalar fuel v tag raw st a l prev rest ref merge_ref :
  scalar_is_nullish v st = false ->
  pending_from_live (S fuel) (SReplay prev (EScalar v tag raw st a l :: rest) ref) merge_ref =
  PErr (Err E_MergeValueNotMapOrSeqOfMaps l).
Proof. intros H. cbn. rewrite H. reflexivity. Qed.

(* merge batches are flushed newest first: a later `<<` entry is offered before an earlier one *)
Lemma next_merge_batch_newest_first b stack :
  b <> [] -> next_merge_batch (b :: stack) = Some (b, stack).
Proof. intros H. destruct b; [congruence|reflexivity]. Qed.
Lemma next_merge_batch_skips_empty stack : next_merge_batch ([] :: stack) = next_merge_batch stack.
Proof. reflexivity. Qed.

(* during the flush a key that is already present (own key, or offered by a later merge source)
   is dropped silently -- the duplicate-key policy is not consulted *)
Lemma flush_drops_present f c seen e pend stack pv x :
  fp_mem (kn_fp (pe_key e)) seen = true ->
  ma_next_key (S f) c (mkMA seen (e :: pend) stack true pv) x =
  ma_next_key f c (mkMA seen pend stack true pv) x.
Proof. intros H. cbn [ma_next_key ma_pending ma_flushing ma_seen]. rewrite H. reflexivity. Qed.

Lemma flush_delivers_absent f c seen e pend stack pv x :
  fp_mem (kn_fp (pe_key e)) seen = false ->
  kemn_direct (kn_fp (pe_key e)) = false -> kemn_one_entry_nullish (kn_fp (pe_key e)) = false ->
  ma_next_key (S f) c (mkMA seen (e :: pend) stack true pv) x =
  KKey (kn_events (pe_key e)) false (kn_loc (pe_key e))
       (mkMA (kn_fp (pe_key e) :: seen) pend stack true (Some (kn_events (pe_val e), pe_ref e))) x.
Proof.
  intros H H1 H2. cbn [ma_next_key ma_pending ma_flushing ma_seen]. rewrite H, H1, H2. reflexivity.
Qed.

(* own entries come first: merge entries met while reading the mapping are only stacked *)
Lemma policy_independent_of_flush_drop c1 c2 f seen e pend stack pv x :
  fp_mem (kn_fp (pe_key e)) seen = true ->
  ma_next_key (S f) c1 (mkMA seen (e :: pend) stack true pv) x =
  ma_next_key f c1 (mkMA seen pend stack true pv) x /\
  ma_next_key (S f) c2 (mkMA seen (e :: pend) stack true pv) x =
  ma_next_key f c2 (mkMA seen pend stack true pv) x.
Proof. intros H. split; apply flush_drops_present; exact H. Qed.
