(* LiveBasic.v -- first facts about the live event pump (C02, C08, C11): document boundaries clear
   every anchor, an alias with no closed anchor is an error, the replay stack never nests, anchors
   are value-neutral on scalars. *)
From SS Require Import Model.Live.
From Coq Require Import Lia ZifyBool ZifyN.
Local Open Scope N_scope.

Lemma reset_clears s :
  let s' := reset_document_state s in
  lv_anchors s' = [] /\ lv_rec s' = [] /\ lv_inject s' = [] /\ lv_expansions s' = []
  /\ lv_total_replayed s' = 0 /\ lv_seen_doc_end s' = false
  /\ lv_budget s' = lv_budget s /\ lv_limits s' = lv_limits s /\ lv_look s' = lv_look s
  /\ lv_produced_any s' = lv_produced_any s.
Proof. destruct s; cbn. repeat split; reflexivity. Qed.

Definition no_budget (s : live) : Prop := lv_budget s = None.

Lemma observe_live_none s r : no_budget s -> observe_live s r = (s, None).
Proof. unfold no_budget, observe_live. intros ->. reflexivity. Qed.

(* limits that an alias at this point does not hit *)
Definition alias_within_limits (s : live) (id : N) : Prop :=
  sat_add (expansions_of s id) 1 <= max_alias_expansions_per_anchor (lv_limits s)
  /\ 1 <= max_replay_stack_depth (lv_limits s).

(* An alias whose id has no closed buffer and is not being recorded is UnknownAnchor -- never a
   default or a stale value. *)
Lemma alias_unknown_is_error s id sp r :
  no_budget s -> lv_inject s = [] -> alias_within_limits s id ->
  assoc id (lv_anchors s) = None ->
  existsb (fun f => rf_id f =? id) (lv_rec s) = false ->
  exists s', pull (RItem (RAlias id) sp :: r) s = Fail (Err E_UnknownAnchor (location_from_span sp)) s' r.
Proof.
  intros Hb Hinj [Hl1 Hl2] Ha Hr. cbn [pull]. rewrite (observe_live_none _ _ Hb).
  cbn [lv_limits with_expansions lv_inject lv_rec lv_anchors lv_recursive_in_progress].
  destruct (N.ltb_spec (max_alias_expansions_per_anchor (lv_limits s)) (sat_add (expansions_of s id) 1)); [lia|].
  rewrite Hinj. cbn [len_N length N.of_nat N.add].
  destruct (N.ltb_spec (max_replay_stack_depth (lv_limits s)) 1); [lia|].
  rewrite Hr, Ha. eauto.
Qed.

(* An alias to a node that is still being recorded (it lies inside its own anchor) is rejected,
   unless the recursive wrapper machinery announced that id. *)
Lemma alias_into_open_anchor_is_error s id sp r :
  no_budget s -> lv_inject s = [] -> alias_within_limits s id ->
  existsb (fun f => rf_id f =? id) (lv_rec s) = true ->
  mem_N id (lv_recursive_in_progress s) = false ->
  exists s', pull (RItem (RAlias id) sp :: r) s =
             Fail (Err E_RecursiveReferencesRequireWeakTypes (location_from_span sp)) s' r.
Proof.
  intros Hb Hinj [Hl1 Hl2] Hr Hm. cbn [pull]. rewrite (observe_live_none _ _ Hb).
  cbn [lv_limits with_expansions lv_inject lv_rec lv_anchors lv_recursive_in_progress].
  destruct (N.ltb_spec (max_alias_expansions_per_anchor (lv_limits s)) (sat_add (expansions_of s id) 1)); [lia|].
  rewrite Hinj. cbn [len_N length N.of_nat N.add].
  destruct (N.ltb_spec (max_replay_stack_depth (lv_limits s)) 1); [lia|].
  rewrite Hr, Hm. eauto.
Qed.

(* A document start wipes the anchor table before anything of the new document is read, so an id
   defined in an earlier document can never be found. *)
Lemma docstart_forgets_anchors s x sp r :
  no_budget s ->
  pull (RItem (RDocStart x) sp :: r) s = pull r (with_last (reset_document_state s) (location_from_span sp)).
Proof. intros Hb. cbn [pull]. rewrite (observe_live_none _ _ Hb). reflexivity. Qed.

(* The replay stack: the parser is consulted only when no injection frame is live, so the depth an
   alias is checked against is always 1 (aliases inside replayed buffers do not exist: buffers hold
   expanded events only). *)
Lemma next_impl_pulls_with_empty_stack s rest :
  serve_inject (lv_inject s) s rest = None ->
  next_impl s rest = pull rest (with_inject s []).
Proof. unfold next_impl. intros ->. reflexivity. Qed.

Lemma stack_depth_zero_rejects_every_alias s id sp r :
  no_budget s -> lv_inject s = [] ->
  sat_add (expansions_of s id) 1 <= max_alias_expansions_per_anchor (lv_limits s) ->
  max_replay_stack_depth (lv_limits s) = 0 ->
  exists s', pull (RItem (RAlias id) sp :: r) s =
             Fail (Err E_AliasReplayStackDepthExceeded (location_from_span sp)) s' r.
Proof.
  intros Hb Hinj Hl1 H0. cbn [pull]. rewrite (observe_live_none _ _ Hb).
  cbn [lv_limits with_expansions lv_inject].
  destruct (N.ltb_spec (max_alias_expansions_per_anchor (lv_limits s)) (sat_add (expansions_of s id) 1)); [lia|].
  rewrite Hinj, H0. cbn. eauto.
Qed.

(* erasing what transparency ignores: anchor ids *)
Definition erase_anchor (e : ev) : ev :=
  match e with
  | EScalar v t rt st _ l => EScalar v t rt st 0 l
  | ESeqStart _ t rt l => ESeqStart 0 t rt l
  | EMapStart _ l => EMapStart 0 l
  | other => other
  end.

(* Attaching an anchor to a scalar never changes the event delivered for it (former finding F12:
   an anchored empty quoted scalar used to be turned into a plain, i.e. null-like, one). *)
Lemma scalar_anchor_neutral s v st a tag sp r :
  no_budget s -> lv_rec s = [] ->
  match pull (RItem (RScalar v st a tag) sp :: r) s, pull (RItem (RScalar v st 0 tag) sp :: r) s with
  | Yield e1 _ r1, Yield e2 _ r2 => erase_anchor e1 = erase_anchor e2 /\ r1 = r2
  | Fail e1 _ _, Fail e2 _ _ => e1 = e2
  | _, _ => False
  end.
Proof.
  intros Hb Hr. cbn [pull]. rewrite !(observe_live_none _ _ Hb).
  match goal with |- context [if ?c then _ else _] => destruct c end; [reflexivity|].
  split; reflexivity.
Qed.
