(* Anchors.v -- C14: two anchored nodes share one allocation after the round trip exactly if they
   did before. *)
From SS Require Import Model.Anchors.
From Coq Require Import Lia.
Local Open Scope N_scope.

(* invariant of the serializer's table: ids below `next`, no address twice, no id twice *)
Definition table_ok (t : list (N * N)) (next : N) : Prop :=
  1 <= next /\
  (forall p id, lookup p t = Some id -> id < next /\ 1 <= id)
  /\ (forall p q id, lookup p t = Some id -> lookup q t = Some id -> p = q).

Lemma lookup_cons p k v t : lookup p ((k, v) :: t) = if p =? k then Some v else lookup p t.
Proof. reflexivity. Qed.

Lemma table_ok_extend t next p : table_ok t next -> lookup p t = None -> table_ok ((p, next) :: t) (next + 1).
Proof.
  intros (H0 & H1 & H2) Hn. split; [lia|]. split.
  - intros q id. rewrite lookup_cons. destruct (N.eqb_spec q p) as [->|Hne].
    + intros E; inversion E; subst. lia.
    + intros E. apply H1 in E. lia.
  - intros q q' id. rewrite !lookup_cons.
    destruct (N.eqb_spec q p) as [->|Hq]; destruct (N.eqb_spec q' p) as [->|Hq']; intros A B.
    + reflexivity.
    + inversion A; subst. apply H1 in B. lia.
    + inversion B; subst. apply H1 in A. lia.
    + eapply H2; eassumption.
Qed.

(* the relation between addresses and ids produced along a run *)
Lemma ser_marks_spec : forall ptrs t next,
  table_ok t next ->
  length (ser_marks ptrs t next) = length ptrs
  /\ forall i p m, nth_error ptrs i = Some p -> nth_error (ser_marks ptrs t next) i = Some m ->
       (* the id is the table's id for p if it was known, otherwise a new id >= next *)
       (forall id, lookup p t = Some id -> mark_id m = id)
       /\ (lookup p t = None -> next <= mark_id m).
Proof.
  induction ptrs as [|p r IH]; intros t next Hok.
  - split; [reflexivity|]. intros i p m H; destruct i; discriminate.
  - cbn [ser_marks]. destruct (lookup p t) as [id|] eqn:L.
    + destruct (IH t next Hok) as [Hl Hs]. split; [cbn; f_equal; exact Hl|].
      intros [|i] q m Hq Hm; cbn in Hq, Hm.
      * inversion Hq; inversion Hm; subst. split; [intros id' E; rewrite L in E; inversion E; reflexivity|intros E; rewrite L in E; discriminate].
      * eapply Hs; eassumption.
    + pose proof (table_ok_extend t next p Hok L) as Hok'.
      destruct (IH ((p, next) :: t) (next + 1) Hok') as [Hl Hs]. split; [cbn; f_equal; exact Hl|].
      intros [|i] q m Hq Hm; cbn in Hq, Hm.
      * inversion Hq; inversion Hm; subst. cbn. split; [intros id' E; rewrite L in E; discriminate|intros _; lia].
      * destruct (Hs i q m Hq Hm) as [A B]. rewrite lookup_cons in A, B.
        destruct (N.eqb_spec q p) as [->|Hne].
        { split; [intros id' E; rewrite L in E; discriminate|intros _; rewrite (A next eq_refl); lia]. }
        { split; [exact A|intros E; specialize (B E); lia]. }
Qed.

(* two sightings get the same id exactly if they are the same address *)
Theorem serializer_ids_are_the_sharing_relation : forall ptrs t next,
  table_ok t next ->
  forall i j p q m n,
    nth_error ptrs i = Some p -> nth_error ptrs j = Some q ->
    nth_error (ser_marks ptrs t next) i = Some m -> nth_error (ser_marks ptrs t next) j = Some n ->
    (mark_id m = mark_id n <-> p = q).
Proof.
  induction ptrs as [|x r IH]; intros t next Hok i j p q m n Hp Hq Hm Hn.
  - destruct i; discriminate.
  - cbn [ser_marks] in Hm, Hn. destruct (lookup x t) as [idx|] eqn:L.
    + (* x already known *)
      destruct i as [|i], j as [|j]; cbn in Hp, Hq, Hm, Hn.
      * inversion Hp; inversion Hq; inversion Hm; inversion Hn; subst. tauto.
      * inversion Hp; inversion Hm; subst. cbn [mark_id].
        destruct (ser_marks_spec r t next Hok) as [_ Hs]. destruct (Hs j q n Hq Hn) as [A B].
        split.
        { intros E. destruct (lookup q t) as [idq|] eqn:Lq.
          - rewrite (A idq eq_refl) in E. subst. destruct Hok as (_ & _ & H2). eapply H2; eassumption.
          - specialize (B eq_refl). destruct Hok as (_ & H1 & _). apply H1 in L. lia. }
        { intros <-. symmetry. apply A. exact L. }
      * inversion Hq; inversion Hn; subst. cbn [mark_id].
        destruct (ser_marks_spec r t next Hok) as [_ Hs]. destruct (Hs i p m Hp Hm) as [A B].
        split.
        { intros E. destruct (lookup p t) as [idp|] eqn:Lp.
          - rewrite (A idp eq_refl) in E. subst. destruct Hok as (_ & _ & H2). eapply H2; eassumption.
          - specialize (B eq_refl). destruct Hok as (_ & H1 & _). apply H1 in L. lia. }
        { intros ->. apply A. exact L. }
      * eapply IH; eassumption.
    + pose proof (table_ok_extend t next x Hok L) as Hok'.
      destruct i as [|i], j as [|j]; cbn in Hp, Hq, Hm, Hn.
      * inversion Hp; inversion Hq; inversion Hm; inversion Hn; subst. tauto.
      * inversion Hp; inversion Hm; subst. cbn [mark_id].
        destruct (ser_marks_spec r _ _ Hok') as [_ Hs]. destruct (Hs j q n Hq Hn) as [A B].
        rewrite lookup_cons in A, B. destruct (N.eqb_spec q p) as [->|Hne].
        { split; [reflexivity|intros _; symmetry; apply A; reflexivity]. }
        { split; [|intros E; subst; contradiction].
          intros E. exfalso. destruct (lookup q t) as [idq|] eqn:Lq.
          - rewrite (A idq eq_refl) in E. destruct Hok as (_ & H1 & _). apply H1 in Lq. lia.
          - specialize (B eq_refl). lia. }
      * inversion Hq; inversion Hn; subst. cbn [mark_id].
        destruct (ser_marks_spec r _ _ Hok') as [_ Hs]. destruct (Hs i p m Hp Hm) as [A B].
        rewrite lookup_cons in A, B. destruct (N.eqb_spec p q) as [->|Hne].
        { split; [reflexivity|intros _; apply A; reflexivity]. }
        { split; [|intros E; subst; contradiction].
          intros E. exfalso. destruct (lookup p t) as [idp|] eqn:Lp.
          - rewrite (A idp eq_refl) in E. destruct Hok as (_ & H1 & _). apply H1 in Lp. lia.
          - specialize (B eq_refl). lia. }
      * eapply IH; eassumption.
Qed.

Lemma table_ok_empty : table_ok [] 1.
Proof. split; [lia|]. split; intros; discriminate. Qed.

Theorem serialize_preserves_sharing ptrs i j p q m n :
  nth_error ptrs i = Some p -> nth_error ptrs j = Some q ->
  nth_error (serialize ptrs) i = Some m -> nth_error (serialize ptrs) j = Some n ->
  (mark_id m = mark_id n <-> p = q).
Proof. apply serializer_ids_are_the_sharing_relation. exact table_ok_empty. Qed.

(* ---- the reader side, fused with the writer ---- *)
Lemma de_of_ser : forall ptrs t next s,
  table_ok t next ->
  (forall p id, lookup p t = Some id -> lookup id s = Some (id - 1)) ->
  de_allocs (ser_marks ptrs t next) s (next - 1) = Some (map (fun m => mark_id m - 1) (ser_marks ptrs t next)).
Proof.
  induction ptrs as [|p r IH]; intros t next s Hok Hs; [reflexivity|].
  cbn [ser_marks]. destruct (lookup p t) as [id|] eqn:L.
  - cbn [de_allocs map mark_id]. rewrite (Hs p id L). rewrite IH by assumption. reflexivity.
  - cbn [de_allocs map mark_id].
    pose proof (table_ok_extend t next p Hok L) as Hok'.
    destruct Hok as (H0 & H1 & H2).
    replace (next - 1 + 1) with (next + 1 - 1) by lia.
    rewrite (IH ((p, next) :: t) (next + 1) ((next, next - 1) :: s) Hok').
    + reflexivity.
    + intros q id. rewrite !lookup_cons. destruct (N.eqb_spec q p) as [->|Hne].
      * intros E; inversion E; subst. rewrite N.eqb_refl. reflexivity.
      * intros E. pose proof (H1 q id E) as [Hlt _]. destruct (N.eqb_spec id next); [lia|]. apply Hs in E. exact E.
Qed.

Theorem roundtrip_allocations ptrs :
  deserialize (serialize ptrs) = Some (map (fun m => mark_id m - 1) (serialize ptrs)).
Proof.
  unfold deserialize, serialize. change 0 with (1 - 1).
  apply de_of_ser; [exact table_ok_empty|intros; discriminate].
Qed.

Lemma serialize_ids_positive : forall ptrs t next i m,
  table_ok t next -> nth_error (ser_marks ptrs t next) i = Some m -> 1 <= mark_id m.
Proof.
  induction ptrs as [|p r IH]; intros t next i m Hok Hm; [destruct i; discriminate|].
  cbn [ser_marks] in Hm. destruct (lookup p t) as [id|] eqn:L.
  - destruct i as [|i]; cbn in Hm.
    + inversion Hm; subst. destruct Hok as (_ & H1 & _). apply H1 in L. cbn. lia.
    + eapply IH; eassumption.
  - destruct i as [|i]; cbn in Hm.
    + inversion Hm; subst. destruct Hok as (H0 & _). cbn. lia.
    + eapply IH; [apply table_ok_extend; eassumption|eassumption].
Qed.

(* after serializing and deserializing, two anchored nodes are one allocation exactly if they were *)
Theorem sharing_survives_the_round_trip ptrs :
  exists allocs,
    deserialize (serialize ptrs) = Some allocs /\ length allocs = length ptrs /\
    forall i j p q a b,
      nth_error ptrs i = Some p -> nth_error ptrs j = Some q ->
      nth_error allocs i = Some a -> nth_error allocs j = Some b ->
      (a = b <-> p = q).
Proof.
  exists (map (fun m => mark_id m - 1) (serialize ptrs)).
  split; [apply roundtrip_allocations|].
  split.
  { rewrite map_length. unfold serialize. apply (ser_marks_spec ptrs [] 1 table_ok_empty). }
  intros i j p q a b Hp Hq Ha Hb.
  rewrite nth_error_map in Ha, Hb.
  destruct (nth_error (serialize ptrs) i) as [m|] eqn:Em; [|discriminate].
  destruct (nth_error (serialize ptrs) j) as [n|] eqn:En; [|discriminate].
  cbn in Ha, Hb. inversion Ha; inversion Hb; subst.
  pose proof (serialize_ids_positive ptrs [] 1 i m table_ok_empty Em).
  pose proof (serialize_ids_positive ptrs [] 1 j n table_ok_empty En).
  rewrite <- (serialize_preserves_sharing ptrs i j p q m n Hp Hq Em En). lia.
Qed.
