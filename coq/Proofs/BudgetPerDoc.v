(* BudgetPerDoc.v -- C07: under the per-document policy a document's verdict does not depend on what was read
   before it.  The enforcer's decisions never look at the document counter or at an earlier breach record, so two
   enforcers that agree on everything else stay in step on any event list; and at a document start every enforcer
   at a document boundary is reset to the same state. *)
From SS Require Import Model.Budget Proofs.BudgetCounts.
From Coq Require Import Lia.
Local Open Scope N_scope.

(* forget the two fields that per-document decisions never read *)
Definition strip (e : enforcer) : enforcer :=
  set_report e (upd_breached (upd_documents (e_report e) 0) None).

Ltac split_ifs :=
  repeat match goal with
  | |- context [if ?c then _ else _] => destruct c eqn:?; cbn
  | |- context [match ?c with pair _ _ => _ end] => destruct c eqn:?; cbn
  end.

Lemma observe_strip e ev :
  e_per_document e = true ->
  observe (strip e) ev = (strip (fst (observe e ev)), snd (observe e ev)).
Proof.
  intros Hpd. destruct e as [b r d df cs pd]. destruct r as [brr evn al an dn nn md tb mk].
  cbn in Hpd. subst pd.
  destruct ev as [| |x| |a|value st anchor tag|anchor tags| |anchor tagm| |];
    unfold observe, strip, bind, bump_nodes, record_anchor, enter_depth, handle_scalar, handle_alias, entering_container,
      finish_value, set_report, set_containers, set_depth, set_defined, upd_events, upd_nodes, upd_scalar_bytes, upd_anchors,
      upd_merge_keys, upd_aliases, upd_max_depth, upd_documents, upd_breached, report_reset; cbn;
    try (destruct cs as [|[fm|ek fm] cs']; cbn);
    split_ifs; try reflexivity; cbn in *; congruence.
Qed.

Lemma observe_keeps_policy e ev : e_per_document (fst (observe e ev)) = e_per_document e.
Proof.
  destruct e as [b r d df cs pd]. destruct r as [brr evn al an dn nn md tb mk].
  destruct ev as [| |x| |a|value st anchor tag|anchor tags| |anchor tagm| |];
    unfold observe, bind, bump_nodes, record_anchor, enter_depth, handle_scalar, handle_alias, entering_container,
      finish_value, set_report, set_containers, set_depth, set_defined, upd_events, upd_nodes, upd_scalar_bytes, upd_anchors,
      upd_merge_keys, upd_aliases, upd_max_depth, upd_documents, upd_breached, report_reset; cbn;
    try (destruct cs as [|[fm|ek fm] cs']; cbn);
    split_ifs; reflexivity.
Qed.

Lemma run_strip : forall evs e,
  e_per_document e = true ->
  run (strip e) evs = (strip (fst (run e evs)), snd (run e evs)).
Proof.
  induction evs as [|ev r IH]; intros e Hpd; [reflexivity|].
  cbn [run]. rewrite (observe_strip e ev Hpd).
  pose proof (observe_keeps_policy e ev) as Hk. rewrite Hpd in Hk.
  destruct (observe e ev) as [e' [br|]] eqn:E; cbn [fst snd] in *; [reflexivity|].
  apply IH. exact Hk.
Qed.

(* two enforcers that agree on everything a per-document decision can read *)
Definition same_document_view (e1 e2 : enforcer) : Prop := strip e1 = strip e2.

(* ... give the same verdict on every event list, and agree afterwards *)
Theorem verdict_ignores_history e1 e2 evs :
  e_per_document e1 = true -> e_per_document e2 = true -> same_document_view e1 e2 ->
  snd (run e1 evs) = snd (run e2 evs) /\ same_document_view (fst (run e1 evs)) (fst (run e2 evs)).
Proof.
  intros H1 H2 Hs. unfold same_document_view in *.
  pose proof (run_strip evs e1 H1) as R1. pose proof (run_strip evs e2 H2) as R2.
  rewrite Hs in R1. rewrite R1 in R2. inversion R2. split; congruence.
Qed.

(* at a document start, every enforcer that is at a document boundary (nothing open, room for the start event)
   has the same view, whatever it counted before: the verdict on the document that starts here -- and on the rest
   of the stream -- does not depend on the documents read before *)
Theorem document_verdict_is_independent e1 e2 x evs :
  e_per_document e1 = true -> e_per_document e2 = true -> e_budget e1 = e_budget e2 ->
  e_depth e1 = 0 -> e_containers e1 = [] -> r_events (e_report e1) + 1 <= max_events (e_budget e1) ->
  e_depth e2 = 0 -> e_containers e2 = [] -> r_events (e_report e2) + 1 <= max_events (e_budget e2) ->
  snd (run e1 (RDocStart x :: evs)) = snd (run e2 (RDocStart x :: evs)).
Proof.
  intros P1 P2 Hb D1 C1 E1 D2 C2 E2. cbn [run].
  rewrite (perdoc_document_start_is_fresh e1 x P1 D1 C1 E1), (perdoc_document_start_is_fresh e2 x P2 D2 C2 E2).
  apply verdict_ignores_history; [reflexivity|reflexivity|].
  unfold same_document_view, strip, fresh_document_state, set_report, upd_breached, upd_documents. cbn. rewrite Hb. reflexivity.
Qed.

(* in particular: the verdict is that of a brand-new enforcer given the document alone *)
Corollary document_verdict_as_if_first e x evs :
  e_per_document e = true -> e_depth e = 0 -> e_containers e = [] ->
  r_events (e_report e) + 1 <= max_events (e_budget e) -> 1 <= max_events (e_budget e) ->
  snd (run e (RDocStart x :: evs)) = snd (run (enforcer_new (e_budget e) true) (RDocStart x :: evs)).
Proof.
  intros P D C E M. apply document_verdict_is_independent; try assumption; try reflexivity.
  all: cbn; lia.
Qed.
