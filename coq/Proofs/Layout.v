(* Layout.v -- C20: soft wrapping of a folded block never changes the text a reader reassembles,
   and an inline comment never contains a line break. *)
From SS Require Import Model.Layout.
From Coq Require Import Lia.
Local Open Scope N_scope.

(* ---- comments ---- *)
Theorem sanitized_comment_is_one_line s : existsb is_break (sanitize_comment s) = false.
Proof.
  induction s as [|c r IH]; [reflexivity|]. cbn [sanitize_comment map existsb]. fold (sanitize_comment r). rewrite IH.
  destruct (is_break c) eqn:E; [reflexivity|]. rewrite E. reflexivity.
Qed.

Theorem sanitized_comment_keeps_other_characters s :
  length (sanitize_comment s) = length s /\
  forall i c, nth_error s i = Some c -> is_break c = false -> nth_error (sanitize_comment s) i = Some c.
Proof.
  split; [apply map_length|]. intros i c H Hb. unfold sanitize_comment. rewrite nth_error_map, H. cbn. rewrite Hb. reflexivity.
Qed.

(* ---- folding ---- *)
Lemma join_sp_cons l r : join_sp (l :: r) = l ++ flat_map (fun x => SP :: x) r.
Proof.
  revert l. induction r as [|y r' IH]; intros l.
  - cbn. rewrite app_nil_r. reflexivity.
  - change (join_sp (l :: y :: r')) with (l ++ SP :: join_sp (y :: r')). rewrite IH. reflexivity.
Qed.

Lemma join_sp_snoc2 : forall xs a b, join_sp (xs ++ [a; b]) = join_sp (xs ++ [a ++ SP :: b]).
Proof.
  intros [|x r] a b.
  - cbn [app]. rewrite !join_sp_cons. cbn [flat_map]. rewrite !app_nil_r. reflexivity.
  - cbn [app]. rewrite !join_sp_cons. f_equal. rewrite !flat_map_app. f_equal. cbn [flat_map].
    rewrite !app_nil_r. reflexivity.
Qed.

Lemma join_sp_snoc_extend : forall xs a c, join_sp (xs ++ [a ++ [c]]) = join_sp (xs ++ [a]) ++ [c].
Proof.
  intros [|x r] a c.
  - reflexivity.
  - cbn [app]. rewrite !join_sp_cons. rewrite !flat_map_app. cbn [flat_map]. rewrite !app_nil_r.
    rewrite <- !app_assoc. reflexivity.
Qed.

Lemma skipn_skipn' {A} : forall (a b : nat) (l : list A), skipn a (skipn b l) = skipn (b + a) l.
Proof.
  intros a b. revert a. induction b as [|b IH]; intros a l; [reflexivity|].
  destruct l as [|x r]; [destruct a; reflexivity|]. cbn [skipn Nat.add]. apply IH.
Qed.

Definition spaces_at (cur : list N) (p wl : nat) : Prop :=
  (1 <= wl)%nat /\ (p + wl <= length cur)%nat /\ firstn wl (skipn p cur) = repeat SP wl.

Definition wf (st : fstate) : Prop :=
  (forall p wl, f_last st = Some (p, wl) -> spaces_at (f_cur st) p wl /\ (f_in st = true -> (p + wl <= f_rs st)%nat))
  /\ (f_in st = true -> (1 <= f_rl st)%nat /\ (f_rs st + f_rl st = length (f_cur st))%nat
                        /\ skipn (f_rs st) (f_cur st) = repeat SP (f_rl st)).

Definition inv (st : fstate) (consumed : list N) : Prop :=
  join_sp (rev (f_cur st :: f_out st)) = consumed /\ (f_stop st = true \/ wf st).

Lemma spaces_at_app cur p wl ch : spaces_at cur p wl -> spaces_at (cur ++ [ch]) p wl.
Proof.
  intros (H1 & H2 & H3). split; [exact H1|]. split; [rewrite app_length; cbn; lia|].
  rewrite skipn_app. replace (p - length cur)%nat with 0%nat by lia. cbn [skipn].
  rewrite firstn_app. rewrite H3. replace (wl - length (skipn p cur))%nat with 0%nat by (rewrite skipn_length; lia).
  cbn [firstn]. apply app_nil_r.
Qed.

Lemma repeat_snoc {A} (x : A) n : repeat x n ++ [x] = repeat x (S n).
Proof. induction n as [|n IH]; [reflexivity|]. cbn. f_equal. exact IH. Qed.

Lemma cut_rejoins cur p wl :
  spaces_at cur p wl ->
  (firstn p cur ++ repeat SP (wl - 1)) ++ SP :: skipn (p + wl) cur = cur.
Proof.
  intros (H1 & H2 & H3).
  assert (E1 : skipn (p + wl) cur = skipn wl (skipn p cur)) by (rewrite skipn_skipn'; reflexivity).
  assert (E2 : skipn p cur = repeat SP wl ++ skipn wl (skipn p cur)) by (rewrite <- H3; symmetry; apply firstn_skipn).
  rewrite E1. transitivity (firstn p cur ++ skipn p cur); [|apply firstn_skipn].
  rewrite <- app_assoc. f_equal. rewrite E2 at 2.
  change (SP :: skipn wl (skipn p cur)) with ([SP] ++ skipn wl (skipn p cur)). rewrite app_assoc. f_equal.
  rewrite repeat_snoc. f_equal. lia.
Qed.

Lemma fstep_inv w st ch consumed : inv st consumed -> inv (fstep w st ch) (consumed ++ [ch]).
Proof.
  intros [Hc Hw]. unfold fstep.
  destruct (f_stop st) eqn:Es.
  { split; [|left; reflexivity]. cbn [f_cur f_out rev] in *. rewrite join_sp_snoc_extend. rewrite Hc. reflexivity. }
  destruct Hw as [Hw|Hw]; [discriminate|]. destruct Hw as [Hl Hr].
  set (ends := f_in st && negb (is_sp ch)).
  (* the three derived components *)
  destruct (f_in st) eqn:Ein; cbn [andb] in ends; subst ends.
  - (* inside a run of spaces *)
    destruct (Hr eq_refl) as (R1 & R2 & R3).
    destruct (is_sp ch) eqn:Esp; cbn [negb].
    + (* the run goes on *)
      assert (Hch : ch = SP) by (unfold is_sp in Esp; apply N.eqb_eq in Esp; exact Esp). subst ch.
      assert (Hwf : wf (mkF (f_cur st ++ [SP]) (S (f_col st)) (f_last st) true (f_rs st) (S (f_rl st)) (f_out st) false)).
      { split; cbn [f_last f_cur f_in f_rs f_rl].
        - intros p wl E. destruct (Hl p wl E) as [A B]. split; [apply spaces_at_app; exact A|intros _; apply B; reflexivity].
        - intros _. split; [lia|]. split; [rewrite app_length; cbn; lia|].
          rewrite skipn_app, R3. replace (f_rs st - length (f_cur st))%nat with 0%nat by lia. cbn [skipn]. apply repeat_snoc. }
      destruct (Nat.ltb w (S (f_col st))).
      * destruct (f_last st) as [[p wl]|] eqn:El.
        { destruct (Hl p wl eq_refl) as [A B]. specialize (B eq_refl).
          pose proof (spaces_at_app _ _ _ SP A) as A'.
          split.
          - cbn [f_cur f_out rev]. rewrite <- app_assoc. cbn [app]. rewrite join_sp_snoc2.
            rewrite (cut_rejoins _ _ _ A'). cbn [f_cur f_out rev] in Hc. rewrite join_sp_snoc_extend, Hc. reflexivity.
          - right. split; cbn [f_last f_cur f_in f_rs f_rl]; [intros ? ? E; discriminate|].
            intros _. split; [lia|]. rewrite skipn_length, app_length. cbn [length].
            split; [lia|].
            (* the characters from the rebased run start are the run in progress *)
            replace (skipn (f_rs st - (p + wl)) (skipn (p + wl) (f_cur st ++ [SP]))) with (skipn (f_rs st) (f_cur st ++ [SP])).
            { rewrite skipn_app, R3. replace (f_rs st - length (f_cur st))%nat with 0%nat by lia. cbn [skipn]. apply repeat_snoc. }
            rewrite skipn_skipn'. f_equal. lia. }
        { split; [|left; reflexivity]. cbn [f_cur f_out rev] in *. rewrite join_sp_snoc_extend, Hc. reflexivity. }
      * split; [|right; exact Hwf]. cbn [f_cur f_out rev] in *. rewrite join_sp_snoc_extend, Hc. reflexivity.
    + (* a non-space ends the run *)
      destruct (is_tab ch) eqn:Et.
      { (* ... a tab: the run is no place to cut, the last complete run stays *)
        destruct (Nat.ltb w (S (f_col st))).
        - destruct (f_last st) as [[p wl]|] eqn:El.
          { destruct (Hl p wl eq_refl) as [A _]. pose proof (spaces_at_app _ _ _ ch A) as A'.
            split.
            - cbn [f_cur f_out rev]. rewrite <- app_assoc. cbn [app]. rewrite join_sp_snoc2.
              rewrite (cut_rejoins _ _ _ A'). cbn [f_cur f_out rev] in Hc. rewrite join_sp_snoc_extend, Hc. reflexivity.
            - right. split; cbn [f_last f_in]; [intros ? ? E; discriminate|discriminate]. }
          { split; [|left; reflexivity]. cbn [f_cur f_out rev] in *. rewrite join_sp_snoc_extend, Hc. reflexivity. }
        - split; [cbn [f_cur f_out rev] in *; rewrite join_sp_snoc_extend, Hc; reflexivity|].
          right. split; cbn [f_last f_cur f_in]; [|discriminate].
          intros p wl E. destruct (Hl p wl E) as [A _]. split; [apply spaces_at_app; exact A|discriminate]. }
      (* ... anything else: it becomes the last complete run *)
      assert (A : spaces_at (f_cur st ++ [ch]) (f_rs st) (f_rl st)).
      { apply spaces_at_app. split; [exact R1|]. split; [lia|]. rewrite R3. rewrite firstn_all2; [reflexivity|rewrite repeat_length; lia]. }
      destruct (Nat.ltb w (S (f_col st))).
      * split.
        { cbn [f_cur f_out rev]. rewrite <- app_assoc. cbn [app]. rewrite join_sp_snoc2.
          rewrite (cut_rejoins _ _ _ A). cbn [f_cur f_out rev] in Hc. rewrite join_sp_snoc_extend, Hc. reflexivity. }
        { right. split; cbn [f_last f_in]; [intros ? ? E; discriminate|discriminate]. }
      * split; [cbn [f_cur f_out rev] in *; rewrite join_sp_snoc_extend, Hc; reflexivity|].
        right. split; cbn [f_last f_cur f_in]; [|discriminate].
        intros p wl E. inversion E; subst. split; [exact A|discriminate].
  - (* not inside a run *)
    destruct (is_sp ch) eqn:Esp.
    + (* a run starts here *)
      assert (Hch : ch = SP) by (unfold is_sp in Esp; apply N.eqb_eq in Esp; exact Esp). subst ch.
      assert (Hrun : skipn (length (f_cur st)) (f_cur st ++ [SP]) = repeat SP 1).
      { rewrite skipn_app, skipn_all, Nat.sub_diag. reflexivity. }
      destruct (Nat.ltb w (S (f_col st))).
      * destruct (f_last st) as [[p wl]|] eqn:El.
        { destruct (Hl p wl eq_refl) as [A _]. pose proof (spaces_at_app _ _ _ SP A) as A'.
          destruct A as (A1 & A2 & A3).
          split.
          - cbn [f_cur f_out rev]. rewrite <- app_assoc. cbn [app]. rewrite join_sp_snoc2.
            rewrite (cut_rejoins _ _ _ A'). cbn [f_cur f_out rev] in Hc. rewrite join_sp_snoc_extend, Hc. reflexivity.
          - right. split; cbn [f_last f_cur f_in f_rs f_rl]; [intros ? ? E; discriminate|].
            intros _. split; [lia|]. rewrite skipn_length, app_length. cbn [length]. split; [lia|].
            rewrite skipn_skipn'. replace (p + wl + (length (f_cur st) - (p + wl)))%nat with (length (f_cur st)) by lia. exact Hrun. }
        { split; [|left; reflexivity]. cbn [f_cur f_out rev] in *. rewrite join_sp_snoc_extend, Hc. reflexivity. }
      * split; [cbn [f_cur f_out rev] in *; rewrite join_sp_snoc_extend, Hc; reflexivity|].
        right. split; cbn [f_last f_cur f_in f_rs f_rl].
        { intros p wl E. destruct (Hl p wl E) as [A _]. split; [apply spaces_at_app; exact A|]. intros _. destruct A as (_ & A2 & _). exact A2. }
        { intros _. split; [lia|]. split; [rewrite app_length; cbn; lia|exact Hrun]. }
    + (* an ordinary character *)
      destruct (Nat.ltb w (S (f_col st))).
      * destruct (f_last st) as [[p wl]|] eqn:El.
        { destruct (Hl p wl eq_refl) as [A _]. pose proof (spaces_at_app _ _ _ ch A) as A'.
          split.
          - cbn [f_cur f_out rev]. rewrite <- app_assoc. cbn [app]. rewrite join_sp_snoc2.
            rewrite (cut_rejoins _ _ _ A'). cbn [f_cur f_out rev] in Hc. rewrite join_sp_snoc_extend, Hc. reflexivity.
          - right. split; cbn [f_last f_in]; [intros ? ? E; discriminate|discriminate]. }
        { split; [|left; reflexivity]. cbn [f_cur f_out rev] in *. rewrite join_sp_snoc_extend, Hc. reflexivity. }
      * split; [cbn [f_cur f_out rev] in *; rewrite join_sp_snoc_extend, Hc; reflexivity|].
        right. split; cbn [f_last f_cur f_in]; [|discriminate].
        intros p wl E. destruct (Hl p wl E) as [A _]. split; [apply spaces_at_app; exact A|discriminate].
Qed.

Lemma fold_left_inv w : forall line st consumed, inv st consumed -> inv (fold_left (fstep w) line st) (consumed ++ line).
Proof.
  induction line as [|c r IH]; intros st consumed H; cbn [fold_left].
  - rewrite app_nil_r. exact H.
  - replace (consumed ++ c :: r) with ((consumed ++ [c]) ++ r) by (rewrite <- app_assoc; reflexivity).
    apply IH. apply fstep_inv. exact H.
Qed.

(* whatever the wrap column and the line: joining the written lines with single spaces -- what a
   reader of a folded block does -- gives back the line, character for character *)
Theorem folding_preserves_the_text w line : join_sp (fold_line w line) = line.
Proof.
  unfold fold_line.
  pose proof (fold_left_inv w line (mkF [] 0 None false 0 0 [] false) []) as H.
  destruct H as [H _].
  - split; [reflexivity|]. right. split; cbn; [intros ? ? E; discriminate|discriminate].
  - exact H.
Qed.

(* ---- every written line starts with text: the reader never sees a "more-indented" line ---- *)
Definition starts_ok (l : list N) : Prop := exists c r, l = c :: r /\ is_blank c = false.

Definition good (st : fstate) : Prop :=
  starts_ok (f_cur st) /\ Forall starts_ok (f_out st)
  /\ (forall p wl, f_last st = Some (p, wl) ->
        exists c, nth_error (f_cur st) (p + wl) = Some c /\ is_blank c = false).

Lemma starts_ok_app l x : starts_ok l -> starts_ok (l ++ x).
Proof. intros (c & r & -> & H). exists c, (r ++ x). split; [reflexivity|exact H]. Qed.

Lemma spaces_at_nth cur p wl : spaces_at cur p wl -> nth_error cur p = Some SP.
Proof.
  intros (H1 & H2 & H3). destruct wl as [|wl]; [lia|].
  assert (E : nth_error (firstn (S wl) (skipn p cur)) 0 = Some SP) by (rewrite H3; reflexivity).
  destruct (skipn p cur) as [|x r] eqn:Es; [discriminate|]. cbn in E. inversion E; subst.
  rewrite <- (firstn_skipn p cur) at 1. rewrite nth_error_app2 by (rewrite firstn_length; lia).
  rewrite firstn_length. replace (p - Nat.min p (length cur))%nat with 0%nat by lia. rewrite Es. reflexivity.
Qed.

Lemma cut_line_starts cur p wl x : starts_ok cur -> spaces_at cur p wl -> starts_ok (firstn p cur ++ x).
Proof.
  intros (c & r & -> & H) A. apply spaces_at_nth in A. destruct p as [|p].
  - cbn in A. inversion A; subst. discriminate.
  - cbn [firstn]. exists c, (firstn p r ++ x). split; [reflexivity|exact H].
Qed.

Lemma rest_starts cur n c : nth_error cur n = Some c -> is_blank c = false -> starts_ok (skipn n cur).
Proof.
  revert n. induction cur as [|x r IH]; intros [|n] H Hb; try discriminate.
  - cbn in H. inversion H; subst. exists c, r. split; [reflexivity|exact Hb].
  - cbn [skipn]. apply (IH n); assumption.
Qed.

Lemma nth_app_keep (cur : list N) n c ch : nth_error cur n = Some c -> nth_error (cur ++ [ch]) n = Some c.
Proof. intros H. rewrite nth_error_app1; [exact H|]. apply nth_error_Some. rewrite H. discriminate. Qed.

Lemma nth_app_last (cur : list N) ch : nth_error (cur ++ [ch]) (length cur) = Some ch.
Proof. rewrite nth_error_app2 by lia. rewrite Nat.sub_diag. reflexivity. Qed.

Lemma good_keep_last st ch :
  good st ->
  (forall p wl, f_last st = Some (p, wl) ->
     exists c, nth_error (f_cur st ++ [ch]) (p + wl) = Some c /\ is_blank c = false).
Proof. intros (_ & _ & G) p wl E. destruct (G p wl E) as (c & H1 & H2). exists c. split; [apply nth_app_keep; exact H1|exact H2]. Qed.

Lemma fstep_good w st ch consumed : inv st consumed -> good st -> good (fstep w st ch).
Proof.
  intros [_ Hw] G. pose proof (good_keep_last st ch G) as GL. destruct G as (G1 & G2 & G3). unfold fstep.
  destruct (f_stop st) eqn:Es.
  { split; [apply starts_ok_app; exact G1|]. split; [exact G2|exact GL]. }
  destruct Hw as [Hw|Hw]; [discriminate|]. destruct Hw as [Hl Hr].
  (* one cut, from a last complete run that is known to be spaces followed by text *)
  assert (CUT : forall p wl in2 rs2 rl2,
             spaces_at (f_cur st ++ [ch]) p wl ->
             (exists c, nth_error (f_cur st ++ [ch]) (p + wl) = Some c /\ is_blank c = false) ->
             good (mkF (skipn (p + wl) (f_cur st ++ [ch])) 0 None in2 rs2 rl2
                       ((firstn p (f_cur st ++ [ch]) ++ repeat SP (wl - 1)) :: f_out st) false)).
  { intros p wl in2 rs2 rl2 A (c & N1 & N2). split; cbn [f_cur f_out f_last].
    - apply (rest_starts _ _ c); assumption.
    - split; [|intros ? ? E; discriminate]. constructor; [|exact G2].
      apply (cut_line_starts _ _ wl); [apply starts_ok_app; exact G1|exact A]. }
  assert (KEEP : forall col last in2 rs2 rl2 stop,
             (forall p wl, last = Some (p, wl) ->
                exists c, nth_error (f_cur st ++ [ch]) (p + wl) = Some c /\ is_blank c = false) ->
             good (mkF (f_cur st ++ [ch]) col last in2 rs2 rl2 (f_out st) stop)).
  { intros. split; [apply starts_ok_app; exact G1|]. split; [exact G2|assumption]. }
  destruct (f_in st) eqn:Ein; cbn [andb].
  - destruct (Hr eq_refl) as (R1 & R2 & R3).
    destruct (is_sp ch) eqn:Esp; cbn [negb].
    + destruct (Nat.ltb w (S (f_col st))).
      * destruct (f_last st) as [[p wl]|] eqn:El; [|apply KEEP; intros ? ? E; discriminate].
        apply CUT; [apply spaces_at_app; apply (Hl p wl eq_refl)|apply GL; reflexivity].
      * apply KEEP. exact GL.
    + destruct (is_tab ch) eqn:Et.
      * destruct (Nat.ltb w (S (f_col st))).
        { destruct (f_last st) as [[p wl]|] eqn:El; [|apply KEEP; intros ? ? E; discriminate].
          apply CUT; [apply spaces_at_app; apply (Hl p wl eq_refl)|apply GL; reflexivity]. }
        { apply KEEP. exact GL. }
      * assert (A : spaces_at (f_cur st ++ [ch]) (f_rs st) (f_rl st)).
        { apply spaces_at_app. split; [exact R1|]. split; [lia|]. rewrite R3. rewrite firstn_all2; [reflexivity|rewrite repeat_length; lia]. }
        assert (B : exists c, nth_error (f_cur st ++ [ch]) (f_rs st + f_rl st) = Some c /\ is_blank c = false).
        { exists ch. rewrite R2. split; [apply nth_app_last|]. unfold is_blank. rewrite Esp, Et. reflexivity. }
        destruct (Nat.ltb w (S (f_col st))).
        { apply CUT; assumption. }
        { apply KEEP. intros p wl E. inversion E; subst. exact B. }
  - destruct (is_sp ch) eqn:Esp.
    + destruct (Nat.ltb w (S (f_col st))).
      * destruct (f_last st) as [[p wl]|] eqn:El; [|apply KEEP; intros ? ? E; discriminate].
        apply CUT; [apply spaces_at_app; apply (Hl p wl eq_refl)|apply GL; reflexivity].
      * apply KEEP. exact GL.
    + destruct (Nat.ltb w (S (f_col st))).
      * destruct (f_last st) as [[p wl]|] eqn:El; [|apply KEEP; intros ? ? E; discriminate].
        apply CUT; [apply spaces_at_app; apply (Hl p wl eq_refl)|apply GL; reflexivity].
      * apply KEEP. exact GL.
Qed.

Lemma fold_left_good w : forall line st consumed, inv st consumed -> good st ->
  good (fold_left (fstep w) line st).
Proof.
  induction line as [|c r IH]; intros st consumed H G; cbn [fold_left]; [exact G|].
  apply (IH _ (consumed ++ [c])); [apply fstep_inv; exact H|apply (fstep_good w st c consumed); assumption].
Qed.

(* a logical line that starts with text is written as lines that all start with text (neither a space nor
   a tab), so a reader folds every break between them into exactly one space *)
Theorem folded_lines_start_with_text w c r :
  is_blank c = false -> Forall starts_ok (fold_line w (c :: r)).
Proof.
  intros Hb. unfold fold_line. cbn [fold_left].
  set (st0 := mkF [] 0 None false 0 0 [] false).
  assert (I0 : inv st0 []).
  { split; [reflexivity|]. right. split; cbn; [intros ? ? E; discriminate|discriminate]. }
  assert (Hsp : is_sp c = false) by (unfold is_blank in Hb; destruct (is_sp c); [discriminate|reflexivity]).
  assert (G1 : good (fstep w st0 c)).
  { unfold fstep, st0. cbn [f_stop f_in andb f_last f_rl f_rs f_cur f_col f_out app length]. rewrite Hsp.
    destruct (Nat.ltb w 1); (split; cbn [f_cur f_out f_last]; [exists c, []; split; [reflexivity|exact Hb]|split; [constructor|intros ? ? E; discriminate]]). }
  pose proof (fstep_inv w st0 c [] I0) as I1.
  pose proof (fold_left_good w r _ _ I1 G1) as (A & B & _).
  apply Forall_rev. constructor; assumption.
Qed.
