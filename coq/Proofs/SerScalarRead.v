(* SerScalarRead.v -- C12: a string that the serializer writes as a plain scalar reads back as that very
   string also when NO type is asked for (deserialize_any): it is not null, not a boolean, not an integer
   in any radix (digit separators included) and not a float.  The reader's acceptance sets (the integer
   and float parsers of Model/Scalars.v) are contained in the serializer's "ambiguous" test. *)
From SS Require Import Model.Scalars Model.SerScalar Proofs.ScalarsInt Proofs.SerScalar.
From Coq Require Import Lia ZifyBool ZifyN.
Local Open Scope N_scope.

(* ---- trim ---- *)
Definition head_ok (s : str) : Prop := match s with [] => True | c :: _ => is_ws c = false end.

Lemma ts_head s : head_ok (trim_start s).
Proof. induction s as [|c r IH]; cbn [trim_start]; [exact I|]. destruct (is_ws c) eqn:E; [exact IH|exact E]. Qed.

Lemma ts_id s : head_ok s -> trim_start s = s.
Proof. destruct s as [|c r]; intros H; [reflexivity|]. cbn [trim_start]. cbn in H. rewrite H. reflexivity. Qed.

Lemma ts_suffix s : exists p, s = p ++ trim_start s.
Proof.
  induction s as [|c r [p IH]]; [exists []; reflexivity|]. cbn [trim_start]. destruct (is_ws c).
  - exists (c :: p). cbn. rewrite <- IH. reflexivity.
  - exists []. reflexivity.
Qed.

Lemma te_head s : head_ok s -> head_ok (trim_end s).
Proof.
  unfold trim_end. intros H. destruct (ts_suffix (rev s)) as [p E].
  set (w := trim_start (rev s)) in *.
  assert (Es : s = rev w ++ rev p). { rewrite <- rev_app_distr, <- E, rev_involutive. reflexivity. }
  destruct (rev w) as [|c r] eqn:Ew; [exact I|]. rewrite Es in H. exact H.
Qed.

Lemma te_idem s : trim_end (trim_end s) = trim_end s.
Proof. unfold trim_end. rewrite rev_involutive. rewrite (ts_id _ (ts_head _)). reflexivity. Qed.

Lemma trim_idem s : trim (trim s) = trim s.
Proof.
  unfold trim. rewrite (ts_id (trim_end (trim_start s))); [apply te_idem|].
  apply te_head. apply ts_head.
Qed.

(* ---- digit strings ---- *)
Definition remove_us (s : str) : str := filter (fun c => negb (is_us c)) s.
Definition dv_ok (radix c : N) : bool := match digit_val radix c with Some _ => true | None => false end.

Lemma dv_shape radix : forall ds val saw m, digits_value_go radix ds val saw = Some m ->
  forallb (fun c => is_us c || dv_ok radix c) ds = true
  /\ (saw = true \/ existsb (fun c => negb (is_us c)) ds = true).
Proof.
  induction ds as [|c r IH]; intros val saw m H; cbn [digits_value_go] in H.
  - destruct saw; [|discriminate]. split; [reflexivity|left; reflexivity].
  - cbn [forallb existsb]. unfold is_us at 1 3. destruct (c =? 95) eqn:Ec.
    + destruct (IH _ _ _ H) as [A B]. split; [exact A|]. destruct B as [B|B]; [left; exact B|right; cbn; exact B].
    + unfold dv_ok. destruct (digit_val radix c) as [d|]; [|discriminate].
      destruct (IH _ _ _ H) as [A _]. split; [exact A|right; reflexivity].
Qed.

Lemma digit_val_classes radix c d : digit_val radix c = Some d ->
  is_hex c = true /\ (radix <= 10 -> is_digit c = true /\ c - 48 < radix).
Proof.
  unfold digit_val, is_hex, is_digit.
  destruct ((48 <=? c) && (c <=? 57)) eqn:E1.
  - destruct (radix <=? c - 48) eqn:E2; [discriminate|]. intros _. split; [reflexivity|]. intros _. split; [reflexivity|lia].
  - destruct ((97 <=? c) && (c <=? 102) && (10 <? radix)) eqn:E2.
    + destruct (radix <=? 10 + (c - 97)); [discriminate|]. intros _. split; [lia|lia].
    + destruct ((65 <=? c) && (c <=? 70) && (10 <? radix)) eqn:E3; [|discriminate].
      destruct (radix <=? 10 + (c - 65)); [discriminate|]. intros _. split; [lia|lia].
Qed.

Lemma remove_us_all p s : forallb (fun c => is_us c || p c) s = true -> forallb p (remove_us s) = true.
Proof.
  induction s as [|c r IH]; [reflexivity|]. cbn [forallb remove_us filter]. intros H.
  apply andb_true_iff in H. destruct H as [Hc Hr]. destruct (is_us c) eqn:E; cbn [negb].
  - apply IH. exact Hr.
  - cbn [forallb]. cbn [orb] in Hc. rewrite Hc. apply IH. exact Hr.
Qed.

Lemma remove_us_nonempty s : existsb (fun c => negb (is_us c)) s = true -> remove_us s <> [].
Proof.
  induction s as [|c r IH]; [discriminate|]. cbn [existsb remove_us filter]. destruct (negb (is_us c)); [discriminate|].
  cbn [orb]. exact IH.
Qed.

Lemma remove_us_app a b : remove_us (a ++ b) = remove_us a ++ remove_us b.
Proof. apply filter_app. Qed.

(* ---- integers: what the integer parser accepts is numeric-looking once the separators are removed ---- *)
Lemma forallb_weaken {A} (p q : A -> bool) l : (forall x, p x = true -> q x = true) -> forallb p l = true -> forallb q l = true.
Proof. intros H. induction l as [|x r IH]; [reflexivity|]. cbn. intros E. apply andb_true_iff in E. destruct E as [E1 E2]. rewrite (H _ E1), (IH E2). reflexivity. Qed.

Lemma nb_of_radix b : nb_radix b = true -> numeric_body b = true.
Proof. unfold numeric_body. intros ->. reflexivity. Qed.
Lemma nb_of_dot b : nb_dot b = true -> numeric_body b = true.
Proof. unfold numeric_body. intros ->. rewrite orb_true_r. reflexivity. Qed.
Lemma nb_of_exp b : nb_exp b = true -> numeric_body b = true.
Proof. unfold numeric_body. intros ->. rewrite orb_true_r. reflexivity. Qed.
Lemma nb_of_dus b : d_us b = true -> numeric_body b = true.
Proof. unfold numeric_body. intros ->. apply orb_true_r. Qed.

Lemma nb_hex (x : N) t : (x = 120 \/ x = 88) -> t <> [] -> forallb is_hex t = true -> numeric_body (48 :: x :: t) = true.
Proof.
  intros Hx Ht H. assert (H' : forallb (fun c => is_hex c || is_us c) t = true) by (apply (forallb_weaken is_hex); [intros c E; rewrite E; reflexivity|exact H]).
  destruct t as [|c r]; [contradiction Ht; reflexivity|]. apply nb_of_radix.
  destruct Hx as [-> | ->]; unfold nb_radix; cbn -[forallb]; rewrite H'; reflexivity.
Qed.

Lemma nb_oct (x : N) t : (x = 111 \/ x = 79) -> t <> [] -> forallb (fun c => (48 <=? c) && (c <=? 55)) t = true -> numeric_body (48 :: x :: t) = true.
Proof.
  intros Hx Ht H. assert (H' : forallb (fun c => ((48 <=? c) && (c <=? 55)) || is_us c) t = true) by (apply (forallb_weaken (fun c => (48 <=? c) && (c <=? 55))); [intros c E; rewrite E; reflexivity|exact H]).
  destruct t as [|c r]; [contradiction Ht; reflexivity|]. apply nb_of_radix.
  destruct Hx as [-> | ->]; unfold nb_radix; cbn -[forallb]; rewrite H'; rewrite ?orb_true_r; reflexivity.
Qed.

Lemma nb_bin (x : N) t : (x = 98 \/ x = 66) -> t <> [] -> forallb (fun c => (c =? 48) || (c =? 49)) t = true -> numeric_body (48 :: x :: t) = true.
Proof.
  intros Hx Ht H. assert (H' : forallb (fun c => (c =? 48) || (c =? 49) || is_us c) t = true) by (apply (forallb_weaken (fun c => (c =? 48) || (c =? 49))); [intros c E; rewrite E; reflexivity|exact H]).
  destruct t as [|c r]; [contradiction Ht; reflexivity|]. apply nb_of_radix.
  destruct Hx as [-> | ->]; unfold nb_radix; cbn -[forallb]; rewrite H'; rewrite ?orb_true_r; reflexivity.
Qed.

Lemma nb_dec b : b <> [] -> forallb is_digit b = true -> numeric_body b = true.
Proof.
  intros Hb H. apply nb_of_dus.
  destruct b as [|c r]; [contradiction Hb; reflexivity|]. cbn [forallb] in H. apply andb_true_iff in H. destruct H as [H1 H2].
  unfold d_us. rewrite H1. apply (forallb_weaken is_digit); [intros x E; unfold digit_or_us; rewrite E; reflexivity|exact H2].
Qed.

Lemma rad_cases lo rest :
  (exists x r, (x = 120 \/ x = 88) /\ rest = 48 :: x :: r /\ radix_and_digits lo rest = (16, r))
  \/ (exists x r, (x = 111 \/ x = 79) /\ rest = 48 :: x :: r /\ radix_and_digits lo rest = (8, r))
  \/ (exists x r, (x = 98 \/ x = 66) /\ rest = 48 :: x :: r /\ radix_and_digits lo rest = (2, r))
  \/ (exists r, rest = 48 :: 48 :: r /\ radix_and_digits lo rest = (8, match r with [] => [48] | _ => r end))
  \/ radix_and_digits lo rest = (10, rest).
Proof.
  unfold radix_and_digits, or_else, starts_with.
  destruct rest as [|c1 [|c2 t]]; cbn [strip_prefix].
  - right; right; right; right. rewrite andb_false_r. reflexivity.
  - right; right; right; right. destruct (48 =? c1); rewrite ?andb_false_r; reflexivity.
  - destruct (N.eqb_spec 48 c1) as [<-|N1].
    2:{ right; right; right; right. rewrite andb_false_r. reflexivity. }
    destruct (N.eqb_spec 120 c2) as [<-|]; [left; exists 120, t; auto|].
    destruct (N.eqb_spec 88 c2) as [<-|]; [left; exists 88, t; auto|].
    destruct (N.eqb_spec 111 c2) as [<-|]; [right; left; exists 111, t; auto|].
    destruct (N.eqb_spec 79 c2) as [<-|]; [right; left; exists 79, t; auto|].
    destruct (N.eqb_spec 98 c2) as [<-|]; [right; right; left; exists 98, t; auto|].
    destruct (N.eqb_spec 66 c2) as [<-|]; [right; right; left; exists 66, t; auto|].
    destruct (N.eqb_spec 48 c2) as [<-|].
    + destruct lo; cbn [andb].
      * right; right; right; left. exists t. split; [reflexivity|].
        cbn [str_eqb N.eqb Pos.eqb andb]. destruct t; reflexivity.
      * right; right; right; right. reflexivity.
    + right; right; right; right. rewrite andb_false_r. reflexivity.
Qed.

Lemma dv_facts radix ds m : digits_value radix ds = Some m ->
  forallb (dv_ok radix) (remove_us ds) = true /\ remove_us ds <> [].
Proof.
  unfold digits_value. intros H. destruct (dv_shape radix ds 0 false m H) as [A [B|B]]; [discriminate|].
  split; [apply remove_us_all; exact A|apply remove_us_nonempty; exact B].
Qed.

Lemma dv_ok_hex c : dv_ok 16 c = true -> is_hex c = true.
Proof. unfold dv_ok. destruct (digit_val 16 c) as [d|] eqn:E; [|discriminate]. intros _. apply (digit_val_classes 16 c d E). Qed.
Lemma dv_ok_small radix c : radix <= 10 -> dv_ok radix c = true -> is_digit c = true /\ c - 48 < radix.
Proof. unfold dv_ok. intros Hr. destruct (digit_val radix c) as [d|] eqn:E; [|discriminate]. intros _. apply (digit_val_classes radix c d E). exact Hr. Qed.

Lemma int_body_numeric lo rest m :
  (let '(radix, digits) := radix_and_digits lo rest in digits_value radix digits) = Some m ->
  numeric_body (remove_us rest) = true.
Proof.
  destruct (rad_cases lo rest) as [(x & r & Hx & -> & E)|[(x & r & Hx & -> & E)|[(x & r & Hx & -> & E)|[(r & -> & E)|E]]]];
    rewrite E; intros H.
  - destruct (dv_facts _ _ _ H) as [A B].
    replace (remove_us (48 :: x :: r)) with (48 :: x :: remove_us r) by (destruct Hx as [-> | ->]; reflexivity).
    apply nb_hex; [exact Hx|exact B|]. apply (forallb_weaken (dv_ok 16)); [apply dv_ok_hex|exact A].
  - destruct (dv_facts _ _ _ H) as [A B].
    replace (remove_us (48 :: x :: r)) with (48 :: x :: remove_us r) by (destruct Hx as [-> | ->]; reflexivity).
    apply nb_oct; [exact Hx|exact B|]. apply (forallb_weaken (dv_ok 8)); [|exact A].
    intros c Hc. destruct (dv_ok_small 8 c ltac:(lia) Hc) as [D L]. unfold is_digit in D. lia.
  - destruct (dv_facts _ _ _ H) as [A B].
    replace (remove_us (48 :: x :: r)) with (48 :: x :: remove_us r) by (destruct Hx as [-> | ->]; reflexivity).
    apply nb_bin; [exact Hx|exact B|]. apply (forallb_weaken (dv_ok 2)); [|exact A].
    intros c Hc. destruct (dv_ok_small 2 c ltac:(lia) Hc) as [D L]. unfold is_digit in D. lia.
  - change (remove_us (48 :: 48 :: r)) with (48 :: 48 :: remove_us r).
    apply nb_dec; [discriminate|]. cbn [forallb]. change (is_digit 48) with true. cbn [andb].
    destruct r as [|c r']; [reflexivity|].
    destruct (dv_facts _ _ _ H) as [A _].
    apply (forallb_weaken (dv_ok 8)); [|exact A]. intros x Hx. apply (dv_ok_small 8 x ltac:(lia) Hx).
  - destruct (dv_facts _ _ _ H) as [A B]. apply nb_dec; [exact B|].
    apply (forallb_weaken (dv_ok 10)); [|exact A]. intros x Hx. apply (dv_ok_small 10 x ltac:(lia) Hx).
Qed.

Lemma remove_us_id t : has_us t = false -> remove_us t = t.
Proof.
  unfold has_us, remove_us. induction t as [|c r IH]; [reflexivity|]. cbn [existsb filter]. intros H.
  apply orb_false_iff in H. destruct H as [H1 H2]. rewrite H1. cbn [negb]. rewrite (IH H2). reflexivity.
Qed.

(* a numeric-looking body never starts with a sign *)
Lemma nb_no_sign c r : numeric_body (c :: r) = true -> (c =? 43) || (c =? 45) = false.
Proof.
  intros H. destruct ((c =? 43) || (c =? 45)) eqn:E; [|reflexivity]. exfalso.
  assert (Hd : is_digit c = false) by (unfold is_digit; lia).
  assert (H0 : (c =? 48) = false) by lia. assert (H1 : (c =? 46) = false) by lia.
  assert (H2 : (c =? 101) || (c =? 69) = false) by lia.
  unfold numeric_body in H.
  assert (R : nb_radix (c :: r) = false).
  { assert (Hc : c = 43 \/ c = 45) by lia. destruct Hc as [-> | ->]; reflexivity. }
  assert (D : nb_dot (c :: r) = false).
  { unfold nb_dot. cbn [span_p]. rewrite H1. cbn [negb]. destruct (span_p (fun c0 : N => negb (c0 =? 46)) r) as [pre rest].
    destruct rest as [|d post]; [reflexivity|]. destruct (span_p digit_or_us post) as [f e]. cbn [d_us]. rewrite Hd. reflexivity. }
  assert (X : nb_exp (c :: r) = false).
  { unfold nb_exp. cbn [span_p]. rewrite H2. cbn [negb]. destruct (span_p (fun c0 : N => negb ((c0 =? 101) || (c0 =? 69))) r) as [pre rest].
    cbn [d_us]. rewrite Hd. reflexivity. }
  rewrite R, D, X in H. cbn [orb d_us] in H. rewrite Hd in H. discriminate.
Qed.

Lemma strip_sign_of_body b : numeric_body b = true -> strip_sign b = b.
Proof. destruct b as [|c r]; [reflexivity|]. intros H. unfold strip_sign. rewrite (nb_no_sign c r H). reflexivity. Qed.

Lemma sp1 a s r : strip_prefix [a] s = Some r -> s = a :: r.
Proof. destruct s as [|x t]; cbn [strip_prefix]; [discriminate|]. destruct (N.eqb_spec a x) as [->|]; [|discriminate]. intros H. inversion H. reflexivity. Qed.

(* what the unsigned integer parser accepts *)
Lemma unsigned_numeric bits t lo v :
  spec_int_unsigned bits t lo = Some v -> is_numeric_looking (remove_us (trim t)) = true.
Proof.
  unfold spec_int_unsigned. set (T := trim t).
  destruct (starts_with [45] T) eqn:Em; [discriminate|].
  destruct (strip_prefix [43] T) as [r|] eqn:Ep.
  - apply sp1 in Ep. rewrite Ep.
    destruct (radix_and_digits lo r) as [radix digits] eqn:Er.
    destruct (digits_value radix digits) as [m|] eqn:Ed; [|discriminate]. intros _.
    assert (B : numeric_body (remove_us r) = true) by (apply (int_body_numeric lo r m); rewrite Er; exact Ed).
    unfold is_numeric_looking. change (remove_us (43 :: r)) with (43 :: remove_us r). cbn [strip_sign N.eqb Pos.eqb orb]. exact B.
  - destruct (radix_and_digits lo T) as [radix digits] eqn:Er.
    destruct (digits_value radix digits) as [m|] eqn:Ed; [|discriminate]. intros _.
    assert (B : numeric_body (remove_us T) = true) by (apply (int_body_numeric lo T m); rewrite Er; exact Ed).
    unfold is_numeric_looking. rewrite (strip_sign_of_body _ B). exact B.
Qed.

Lemma signed_numeric bits t lo v :
  spec_int_signed bits t lo = Some v -> is_numeric_looking (remove_us (trim t)) = true.
Proof.
  unfold spec_int_signed, sign_split. set (T := trim t).
  destruct (strip_prefix [43] T) as [r|] eqn:Ep.
  - apply sp1 in Ep. rewrite Ep.
    destruct (radix_and_digits lo r) as [radix digits] eqn:Er.
    destruct (digits_value radix digits) as [m|] eqn:Ed; [|discriminate]. intros _.
    assert (B : numeric_body (remove_us r) = true) by (apply (int_body_numeric lo r m); rewrite Er; exact Ed).
    unfold is_numeric_looking. change (remove_us (43 :: r)) with (43 :: remove_us r). cbn [strip_sign N.eqb Pos.eqb orb]. exact B.
  - destruct (strip_prefix [45] T) as [r|] eqn:Em.
    + apply sp1 in Em. rewrite Em.
      destruct (radix_and_digits lo r) as [radix digits] eqn:Er.
      destruct (digits_value radix digits) as [m|] eqn:Ed; [|discriminate]. intros _.
      assert (B : numeric_body (remove_us r) = true) by (apply (int_body_numeric lo r m); rewrite Er; exact Ed).
      unfold is_numeric_looking. change (remove_us (45 :: r)) with (45 :: remove_us r). cbn [strip_sign N.eqb Pos.eqb orb]. exact B.
    + destruct (radix_and_digits lo T) as [radix digits] eqn:Er.
      destruct (digits_value radix digits) as [m|] eqn:Ed; [|discriminate]. intros _.
      assert (B : numeric_body (remove_us T) = true) by (apply (int_body_numeric lo T m); rewrite Er; exact Ed).
      unfold is_numeric_looking. rewrite (strip_sign_of_body _ B). exact B.
Qed.

(* ---- floats ---- *)
Lemma take_digits_spec : forall s,
  let '(d, r) := take_digits s in
  s = d ++ r /\ forallb is_digit d = true /\ match r with [] => True | c :: _ => is_digit c = false end.
Proof.
  induction s as [|c t IH]; cbn [take_digits]; [repeat split|].
  destruct (Scalars.is_digit c) eqn:E.
  - destruct (take_digits t) as [d r]. destruct IH as (I1 & I2 & I3). cbn [app forallb].
    split; [rewrite I1; reflexivity|]. split; [change (is_digit c) with (Scalars.is_digit c); rewrite E; exact I2|exact I3].
  - split; [reflexivity|]. split; [reflexivity|exact E].
Qed.

Lemma d_us_digits d : d <> [] -> forallb is_digit d = true -> d_us d = true.
Proof.
  destruct d as [|c r]; [intros H; contradiction H; reflexivity|]. intros _ H. cbn [forallb] in H.
  apply andb_true_iff in H. destruct H as [H1 H2]. unfold d_us. rewrite H1.
  apply (forallb_weaken is_digit); [intros x E; unfold digit_or_us; rewrite E; reflexivity|exact H2].
Qed.

(* the exponent part accepted by parse_number is the regex's exponent *)
Lemma split_sign_strip s : snd (split_sign s) = strip_sign s.
Proof. destruct s as [|c r]; [reflexivity|]. unfold split_sign, strip_sign. destruct (c =? 43); [reflexivity|]. destruct (c =? 45); reflexivity. Qed.

Lemma exponent_ok e r3 :
  (e =? 101) || (e =? 69) = true ->
  (let '(eneg, r4) := split_sign r3 in
   let '(ed, r5) := take_digits r4 in match ed, r5 with _ :: _, [] => true | _, _ => false end) = true ->
  is_exp (e :: r3) = true.
Proof.
  intros He H. unfold is_exp. rewrite He. cbn [andb]. rewrite <- split_sign_strip.
  destruct (split_sign r3) as [eneg r4]. cbn [snd].
  pose proof (take_digits_spec r4) as S. destruct (take_digits r4) as [ed r5]. destruct S as (S1 & S2 & _).
  destruct ed as [|x xs]; [discriminate|]. destruct r5; [|discriminate]. rewrite app_nil_r in S1. subst r4.
  apply d_us_digits; [discriminate|exact S2].
Qed.

Lemma digits_not_dot d : forallb is_digit d = true -> forallb (fun c => negb (c =? 46)) d = true.
Proof. apply forallb_weaken. intros x E. unfold is_digit in E. lia. Qed.
Lemma digits_not_e d : forallb is_digit d = true -> forallb (fun c => negb ((c =? 101) || (c =? 69))) d = true.
Proof. apply forallb_weaken. intros x E. unfold is_digit in E. lia. Qed.
Lemma digits_dus d : forallb is_digit d = true -> forallb digit_or_us d = true.
Proof. apply forallb_weaken. intros x E. unfold digit_or_us. rewrite E. reflexivity. Qed.

(* what Rust's float grammar accepts (digits [. digits] [exponent], at least one digit) is numeric-looking *)
Lemma parse_number_numeric s x : parse_number s = Some x -> numeric_body s = true.
Proof.
  unfold parse_number. pose proof (take_digits_spec s) as S. destruct (take_digits s) as [ip r1]. destruct S as (S1 & S2 & S3).
  unfold after_dot. destruct r1 as [|c r].
  - (* digits only *)
    destruct ip as [|i0 ip']; [discriminate|]. intros _. rewrite app_nil_r in S1. subst s. apply nb_dec; [discriminate|exact S2].
  - destruct (c =? 46) eqn:Ec.
    + (* a dot *)
      assert (c = 46) by lia. subst c.
      pose proof (take_digits_spec r) as T. destruct (take_digits r) as [fp r2]. destruct T as (T1 & T2 & T3).
      intros H.
      assert (Hnz : ip <> [] \/ fp <> []).
      { destruct ip; [|left; discriminate]. destruct fp; [discriminate|right; discriminate]. }
      assert (Hexp : opt_exp r2 = true /\ match r2 with [] => True | c :: _ => digit_or_us c = false end).
      { destruct r2 as [|e r3]; [split; [reflexivity|exact I]|].
        destruct ((e =? 101) || (e =? 69)) eqn:He.
        - split.
          + unfold opt_exp. apply exponent_ok; [exact He|].
            destruct ip, fp; try discriminate;
              destruct (split_sign r3) as [eneg r4]; destruct (take_digits r4) as [ed r5]; destruct ed, r5; try discriminate; reflexivity.
          + unfold digit_or_us, is_digit, is_us. lia.
        - destruct ip, fp; discriminate. }
      destruct Hexp as [Hx Hh].
      apply nb_of_dot. unfold nb_dot. rewrite S1, T1.
      rewrite (span_p_app (fun c => negb (c =? 46)) ip (46 :: fp ++ r2)); [|apply digits_not_dot; exact S2|reflexivity].
      rewrite (span_p_app digit_or_us fp r2); [|apply digits_dus; exact T2|exact Hh].
      rewrite Hx. destruct ip as [|i0 ip'].
      * destruct Hnz as [C|C]; [contradiction C; reflexivity|]. cbn [d_us andb orb]. rewrite (d_us_digits fp C T2). reflexivity.
      * rewrite (d_us_digits (i0 :: ip') ltac:(discriminate) S2). reflexivity.
    + (* no dot: an exponent must follow *)
      intros H. destruct ip as [|i0 ip']; [discriminate|].
      destruct ((c =? 101) || (c =? 69)) eqn:He; [|discriminate].
      assert (Hx : is_exp (c :: r) = true).
      { apply exponent_ok; [exact He|].
        destruct (split_sign r) as [eneg r4]; destruct (take_digits r4) as [ed r5]; destruct ed, r5; try discriminate; reflexivity. }
      apply nb_of_exp. unfold nb_exp. rewrite S1.
      rewrite (span_p_app (fun c => negb ((c =? 101) || (c =? 69))) (i0 :: ip') (c :: r)); [|apply digits_not_e; exact S2|rewrite He; reflexivity].
      rewrite (d_us_digits (i0 :: ip') ltac:(discriminate) S2), Hx. reflexivity.
Qed.

(* ---- the special float words ---- *)
Lemma lower_dot c : ascii_lower c = 46 -> c = 46.
Proof. unfold ascii_lower. destruct ((65 <=? c) && (c <=? 90)) eqn:E; lia. Qed.
Lemma lower_plus c : ascii_lower c = 43 -> c = 43.
Proof. unfold ascii_lower. destruct ((65 <=? c) && (c <=? 90)) eqn:E; lia. Qed.
Lemma lower_minus c : ascii_lower c = 45 -> c = 45.
Proof. unfold ascii_lower. destruct ((65 <=? c) && (c <=? 90)) eqn:E; lia. Qed.

Ltac split_eqb H :=
  repeat match type of H with (_ && _)%bool = true => let H2 := fresh "Hq" in apply andb_true_iff in H; destruct H as [H2 H]; apply N.eqb_eq in H2 end;
  try apply N.eqb_eq in H.

Lemma word4 t a b c : str_eqb (to_ascii_lowercase t) [46; a; b; c] = true ->
  exists x y z, t = [46; x; y; z] /\ lower x = a /\ lower y = b /\ lower z = c.
Proof.
  unfold to_ascii_lowercase. destruct t as [|c1 [|c2 [|c3 [|c4 [|c5 r]]]]]; cbn [map str_eqb]; try discriminate;
    try (rewrite ?andb_false_r; discriminate).
  intros H. rewrite andb_true_r in H.
  apply andb_true_iff in H. destruct H as [H1 H]. apply andb_true_iff in H. destruct H as [H2 H]. apply andb_true_iff in H. destruct H as [H3 H4].
  apply N.eqb_eq in H1, H2, H3, H4. apply lower_dot in H1. subst c1. exists c2, c3, c4. repeat split; assumption.
Qed.

Lemma word5 t s a b c : (s = 43 \/ s = 45) -> str_eqb (to_ascii_lowercase t) [s; 46; a; b; c] = true ->
  exists x y z, t = [s; 46; x; y; z] /\ lower x = a /\ lower y = b /\ lower z = c.
Proof.
  intros Hs. unfold to_ascii_lowercase. destruct t as [|c0 [|c1 [|c2 [|c3 [|c4 [|c5 r]]]]]]; cbn [map str_eqb]; try discriminate;
    try (rewrite ?andb_false_r; discriminate).
  intros H. rewrite andb_true_r in H.
  apply andb_true_iff in H. destruct H as [H0 H]. apply andb_true_iff in H. destruct H as [H1 H].
  apply andb_true_iff in H. destruct H as [H2 H]. apply andb_true_iff in H. destruct H as [H3 H4].
  apply N.eqb_eq in H0, H1, H2, H3, H4. apply lower_dot in H1. subst c1.
  assert (c0 = s) by (destruct Hs as [-> | ->]; [apply lower_plus|apply lower_minus]; exact H0). subst c0.
  exists c2, c3, c4. repeat split; assumption.
Qed.

Lemma float_words_special t :
  str_in (to_ascii_lowercase t) FLOAT_NAN_WORDS = true \/ str_in (to_ascii_lowercase t) FLOAT_INF_WORDS = true
  \/ str_in (to_ascii_lowercase t) FLOAT_NEG_INF_WORDS = true ->
  is_special_inf_nan t = true.
Proof.
  unfold FLOAT_NAN_WORDS, FLOAT_INF_WORDS, FLOAT_NEG_INF_WORDS. cbn [str_in]. rewrite !orb_false_r.
  intros [H|[H|H]].
  - apply orb_true_iff in H. destruct H as [H|H]; [|apply orb_true_iff in H; destruct H as [H|H]].
    + apply word4 in H. destruct H as (x & y & z & -> & E1 & E2 & E3). unfold is_special_inf_nan. cbn -[lower]. rewrite E1, E2, E3. reflexivity.
    + apply (word5 t 43) in H; [|left; reflexivity]. destruct H as (x & y & z & -> & E1 & E2 & E3). unfold is_special_inf_nan. cbn -[lower]. rewrite E1, E2, E3. reflexivity.
    + apply (word5 t 45) in H; [|right; reflexivity]. destruct H as (x & y & z & -> & E1 & E2 & E3). unfold is_special_inf_nan. cbn -[lower]. rewrite E1, E2, E3. reflexivity.
  - apply orb_true_iff in H. destruct H as [H|H].
    + apply word4 in H. destruct H as (x & y & z & -> & E1 & E2 & E3). unfold is_special_inf_nan. cbn -[lower]. rewrite E1, E2, E3. reflexivity.
    + apply (word5 t 43) in H; [|left; reflexivity]. destruct H as (x & y & z & -> & E1 & E2 & E3). unfold is_special_inf_nan. cbn -[lower]. rewrite E1, E2, E3. reflexivity.
  - apply (word5 t 45) in H; [|right; reflexivity]. destruct H as (x & y & z & -> & E1 & E2 & E3). unfold is_special_inf_nan. cbn -[lower]. rewrite E1, E2, E3. reflexivity.
Qed.

(* ---- assembly ---- *)
Lemma not_numeric_after_ambiguity t :
  is_numeric_looking t = false -> has_us t && is_numeric_looking (filter (fun c => negb (is_us c)) t) = false ->
  is_numeric_looking (remove_us t) = false.
Proof.
  intros H1 H2. destruct (has_us t) eqn:E.
  - cbn [andb] in H2. exact H2.
  - rewrite (remove_us_id t E). exact H1.
Qed.

Theorem plain_value_reads_back_untyped c s y12 flow :
  (y12 = true -> strict_booleans c = true) ->
  is_plain_value_safe s y12 flow = true ->
  deserialize_any_scalar c (mkScalar s Plain TAG_None) = RStr s.
Proof.
  intros Hy H. unfold is_plain_value_safe in H.
  repeat (apply andb_true_iff in H; destruct H as [H ?]).
  apply negb_true_iff in H. unfold is_ambiguous_value in H.
  apply orb_false_iff in H. destruct H as [Ha Hv].
  pose proof (ambiguous_covers_nullish s Ha) as Hnull.
  (* the facts about the trimmed text *)
  unfold is_ambiguous in Ha. remember (trim s) as t eqn:Et.
  assert (Htrim : trim t = t) by (rewrite Et; apply trim_idem).
  destruct t as [|t0 tr]; [cbn in Ha; discriminate|]. set (t := t0 :: tr) in *.
  repeat (apply orb_false_iff in Ha; destruct Ha as [Ha ?]).
  apply orb_false_iff in Hv. destruct Hv as [Hbool Hwords].
  repeat (apply orb_false_iff in Hwords; destruct Hwords as [Hwords ?]).
  match goal with Hn : is_numeric_looking t = false, Hu : has_us t && _ = false |- _ =>
    pose proof (not_numeric_after_ambiguity t Hn Hu) as Hnum; pose proof Hn as Hnl end.
  unfold deserialize_any_scalar. cbn [sv_tag sv_style sv_value].
  replace (TAG_None =? TAG_Null) with false by reflexivity. rewrite Hnull.
  replace (negb (is_plain Plain) || negb (can_parse_into_string TAG_None) || (TAG_None =? TAG_Binary) || (TAG_None =? TAG_String)) with false by (vm_compute; reflexivity).
  rewrite <- Et.
  (* booleans *)
  assert (Hb : (if strict_booleans c
                then if eq_ignore_ascii_case t s_true then Some true else if eq_ignore_ascii_case t s_false then Some false else None
                else parse_yaml11_bool s) = None).
  { destruct (strict_booleans c) eqn:Es.
    - match goal with Ht : eqi t S_TRUE = false, Hf : eqi t S_FALSE = false |- _ =>
        unfold eqi, S_TRUE, S_FALSE in Ht, Hf; unfold s_true, s_false; rewrite Ht, Hf end. reflexivity.
    - destruct y12; [discriminate (Hy eq_refl)|]. cbn [negb andb] in Hbool.
      unfold parse_yaml11_bool in *. rewrite <- Et. rewrite Htrim in Hbool.
      destruct (str_in_nocase t BOOL_TRUE_LITERALS); [discriminate|]. destruct (str_in_nocase t BOOL_FALSE_LITERALS); [discriminate|]. reflexivity. }
  rewrite Hb.
  (* integers *)
  assert (Hu : parse_int_unsigned 64 t (legacy_octal_numbers c) = None).
  { rewrite parse_int_unsigned_exact by (right; right; right; left; reflexivity).
    destruct (spec_int_unsigned 64 t (legacy_octal_numbers c)) as [v|] eqn:E; [|reflexivity].
    apply unsigned_numeric in E. rewrite Htrim in E. rewrite E in Hnum. discriminate. }
  assert (Hs : parse_int_signed 64 t (legacy_octal_numbers c) = None).
  { rewrite parse_int_signed_exact by (right; right; right; left; reflexivity).
    destruct (spec_int_signed 64 t (legacy_octal_numbers c)) as [v|] eqn:E; [|reflexivity].
    apply signed_numeric in E. rewrite Htrim in E. rewrite E in Hnum. discriminate. }
  (* floats *)
  assert (Hf : parse_yaml12_float F64_OVERFLOW_THRESHOLD s = None).
  { unfold parse_yaml12_float; rewrite <- Et;
    destruct (str_in (to_ascii_lowercase t) FLOAT_NAN_WORDS) eqn:W1;
      [match goal with Hsp : is_special_inf_nan t = false |- _ => rewrite (float_words_special t (or_introl W1)) in Hsp; discriminate end|];
    destruct (str_in (to_ascii_lowercase t) FLOAT_INF_WORDS) eqn:W2;
      [match goal with Hsp : is_special_inf_nan t = false |- _ => rewrite (float_words_special t (or_intror (or_introl W2))) in Hsp; discriminate end|];
    destruct (str_in (to_ascii_lowercase t) FLOAT_NEG_INF_WORDS) eqn:W3;
      [match goal with Hsp : is_special_inf_nan t = false |- _ => rewrite (float_words_special t (or_intror (or_intror W3))) in Hsp; discriminate end|];
    unfold rust_float_class; pose proof (split_sign_strip t) as SS; destruct (split_sign t) as [neg r]; cbn [snd] in SS; subst r;
    repeat match goal with Hw : eqi (strip_sign t) _ = false |- _ => unfold eqi, S_NAN, S_INF, S_INFINITY in Hw end;
    unfold s_inf, s_infinity, s_nan;
    repeat match goal with Hw : eq_ignore_ascii_case (strip_sign t) _ = false |- _ => rewrite Hw; clear Hw end;
    cbn [orb];
    destruct (parse_number (strip_sign t)) as [x|] eqn:P; [|reflexivity];
    apply parse_number_numeric in P; unfold is_numeric_looking in Hnl; rewrite P in Hnl; discriminate. }
  rewrite Hu, Hs, Hf. destruct (starts_with [45] t && negb (leading_zero_decimal t)); reflexivity.
Qed.

(* keys: the key-position test includes the value-position test, so a key left plain also reads back as itself *)
Corollary plain_key_reads_back_untyped c s y12 :
  (y12 = true -> strict_booleans c = true) ->
  is_plain_safe s && is_plain_value_safe s y12 true && negb (has_trailing_ws s) = true ->
  deserialize_any_scalar c (mkScalar s Plain TAG_None) = RStr s.
Proof.
  intros Hy H. apply andb_true_iff in H. destruct H as [H _]. apply andb_true_iff in H. destruct H as [_ H].
  apply (plain_value_reads_back_untyped c s y12 true Hy H).
Qed.
