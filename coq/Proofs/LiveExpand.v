(* LiveExpand.v -- C02, the central statement: what the live pump delivers for a document body is
   exactly the alias-free expansion of that body (every alias replaced by a verbatim copy of the
   events of the node most recently anchored under its id), whenever the expansion stays within the
   alias limits. *)
From SS Require Import Model.Live Model.Expand Proofs.LiveBasic.
From Coq Require Import Lia ZifyBool ZifyN ZifyNat.
Local Open Scope N_scope.

Scheme node_forest_ind := Induction for node Sort Prop
  with forest_node_ind := Induction for forest Sort Prop.

(* zero or more deliveries *)
Inductive steps : live -> list raw_item -> list ev -> live -> list raw_item -> Prop :=
| steps_nil s r : steps s r [] s r
| steps_cons s r e s1 r1 evs s2 r2 :
    next_impl s r = Yield e s1 r1 -> steps s1 r1 evs s2 r2 -> steps s r (e :: evs) s2 r2.

Lemma steps_app s r a s1 r1 b s2 r2 :
  steps s r a s1 r1 -> steps s1 r1 b s2 r2 -> steps s r (a ++ b) s2 r2.
Proof. induction 1 as [|? ? ? ? ? ? ? ? H1 H2 IH]; intros H; [exact H|]. cbn [app]. eapply steps_cons; [exact H1|]. apply IH. exact H. Qed.

Lemma steps_one s r e s1 r1 : next_impl s r = Yield e s1 r1 -> steps s r [e] s1 r1.
Proof. intros H. eapply steps_cons; [exact H|apply steps_nil]. Qed.

Definition idle (s : live) : Prop := forall r, serve_inject (lv_inject s) s r = None.

Lemma idle_of_empty s : lv_inject s = [] -> idle s.
Proof. intros H r. rewrite H. reflexivity. Qed.

Definition frames_app (fs : list rec_frame) (out : list ev) : list rec_frame :=
  map (fun f => mkRec (rf_id f) (rf_depth f) (rf_buf f ++ out)) fs.

Lemma frames_app_nil fs : frames_app fs [] = fs.
Proof. unfold frames_app. induction fs as [|[i d b] r IH]; [reflexivity|]. cbn [map rf_id rf_depth rf_buf]. rewrite app_nil_r, IH. reflexivity. Qed.

Lemma frames_app_app fs a b : frames_app (frames_app fs a) b = frames_app fs (a ++ b).
Proof. unfold frames_app. rewrite map_map. apply map_ext. intros f. cbn [rf_id rf_depth rf_buf]. rewrite app_assoc. reflexivity. Qed.

Lemma frames_app_ids fs out : map rf_id (frames_app fs out) = map rf_id fs.
Proof. unfold frames_app. rewrite map_map. reflexivity. Qed.

Definition static (s : live) :=
  (lv_budget s, lv_limits s, lv_look s, lv_stop_at_doc_end s, lv_seen_doc_end s, lv_recursive_in_progress s,
   lv_synth_null s).

Definition xstate (s : live) : xst := mkX (lv_anchors s) (lv_total_replayed s) (lv_expansions s).

Definition deep (k : N) (fs : list rec_frame) : Prop := Forall (fun f => k <= rf_depth f) fs.
Definition env_ok (env : list (N * list ev)) : Prop := Forall (fun p => snd p <> []) env.

(* ---- single deliveries from an idle state without budget ---- *)
Lemma exists_mem_ids id fs : existsb (fun f => rf_id f =? id) fs = mem_N id (map rf_id fs).
Proof.
  induction fs as [|f r IH]; [reflexivity|]. cbn [existsb map mem_N]. rewrite IH.
  rewrite (N.eqb_sym (rf_id f) id). reflexivity.
Qed.

Lemma step_scalar s v sty a t sp rest :
  no_budget s -> idle s -> folded_unindented v sty sp = false ->
  let e := EScalar v (sftag_from_optional t) t sty a (location_from_span sp) in
  exists s1, next_impl s (RItem (RScalar v sty a t) sp :: rest) = Yield e s1 rest
    /\ lv_rec s1 = frames_app (lv_rec s) [e]
    /\ lv_anchors s1 = (if negb (a =? 0) then (a, [e]) :: lv_anchors s else lv_anchors s)
    /\ lv_total_replayed s1 = lv_total_replayed s /\ lv_expansions s1 = lv_expansions s
    /\ static s1 = static s /\ lv_inject s1 = [] /\ lv_produced_any s1 = true.
Proof.
  intros Hb Hi Hf e. rewrite (next_impl_pulls_with_empty_stack _ _ (Hi _)). cbn [pull].
  rewrite observe_live_none by exact Hb. unfold folded_unindented in Hf. rewrite Hf.
  eexists. split; [reflexivity|]. fold e.
  destruct s as [pa sn lk inj an rc bu la li tr ex sd se ri]. unfold static, frames_app.
  destruct rc as [|top rr]; destruct (negb (a =? 0)); cbn; repeat split; reflexivity.
Qed.

Definition started (a : N) (e0 : ev) (fs : list rec_frame) : list rec_frame :=
  (if negb (a =? 0) then [mkRec a 1 [e0]] else [])
  ++ map (fun f => mkRec (rf_id f) (rf_depth f + 1) (rf_buf f ++ [e0])) fs.

Lemma step_start s (is_seq : bool) a t sp rest :
  no_budget s -> idle s ->
  let e0 := if is_seq then ESeqStart a (sftag_from_optional t) t (location_from_span sp)
            else EMapStart a (location_from_span sp) in
  exists s1, next_impl s (RItem (if is_seq then RSeqStart a t else RMapStart a t) sp :: rest) = Yield e0 s1 rest
    /\ lv_rec s1 = started a e0 (lv_rec s)
    /\ lv_anchors s1 = lv_anchors s
    /\ lv_total_replayed s1 = lv_total_replayed s /\ lv_expansions s1 = lv_expansions s
    /\ static s1 = static s /\ lv_inject s1 = [] /\ lv_produced_any s1 = true.
Proof.
  intros Hb Hi e0. rewrite (next_impl_pulls_with_empty_stack _ _ (Hi _)).
  destruct is_seq; cbn [pull]; rewrite observe_live_none by exact Hb;
    (eexists; split; [reflexivity|]); fold e0;
    destruct s as [pa sn lk inj an rc bu la li tr ex sd se ri]; unfold static, started;
    destruct rc as [|top rr]; destruct (negb (a =? 0)); cbn; rewrite ?map_map; repeat split; reflexivity.
Qed.

Lemma no_zero_depth fs e : deep 1 fs -> existsb (fun f => rf_depth f =? 0) (map (push_ev e) fs) = false.
Proof.
  induction 1 as [|f r Hf _ IH]; [reflexivity|]. cbn [map existsb push_ev rf_depth]. rewrite IH.
  destruct (N.eqb_spec (rf_depth f) 0); [lia|reflexivity].
Qed.

Lemma finalize_deep fs an : deep 1 fs -> finalize_frames fs an = (fs, an).
Proof.
  intros H. destruct fs as [|f r]; [reflexivity|]. inversion H as [|? ? Hf _]; subst. cbn [finalize_frames].
  destruct (N.eqb_spec (rf_depth f) 0); [lia|reflexivity].
Qed.

Lemma deep_weaken k k' fs : k' <= k -> deep k fs -> deep k' fs.
Proof. intros Hk H. induction H as [|f r Hf _ IH]; constructor; [lia|exact IH]. Qed.

Definition ended (e : ev) (olds : list rec_frame) : list rec_frame :=
  map (fun f => mkRec (rf_id f) (rf_depth f - 1) (rf_buf f ++ [e])) olds.

Lemma deep_ended e olds : deep 2 olds -> deep 1 (ended e olds).
Proof. intros H. unfold ended. induction H as [|f r Hf _ IH]; constructor; [cbn; lia|exact IH]. Qed.

Lemma step_end s (is_seq : bool) a buf olds spe rest :
  no_budget s -> idle s ->
  lv_rec s = (if negb (a =? 0) then [mkRec a 1 buf] else []) ++ olds -> deep 2 olds ->
  let e := if is_seq then ESeqEnd (location_from_span spe) else EMapEnd (location_from_span spe) in
  exists s1, next_impl s (RItem (if is_seq then RSeqEnd else RMapEnd) spe :: rest) = Yield e s1 rest
    /\ lv_rec s1 = ended e olds
    /\ lv_anchors s1 = (if negb (a =? 0) then (a, buf ++ [e]) :: lv_anchors s else lv_anchors s)
    /\ lv_total_replayed s1 = lv_total_replayed s /\ lv_expansions s1 = lv_expansions s
    /\ static s1 = static s /\ lv_inject s1 = [] /\ lv_produced_any s1 = true.
Proof.
  intros Hb Hi Hrec Hd e. rewrite (next_impl_pulls_with_empty_stack _ _ (Hi _)).
  assert (D1 : deep 1 olds) by (apply (deep_weaken 2); [lia|exact Hd]).
  pose proof (deep_ended e olds Hd) as D2.
  assert (B : bump_depth_on_end (record (with_inject s []) e false false)
              = Some (with_anchors (with_rec (record (with_inject s []) e false false) (ended e olds))
                        (if negb (a =? 0) then (a, buf ++ [e]) :: lv_anchors s else lv_anchors s))).
  { destruct s as [pa sn lk inj an rc bu la li tr ex sd se ri]. cbn [lv_rec] in Hrec. subst rc.
    unfold bump_depth_on_end, record. cbn [with_inject lv_rec lv_produced_any lv_synth_null lv_look lv_inject lv_anchors lv_budget lv_last lv_limits lv_total_replayed lv_expansions lv_stop_at_doc_end lv_seen_doc_end lv_recursive_in_progress].
    destruct (negb (a =? 0)); cbn [app].
    - cbn [andb with_rec lv_rec map existsb push_ev rf_depth rf_id rf_buf lv_anchors].
      rewrite (no_zero_depth olds e D1). cbn [orb N.eqb]. rewrite map_map. cbn [finalize_frames rf_depth rf_id rf_buf push_ev].
      replace (1 - 1 =? 0) with true by reflexivity.
      change (map (fun x => mkRec (rf_id (push_ev e x)) (rf_depth (push_ev e x) - 1) (rf_buf (push_ev e x))) olds) with (ended e olds).
      rewrite (finalize_deep _ _ D2). reflexivity.
    - destruct olds as [|o1 or]; [reflexivity|]. cbn [andb with_rec lv_rec lv_anchors].
      rewrite (no_zero_depth (o1 :: or) e D1). rewrite map_map.
      change (map (fun x => mkRec (rf_id (push_ev e x)) (rf_depth (push_ev e x) - 1) (rf_buf (push_ev e x))) (o1 :: or)) with (ended e (o1 :: or)).
      rewrite (finalize_deep _ _ D2). reflexivity. }
  destruct is_seq; cbn [pull]; rewrite observe_live_none by exact Hb; fold e; rewrite B;
    (eexists; split; [reflexivity|]);
    destruct s as [pa sn lk inj an rc bu la li tr ex sd se ri]; unfold static;
    destruct rc as [|top rr]; cbn; destruct (negb (a =? 0)); repeat split; reflexivity.
Qed.

(* ---- replay ---- *)
Lemma step_replay s id i ref buf e rest :
  no_budget s -> lv_inject s = [mkInj id i ref] -> assoc id (lv_anchors s) = Some buf ->
  nth_error buf (N.to_nat i) = Some e ->
  lv_total_replayed s + 1 <= USIZE_MAX -> lv_total_replayed s + 1 <= max_total_replayed_events (lv_limits s) ->
  exists s1, next_impl s rest = Yield e s1 rest
    /\ lv_inject s1 = [mkInj id (i + 1) ref]
    /\ lv_rec s1 = frames_app (lv_rec s) [e]
    /\ lv_anchors s1 = lv_anchors s
    /\ lv_total_replayed s1 = lv_total_replayed s + 1 /\ lv_expansions s1 = lv_expansions s
    /\ static s1 = static s /\ lv_produced_any s1 = true.
Proof.
  intros Hb Hinj Ha Hn H1 H2. unfold next_impl. rewrite Hinj. cbn [serve_inject if_anchor if_idx if_ref].
  rewrite Ha, Hn. cbn [lv_total_replayed with_inject lv_limits with_replayed].
  destruct (N.ltb_spec USIZE_MAX (lv_total_replayed s + 1)); [lia|].
  destruct (N.ltb_spec (max_total_replayed_events (lv_limits s)) (lv_total_replayed s + 1)); [lia|].
  rewrite observe_live_none by (unfold no_budget in *; cbn; exact Hb).
  eexists. split; [reflexivity|].
  destruct s as [pa sn lk inj an rc bu la li tr ex sd se ri]. unfold static, frames_app.
  destruct rc as [|top rr]; cbn; repeat split; reflexivity.
Qed.

Lemma skipn_cons_nth {A} (l : list A) : forall n x r, skipn n l = x :: r -> nth_error l n = Some x /\ skipn (S n) l = r.
Proof.
  induction l as [|y l IH]; intros [|n] x r H; cbn in H; try discriminate.
  - inversion H; subst. split; reflexivity.
  - apply IH in H. exact H.
Qed.

Lemma replay_steps id ref buf rest : forall suffix s i,
  no_budget s -> lv_inject s = [mkInj id i ref] -> assoc id (lv_anchors s) = Some buf ->
  skipn (N.to_nat i) buf = suffix ->
  lv_total_replayed s + len_N suffix <= USIZE_MAX ->
  lv_total_replayed s + len_N suffix <= max_total_replayed_events (lv_limits s) ->
  exists s', steps s rest suffix s' rest
    /\ lv_inject s' = [mkInj id (i + len_N suffix) ref]
    /\ lv_rec s' = frames_app (lv_rec s) suffix
    /\ lv_anchors s' = lv_anchors s
    /\ lv_total_replayed s' = lv_total_replayed s + len_N suffix /\ lv_expansions s' = lv_expansions s
    /\ static s' = static s /\ (suffix <> [] -> lv_produced_any s' = true).
Proof.
  induction suffix as [|e suf IH]; intros s i Hb Hinj Ha Hs H1 H2.
  - exists s. split; [apply steps_nil|]. unfold len_N. cbn [length N.of_nat]. rewrite !N.add_0_r, frames_app_nil.
    repeat split; try assumption; try reflexivity. intros C; contradiction C; reflexivity.
  - apply skipn_cons_nth in Hs. destruct Hs as [Hn Hs].
    unfold len_N in *. cbn [length] in *.
    destruct (step_replay s id i ref buf e rest Hb Hinj Ha Hn) as (s1 & E & I1 & R1 & A1 & T1 & X1 & S1 & P1); [lia|lia|].
    destruct (IH s1 (i + 1)) as (s' & St & I2 & R2 & A2 & T2 & X2 & S2 & P2).
    + unfold no_budget in *. unfold static in S1. congruence.
    + exact I1.
    + rewrite A1. exact Ha.
    + replace (N.to_nat (i + 1)) with (S (N.to_nat i)) by lia. exact Hs.
    + lia.
    + unfold static in S1. assert (lv_limits s1 = lv_limits s) as -> by congruence. lia.
    + exists s'. split; [eapply steps_cons; [exact E|exact St]|].
      rewrite I2, R2, R1, frames_app_app, A2, A1, T2, T1, X2, X1, S2, S1.
      repeat split; try reflexivity.
      * f_equal. f_equal. lia.
      * lia.
      * intros _. destruct suf as [|e2 suf']; [|apply P2; discriminate].
        inversion St; subst. exact P1.
Qed.

Lemma steps_transfer s0 r0 s1 r e evs s' r' :
  steps s1 r (e :: evs) s' r' -> next_impl s0 r0 = next_impl s1 r -> steps s0 r0 (e :: evs) s' r'.
Proof. intros H E. inversion H; subst. eapply steps_cons; [rewrite E; eassumption|assumption]. Qed.

(* entering an alias: the very call that reads the alias item already serves the first copied event *)
Definition alias_entered (s : live) (id : N) (l : loc) : live :=
  let s1 := with_expansions (with_inject s []) ((id, sat_add (expansions_of s id) 1) :: lv_expansions s) in
  let s2 := with_budget s1 (option_map alias_will_be_replayed (lv_budget s1)) in
  with_inject s2 (mkInj id 0 l :: lv_inject s2).

Lemma alias_enter s id sp rest buf :
  no_budget s -> idle s ->
  sat_add (expansions_of s id) 1 <= max_alias_expansions_per_anchor (lv_limits s) ->
  1 <= max_replay_stack_depth (lv_limits s) ->
  mem_N id (map rf_id (lv_rec s)) = false ->
  assoc id (lv_anchors s) = Some buf -> buf <> [] ->
  lv_total_replayed s + 1 <= USIZE_MAX -> lv_total_replayed s + 1 <= max_total_replayed_events (lv_limits s) ->
  next_impl s (RItem (RAlias id) sp :: rest) = next_impl (alias_entered s id (location_from_span sp)) rest.
Proof.
  intros Hb Hi H1 H2 Hm Ha Hne T1 T2. rewrite (next_impl_pulls_with_empty_stack _ _ (Hi _)). cbn [pull].
  rewrite observe_live_none by exact Hb.
  cbn [lv_limits with_expansions with_inject lv_inject lv_rec lv_anchors lv_recursive_in_progress lv_expansions].
  change (expansions_of (with_inject s []) id) with (expansions_of s id).
  destruct (N.ltb_spec (max_alias_expansions_per_anchor (lv_limits s)) (sat_add (expansions_of s id) 1)); [lia|].
  cbn [len_N length N.of_nat N.add].
  destruct (N.ltb_spec (max_replay_stack_depth (lv_limits s)) 1); [lia|].
  rewrite exists_mem_ids, Hm, Ha.
  (* the first served event exists, so serve_inject answers *)
  destruct buf as [|e0 b']; [contradiction Hne; reflexivity|].
  unfold next_impl, alias_entered.
  cbn [lv_inject with_inject with_budget with_expansions lv_budget lv_anchors lv_produced_any lv_synth_null lv_look lv_rec lv_last lv_limits lv_total_replayed lv_expansions lv_stop_at_doc_end lv_seen_doc_end lv_recursive_in_progress].
  cbn [serve_inject if_anchor if_idx if_ref lv_anchors with_inject with_budget with_expansions].
  rewrite Ha. cbn [N.to_nat nth_error].
  reflexivity.
Qed.

(* ---- the invariant between nodes and what a node does to the state ---- *)
Definition Inv (s : live) (open : list N) : Prop :=
  no_budget s /\ idle s /\ map rf_id (lv_rec s) = open /\ deep 1 (lv_rec s) /\ env_ok (lv_anchors s).

Definition nonempty {A} (l : list A) : bool := match l with [] => false | _ => true end.

Definition Post (s s' : live) (out : list ev) (st' : xst) : Prop :=
  xstate s' = st' /\ lv_rec s' = frames_app (lv_rec s) out /\ static s' = static s /\ idle s'
  /\ env_ok (lv_anchors s') /\ lv_produced_any s' = (lv_produced_any s || nonempty out)%bool.

Lemma deep_frames_app k fs out : deep k fs -> deep k (frames_app fs out).
Proof. intros H. unfold frames_app. induction H as [|f r Hf _ IH]; constructor; [exact Hf|exact IH]. Qed.

Lemma post_inv s s' out st' open : Inv s open -> Post s s' out st' -> Inv s' open.
Proof.
  intros (Hb & _ & Hids & Hd & _) (_ & Hr & Hs & Hi & He & _). repeat split.
  - unfold no_budget in *. unfold static in Hs. congruence.
  - exact Hi.
  - rewrite Hr, frames_app_ids. exact Hids.
  - rewrite Hr. apply deep_frames_app. exact Hd.
  - exact He.
Qed.

Lemma post_trans s s1 s2 o1 o2 st1 st2 :
  Post s s1 o1 st1 -> Post s1 s2 o2 st2 -> Post s s2 (o1 ++ o2) st2.
Proof.
  intros (_ & R1 & S1 & _ & _ & P1) (X2 & R2 & S2 & I2 & E2 & P2). repeat split; try assumption.
  - rewrite R2, R1. apply frames_app_app.
  - rewrite S2. exact S1.
  - rewrite P2, P1. destruct o1, o2; cbn; rewrite ?Bool.orb_false_r, ?Bool.orb_true_r; reflexivity.
Qed.

Lemma assoc_env_ok id env buf : env_ok env -> assoc id env = Some buf -> buf <> [].
Proof.
  induction 1 as [|[k v] r Hk _ IH]; cbn [assoc]; [discriminate|].
  destruct (id =? k); [intros E; inversion E; subst; exact Hk|exact IH].
Qed.

Lemma nth_error_len {A} (l : list A) : nth_error l (length l) = None.
Proof. apply nth_error_None. lia. Qed.

Lemma frames_started a e0 F inner :
  frames_app (started a e0 F) inner
  = (if negb (a =? 0) then [mkRec a 1 (e0 :: inner)] else [])
    ++ map (fun f => mkRec (rf_id f) (rf_depth f + 1) ((rf_buf f ++ [e0]) ++ inner)) F.
Proof.
  unfold frames_app, started. rewrite map_app, map_map. destruct (negb (a =? 0)); reflexivity.
Qed.

Lemma ended_started e0 inner eend F :
  ended eend (map (fun f => mkRec (rf_id f) (rf_depth f + 1) ((rf_buf f ++ [e0]) ++ inner)) F)
  = frames_app F (e0 :: inner ++ [eend]).
Proof.
  unfold ended, frames_app. rewrite map_map. apply map_ext. intros f. cbn [rf_id rf_depth rf_buf].
  f_equal; [lia|]. rewrite <- !app_assoc. reflexivity.
Qed.

Lemma deep_started_olds e0 inner F :
  deep 1 F -> deep 2 (map (fun f => mkRec (rf_id f) (rf_depth f + 1) ((rf_buf f ++ [e0]) ++ inner)) F).
Proof. intros H. induction H as [|f r Hf _ IH]; constructor; [cbn; lia|exact IH]. Qed.

Lemma deep_bumped e0 F :
  deep 1 F -> deep 1 (map (fun f => mkRec (rf_id f) (rf_depth f + 1) (rf_buf f ++ [e0])) F).
Proof. intros H. induction H as [|f r Hf _ IH]; constructor; [cbn; lia|exact IH]. Qed.

(* a container: start, children (by the induction hypothesis), end *)
Lemma container_steps (is_seq : bool) a t sp items spe lim open st inner st1 s rest :
  (forall lim open st out st' s rest,
     expand_forest lim open st items = Some (out, st') -> lv_limits s = lim -> xstate s = st -> Inv s open ->
     exists s', steps s (lin_forest items ++ rest) out s' rest /\ Post s s' out st') ->
  expand_forest lim (if negb (a =? 0) then a :: open else open) st items = Some (inner, st1) ->
  lv_limits s = lim -> xstate s = st -> Inv s open ->
  let e0 := if is_seq then ESeqStart a (sftag_from_optional t) t (location_from_span sp)
            else EMapStart a (location_from_span sp) in
  let eend := if is_seq then ESeqEnd (location_from_span spe) else EMapEnd (location_from_span spe) in
  let out := e0 :: inner ++ [eend] in
  exists s', steps s (RItem (if is_seq then RSeqStart a t else RMapStart a t) sp
                      :: lin_forest items ++ [RItem (if is_seq then RSeqEnd else RMapEnd) spe] ++ rest) out s' rest
    /\ Post s s' out (if negb (a =? 0) then mkX ((a, out) :: x_env st1) (x_replayed st1) (x_exp st1) else st1).
Proof.
  intros IH Hx Hlim Hst (Hb & Hi & Hids & Hd & He) e0 eend out.
  destruct (step_start s is_seq a t sp (lin_forest items ++ [RItem (if is_seq then RSeqEnd else RMapEnd) spe] ++ rest) Hb Hi)
    as (s1 & E1 & R1 & A1 & T1 & X1 & S1 & J1 & P1). fold e0 in E1, R1.
  assert (Hb1 : no_budget s1) by (unfold no_budget in *; unfold static in S1; congruence).
  assert (Inv1 : Inv s1 (if negb (a =? 0) then a :: open else open)).
  { repeat split; [exact Hb1|apply idle_of_empty; exact J1| | |rewrite A1; exact He].
    - rewrite R1, <- Hids. unfold started. rewrite map_app, map_map. destruct (negb (a =? 0)); reflexivity.
    - rewrite R1. unfold started. apply Forall_app. split.
      + destruct (negb (a =? 0)); constructor; [cbn; lia|constructor].
      + apply deep_bumped. exact Hd. }
  destruct (IH lim _ st inner st1 s1 ([RItem (if is_seq then RSeqEnd else RMapEnd) spe] ++ rest) Hx) as (s2 & St2 & Po2).
  { unfold static in S1. congruence. }
  { unfold xstate. rewrite A1, T1, X1. exact Hst. }
  { exact Inv1. }
  pose proof (post_inv _ _ _ _ _ Inv1 Po2) as (Hb2 & Hi2 & _ & _ & He2).
  destruct Po2 as (X2 & R2 & S2 & _ & _ & P2).
  rewrite R1, frames_started in R2.
  destruct (step_end s2 is_seq a (e0 :: inner) _ spe rest Hb2 Hi2 R2 (deep_started_olds e0 inner _ Hd))
    as (s3 & E3 & R3 & A3 & T3 & X3 & S3 & J3 & P3). fold eend in E3, R3, A3.
  exists s3. split.
  - eapply steps_cons; [exact E1|].
    change (e0 :: inner ++ [eend]) with ([e0] ++ inner ++ [eend]) in out.
    eapply steps_app; [exact St2|]. cbn [app]. apply steps_one. exact E3.
  - repeat split.
    + unfold xstate. rewrite A3, T3, X3. unfold xstate in X2. subst st1. cbn [x_env x_replayed x_exp].
      destruct (negb (a =? 0)); reflexivity.
    + rewrite R3. apply ended_started.
    + rewrite S3, S2. exact S1.
    + apply idle_of_empty. exact J3.
    + rewrite A3. destruct (negb (a =? 0)); [constructor; [cbn; discriminate|exact He2]|exact He2].
    + rewrite P3. cbn. rewrite Bool.orb_true_r. reflexivity.
Qed.

Lemma alias_steps id sp lim open st buf s rest :
  lv_limits s = lim -> xstate s = st -> Inv s open ->
  sat_add (x_expansions_of st id) 1 <= max_alias_expansions_per_anchor lim ->
  1 <= max_replay_stack_depth lim ->
  mem_N id open = false ->
  assoc id (x_env st) = Some buf ->
  x_replayed st + len_N buf <= USIZE_MAX ->
  x_replayed st + len_N buf <= max_total_replayed_events lim ->
  exists s', steps s (RItem (RAlias id) sp :: rest) buf s' rest
    /\ Post s s' buf (mkX (x_env st) (x_replayed st + len_N buf) ((id, sat_add (x_expansions_of st id) 1) :: x_exp st)).
Proof.
  intros Hlim Hst (Hb & Hi & Hids & Hd & He) H1 H2 Hm Ha T1 T2.
  subst st lim. change (x_expansions_of (xstate s) id) with (expansions_of s id) in *.
  unfold xstate in *. cbn [x_env x_replayed x_exp] in *.
  pose proof (assoc_env_ok _ _ _ He Ha) as Hne.
  assert (L : 1 <= len_N buf). { destruct buf; [contradiction Hne; reflexivity|unfold len_N; cbn [length]; lia]. }
  set (l := location_from_span sp).
  set (s1 := alias_entered s id l).
  assert (Hb1 : no_budget s1). { unfold no_budget in *. unfold s1, alias_entered. cbn. rewrite Hb. reflexivity. }
  destruct (replay_steps id l buf rest buf s1 0) as (s' & St & I' & R' & A' & T' & X' & S' & P').
  - exact Hb1.
  - reflexivity.
  - exact Ha.
  - reflexivity.
  - exact T1.
  - exact T2.
  - exists s'. split.
    + destruct buf as [|e0 b']; [contradiction Hne; reflexivity|].
      eapply steps_transfer; [exact St|].
      apply (alias_enter s id sp rest (e0 :: b') Hb Hi H1 H2).
      * rewrite Hids. exact Hm.
      * exact Ha.
      * discriminate.
      * lia.
      * lia.
    + repeat split.
      * unfold xstate. rewrite A', T', X'. reflexivity.
      * rewrite R'. reflexivity.
      * rewrite S'. unfold static, s1, alias_entered. cbn. unfold no_budget in Hb. rewrite Hb. reflexivity.
      * intros r. rewrite I'. cbn [serve_inject if_anchor if_idx]. rewrite A'. cbn [s1 alias_entered lv_anchors with_inject with_budget with_expansions]. rewrite Ha.
        replace (N.to_nat (0 + len_N buf)) with (length buf) by (unfold len_N; lia). rewrite nth_error_len. reflexivity.
      * rewrite A'. exact He.
      * rewrite (P' Hne). destruct buf; [contradiction Hne; reflexivity|]. cbn. rewrite Bool.orb_true_r. reflexivity.
Qed.

(* ---- the main induction ---- *)
Definition node_ok (n : node) : Prop :=
  forall lim open st out st' s rest,
    expand lim open st n = Some (out, st') -> lv_limits s = lim -> xstate s = st -> Inv s open ->
    exists s', steps s (lin n ++ rest) out s' rest /\ Post s s' out st'.
Definition forest_ok (f : forest) : Prop :=
  forall lim open st out st' s rest,
    expand_forest lim open st f = Some (out, st') -> lv_limits s = lim -> xstate s = st -> Inv s open ->
    exists s', steps s (lin_forest f ++ rest) out s' rest /\ Post s s' out st'.

Lemma scalar_ok v sty a t sp : node_ok (NScalar v sty a t sp).
Proof.
  intros lim open st out st' s rest Hx Hlim Hst (Hb & Hi & Hids & Hd & He). cbn [expand] in Hx.
  destruct (folded_unindented v sty sp) eqn:Hf; [discriminate|]. inversion Hx; subst out st'; clear Hx.
  destruct (step_scalar s v sty a t sp rest Hb Hi Hf) as (s1 & E & R1 & A1 & T1 & X1 & S1 & J1 & P1).
  exists s1. split; [cbn [lin app]; apply steps_one; exact E|].
  repeat split.
  - unfold xstate. rewrite A1, T1, X1. subst st. unfold xstate. cbn [x_env x_replayed x_exp]. destruct (negb (a =? 0)); reflexivity.
  - exact R1.
  - exact S1.
  - apply idle_of_empty. exact J1.
  - rewrite A1. destruct (negb (a =? 0)); [constructor; [cbn; discriminate|exact He]|exact He].
  - rewrite P1. cbn. rewrite Bool.orb_true_r. reflexivity.
Qed.

Lemma seq_ok a t sp items spe : forest_ok items -> node_ok (NSeq a t sp items spe).
Proof.
  intros IH lim open st out st' s rest Hx Hlim Hst HI. cbn [expand] in Hx.
  destruct (expand_forest lim (if negb (a =? 0) then a :: open else open) st items) as [[inner st1]|] eqn:Hf; [|discriminate].
  inversion Hx; subst out st'; clear Hx.
  destruct (container_steps true a t sp items spe lim open st inner st1 s rest IH Hf Hlim Hst HI) as (s' & St & Po).
  exists s'. split; [|exact Po]. cbn [lin]. rewrite <- app_comm_cons, <- app_assoc. exact St.
Qed.

Lemma map_ok a t sp items spe : forest_ok items -> node_ok (NMap a t sp items spe).
Proof.
  intros IH lim open st out st' s rest Hx Hlim Hst HI. cbn [expand] in Hx.
  destruct (expand_forest lim (if negb (a =? 0) then a :: open else open) st items) as [[inner st1]|] eqn:Hf; [|discriminate].
  inversion Hx; subst out st'; clear Hx.
  destruct (container_steps false a t sp items spe lim open st inner st1 s rest IH Hf Hlim Hst HI) as (s' & St & Po).
  exists s'. split; [|exact Po]. cbn [lin]. rewrite <- app_comm_cons, <- app_assoc. exact St.
Qed.

Lemma alias_ok id sp : node_ok (NAlias id sp).
Proof.
  intros lim open st out st' s rest Hx Hlim Hst HI. cbn [expand] in Hx.
  destruct (N.ltb_spec (max_alias_expansions_per_anchor lim) (sat_add (x_expansions_of st id) 1)); [discriminate|].
  destruct (N.ltb_spec (max_replay_stack_depth lim) 1); [discriminate|].
  destruct (mem_N id open) eqn:Hm; [discriminate|].
  destruct (assoc id (x_env st)) as [buf|] eqn:Ha; [|discriminate].
  destruct (N.ltb_spec USIZE_MAX (x_replayed st + len_N buf)); [discriminate|].
  destruct (N.ltb_spec (max_total_replayed_events lim) (x_replayed st + len_N buf)); [discriminate|].
  cbn [orb] in Hx. inversion Hx; subst out st'; clear Hx.
  destruct (alias_steps id sp lim open st buf s rest Hlim Hst HI) as (s' & St & Po); try assumption.
  exists s'. split; [exact St|exact Po].
Qed.

Lemma fnil_ok : forest_ok FNil.
Proof.
  intros lim open st out st' s rest Hx Hlim Hst (Hb & Hi & Hids & Hd & He). cbn [expand_forest] in Hx.
  inversion Hx; subst out st'. exists s. split; [apply steps_nil|].
  repeat split; try assumption; try reflexivity.
  - symmetry. apply frames_app_nil.
  - cbn. rewrite Bool.orb_false_r. reflexivity.
Qed.

Lemma fcons_ok n f : node_ok n -> forest_ok f -> forest_ok (FCons n f).
Proof.
  intros IHn IHf lim open st out st' s rest Hx Hlim Hst HI. cbn [expand_forest] in Hx.
  destruct (expand lim open st n) as [[o1 st1]|] eqn:H1; [|discriminate].
  destruct (expand_forest lim open st1 f) as [[o2 st2]|] eqn:H2; [|discriminate].
  inversion Hx; subst out st'; clear Hx.
  destruct (IHn lim open st o1 st1 s (lin_forest f ++ rest) H1 Hlim Hst HI) as (s1 & St1 & Po1).
  pose proof (post_inv _ _ _ _ _ HI Po1) as HI1.
  destruct (IHf lim open st1 o2 st2 s1 rest H2) as (s2 & St2 & Po2).
  - destruct Po1 as (_ & _ & S1 & _). unfold static in S1. congruence.
  - destruct Po1 as (X1 & _). exact X1.
  - exact HI1.
  - exists s2. split; [|eapply post_trans; eassumption].
    cbn [lin_forest]. rewrite <- app_assoc. eapply steps_app; eassumption.
Qed.

Theorem node_delivers_its_expansion : forall n, node_ok n.
Proof.
  exact (node_forest_ind node_ok forest_ok scalar_ok
           (fun a t sp items IH spe => seq_ok a t sp items spe IH)
           (fun a t sp items IH spe => map_ok a t sp items spe IH)
           alias_ok fnil_ok (fun n IHn f IHf => fcons_ok n f IHn IHf)).
Qed.

Theorem forest_delivers_its_expansion : forall f, forest_ok f.
Proof.
  exact (forest_node_ind node_ok forest_ok scalar_ok
           (fun a t sp items IH spe => seq_ok a t sp items spe IH)
           (fun a t sp items IH spe => map_ok a t sp items spe IH)
           alias_ok fnil_ok (fun n IHn f IHf => fcons_ok n f IHn IHf)).
Qed.

(* ---- a whole document ---- *)
Lemma deliveries_steps s r evs s' r' : steps s r evs s' r' ->
  forall k, deliveries (length evs + k) s r = (evs ++ fst (deliveries k s' r'), snd (deliveries k s' r')).
Proof.
  induction 1 as [s r|s r e s1 r1 evs s2 r2 E _ IH]; intros k.
  - cbn [length Nat.add app]. destruct (deliveries k s r); reflexivity.
  - cbn [length Nat.add deliveries]. rewrite E. rewrite IH. reflexivity.
Qed.

Definition doc_items (b : bool) (sp0 sp1 sp2 sp3 : pspan) (f : forest) : list raw_item :=
  RItem RStreamStart sp0 :: RItem (RDocStart b) sp1 :: lin_forest f ++ [RItem RDocEnd sp2; RItem RStreamEnd sp3].

Theorem document_delivers_its_expansion lim b sp0 sp1 sp2 sp3 f out st' :
  expand_forest lim [] (mkX [] 0 []) f = Some (out, st') -> out <> [] ->
  exists s', deliveries (S (length out)) (live_new None false lim false) (doc_items b sp0 sp1 sp2 sp3 f)
             = (out, Eos s' []).
Proof.
  intros Hx Hne.
  set (s0 := live_new None false lim false).
  set (tail := [RItem RDocEnd sp2; RItem RStreamEnd sp3]).
  set (sA := with_last (reset_document_state (with_last (with_inject s0 []) (location_from_span sp0))) (location_from_span sp1)).
  assert (E0 : forall r, next_impl s0 (RItem RStreamStart sp0 :: RItem (RDocStart b) sp1 :: r) = next_impl sA r).
  { intros r. unfold next_impl. reflexivity. }
  assert (IA : Inv sA []).
  { repeat split; try reflexivity; try constructor. }
  destruct (forest_delivers_its_expansion f lim [] (mkX [] 0 []) out st' sA tail Hx eq_refl eq_refl IA) as (s1 & St & Po).
  pose proof (post_inv _ _ _ _ _ IA Po) as (Hb1 & Hi1 & _ & _ & _).
  destruct Po as (_ & _ & S1 & _ & _ & P1).
  assert (Hp : lv_produced_any s1 = true). { rewrite P1. destruct out; [contradiction Hne; reflexivity|]. cbn [nonempty]. apply Bool.orb_true_r. }
  assert (Hstop : lv_stop_at_doc_end s1 = false). { unfold static in S1. inversion S1. reflexivity. }
  (* the tail: document end, stream end, end of input *)
  assert (Et : exists s', next_impl s1 tail = Eos s' []).
  { rewrite (next_impl_pulls_with_empty_stack _ _ (Hi1 _)). unfold tail. cbn [pull].
    rewrite observe_live_none by exact Hb1.
    cbn [lv_stop_at_doc_end with_last with_seen_doc_end reset_document_state with_replayed with_expansions with_anchors with_rec with_inject].
    rewrite Hstop. cbn [pull].
    rewrite observe_live_none by (unfold no_budget in *; cbn; exact Hb1).
    cbn [pull lv_produced_any with_last with_seen_doc_end with_replayed with_expansions with_anchors with_rec with_inject].
    change (lv_produced_any (reset_document_state (with_inject s1 []))) with (lv_produced_any s1).
    rewrite Hp. cbn [negb]. eexists. reflexivity. }
  destruct Et as (s' & Et). exists s'.
  destruct out as [|e0 o']; [contradiction Hne; reflexivity|].
  assert (St0 : steps s0 (doc_items b sp0 sp1 sp2 sp3 f) (e0 :: o') s1 tail).
  { eapply steps_transfer; [exact St|]. unfold doc_items. fold tail. apply E0. }
  replace (S (length (e0 :: o'))) with (length (e0 :: o') + 1)%nat by lia.
  rewrite (deliveries_steps _ _ _ _ _ St0 1%nat). cbn [deliveries]. rewrite Et. cbn [fst snd]. rewrite app_nil_r. reflexivity.
Qed.
