(* FoldedPar.v -- C12 / C20: a one-line string that starts with text, wrapped as a folded block scalar at any wrap
   column and any body indentation, reads back as itself. *)
From SS Require Import Model.FoldedPar Proofs.Layout Proofs.BlockScalar.
From Coq Require Import Lia.
Local Open Scope nat_scope.

Lemma starts_ok_text_line l : starts_ok l -> text_line l = true.
Proof. intros (c & r & -> & H). cbn. rewrite H. reflexivity. Qed.

Lemma forallb_text_lines ls : Forall starts_ok ls -> forallb text_line ls = true.
Proof. induction 1 as [|l r H _ IH]; [reflexivity|]. cbn. rewrite (starts_ok_text_line l H), IH. reflexivity. Qed.

Lemma starts_ok_not_all_sp l : starts_ok l -> BlockScalar.all_sp l = false /\ BlockScalar.lead_sp l = 0.
Proof.
  intros (c & r & -> & H). unfold Layout.is_blank in H. apply Bool.orb_false_iff in H. destruct H as [Hs _].
  unfold BlockScalar.all_sp. cbn. change (BlockScalar.is_sp c) with (Layout.is_sp c). rewrite Hs. split; reflexivity.
Qed.

Lemma detect_padded_text ind l r :
  starts_ok l -> BlockScalar.detect (map (BlockScalar.pad ind) (l :: r)) 0 = Some (Some ind).
Proof.
  intros H. destruct H as (c & t & -> & Hb). cbn [map BlockScalar.detect].
  unfold Layout.is_blank in Hb. apply Bool.orb_false_iff in Hb. destruct Hb as [Hs _].
  rewrite (all_sp_pad_text ind c t Hs), lead_sp_pad. cbn [BlockScalar.lead_sp].
  change (BlockScalar.is_sp c) with (Layout.is_sp c). rewrite Hs.
  replace (ind + 0) with ind by lia. reflexivity.
Qed.

Theorem folded_single_line_roundtrip ind w c r :
  Layout.is_blank c = false ->
  read_folded_paragraph None (emit_folded_line ind w (c :: r)) = Some (c :: r).
Proof.
  intros Hc. unfold read_folded_paragraph, emit_folded_line.
  pose proof (folded_lines_start_with_text w c r Hc) as Hall.
  destruct (fold_line w (c :: r)) as [|l ls] eqn:E.
  { (* fold_line never returns the empty list: its joined text is the line *)
    pose proof (folding_preserves_the_text w (c :: r)) as J. rewrite E in J. discriminate. }
  inversion Hall as [|? ? Hl Hls]; subst.
  rewrite (detect_padded_text ind l ls Hl), strip_pad, (forallb_text_lines (l :: ls) Hall).
  rewrite <- E, folding_preserves_the_text. reflexivity.
Qed.

(* with the indentation indicator the same text reads back too (never needed for such text, shown for completeness) *)
Theorem folded_single_line_roundtrip_explicit ind w c r :
  Layout.is_blank c = false ->
  read_folded_paragraph (Some ind) (emit_folded_line ind w (c :: r)) = Some (c :: r).
Proof.
  intros Hc. unfold read_folded_paragraph, emit_folded_line.
  pose proof (folded_lines_start_with_text w c r Hc) as Hall.
  rewrite strip_pad, (forallb_text_lines _ Hall), folding_preserves_the_text. reflexivity.
Qed.

Example folded_example :
  emit_folded_line 2 8 [104; 101; 108; 108; 111; 32; 119; 111; 114; 108; 100; 32; 97; 103; 97; 105; 110]%N
    = [[32; 32; 104; 101; 108; 108; 111]; [32; 32; 119; 111; 114; 108; 100; 32; 97; 103; 97; 105; 110]]%N
  /\ read_folded_paragraph None [[32; 32; 104; 101; 108; 108; 111]; [32; 32; 119; 111; 114; 108; 100; 32; 97; 103; 97; 105; 110]]%N
      = Some [104; 101; 108; 108; 111; 32; 119; 111; 114; 108; 100; 32; 97; 103; 97; 105; 110]%N
  /\ read_folded_paragraph None [[32; 32; 97]; []; [32; 32; 98]]%N = None.
Proof. vm_compute. repeat split. Qed.
