(* PathMap.v -- C18: the lookup of a validator path is exact when the path was recorded, and a
   looser comparison is only ever used when it singles out ONE recorded path; the answer does not
   depend on the order in which the recorded paths are stored (a hash map in the code). *)
From SS Require Import Model.PathMap.
From Coq Require Import Lia Permutation.
Local Open Scope N_scope.

(* ---- unique match ---- *)
Theorem find_unique_sound r target cands id leaf :
  find_unique r target cands = Some (id, leaf) ->
  exists p, In (p, id) cands /\ path_rel r target p = true /\ leaf = leaf_name p
            /\ forall q id', In (q, id') cands -> path_rel r target q = true -> (q, id') = (p, id).
Proof.
  unfold find_unique. destruct target as [|t0 tr]; [discriminate|].
  destruct (filter (fun c => path_rel r (t0 :: tr) (fst c)) cands) as [|c [|c2 rest]] eqn:F; try discriminate.
  intros H. inversion H; subst. destruct c as [p i]. cbn [fst snd] in *. exists p.
  assert (Hin : In (p, i) (filter (fun c => path_rel r (t0 :: tr) (fst c)) cands)) by (rewrite F; left; reflexivity).
  apply filter_In in Hin. destruct Hin as [Hin Hrel]. cbn [fst] in Hrel.
  split; [exact Hin|]. split; [exact Hrel|]. split; [reflexivity|].
  intros q id' Hq Hr.
  assert (In (q, id') (filter (fun c => path_rel r (t0 :: tr) (fst c)) cands)) by (apply filter_In; split; [exact Hq|exact Hr]).
  rewrite F in H0. destruct H0 as [E|[]]. symmetry. exact E.
Qed.

Theorem find_unique_refuses_ambiguity r target cands c1 c2 :
  In c1 cands -> In c2 cands -> c1 <> c2 ->
  path_rel r target (fst c1) = true -> path_rel r target (fst c2) = true ->
  find_unique r target cands = None.
Proof.
  intros H1 H2 Hne R1 R2. unfold find_unique. destruct target as [|t0 tr]; [reflexivity|].
  destruct (filter (fun c => path_rel r (t0 :: tr) (fst c)) cands) as [|c [|c' rest]] eqn:F; try reflexivity.
  assert (A : In c1 [c]) by (rewrite <- F; apply filter_In; auto).
  assert (B : In c2 [c]) by (rewrite <- F; apply filter_In; auto).
  destruct A as [A|[]], B as [B|[]]. congruence.
Qed.

(* ---- order independence ---- *)
Lemma filter_perm {A} (f : A -> bool) l l' : Permutation l l' -> Permutation (filter f l) (filter f l').
Proof.
  induction 1 as [|x l l' H IH|x y l|l l' l'' H1 IH1 H2 IH2]; cbn [filter].
  - constructor.
  - destruct (f x); [constructor|]; exact IH.
  - destruct (f x), (f y); try constructor; try apply Permutation_refl. 
  - eapply Permutation_trans; eassumption.
Qed.

Lemma find_unique_perm r target l l' : Permutation l l' -> find_unique r target l = find_unique r target l'.
Proof.
  intros H. unfold find_unique. destruct target as [|t0 tr]; [reflexivity|].
  pose proof (filter_perm (fun c => path_rel r (t0 :: tr) (fst c)) l l' H) as P.
  destruct (filter _ l) as [|a [|a2 ra]] eqn:Fa.
  - apply Permutation_nil in P. rewrite P. reflexivity.
  - apply Permutation_length_1_inv in P. rewrite P. reflexivity.
  - pose proof (Permutation_length P) as L. destruct (filter _ l') as [|b [|b2 rb]]; cbn in L; try discriminate. reflexivity.
Qed.

(* exact equality of paths is an equivalence that identifies at most one recorded path when the
   recorded paths are pairwise different *)
Lemma seg_eqb_eq a b : seg_eqb a b = true -> a = b.
Proof.
  destruct a as [ia na], b as [ib nb]. unfold seg_eqb. cbn [fst snd]. intros H. apply andb_true_iff in H. destruct H as [H1 H2].
  apply Bool.eqb_prop in H1. subst ib. f_equal.
  revert nb H2. induction na as [|x r IH]; intros [|y r'] H; try discriminate; [reflexivity|].
  cbn [str_eqb] in H. apply andb_true_iff in H. destruct H as [Hx Hr]. apply N.eqb_eq in Hx. subst. f_equal. apply IH. exact Hr.
Qed.

Lemma path_eqb_eq : forall a b, path_eqb a b = true -> a = b.
Proof.
  induction a as [|x r IH]; intros [|y r'] H; try discriminate; [reflexivity|].
  unfold path_eqb in *. cbn [path_rel] in H. apply andb_true_iff in H. destruct H as [Hx Hr].
  apply seg_eqb_eq in Hx. subst. f_equal. apply IH. exact Hr.
Qed.

Definition distinct_paths (cands : list (path * N)) : Prop := NoDup (map fst cands).

Lemma exact_filter_at_most_one target cands :
  distinct_paths cands ->
  forall c1 c2, In c1 (filter (fun c => path_eqb target (fst c)) cands) ->
                In c2 (filter (fun c => path_eqb target (fst c)) cands) -> c1 = c2.
Proof.
  unfold distinct_paths. induction cands as [|[p i] r IH]; intros Hnd c1 c2 H1 H2; [contradiction|].
  cbn [map fst] in Hnd. inversion Hnd as [|? ? Hnotin Hnd']; subst.
  cbn [filter fst] in H1, H2.
  assert (Hout : forall c, In c (filter (fun c => path_eqb target (fst c)) r) -> path_eqb target p = true -> False).
  { intros c Hc Hp. apply filter_In in Hc. destruct Hc as [Hc Hc2]. apply path_eqb_eq in Hc2. apply path_eqb_eq in Hp.
    apply Hnotin. rewrite <- Hp, Hc2. apply in_map. exact Hc. }
  destruct (path_eqb target p) eqn:E.
  - destruct H1 as [<-|H1], H2 as [<-|H2]; try reflexivity; exfalso; eapply Hout; eauto.
  - apply IH; assumption.
Qed.

Theorem search_is_order_independent target l l' :
  distinct_paths l -> Permutation l l' -> search target l = search target l'.
Proof.
  intros Hd P. unfold search.
  pose proof (filter_perm (fun c => path_eqb target (fst c)) l l' P) as PF.
  assert (Hd' : distinct_paths l') by (unfold distinct_paths in *; eapply Permutation_NoDup; [apply Permutation_map; exact P|exact Hd]).
  destruct (filter (fun c => path_eqb target (fst c)) l) as [|a ra] eqn:Fa.
  - apply Permutation_nil in PF. rewrite PF.
    rewrite !(find_unique_perm _ target l l' P). reflexivity.
  - destruct (filter (fun c => path_eqb target (fst c)) l') as [|b rb] eqn:Fb.
    + apply Permutation_sym, Permutation_nil in PF. discriminate.
    + assert (a = b).
      { apply (exact_filter_at_most_one target l' Hd'); rewrite Fb; [|left; reflexivity].
        eapply Permutation_in; [exact PF|left; reflexivity]. }
      subst. reflexivity.
Qed.

(* an exactly recorded path is found, with its own locations *)
Theorem search_exact_hit target id cands :
  target <> [] -> distinct_paths cands -> In (target, id) cands ->
  search target cands = Some (id, leaf_name target).
Proof.
  intros Hne Hd Hin. unfold search.
  assert (Hrefl : path_eqb target target = true).
  { unfold path_eqb. clear. induction target as [|[i n] r IH]; [reflexivity|]. cbn [path_rel]. rewrite IH, andb_true_r.
    unfold seg_eqb. cbn [fst snd]. rewrite Bool.eqb_reflx. cbn [andb]. clear. induction n as [|x r IH]; [reflexivity|]. cbn [str_eqb]. rewrite N.eqb_refl, IH. reflexivity. }
  assert (Hf : In (target, id) (filter (fun c => path_eqb target (fst c)) cands)) by (apply filter_In; split; [exact Hin|exact Hrefl]).
  destruct (filter (fun c => path_eqb target (fst c)) cands) as [|c r] eqn:F; [contradiction|].
  assert (c = (target, id)).
  { apply (exact_filter_at_most_one target cands Hd); rewrite F; [left; reflexivity|exact Hf]. }
  subst c. cbn [snd]. destruct target; [contradiction|reflexivity].
Qed.
