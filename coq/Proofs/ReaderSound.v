(* ReaderSound.v -- soundness of the byte -> char re-assembler for EVERY schedule, faulty ones
   included (C09 / C10): a yielded character is the decoding of bytes that were read, yielding never
   touches the error cell, the byte count never decreases, and a run changes the cell only by
   putting an error into it. *)
From SS Require Import Model.Reader.
From Coq Require Import Lia ZifyBool ZifyN ZifyNat.
Local Open Scope N_scope.

Lemma sat_add_r_ge a b : a <= USIZE_MAX_R -> a <= sat_add_r a b.
Proof. intros Ha. unfold sat_add_r. destruct (USIZE_MAX_R <? a + b) eqn:E; lia. Qed.

Lemma sat_add_r_le a b : sat_add_r a b <= USIZE_MAX_R.
Proof. unfold sat_add_r. destruct (USIZE_MAX_R <? a + b) eqn:E; lia. Qed.

(* one step, any schedule, any cap *)
Lemma next_sound mb c r c' : ck_total c <= USIZE_MAX_R ->
  chunked_next mb c = (r, c') ->
  ck_total c <= ck_total c' /\ ck_total c' <= USIZE_MAX_R /\
  match r with
  | Some ch => ck_cell c' = ck_cell c /\ exists bytes, utf8_dec bytes = Some [ch]
  | None => ck_cell c' = ck_cell c \/ exists k, ck_cell c' = Some k
  end.
Proof.
  intros Hu. unfold chunked_next.
  destruct (read_first _ _) as [[b| |k] s1].
  2:{ intros H; inversion H; subst; cbn. repeat split; try lia. left; reflexivity. }
  2:{ intros H; inversion H; subst; cbn. repeat split; try lia. right; eauto. }
  destruct (lead_len b) as [needed|].
  2:{ intros H; inversion H; subst; cbn. repeat split; try lia. right; eauto. }
  destruct (read_rest _ _ _ _) as [[bytes|k] s2].
  2:{ intros H; inversion H; subst; cbn. repeat split; try lia. right; eauto. }
  pose proof (sat_add_r_ge (ck_total c) (N.of_nat needed) Hu) as Hge.
  pose proof (sat_add_r_le (ck_total c) (N.of_nat needed)) as Hle.
  destruct (match mb with Some lim => lim <? sat_add_r (ck_total c) (N.of_nat needed) | None => false end).
  { intros H; inversion H; subst; cbn. repeat split; try lia. right; eauto. }
  destruct (utf8_dec bytes) as [[|ch [|x xs]]|] eqn:Hd;
    intros H; inversion H; subst; cbn; repeat split; try lia; try (right; eauto; fail).
  exists bytes. exact Hd.
Qed.

(* the whole run *)
Theorem run_sound : forall fuel mb c acc out c', ck_total c <= USIZE_MAX_R ->
  chunked_all fuel mb c acc = (out, c') ->
  ck_total c <= ck_total c' /\
  (ck_cell c' = ck_cell c \/ exists k, ck_cell c' = Some k) /\
  exists ys, out = rev acc ++ ys /\ Forall (fun ch => exists bytes, utf8_dec bytes = Some [ch]) ys.
Proof.
  induction fuel as [|f IH]; intros mb c acc out c' Hu H.
  - cbn in H. inversion H; subst. repeat split; try lia. { left; reflexivity. }
    exists []. rewrite app_nil_r. split; [reflexivity|constructor].
  - cbn [chunked_all] in H. destruct (chunked_next mb c) as [[ch|] c1] eqn:Hn.
    + destruct (next_sound mb c (Some ch) c1 Hu Hn) as (H1 & H2 & Hc & Hb).
      destruct (IH mb c1 (ch :: acc) out c' H2 H) as (T & C & ys & Ho & Hy).
      split; [lia|]. split; [rewrite <- Hc; exact C|].
      exists (ch :: ys). split; [rewrite Ho; cbn [rev]; rewrite <- app_assoc; reflexivity|].
      constructor; assumption.
    + destruct (next_sound mb c None c1 Hu Hn) as (H1 & H2 & Hc).
      inversion H; subst. split; [lia|]. split; [exact Hc|].
      exists []. rewrite app_nil_r. split; [reflexivity|constructor].
Qed.

(* the size cap is an invariant of every step and therefore of every run, on every schedule *)
Lemma next_cap_inv lim c r c' : lim <= USIZE_MAX_R -> ck_total c <= lim ->
  chunked_next (Some lim) c = (r, c') -> ck_total c' <= lim.
Proof.
  intros Hu Hl. unfold chunked_next.
  destruct (read_first _ _) as [[b| |k] s1]; try (intros H; inversion H; subst; cbn; lia).
  destruct (lead_len b) as [needed|]; [|intros H; inversion H; subst; cbn; lia].
  destruct (read_rest _ _ _ _) as [[bytes|k] s2]; [|intros H; inversion H; subst; cbn; lia].
  destruct (lim <? sat_add_r (ck_total c) (N.of_nat needed)) eqn:E.
  { intros H; inversion H; subst; cbn; lia. }
  destruct (utf8_dec bytes) as [[|ch [|x xs]]|]; intros H; inversion H; subst; cbn; lia.
Qed.

Theorem run_cap_inv : forall fuel lim c acc out c', lim <= USIZE_MAX_R -> ck_total c <= lim ->
  chunked_all fuel (Some lim) c acc = (out, c') -> ck_total c' <= lim.
Proof.
  induction fuel as [|f IH]; intros lim c acc out c' Hu Hl H.
  - cbn in H. inversion H; subst. exact Hl.
  - cbn [chunked_all] in H. destruct (chunked_next (Some lim) c) as [[ch|] c1] eqn:Hn.
    + eapply IH; [exact Hu| |exact H]. eapply next_cap_inv; eauto.
    + inversion H; subst. eapply next_cap_inv; eauto.
Qed.
