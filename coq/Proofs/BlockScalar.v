(* BlockScalar.v -- C12 / C20: a string written as a literal block scalar reads back as itself, for every text with
   at least one character other than a line feed and every body indentation: the indentation indicator is written
   exactly when detection would go wrong, the chomping indicator restores the trailing line feeds. *)
From SS Require Import Model.BlockScalar.
From Coq Require Import Lia.
Local Open Scope nat_scope.

(* ---- lines ---- *)
Lemma lines_of_nonempty s : lines_of s <> [].
Proof.
  destruct s as [|c r]; cbn [lines_of]; [discriminate|].
  destruct (is_nl c); [discriminate|]. destruct (lines_of r); discriminate.
Qed.

Lemma join_lines s : join_nl (lines_of s) = s.
Proof.
  induction s as [|c r IH]; [reflexivity|]. cbn [lines_of].
  destruct (is_nl c) eqn:E.
  - apply N.eqb_eq in E. subst c. pose proof (lines_of_nonempty r) as Hne.
    destruct (lines_of r) as [|l ls] eqn:El; [congruence|].
    cbn [join_nl app]. rewrite <- IH. reflexivity.
  - destruct (lines_of r) as [|l ls] eqn:El; [exfalso; exact (lines_of_nonempty r El)|].
    rewrite <- IH. destruct ls; reflexivity.
Qed.

Lemma with_breaks_join ls : ls <> [] -> with_breaks ls = join_nl ls ++ [10%N].
Proof.
  induction ls as [|l r IH]; [congruence|]. intros _. unfold with_breaks in *. cbn [flat_map join_nl].
  destruct r as [|l2 r2]; [cbn; rewrite app_nil_r; reflexivity|].
  rewrite IH by discriminate. rewrite <- !app_assoc. reflexivity.
Qed.

Lemma with_breaks_lines s : with_breaks (lines_of s) = s ++ [10%N].
Proof. rewrite with_breaks_join by apply lines_of_nonempty. rewrite join_lines. reflexivity. Qed.

Lemma with_breaks_app a b : with_breaks (a ++ b) = with_breaks a ++ with_breaks b.
Proof. unfold with_breaks. apply flat_map_app. Qed.

Lemma with_breaks_empties m : with_breaks (repeat [] m) = repeat 10%N m.
Proof. induction m as [|m IH]; [reflexivity|]. cbn. unfold with_breaks in IH. rewrite IH. reflexivity. Qed.

(* ---- trailing line feeds ---- *)
Definition no_final_nl (t : list N) : Prop := t <> [] /\ last t 0%N <> 10%N.

Lemma trim_spec v : let '(t, k) := trim_end_nl v in v = t ++ repeat 10%N k /\ (t = [] \/ no_final_nl t).
Proof.
  induction v as [|c r IH]; [cbn; auto|]. cbn [trim_end_nl].
  destruct (trim_end_nl r) as [t k]. destruct IH as [-> Ht].
  destruct t as [|t0 tr].
  - destruct (is_nl c) eqn:E.
    + apply N.eqb_eq in E. subst c. cbn. auto.
    + split; [reflexivity|]. right. split; [discriminate|]. cbn. intros ->. discriminate.
  - split; [reflexivity|]. right. destruct Ht as [Ht|[_ Ht]]; [discriminate|].
    split; [discriminate|]. exact Ht.
Qed.

Lemma trim_app t k : no_final_nl t -> trim_end_nl (t ++ repeat 10%N k) = (t, k).
Proof.
  intros [Hne Hl]. induction t as [|c r IH]; [congruence|].
  destruct r as [|c2 r2].
  - cbn [app]. cbn [trim_end_nl].
    assert (Hr : trim_end_nl (repeat 10%N k) = ([], k)).
    { clear. induction k as [|k IH]; [reflexivity|]. cbn [repeat trim_end_nl]. rewrite IH. reflexivity. }
    rewrite Hr. cbn in Hl. destruct (is_nl c) eqn:E; [apply N.eqb_eq in E; congruence|reflexivity].
  - change ((c :: c2 :: r2) ++ repeat 10%N k) with (c :: ((c2 :: r2) ++ repeat 10%N k)).
    cbn [trim_end_nl]. rewrite IH; [reflexivity|discriminate|exact Hl].
Qed.

(* ---- padding and stripping ---- *)
Lemma lead_sp_pad ind l : lead_sp (pad ind l) = ind + lead_sp l.
Proof. unfold pad. induction ind as [|n IH]; [reflexivity|]. cbn. rewrite IH. reflexivity. Qed.

Lemma skipn_pad ind l : skipn ind (pad ind l) = l.
Proof. unfold pad. induction ind as [|n IH]; [reflexivity|]. cbn. exact IH. Qed.

Lemma strip_pad ind ls : strip_lines ind (map (pad ind) ls) = Some ls.
Proof.
  induction ls as [|l r IH]; [reflexivity|]. cbn [map strip_lines]. rewrite IH.
  rewrite lead_sp_pad. replace (Nat.leb ind (ind + lead_sp l)) with true by (symmetry; apply Nat.leb_le; lia).
  rewrite skipn_pad. reflexivity.
Qed.

Lemma map_pad_app ind a m : map (pad ind) a ++ repeat (pad ind []) m = map (pad ind) (a ++ repeat [] m).
Proof. rewrite map_app. f_equal. induction m as [|m IH]; [reflexivity|]. cbn. rewrite IH. reflexivity. Qed.

(* ---- detection ---- *)
Lemma all_sp_pad_nil ind : all_sp (pad ind []) = true.
Proof. unfold pad, all_sp. rewrite app_nil_r. induction ind; [reflexivity|]. cbn. exact IHind. Qed.

Lemma pad_nil_length ind : length (pad ind []) = ind.
Proof. unfold pad. rewrite app_nil_r. apply repeat_length. Qed.

Lemma all_sp_pad_text ind c l : is_sp c = false -> all_sp (pad ind (c :: l)) = false.
Proof.
  intros Hc. unfold pad, all_sp. rewrite forallb_app. cbn [forallb]. rewrite Hc. cbn.
  apply Bool.andb_false_r.
Qed.

Definition has_text (ls : list (list N)) : bool := existsb (fun l => match l with [] => false | _ => true end) ls.

Lemma detect_padded ind ls tail me :
  has_text ls = true -> first_line_leading_spaces ls = 0 -> me <= ind ->
  detect (map (pad ind) ls ++ tail) me = Some (Some ind).
Proof.
  revert me. induction ls as [|l r IH]; intros me Ht Hf Hme; [discriminate|].
  destruct l as [|c l'].
  - cbn [map app detect]. rewrite all_sp_pad_nil, pad_nil_length. cbn in Ht, Hf.
    apply IH; [exact Ht|exact Hf|lia].
  - cbn [first_line_leading_spaces lead_sp] in Hf.
    destruct (is_sp c) eqn:Ec; [discriminate|].
    cbn [map app detect]. rewrite (all_sp_pad_text ind c l' Ec), lead_sp_pad. cbn [lead_sp]. rewrite Ec.
    replace (ind + 0) with ind by lia.
    replace (Nat.ltb ind me) with false by (symmetry; apply Nat.ltb_ge; lia). reflexivity.
Qed.

(* a text that does not end with a line feed has a last line with text *)
Lemma lines_have_text t : no_final_nl t -> has_text (lines_of t) = true.
Proof.
  intros [Hne Hl]. induction t as [|c r IH]; [congruence|]. cbn [lines_of].
  destruct r as [|c2 r2].
  - cbn in Hl. cbn [lines_of]. destruct (is_nl c) eqn:E; [apply N.eqb_eq in E; congruence|reflexivity].
  - assert (IH' : has_text (lines_of (c2 :: r2)) = true) by (apply IH; [discriminate|exact Hl]).
    destruct (is_nl c); [cbn [has_text existsb]; exact IH'|].
    destruct (lines_of (c2 :: r2)) as [|l ls]; [reflexivity|]. reflexivity.
Qed.

(* ---- the round trip ---- *)
Lemma detect_empties ind k me : detect (repeat (pad ind []) k) me = Some None.
Proof.
  revert me. induction k as [|k IH]; intros me; [reflexivity|].
  cbn [repeat detect]. rewrite all_sp_pad_nil. apply IH.
Qed.

Lemma trim_breaks k : trim_end_nl (repeat 10%N k) = ([], k).
Proof. induction k as [|k IH]; [reflexivity|]. cbn [repeat trim_end_nl]. rewrite IH. reflexivity. Qed.

Lemma with_breaks_blank {A} (l : list A) : with_breaks (map (fun _ => []) l) = repeat 10%N (length l).
Proof. induction l as [|x r IH]; [reflexivity|]. cbn. unfold with_breaks in IH. rewrite IH. reflexivity. Qed.

(* every string but the lone line feed "\n" (known finding F49: it is written with clip chomping and one blank
   line, which a reader takes for the empty string) *)
Theorem literal_block_roundtrip ind v : v <> [10%N] -> read_back ind (emit_literal ind v) = Some v.
Proof.
  intros Hlone. unfold emit_literal, read_back.
  pose proof (trim_spec v) as Hs. destruct (trim_end_nl v) as [content k] eqn:Et.
  destruct Hs as [Hv [Hnil|Hnf]].
  { (* nothing but line feeds *)
    subst content. cbn [lines_of first_line_leading_spaces Nat.ltb Nat.leb b_explicit b_chomp b_lines app] in *.
    unfold read_literal. subst v.
    destruct k as [|[|k2]]; [reflexivity|exfalso; apply Hlone; reflexivity|].
    rewrite detect_empties, with_breaks_blank, repeat_length. reflexivity. }
  destruct content as [|c0 cr] eqn:Econtent; [destruct Hnf; congruence|]. rewrite <- Econtent in *.
  clear Econtent c0 cr.
  cbn [b_explicit b_chomp b_lines].
  set (ls := lines_of content).
  rewrite map_pad_app.
  assert (Hbody : with_breaks (ls ++ repeat [] (Nat.pred k)) = content ++ 10%N :: repeat 10%N (Nat.pred k)).
  { rewrite with_breaks_app, with_breaks_empties. unfold ls. rewrite with_breaks_lines, <- app_assoc. reflexivity. }
  assert (Hfinal : apply_chomp (match k with 0 => Strip | 1 => Clip | _ => Keep end)
                     (content ++ 10%N :: repeat 10%N (Nat.pred k)) = v).
  { rewrite Hv. destruct k as [|[|k2]].
    - cbn [Nat.pred repeat apply_chomp]. change (content ++ [10%N]) with (content ++ repeat 10%N 1).
      rewrite (trim_app content 1 Hnf). cbn [fst repeat]. rewrite app_nil_r. reflexivity.
    - cbn [Nat.pred repeat apply_chomp]. change (content ++ [10%N]) with (content ++ repeat 10%N 1).
      rewrite (trim_app content 1 Hnf). cbn [fst]. destruct content; [destruct Hnf; congruence|reflexivity].
    - cbn [Nat.pred apply_chomp]. reflexivity. }
  destruct (Nat.ltb 0 (first_line_leading_spaces ls)) eqn:Eexp; unfold read_literal.
  - rewrite strip_pad, Hbody, Hfinal. reflexivity.
  - apply Nat.ltb_ge in Eexp.
    rewrite <- map_pad_app.
    rewrite (detect_padded ind ls _ 0 (lines_have_text content Hnf) ltac:(lia) ltac:(lia)).
    rewrite map_pad_app, strip_pad, Hbody, Hfinal. reflexivity.
Qed.

(* ... and the lone line feed is the one string that does NOT survive (F49): read back, it is the empty string *)
Lemma literal_block_lone_break_refuted ind : read_back ind (emit_literal ind [10%N]) = Some [].
Proof. unfold read_back, emit_literal, read_literal. cbn [trim_end_nl is_nl N.eqb Pos.eqb lines_of first_line_leading_spaces
  Nat.ltb Nat.leb b_explicit b_chomp b_lines repeat]. cbn [detect]. rewrite all_sp_pad_nil. reflexivity. Qed.

(* the indicator is there exactly when the first non-empty line begins with a space, the chomping indicator
   follows the number of trailing line feeds, and every body line carries the indentation *)
Theorem literal_block_shape ind v :
  let b := emit_literal ind v in
  let '(content, k) := trim_end_nl v in
  b_explicit b = Nat.ltb 0 (first_line_leading_spaces (lines_of content)) /\
  b_chomp b = (match k with 0 => Strip | 1 => Clip | _ => Keep end) /\
  Forall (fun l => ind <= lead_sp l) (b_lines b).
Proof.
  unfold emit_literal. destruct (trim_end_nl v) as [content k]. cbn [b_explicit b_chomp b_lines].
  split; [reflexivity|]. split; [reflexivity|].
  assert (Hrep : forall m, Forall (fun l => ind <= lead_sp l) (repeat (pad ind []) m)).
  { intros m. induction m as [|m IH]; constructor; [rewrite lead_sp_pad; lia|exact IH]. }
  destruct content as [|c0 cr]; [apply Hrep|].
  apply Forall_app. split; [|apply Hrep].
  apply Forall_forall. intros l Hin. apply in_map_iff in Hin. destruct Hin as [l0 [<- _]].
  rewrite lead_sp_pad. lia.
Qed.

(* non-vacuity: " a\n\n  b\n\n" needs the indicator and keep chomping; "x\ny" needs neither *)
Example literal_examples :
  emit_literal 2 [32; 97; 10; 10; 32; 32; 98; 10; 10]%N =
    mkBlock true Keep [[32; 32; 32; 97]; [32; 32]; [32; 32; 32; 32; 98]; [32; 32]]%N /\
  read_back 2 (emit_literal 2 [32; 97; 10; 10; 32; 32; 98; 10; 10]%N) = Some [32; 97; 10; 10; 32; 32; 98; 10; 10]%N /\
  emit_literal 4 [120; 10; 121]%N = mkBlock false Strip [[32; 32; 32; 32; 120]; [32; 32; 32; 32; 121]]%N /\
  (* without the indicator the first example would be read with the wrong indentation *)
  read_literal None Keep [[32; 32; 32; 97]; [32; 32]; [32; 32; 32; 32; 98]; [32; 32]]%N = Some [97; 10; 10; 32; 98; 10; 10]%N.
Proof. vm_compute. repeat split. Qed.
