(* Emit.v -- C13: the column discipline of the block layout determines the tree: reading the token
   stream of any tree back by columns alone returns that tree and leaves what follows untouched. *)
From SS Require Import Model.Emit.
From Coq Require Import Lia.
Local Open Scope nat_scope.

(* induction on trees with the two nested lists *)
Fixpoint tsize (t : tree) : nat :=
  match t with
  | TSc _ => 1
  | TSeq l => S (fold_right (fun x a => tsize x + a) 0 l)
  | TMap l => S (fold_right (fun kv a => tsize (snd kv) + a) 0 l)
  end.

(* what may follow a node at column c without being swallowed by it: nothing, or a token at a
   smaller column *)
Definition follows (c : nat) (rest : list tok) : Prop :=
  match rest with [] => True | t :: _ => tok_col t < c end.

Lemma toks_nonempty c t : toks c t <> [].
Proof. destruct t as [s|[|x r]|[|[k v] r]]; cbn; discriminate. Qed.

Lemma toks_head_col c t : exists h r, toks c t = h :: r /\ tok_col h = c.
Proof. destruct t as [s|[|x r]|[|[k v] r]]; cbn; eauto. Qed.

(* the items loop of `parse`, named *)
Definition items_loop (f c : nat) :=
  fix items (g : nat) (l : list tok) (acc : list tree) : option (tree * list tok) :=
    match g with
    | O => None
    | S g' =>
      match l with
      | KDash c2 :: r =>
        if Nat.eqb c2 c then
          match parse f (c + 2) r with
          | Some (x, r') => items g' r' (x :: acc)
          | None => None
          end
        else Some (TSeq (rev acc), l)
      | _ => Some (TSeq (rev acc), l)
      end
    end.
Definition entries_loop (f c : nat) :=
  fix entries (g : nat) (l : list tok) (acc : list (list N * tree)) : option (tree * list tok) :=
    match g with
    | O => None
    | S g' =>
      match l with
      | KKey c2 k :: r =>
        if Nat.eqb c2 c then
          match parse f (c + 2) r with
          | Some (v, r') => entries g' r' ((k, v) :: acc)
          | None => None
          end
        else Some (TMap (rev acc), l)
      | _ => Some (TMap (rev acc), l)
      end
    end.

Lemma items_loop_S f c g l acc :
  items_loop f c (S g) l acc =
  match l with
  | KDash c2 :: r =>
    if Nat.eqb c2 c then
      match parse f (c + 2) r with
      | Some (x, r') => items_loop f c g r' (x :: acc)
      | None => None
      end
    else Some (TSeq (rev acc), l)
  | _ => Some (TSeq (rev acc), l)
  end.
Proof. reflexivity. Qed.
Lemma entries_loop_S f c g l acc :
  entries_loop f c (S g) l acc =
  match l with
  | KKey c2 k :: r =>
    if Nat.eqb c2 c then
      match parse f (c + 2) r with
      | Some (v, r') => entries_loop f c g r' ((k, v) :: acc)
      | None => None
      end
    else Some (TMap (rev acc), l)
  | _ => Some (TMap (rev acc), l)
  end.
Proof. reflexivity. Qed.

Lemma parse_dash f c c' r :
  parse (S f) c (KDash c' :: r) =
  if Nat.eqb c' c then items_loop f c (S (length (KDash c' :: r))) (KDash c' :: r) [] else None.
Proof. reflexivity. Qed.
Lemma parse_key f c c' k r :
  parse (S f) c (KKey c' k :: r) =
  if Nat.eqb c' c then entries_loop f c (S (length (KKey c' k :: r))) (KKey c' k :: r) [] else None.
Proof. reflexivity. Qed.

Definition seq_toks (c : nat) :=
  fix go (l : list tree) : list tok := match l with [] => [] | x :: r => KDash c :: toks (c + 2) x ++ go r end.
Definition map_toks (c : nat) :=
  fix go (l : list (list N * tree)) : list tok := match l with [] => [] | (k, v) :: r => KKey c k :: toks (c + 2) v ++ go r end.

Lemma stops_seq c rest : follows c rest -> match rest with KDash c2 :: _ => Nat.eqb c2 c = false | _ => True end.
Proof. destruct rest as [|[c2|c2 k|c2 l] r]; cbn; auto. intros H. apply Nat.eqb_neq. lia. Qed.
Lemma stops_map c rest : follows c rest -> match rest with KKey c2 _ :: _ => Nat.eqb c2 c = false | _ => True end.
Proof. destruct rest as [|[c2|c2 k|c2 l] r]; cbn; auto. intros H. apply Nat.eqb_neq. lia. Qed.

Theorem parse_toks : forall n t, tsize t <= n -> forall f c rest,
  tsize t <= f -> follows c rest ->
  parse f c (toks c t ++ rest) = Some (t, rest).
Proof.
  induction n as [|n IH]; intros t Hn f c rest Hf Hfol.
  - destruct t; cbn in Hn; lia.
  - destruct f as [|f]; [destruct t; cbn in Hf; lia|].
    destruct t as [s|items|entries].
    + cbn [toks app parse]. rewrite Nat.eqb_refl. reflexivity.
    + destruct items as [|x0 r0].
      * cbn [toks app parse]. rewrite Nat.eqb_refl. reflexivity.
      * (* non-empty sequence *)
        change (toks c (TSeq (x0 :: r0))) with (seq_toks c (x0 :: r0)).
        assert (Hloop : forall l g acc, (forall x, In x l -> tsize x <= n /\ tsize x <= f) ->
                  length (seq_toks c l ++ rest) < g ->
                  items_loop f c g (seq_toks c l ++ rest) acc = Some (TSeq (rev acc ++ l), rest)).
        { induction l as [|x r IHl]; intros g acc Hall Hg.
          - cbn [seq_toks app]. rewrite app_nil_r. destruct g as [|g]; [cbn in Hg; lia|].
            rewrite items_loop_S. pose proof (stops_seq c rest Hfol) as Hs.
            destruct rest as [|[c2|c2 k|c2 lf] rr]; try reflexivity. rewrite Hs. reflexivity.
          - destruct g as [|g]; [cbn in Hg; lia|].
            cbn [seq_toks app]. rewrite items_loop_S. rewrite Nat.eqb_refl. rewrite <- app_assoc.
            destruct (Hall x (or_introl eq_refl)) as [Hx1 Hx2].
            rewrite (IH x Hx1 f (c + 2) (seq_toks c r ++ rest) Hx2).
            + rewrite IHl.
              * cbn [rev]. rewrite <- app_assoc. reflexivity.
              * intros y Hy. apply Hall. right. exact Hy.
              * cbn [seq_toks app length] in Hg. rewrite app_length in Hg. rewrite app_length in *. lia.
            + (* what follows the item: the next dash at column c, or the rest *)
              destruct r as [|y r']; cbn [seq_toks app].
              * destruct rest as [|t0 rr]; cbn in *; [exact I|lia].
              * cbn. lia. }
        assert (Hshape : seq_toks c (x0 :: r0) ++ rest = KDash c :: (toks (c + 2) x0 ++ seq_toks c r0) ++ rest) by reflexivity.
        rewrite Hshape, parse_dash, Nat.eqb_refl, <- Hshape.
        rewrite Hloop; [reflexivity| |lia].
        intros x Hx. cbn [tsize fold_right] in Hn, Hf.
        assert (tsize x <= fold_right (fun x a => tsize x + a) 0 (x0 :: r0)).
        { clear -Hx. induction (x0 :: r0) as [|y l IHl]; [contradiction|]. cbn. destruct Hx as [->|Hx]; [lia|specialize (IHl Hx); lia]. }
        cbn [fold_right] in H. lia.
    + destruct entries as [|[k0 v0] r0].
      * cbn [toks app parse]. rewrite Nat.eqb_refl. reflexivity.
      * change (toks c (TMap ((k0, v0) :: r0))) with (map_toks c ((k0, v0) :: r0)).
        assert (Hloop : forall l g acc, (forall kv, In kv l -> tsize (snd kv) <= n /\ tsize (snd kv) <= f) ->
                  length (map_toks c l ++ rest) < g ->
                  entries_loop f c g (map_toks c l ++ rest) acc = Some (TMap (rev acc ++ l), rest)).
        { induction l as [|[k v] r IHl]; intros g acc Hall Hg.
          - cbn [map_toks app]. rewrite app_nil_r. destruct g as [|g]; [cbn in Hg; lia|].
            rewrite entries_loop_S. pose proof (stops_map c rest Hfol) as Hs.
            destruct rest as [|[c2|c2 k|c2 lf] rr]; try reflexivity. rewrite Hs. reflexivity.
          - destruct g as [|g]; [cbn in Hg; lia|].
            cbn [map_toks app]. rewrite entries_loop_S. rewrite Nat.eqb_refl. rewrite <- app_assoc.
            destruct (Hall (k, v) (or_introl eq_refl)) as [Hx1 Hx2]. cbn [snd] in Hx1, Hx2.
            rewrite (IH v Hx1 f (c + 2) (map_toks c r ++ rest) Hx2).
            + rewrite IHl.
              * cbn [rev]. rewrite <- app_assoc. reflexivity.
              * intros y Hy. apply Hall. right. exact Hy.
              * cbn [map_toks app length] in Hg. rewrite app_length in Hg. rewrite app_length in *. lia.
            + destruct r as [|[k' v'] r']; cbn [map_toks app].
              * destruct rest as [|t0 rr]; cbn in *; [exact I|lia].
              * cbn. lia. }
        assert (Hshape : map_toks c ((k0, v0) :: r0) ++ rest = KKey c k0 :: (toks (c + 2) v0 ++ map_toks c r0) ++ rest) by reflexivity.
        rewrite Hshape, parse_key, Nat.eqb_refl, <- Hshape.
        rewrite Hloop; [reflexivity| |lia].
        intros kv Hkv. cbn [tsize fold_right] in Hn, Hf.
        assert (tsize (snd kv) <= fold_right (fun kv a => tsize (snd kv) + a) 0 ((k0, v0) :: r0)).
        { clear -Hkv. induction ((k0, v0) :: r0) as [|y l IHl]; [contradiction|]. cbn. destruct Hkv as [->|Hkv]; [lia|specialize (IHl Hkv); lia]. }
        cbn [fold_right] in H. lia.
Qed.

Theorem layout_determines_tree t : parse (tsize t) 0 (toks 0 t) = Some (t, []).
Proof.
  rewrite <- (app_nil_r (toks 0 t)) at 1. apply (parse_toks (tsize t)); [lia|lia|exact I].
Qed.
