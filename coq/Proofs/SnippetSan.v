(* SnippetSan.v -- the terminal sanitiser (C17): length preserved, output always clean, byte
   classes (hence character boundaries) preserved, and on well-formed UTF-8 it is exactly the
   character-wise replacement of C0/DEL by space and C1 by U+00A0. *)
From SS Require Import Model.Snippet.
From Coq Require Import Lia ZifyBool ZifyN ZifyNat.
Local Open Scope N_scope.
Ltac Zify.zify_post_hook ::= Z.div_mod_to_equations.

Lemma san1_length s : length (san1 s) = length s.
Proof. unfold san1. apply map_length. Qed.

Lemma san2_cons2 a b r :
  san2 (a :: b :: r) = if (a =? 194) && is_c1_tail b then a :: 160 :: san2 r else a :: san2 (b :: r).
Proof. reflexivity. Qed.
Lemma san2_one a : san2 [a] = [a].
Proof. reflexivity. Qed.
Lemma has_c1_cons2 a b r : has_c1 (a :: b :: r) = ((a =? 194) && is_c1_tail b) || has_c1 (b :: r).
Proof. reflexivity. Qed.

Lemma san2_length_strong : forall n s, (length s <= n)%nat -> length (san2 s) = length s.
Proof.
  induction n as [|n IH]; intros s Hn.
  - destruct s; [reflexivity|cbn in Hn; lia].
  - destruct s as [|a [|b r']]; try reflexivity.
    rewrite san2_cons2. destruct ((a =? 194) && is_c1_tail b).
    + cbn [length]. rewrite IH; [reflexivity|cbn in Hn; lia].
    + cbn [length]. rewrite IH; [reflexivity|cbn in Hn |- *; lia].
Qed.

Lemma san2_length s : length (san2 s) = length s.
Proof. apply (san2_length_strong (length s)). lia. Qed.

Theorem sanitize_length s : length (sanitize s) = length s.
Proof. unfold sanitize. rewrite san2_length. apply san1_length. Qed.

(* pass 1 removes every C0/DEL byte, pass 2 never re-introduces one *)
Lemma san1_no_c0 s : existsb is_bad_c0 (san1 s) = false.
Proof.
  induction s as [|b r IH]; [reflexivity|]. cbn [san1 map existsb]. fold (san1 r). rewrite IH.
  destruct (is_bad_c0 b) eqn:E; [reflexivity|]. rewrite E. reflexivity.
Qed.

Lemma san2_no_c0_strong : forall n s, (length s <= n)%nat ->
  existsb is_bad_c0 s = false -> existsb is_bad_c0 (san2 s) = false.
Proof.
  induction n as [|n IH]; intros s Hn H.
  - destruct s; [reflexivity|cbn in Hn; lia].
  - destruct s as [|a [|b r']]; try exact H.
    cbn [existsb] in H. apply orb_false_iff in H. destruct H as [Ha H]. 
    rewrite san2_cons2. destruct ((a =? 194) && is_c1_tail b).
    + cbn [existsb] in *. apply orb_false_iff in H. destruct H as [Hb H]. rewrite Ha.
      rewrite IH; [reflexivity|cbn in Hn; lia|exact H].
    + cbn [existsb]. rewrite Ha. cbn [orb]. apply IH; [cbn in Hn |- *; lia|exact H].
Qed.

Lemma san2_no_c1_strong : forall n s, (length s <= n)%nat -> has_c1 (san2 s) = false.
Proof.
  induction n as [|n IH]; intros s Hn.
  - destruct s; [reflexivity|cbn in Hn; lia].
  - destruct s as [|a [|b r']]; try reflexivity.
    rewrite san2_cons2. destruct ((a =? 194) && is_c1_tail b) eqn:E.
    + (* a :: 160 :: san2 r' *)
      assert (Hr : has_c1 (san2 r') = false) by (apply IH; cbn in Hn; lia).
      rewrite has_c1_cons2. replace (is_c1_tail 160) with false by reflexivity. rewrite andb_false_r. cbn [orb].
      destruct (san2 r') as [|c t] eqn:Es; [reflexivity|].
      rewrite has_c1_cons2. replace (160 =? 194) with false by reflexivity. cbn [andb orb]. exact Hr.
    + assert (Hr : has_c1 (san2 (b :: r')) = false) by (apply IH; cbn in Hn |- *; lia).
      destruct (san2 (b :: r')) as [|c t] eqn:Es; [reflexivity|].
      rewrite has_c1_cons2, Hr. rewrite orb_false_r.
      (* the head of san2 (b :: r') is b itself *)
      assert (c = b).
      { destruct r' as [|b2 r2]; [rewrite san2_one in Es; inversion Es; reflexivity|].
        rewrite san2_cons2 in Es.
        destruct ((b =? 194) && is_c1_tail b2); inversion Es; reflexivity. }
      subst c. exact E.
Qed.

Theorem sanitize_clean s : is_clean (sanitize s) = true.
Proof.
  unfold is_clean, sanitize.
  rewrite (san2_no_c0_strong (length (san1 s))); [|lia|apply san1_no_c0].
  rewrite (san2_no_c1_strong (length (san1 s))); [reflexivity|lia].
Qed.

(* byte classes are preserved, so every character boundary of the input is one of the output *)
Lemma san1_cont s : map is_cont (san1 s) = map is_cont s.
Proof.
  induction s as [|b r IH]; [reflexivity|]. cbn [san1 map]. fold (san1 r). rewrite IH. f_equal.
  destruct (is_bad_c0 b) eqn:E; [|reflexivity]. unfold is_bad_c0, is_cont in *. lia.
Qed.

Lemma san2_cont_strong : forall n s, (length s <= n)%nat -> map is_cont (san2 s) = map is_cont s.
Proof.
  induction n as [|n IH]; intros s Hn.
  - destruct s; [reflexivity|cbn in Hn; lia].
  - destruct s as [|a [|b r']]; try reflexivity.
    rewrite san2_cons2. destruct ((a =? 194) && is_c1_tail b) eqn:E.
    + cbn [map]. rewrite IH; [|cbn in Hn; lia]. f_equal. f_equal. unfold is_c1_tail, is_cont in *. lia.
    + cbn [map]. f_equal. apply (IH (b :: r')). cbn in Hn |- *; lia.
Qed.

Theorem sanitize_preserves_boundaries s : map is_cont (sanitize s) = map is_cont s.
Proof. unfold sanitize. rewrite (san2_cont_strong (length (san1 s))); [apply san1_cont|lia]. Qed.

(* ---- character-level meaning on well-formed UTF-8 ---- *)
Definition clean_cp (c : N) : N :=
  if is_bad_c0 c then 32 else if (128 <=? c) && (c <=? 159) then 160 else c.

Lemma san1_app a b : san1 (a ++ b) = san1 a ++ san1 b.
Proof. unfold san1. apply map_app. Qed.

(* the bytes of a non-ASCII character are all >= 128, so pass 1 leaves them alone *)
Lemma san1_enc1 c : cp_valid c = true -> san1 (utf8_enc1 c) = utf8_enc1 (if is_bad_c0 c then 32 else c).
Proof.
  intros Hv. unfold utf8_enc1, cp_valid in *.
  destruct (c <? 128) eqn:E1.
  - cbn [san1 map]. destruct (is_bad_c0 c) eqn:B; [reflexivity|]. rewrite E1. reflexivity.
  - assert (is_bad_c0 c = false) as -> by (unfold is_bad_c0; lia). rewrite E1.
    destruct (c <? 2048) eqn:E2; [|destruct (c <? 65536) eqn:E3]; cbn [san1 map];
      repeat match goal with |- context [is_bad_c0 ?x] =>
        replace (is_bad_c0 x) with false by (unfold is_bad_c0; lia) end; reflexivity.
Qed.

Lemma san1_enc cs : Forall (fun c => cp_valid c = true) cs ->
  san1 (utf8_enc cs) = utf8_enc (map (fun c => if is_bad_c0 c then 32 else c) cs).
Proof.
  induction 1 as [|c r Hc Hr IH]; [reflexivity|].
  unfold utf8_enc in *. cbn [flat_map map]. rewrite san1_app, IH, san1_enc1 by exact Hc. reflexivity.
Qed.

Definition c1_fix (c : N) : N := if (128 <=? c) && (c <=? 159) then 160 else c.

(* pass 2 over one encoded character followed by anything *)
Lemma san2_step a rest : (a =? 194) = false -> san2 (a :: rest) = a :: san2 rest.
Proof.
  intros H. destruct rest as [|b r]; [reflexivity|]. rewrite san2_cons2, H. reflexivity.
Qed.

Lemma san2_enc1_app c rest : cp_valid c = true ->
  san2 (utf8_enc1 c ++ rest) = utf8_enc1 (c1_fix c) ++ san2 rest.
Proof.
  intros Hv. unfold utf8_enc1, c1_fix, cp_valid in *.
  destruct (c <? 128) eqn:E1.
  - assert ((128 <=? c) && (c <=? 159) = false) as -> by lia. rewrite E1.
    cbn [app]. apply san2_step. lia.
  - destruct (c <? 2048) eqn:E2.
    + destruct ((128 <=? c) && (c <=? 159)) eqn:E.
      * replace (160 <? 128) with false by reflexivity. replace (160 <? 2048) with true by reflexivity.
        cbn [app]. rewrite san2_cons2.
        assert (192 + c / 64 =? 194 = true) as -> by lia.
        assert (is_c1_tail (128 + c mod 64) = true) as -> by (unfold is_c1_tail; lia).
        cbn [andb]. replace (192 + 160 / 64) with 194 by reflexivity.
        replace (128 + 160 mod 64) with 160 by reflexivity.
        assert (192 + c / 64 = 194) as -> by lia. reflexivity.
      * rewrite E1, E2. cbn [app]. rewrite san2_cons2.
        assert ((192 + c / 64 =? 194) && is_c1_tail (128 + c mod 64) = false) as -> by (unfold is_c1_tail; lia).
        f_equal. apply san2_step. lia.
    + assert ((128 <=? c) && (c <=? 159) = false) as -> by lia. rewrite E1, E2.
      destruct (c <? 65536) eqn:E3.
      * cbn [app]. rewrite !san2_step by lia. reflexivity.
      * cbn [app]. rewrite !san2_step by lia. reflexivity.
Qed.

Lemma san2_enc cs : Forall (fun c => cp_valid c = true) cs ->
  san2 (utf8_enc cs) = utf8_enc (map c1_fix cs).
Proof.
  induction 1 as [|c r Hc Hr IH]; [reflexivity|].
  unfold utf8_enc in *. cbn [flat_map map]. rewrite san2_enc1_app, IH by exact Hc. reflexivity.
Qed.

Lemma clean_c0_valid c : cp_valid c = true -> cp_valid (if is_bad_c0 c then 32 else c) = true.
Proof. intros H. destruct (is_bad_c0 c); [reflexivity|exact H]. Qed.

Theorem sanitize_chars cs : Forall (fun c => cp_valid c = true) cs ->
  sanitize (utf8_enc cs) = utf8_enc (map clean_cp cs).
Proof.
  intros Hv. unfold sanitize. rewrite san1_enc by exact Hv. rewrite san2_enc.
  - rewrite map_map. f_equal. apply map_ext. intros c. unfold clean_cp, c1_fix.
    destruct (is_bad_c0 c) eqn:B; [reflexivity|reflexivity].
  - apply Forall_map. eapply Forall_impl; [|exact Hv]. intros c Hc. apply clean_c0_valid. exact Hc.
Qed.

(* no control character survives: C0 other than LF/TAB, DEL, C1 *)
Definition is_control_cp (c : N) : bool :=
  ((c <? 32) && negb (c =? 10) && negb (c =? 9)) || (c =? 127) || ((128 <=? c) && (c <=? 159)).

Theorem clean_cp_not_control c : is_control_cp (clean_cp c) = false.
Proof.
  unfold clean_cp. destruct (is_bad_c0 c) eqn:B; [reflexivity|].
  destruct ((128 <=? c) && (c <=? 159)) eqn:E; [reflexivity|].
  unfold is_control_cp, is_bad_c0 in *. lia.
Qed.

Theorem clean_cp_fixes_others c : is_control_cp c = false -> clean_cp c = c.
Proof.
  intros H. unfold clean_cp. destruct (is_bad_c0 c) eqn:B; [unfold is_control_cp, is_bad_c0 in *; lia|].
  destruct ((128 <=? c) && (c <=? 159)) eqn:E; [unfold is_control_cp in *; lia|reflexivity].
Qed.
