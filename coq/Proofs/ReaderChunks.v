(* ReaderChunks.v -- the characters produced from a reader do not depend on how the bytes are
   partitioned into read results, including splits inside a multi-byte character (C09). *)
From SS Require Import Model.Reader.
From Coq Require Import Lia ZifyBool ZifyN ZifyNat.
Ltac Zify.zify_post_hook ::= Z.div_mod_to_equations.
Local Open Scope N_scope.

(* a fault-free schedule: only non-empty chunks (a zero-length read result means end of input) *)
Inductive clean : script -> Prop :=
| clean_nil : clean []
| clean_cons b bs r : clean r -> clean (RChunk (b :: bs) :: r).

Fixpoint bytes_of (s : script) : list N :=
  match s with
  | RChunk b :: r => b ++ bytes_of r
  | _ => []
  end.

Lemma clean_empty s : clean s -> bytes_of s = [] -> s = [].
Proof. intros H. destruct H; [reflexivity|]. cbn. discriminate. Qed.

Lemma script_read_clean s n : clean s -> (1 <= n)%nat -> bytes_of s <> [] ->
  exists g gs s', script_read n s = (ROk (g :: gs), s') /\ (length (g :: gs) <= n)%nat
                  /\ (g :: gs) ++ bytes_of s' = bytes_of s /\ clean s'.
Proof.
  intros Hc Hn Hne. destruct Hc as [|b bs r Hr]; [cbn in Hne; congruence|].
  cbn [script_read]. destruct n as [|n]; [lia|]. cbn [firstn skipn].
  exists b, (firstn n bs).
  destruct (skipn n bs) as [|x xs] eqn:Es.
  - exists r. repeat split; try exact Hr.
    + cbn [length]. pose proof (firstn_le_length n bs). lia.
    + cbn [bytes_of app]. f_equal. rewrite <- (firstn_skipn n bs) at 2. rewrite Es, app_nil_r. reflexivity.
  - exists (RChunk (x :: xs) :: r). repeat split.
    + cbn [length]. pose proof (firstn_le_length n bs). lia.
    + cbn [bytes_of]. rewrite <- Es. cbn [app]. f_equal. rewrite app_assoc. f_equal. apply firstn_skipn.
    + constructor. exact Hr.
Qed.

Lemma read_first_clean s b more fuel : clean s -> bytes_of s = b :: more -> (1 <= fuel)%nat ->
  exists s', read_first fuel s = (FbByte b, s') /\ clean s' /\ bytes_of s' = more.
Proof.
  intros Hc Hb Hf. destruct fuel as [|f]; [lia|].
  destruct (script_read_clean s 1 Hc ltac:(lia) ltac:(rewrite Hb; discriminate)) as (g & gs & s' & Hr & Hl & Hcat & Hc').
  cbn [read_first]. rewrite Hr. destruct gs; [|cbn in Hl; lia].
  rewrite Hb in Hcat. cbn in Hcat. inversion Hcat; subst. eauto.
Qed.

Lemma prefix_split : forall (got wanted more tail : list N),
  got ++ tail = wanted ++ more -> (length got <= length wanted)%nat ->
  exists rest, wanted = got ++ rest /\ tail = rest ++ more.
Proof.
  induction got as [|y got IH]; intros wanted more tail Hcat Hlen.
  - exists wanted. cbn in Hcat. auto.
  - destruct wanted as [|x wanted]; [cbn in Hlen; lia|].
    cbn in Hcat. inversion Hcat; subst.
    destruct (IH wanted more tail H1 ltac:(cbn in Hlen; lia)) as (rest & E1 & E2).
    exists rest. split; [cbn; f_equal; exact E1|exact E2].
Qed.

Lemma read_rest_clean : forall want fuel s acc bs more, clean s -> bytes_of s = bs ++ more ->
  length bs = want -> (want <= fuel)%nat ->
  exists s', read_rest fuel want s acc = (inl (acc ++ bs), s') /\ clean s' /\ bytes_of s' = more.
Proof.
  induction want as [want IH] using lt_wf_ind. intros fuel s acc bs more Hc Hb Hl Hf.
  destruct want as [|w].
  - destruct bs; [|discriminate]. exists s. destruct fuel; cbn; rewrite app_nil_r; auto.
  - destruct fuel as [|f]; [lia|]. destruct bs as [|b0 bs0]; [discriminate|].
    destruct (script_read_clean s (S w) Hc ltac:(lia) ltac:(rewrite Hb; discriminate)) as (g & gs & s1 & Hr & Hlen & Hcat & Hc1).
    cbn [read_rest]. rewrite Hr.
    (* the bytes obtained are a prefix of the wanted bytes *)
    assert (Hpre : exists rest, b0 :: bs0 = (g :: gs) ++ rest /\ bytes_of s1 = rest ++ more).
    { rewrite Hb in Hcat. apply prefix_split; [exact Hcat|]. rewrite Hl. exact Hlen. }
    destruct Hpre as (rest & E1 & E2).
    assert (Hw : length rest = (S w - length (g :: gs))%nat).
    { apply (f_equal (@length N)) in E1. rewrite app_length in E1. cbn [length] in *. lia. }
    destruct (IH (S w - length (g :: gs))%nat ltac:(cbn [length]; lia) f s1 (acc ++ g :: gs) rest more Hc1 E2 Hw ltac:(cbn [length] in *; lia))
      as (s' & Hrr & Hc' & Hb').
    exists s'. rewrite Hrr. repeat split; auto. rewrite <- app_assoc, E1. reflexivity.
Qed.

(* ---- UTF-8: the encoder's output is decoded back, and its first byte announces its length ---- *)
Lemma enc1_shape c : cp_valid c = true ->
  exists first rest, utf8_enc1 c = first :: rest /\ lead_len first = Some (length (utf8_enc1 c))
                     /\ utf8_dec (utf8_enc1 c) = Some [c].
Proof.
  intros Hv. unfold cp_valid in Hv. unfold utf8_enc1.
  destruct (N.ltb_spec c 128) as [H1|H1].
  { eexists; eexists; repeat split. - unfold lead_len. destruct (N.ltb_spec c 128); [reflexivity|lia].
    - unfold utf8_dec. cbn. destruct (N.ltb_spec c 128); [reflexivity|lia]. }
  destruct (N.ltb_spec c 2048) as [H2|H2].
  { eexists; eexists; repeat split.
    - unfold lead_len. destruct (N.ltb_spec (192 + c / 64) 128); [lia|].
      destruct (N.eqb_spec ((192 + c / 64) / 32) 6); [reflexivity|lia].
    - unfold utf8_dec. cbn [length utf8_dec_fuel].
      destruct (N.ltb_spec (192 + c / 64) 128); [lia|].
      replace ((194 <=? 192 + c / 64) && (192 + c / 64 <? 224)) with true by (symmetry; apply Bool.andb_true_iff; split; [apply N.leb_le|apply N.ltb_lt]; lia).
      unfold is_cont. replace ((128 <=? 128 + c mod 64) && (128 + c mod 64 <? 192)) with true by (symmetry; apply Bool.andb_true_iff; split; [apply N.leb_le|apply N.ltb_lt]; lia).
      cbn [option_map]. f_equal. f_equal. lia. }
  destruct (N.ltb_spec c 65536) as [H3|H3].
  { eexists; eexists; repeat split.
    - unfold lead_len. destruct (N.ltb_spec (224 + c / 4096) 128); [lia|].
      destruct (N.eqb_spec ((224 + c / 4096) / 32) 6); [lia|].
      destruct (N.eqb_spec ((224 + c / 4096) / 16) 14); [reflexivity|lia].
    - unfold utf8_dec. cbn [length utf8_dec_fuel].
      destruct (N.ltb_spec (224 + c / 4096) 128); [lia|].
      replace ((194 <=? 224 + c / 4096) && (224 + c / 4096 <? 224)) with false by (symmetry; apply Bool.andb_false_iff; right; apply N.ltb_ge; lia).
      replace ((224 <=? 224 + c / 4096) && (224 + c / 4096 <? 240)) with true by (symmetry; apply Bool.andb_true_iff; split; [apply N.leb_le|apply N.ltb_lt]; lia).
      assert (E : (224 + c / 4096 - 224) * 4096 + (128 + (c / 64) mod 64 - 128) * 64 + (128 + c mod 64 - 128) = c) by lia.
      rewrite E. unfold is_cont.
      replace ((128 <=? 128 + (c / 64) mod 64) && (128 + (c / 64) mod 64 <? 192)) with true by (symmetry; apply Bool.andb_true_iff; split; [apply N.leb_le|apply N.ltb_lt]; lia).
      replace ((128 <=? 128 + c mod 64) && (128 + c mod 64 <? 192)) with true by (symmetry; apply Bool.andb_true_iff; split; [apply N.leb_le|apply N.ltb_lt]; lia).
      replace (2048 <=? c) with true by (symmetry; apply N.leb_le; lia).
      unfold cp_valid. rewrite Hv. cbn. reflexivity. }
  assert (H4 : c < 1114112).
  { apply Bool.orb_true_iff in Hv. destruct Hv as [Hv|Hv]; [apply N.ltb_lt in Hv; lia|].
    apply Bool.andb_true_iff in Hv. destruct Hv as [_ Hv]. apply N.ltb_lt in Hv. exact Hv. }
  eexists; eexists; repeat split.
  - unfold lead_len. destruct (N.ltb_spec (240 + c / 262144) 128); [lia|].
    destruct (N.eqb_spec ((240 + c / 262144) / 32) 6); [lia|].
    destruct (N.eqb_spec ((240 + c / 262144) / 16) 14); [lia|].
    destruct (N.eqb_spec ((240 + c / 262144) / 8) 30); [reflexivity|lia].
  - unfold utf8_dec. cbn [length utf8_dec_fuel].
    destruct (N.ltb_spec (240 + c / 262144) 128); [lia|].
    replace ((194 <=? 240 + c / 262144) && (240 + c / 262144 <? 224)) with false by (symmetry; apply Bool.andb_false_iff; right; apply N.ltb_ge; lia).
    replace ((224 <=? 240 + c / 262144) && (240 + c / 262144 <? 240)) with false by (symmetry; apply Bool.andb_false_iff; right; apply N.ltb_ge; lia).
    replace ((240 <=? 240 + c / 262144) && (240 + c / 262144 <? 245)) with true by (symmetry; apply Bool.andb_true_iff; split; [apply N.leb_le|apply N.ltb_lt]; lia).
    assert (E : (240 + c / 262144 - 240) * 262144 + (128 + (c / 4096) mod 64 - 128) * 4096 + (128 + (c / 64) mod 64 - 128) * 64 + (128 + c mod 64 - 128) = c) by lia.
    rewrite E. unfold is_cont.
    replace ((128 <=? 128 + (c / 4096) mod 64) && (128 + (c / 4096) mod 64 <? 192)) with true by (symmetry; apply Bool.andb_true_iff; split; [apply N.leb_le|apply N.ltb_lt]; lia).
    replace ((128 <=? 128 + (c / 64) mod 64) && (128 + (c / 64) mod 64 <? 192)) with true by (symmetry; apply Bool.andb_true_iff; split; [apply N.leb_le|apply N.ltb_lt]; lia).
    replace ((128 <=? 128 + c mod 64) && (128 + c mod 64 <? 192)) with true by (symmetry; apply Bool.andb_true_iff; split; [apply N.leb_le|apply N.ltb_lt]; lia).
    replace (65536 <=? c) with true by (symmetry; apply N.leb_le; lia).
    replace (c <? 1114112) with true by (symmetry; apply N.ltb_lt; lia).
    cbn. reflexivity.
Qed.

(* one character, whatever the partition of its bytes *)
Lemma chunked_next_char s c more total cell : clean s -> cp_valid c = true ->
  bytes_of s = utf8_enc1 c ++ more ->
  exists s' total', chunked_next None (mkChunked s total cell) = (Some c, mkChunked s' total' cell)
                    /\ clean s' /\ bytes_of s' = more.
Proof.
  intros Hc Hv Hb.
  destruct (enc1_shape c Hv) as (first & rest & He & Hlead & Hdec).
  rewrite He in Hb. cbn [app] in Hb.
  unfold chunked_next. cbn [ck_script ck_total ck_cell].
  destruct (read_first_clean s first (rest ++ more) (S (length s)) Hc Hb ltac:(lia)) as (s1 & Hr1 & Hc1 & Hb1).
  rewrite Hr1, Hlead.
  destruct (read_rest_clean (length rest) (S (length s1) + 4) s1 [first] rest more Hc1 Hb1 eq_refl) as (s2 & Hr2 & Hc2 & Hb2).
  { assert (length (utf8_enc1 c) <= 4)%nat.
    { unfold utf8_enc1. repeat match goal with |- context [if ?x then _ else _] => destruct x end; cbn; lia. }
    rewrite He in H. cbn [length] in H. lia. }
  rewrite He. cbn [length]. replace (S (length rest) - 1)%nat with (length rest) by lia.
  rewrite Hr2. cbn [app]. rewrite <- He, Hdec.
  exists s2. eexists. split; [reflexivity|]. auto.
Qed.

(* the whole text: for every partition of the UTF-8 bytes of [t] into non-empty read results, the
   iterator yields exactly the characters of [t], then ends with the error cell untouched *)
Theorem chars_independent_of_chunking : forall t s total cell fuel acc,
  Forall (fun c => cp_valid c = true) t -> clean s -> bytes_of s = utf8_enc t ->
  (length t < fuel)%nat ->
  exists c', chunked_all fuel None (mkChunked s total cell) acc = (rev acc ++ t, c')
             /\ ck_cell c' = cell /\ ck_script c' = [].
Proof.
  induction t as [|c t IH]; intros s total cell fuel acc Hv Hc Hb Hf.
  - cbn in Hb. apply clean_empty in Hb; [|exact Hc]. subst s.
    destruct fuel as [|f]; [lia|]. cbn [chunked_all]. cbn.
    eexists. rewrite app_nil_r. repeat split.
  - inversion Hv as [|? ? Hvc Hvt]; subst.
    destruct fuel as [|f]; [cbn in Hf; lia|].
    cbn [utf8_enc flat_map] in Hb.
    destruct (chunked_next_char s c (utf8_enc t) total cell Hc Hvc Hb) as (s' & total' & Hn & Hc' & Hb').
    cbn [chunked_all]. rewrite Hn.
    destruct (IH s' total' cell f (c :: acc) Hvt Hc' Hb' ltac:(cbn in Hf; lia)) as (c' & Hall & Hcell & Hscr).
    exists c'. rewrite Hall. cbn [rev]. rewrite <- app_assoc. cbn. auto.
Qed.
